(* Proofs/NoPanic.v — C05: rendering a well-formed template never panics. *)
From Coq Require Import List Lia NArith ZArith.
From HB Require Import Rt.Render Reg.RegOps Spec.RenderAll Spec.WfTemplate Spec.WfState Proofs.RenderInd.
Import ListNotations.
Open Scope N_scope.

(* ====================================================================== *)
(** * (a) path resolution never panics *)

(* a block-parameter hit happens at a SegNamed segment, after `depth - d0`
   leading `../` segments: the slice `segs[depth+1 ..]` is in range *)
Lemma visitor_scan_hit blocks segs d0 depth bp fr :
  visitor_scan blocks segs d0 = (depth, Some bp, fr) ->
  (S depth <= d0 + length segs)%nat.
Proof.
  revert d0. induction segs as [|sg rest IH]; intros d0 H; cbn [visitor_scan] in H.
  - discriminate.
  - destruct sg as [p|r].
    + inversion H; subst. cbn [length]. lia.
    + destruct (rule_eqb r R_path_root); [discriminate|].
      destruct (rule_eqb r R_path_up); [|discriminate].
      apply IH in H. cbn [length]. lia.
Qed.

Theorem parse_json_visitor_no_panic : forall segs blocks, parse_json_visitor segs blocks <> ResPanic.
Proof.
  intros segs blocks. unfold parse_json_visitor.
  destruct (visitor_scan blocks segs 0) as [[depth with_bp] from_root] eqn:Hscan.
  destruct with_bp as [[[ps|v] base]|].
  - apply visitor_scan_hit in Hscan. cbn [Nat.add] in Hscan.
    apply Nat.leb_le in Hscan. rewrite Hscan. discriminate.
  - apply visitor_scan_hit in Hscan. cbn [Nat.add] in Hscan.
    apply Nat.leb_le in Hscan. rewrite Hscan. discriminate.
  - destruct (Nat.ltb 0 depth).
    + destruct (nth_error blocks depth) as [b|]; [|destruct (hd_error blocks) as [b|]];
        try destruct (b_base_value b); discriminate.
    + destruct from_root; [discriminate|].
      destruct (hd_error blocks) as [b|]; try destruct (b_base_value b); discriminate.
Qed.

Theorem navigate_no_panic : forall data segs blocks, navigate data segs blocks <> NavPanic.
Proof.
  intros data segs blocks. unfold navigate.
  pose proof (parse_json_visitor_no_panic segs blocks) as H.
  destruct (parse_json_visitor segs blocks) as [ps|ps v|]; [| |contradiction].
  - destruct (walk (Some data) ps); discriminate.
  - destruct (walk (Some v) ps); discriminate.
Qed.

(* evaluate2 / evaluate: never a panic, never out of fuel, state untouched *)
Lemma evaluate2_pure data p s :
  sat (evaluate2 data p s) (fun _ s' => s' = s) (fun _ s' => s' = s) False
  /\ evaluate2 data p s <> RFuel.
Proof.
  unfold evaluate2. destruct p as [segs raw|lv name raw]; [|cbn; split; [reflexivity|discriminate]].
  pose proof (navigate_no_panic data segs (s_blocks s)) as H.
  destruct (navigate data segs (s_blocks s)); [| |contradiction]; cbn; split;
    reflexivity || discriminate.
Qed.

Theorem evaluate2_no_panic : forall data p s site, evaluate2 data p s <> RPanic site.
Proof. intros data p s site. apply sat_nopanic with (1 := proj1 (evaluate2_pure data p s)). Qed.

Lemma evaluate_pure data raw s :
  sat (evaluate data raw s) (fun _ s' => s' = s) (fun _ s' => s' = s) False.
Proof.
  unfold evaluate. destruct (path_parse raw); [apply evaluate2_pure|]. cbn. reflexivity.
Qed.

Theorem evaluate_no_panic : forall data raw s site, evaluate data raw s <> RPanic site.
Proof. intros data raw s site. apply sat_nopanic with (1 := evaluate_pure data raw s). Qed.

(* ====================================================================== *)
(** * (b) the mutual fixpoint never panics on well-formed input *)

(* the fields wf_state looks at *)
Definition wfview (s : rstate) := (s_partials s, s_pb_stack s, s_dev s).
Lemma wf_state_view s s' : wfview s' = wfview s -> wf_state s -> wf_state s'.
Proof. unfold wfview, wf_state. intros H. inversion H as [[H1 H2 H3]]. rewrite H1, H2, H3. auto. Qed.

Lemma wfs_set_blocks s x : wf_state (set_blocks s x) = wf_state s. Proof. reflexivity. Qed.
Lemma wfs_set_modified s x : wf_state (set_modified s x) = wf_state s. Proof. reflexivity. Qed.
Lemma wfs_set_pb_depth s x : wf_state (set_pb_depth s x) = wf_state s. Proof. reflexivity. Qed.
Lemma wfs_set_local_helpers s x : wf_state (set_local_helpers s x) = wf_state s. Proof. reflexivity. Qed.
Lemma wfs_set_current s x : wf_state (set_current s x) = wf_state s. Proof. reflexivity. Qed.
Lemma wfs_set_disable_escape s x : wf_state (set_disable_escape s x) = wf_state s. Proof. reflexivity. Qed.
Lemma wfs_set_trailing_newline s x : wf_state (set_trailing_newline s x) = wf_state s. Proof. reflexivity. Qed.
Lemma wfs_set_content_produced s x : wf_state (set_content_produced s x) = wf_state s. Proof. reflexivity. Qed.
Lemma wfs_set_indent_before_write s x : wf_state (set_indent_before_write s x) = wf_state s. Proof. reflexivity. Qed.
Lemma wfs_set_indent s x : wf_state (set_indent s x) = wf_state s. Proof. reflexivity. Qed.
Lemma wfs_set_out s x : wf_state (set_out s x) = wf_state s. Proof. reflexivity. Qed.
Lemma wfs_set_log s x : wf_state (set_log s x) = wf_state s. Proof. reflexivity. Qed.
Lemma wfs_set_esc_trace s x : wf_state (set_esc_trace s x) = wf_state s. Proof. reflexivity. Qed.
Lemma wfs_log_entry s x : wf_state (log_entry s x) = wf_state s. Proof. reflexivity. Qed.
Lemma wfs_pop_block s : wf_state (pop_block s) = wf_state s. Proof. reflexivity. Qed.
Lemma wfs_push_block b s : wf_state (push_block b s) = wf_state s. Proof. reflexivity. Qed.
Lemma wfs_map_front_block g s : wf_state (map_front_block g s) = wf_state s.
Proof. unfold map_front_block. destruct (s_blocks s); reflexivity. Qed.
Lemma wfs_each_iter_setup h p n i k v s : wf_state (each_iter_setup h p n i k v s) = wf_state s.
Proof. apply wfs_map_front_block. Qed.

#[export] Hint Rewrite wfs_set_blocks wfs_set_modified wfs_set_pb_depth wfs_set_local_helpers
  wfs_set_current wfs_set_disable_escape wfs_set_trailing_newline wfs_set_content_produced
  wfs_set_indent_before_write wfs_set_indent wfs_set_out wfs_set_log wfs_set_esc_trace wfs_log_entry
  wfs_pop_block wfs_push_block wfs_map_front_block wfs_each_iter_setup : wfs.

(* maps of well-formed templates *)
Lemma wf_named_get l k t : wf_named l -> map_get l k = Some t -> wf_template t.
Proof.
  unfold wf_named. induction l as [|[k' v] r IH]; cbn [map_get]; intros H E; [discriminate|].
  inversion H as [|? ? Hv Hr]; subst. destruct (str_eqb k k'); [inversion E; subst; exact Hv|auto].
Qed.

Lemma wf_named_insert l k t : wf_named l -> wf_template t -> wf_named (map_insert l k t).
Proof.
  unfold wf_named. induction l as [|[k' v] r IH]; cbn [map_insert]; intros H Ht.
  - constructor; [exact Ht|constructor].
  - inversion H as [|? ? Hv Hr]; subst. destruct (str_cmp k k').
    + constructor; assumption.
    + constructor; [exact Ht|exact H].
    + constructor; [exact Hv|apply IH; assumption].
Qed.

Lemma Forall_nth_error {A} (P : A -> Prop) l n x : Forall P l -> nth_error l n = Some x -> P x.
Proof. intros H E. rewrite Forall_forall in H. apply H. eapply nth_error_In; exact E. Qed.

Lemma Forall_tl {A} (P : A -> Prop) l : Forall P l -> Forall P (tl l).
Proof. destruct l; cbn; [auto|]. intros H; inversion H; assumption. Qed.

Lemma wf_get_partial s name t : wf_state s -> get_partial s name = Some t -> wf_template t.
Proof.
  intros (Hp & Hst & _). unfold get_partial. destruct (str_eqb name PARTIAL_BLOCK).
  - unfold current_pb. destruct (_ || _); [discriminate|].
    destruct (nth_error (s_pb_stack s) _) as [e|] eqn:E; [|discriminate].
    cbn [option_map]. intros H; inversion H; subst.
    exact (Forall_nth_error _ _ _ _ Hst E).
  - apply wf_named_get. exact Hp.
Qed.

Lemma wfs_push_pb s t d :
  wf_state s -> wf_template t -> wf_state (set_pb_stack s ((t, d) :: s_pb_stack s)).
Proof.
  intros (Hp & Hst & Hdev) Ht. split; [|split]; cbn [s_partials s_pb_stack s_dev set_pb_stack]; auto.
Qed.
Lemma wfs_pop_pb s : wf_state s -> wf_state (set_pb_stack s (tl (s_pb_stack s))).
Proof.
  intros (Hp & Hst & Hdev). split; [|split]; cbn [s_partials s_pb_stack s_dev set_pb_stack]; auto.
  apply Forall_tl. exact Hst.
Qed.

(* outcome predicates of this proof: the state stays well formed, the value
   satisfies Q, and there is no panic *)
Definition okw {A} (Q : A -> Prop) : A -> rstate -> Prop := fun a s' => wf_state s' /\ Q a.
Definition errw : rerror -> rstate -> Prop := fun _ s' => wf_state s'.
Definition anyv {A} : A -> Prop := fun _ => True.

Lemma w_rbind {A B} (x : rres A) (f : A -> rstate -> rres B) Q1 Q2 :
  sat x (okw Q1) errw False ->
  (forall a s1, wf_state s1 -> Q1 a -> sat (f a s1) (okw Q2) errw False) ->
  sat (rbind x f) (okw Q2) errw False.
Proof. intros Hx Hf. eapply sat_rbind; [exact Hx|]. intros a s1 [H1 H2]. auto. Qed.

Lemma w_rmap_err {A} (x : rres A) g Q :
  sat x (okw Q) errw False -> sat (rmap_err x g) (okw Q) errw False.
Proof. intros Hx. eapply sat_rmap_err; [exact Hx | auto]. Qed.

Lemma w_any {A} (x : rres A) Q : sat x (okw Q) errw False -> sat x (okw anyv) errw False.
Proof. intros H. eapply sat_mono; [exact H| | |]; cbn; unfold okw, anyv; tauto. Qed.

Lemma w_fold_idx {A} (step : A -> nat -> rstate -> rres unit) l i s :
  wf_state s ->
  (forall x i s, In x l -> wf_state s -> sat (step x i s) (okw anyv) errw False) ->
  sat (fold_idx step l i s) (okw anyv) errw False.
Proof.
  intros Hs Hstep.
  eapply sat_mono;
    [apply (sat_fold_idx step wf_state errw False l); [|exact Hs] | | |]; cbn; unfold okw, anyv; auto.
  intros x j s' Hin Hs'. eapply sat_mono; [apply Hstep; eassumption | | |]; cbn; unfold okw; tauto.
Qed.

Lemma w_mapM {A B} (f : A -> rstate -> rres B) l s :
  wf_state s ->
  (forall x s, In x l -> wf_state s -> sat (f x s) (okw anyv) errw False) ->
  sat (mapM f l s) (okw anyv) errw False.
Proof.
  intros Hs Hf.
  eapply sat_mono;
    [apply (sat_mapM f wf_state anyv errw False l); [|exact Hs] | | |]; cbn; unfold okw, anyv; tauto.
Qed.

(* ---------- primitives ---------- *)
Lemma w_out_write chunk s : wf_state s -> sat (out_write chunk s) (okw anyv) errw False.
Proof.
  intros Hs. unfold out_write. destruct chunk; [split; [exact Hs|exact I]|].
  destruct (match o_fail_at (s_out s) with Some k => _ | None => false end); cbn; unfold okw, errw, anyv;
    autorewrite with wfs; auto.
Qed.

Lemma w_write_indented fuel v ind s :
  wf_state s -> sat (write_indented fuel v ind s) (okw anyv) errw False.
Proof.
  revert v s. induction fuel as [|f IH]; intros v s Hs; cbn [write_indented]; [exact I|].
  destruct (find_lf v) as [k|]; [|apply w_out_write; exact Hs].
  eapply w_rbind; [apply w_out_write; exact Hs|]. intros _ s1 Hs1 _.
  destruct (skipn (S k) v); [split; [exact Hs1|exact I]|].
  eapply w_rbind; [apply w_out_write; exact Hs1|]. intros _ s2 Hs2 _. apply IH. exact Hs2.
Qed.

Lemma w_indent_aware_write v s : wf_state s -> sat (indent_aware_write v s) (okw anyv) errw False.
Proof.
  intros Hs. unfold indent_aware_write. destruct v as [|c r]; [split; [exact Hs|exact I]|].
  eapply w_rbind with (Q1 := anyv).
  - destruct (negb (first_is is_newline (c :: r)) && s_indent_before_write (set_content_produced s true)).
    + destruct (s_indent (set_content_produced s true)).
      * apply w_out_write. exact Hs.
      * split; [exact Hs|exact I].
    + split; [exact Hs|exact I].
  - intros _ s2 Hs2 _. eapply w_rbind with (Q1 := anyv).
    + destruct (s_indent s2); [apply w_write_indented | apply w_out_write]; exact Hs2.
    + intros _ s3 Hs3 _. split; [exact Hs3|exact I].
Qed.

Lemma w_log_write txt s : wf_state s -> sat (log_write txt s) (okw anyv) errw False.
Proof. intros Hs. unfold log_write. apply w_out_write. exact Hs. Qed.

Lemma w_do_escape reg content s : wf_state s -> wf_state (snd (do_escape reg content s)).
Proof.
  intros Hs. unfold do_escape. destruct (s_disable_escape s); [exact Hs|].
  cbn [snd]. destruct (r_esc_mark reg); exact Hs.
Qed.

Lemma w_evaluate2 data p s : wf_state s -> sat (evaluate2 data p s) (okw anyv) errw False.
Proof.
  intros Hs. eapply sat_mono; [apply evaluate2_pure | | |]; cbn; unfold okw, errw, anyv; auto.
  - intros _ s' ->. auto.
  - intros _ s' ->. auto.
Qed.

Lemma w_evaluate data raw s : wf_state s -> sat (evaluate data raw s) (okw anyv) errw False.
Proof.
  intros Hs. eapply sat_mono; [apply evaluate_pure | | |]; cbn; unfold okw, errw, anyv; auto.
  - intros _ s' ->. auto.
  - intros _ s' ->. auto.
Qed.

(* call_inner: no panic, no out-of-fuel, and the templates in the state stay *)
Lemma call_inner_wfview reg hid h s :
  sat (call_inner reg hid h s) (fun _ s' => wfview s' = wfview s) (fun _ s' => wfview s' = wfview s) False
  /\ call_inner reg hid h s <> RFuel.
Proof.
  unfold call_inner, macro_inner, param_or, strict_error, rfail.
  repeat lazymatch goal with
  | |- sat ?e _ _ _ /\ _ =>
      lazymatch e with
      | context [match ?y with _ => _ end] => let z := inner_scrut y in destruct z
      end
  end; cbn; split; reflexivity || discriminate.
Qed.

Lemma w_call_inner reg hid h s : wf_state s -> sat (call_inner reg hid h s) (okw anyv) errw False.
Proof.
  intros Hs. eapply sat_mono; [apply call_inner_wfview | | |]; cbn; unfold okw, errw, anyv; auto.
  - intros _ s' H. split; [|exact I]. eapply wf_state_view; eassumption.
  - intros _ s' H. eapply wf_state_view; eassumption.
Qed.

(* ---------- spec and step tactic ---------- *)
Definition wsp {A} (pre : Prop) (Q : A -> Prop) (s : rstate) (r : rres A) : Prop :=
  pre -> wf_state s -> sat r (okw Q) errw False.

Definition np_spec : rspec :=
  {| sp_rt := fun t => wsp (wf_template t) anyv;
     sp_et := fun t => wsp (wf_template t) anyv;
     sp_or := fun t => wsp (opt_wf t) anyv;
     sp_re := fun e => wsp (wf_element e) anyv;
     sp_ee := fun e => wsp (wf_element e) anyv;
     sp_rx := fun ht _ => wsp (wf_helper ht) anyv;
     sp_rh := fun ht => wsp (wf_helper ht) anyv;
     sp_hft := fun ht => wsp (wf_helper ht) wf_hv;
     sp_dft := fun dt => wsp (wf_deco dt) wf_dv;
     sp_ean := fun p => wsp (wf_param p) anyv;
     sp_ep := fun p => wsp (wf_param p) anyv;
     sp_chv := fun _ h => wsp (wf_hv h) anyv;
     sp_ch := fun _ h => wsp (wf_hv h) anyv;
     sp_ed := fun dt => wsp (wf_deco dt) anyv;
     sp_rp := fun dt => wsp (wf_deco dt) anyv;
     sp_xp := fun d => wsp (wf_dv d) anyv |}.

Ltac w_side :=
  autorewrite with wfs;
  try assumption;
  try (cbn [opt_wf wf_element]; assumption);
  try (lazymatch goal with |- opt_wf (if ?c then _ else _) => destruct c; assumption end);
  eauto.

Ltac w_leaf :=
  cbn [sat]; unfold okw, errw, anyv;
  repeat (autorewrite with wfs;
          try lazymatch goal with
              | |- context [wf_state (match ?y with _ => _ end)] => destruct y
              end);
  first [ assumption | exact I | split; [assumption | first [exact I | w_side]] ].

Ltac w_ih IH :=
  first [ apply (h_rt IH) | apply (h_et IH) | apply (h_or IH) | apply (h_re IH) | apply (h_ee IH)
        | apply (h_rx IH) | apply (h_rh IH) | apply (h_hft IH) | apply (h_dft IH) | apply (h_ean IH)
        | apply (h_ep IH) | apply (h_chv IH) | apply (h_ch IH) | apply (h_ed IH) | apply (h_rp IH)
        | apply (h_xp IH) ]; w_side.

Ltac w_call IH :=
  first [ apply w_out_write | apply w_indent_aware_write | apply w_log_write
        | apply w_evaluate2 | apply w_evaluate | apply w_call_inner ]; w_side.

Ltac w_step IH :=
  lazymatch goal with
  | |- sat ?e (okw _) errw False =>
      lazymatch e with
      | (let _ := _ in _) => cbv zeta
      | rbind ?x _ =>
          lazymatch x with
          | helper_from_template _ _ _ _ _ _ => eapply w_rbind with (Q1 := wf_hv)
          | deco_from_template _ _ _ _ _ _ => eapply w_rbind with (Q1 := wf_dv)
          | _ => eapply w_rbind with (Q1 := anyv)
          end; [ | intros ? ? ? ? ]
      | rmap_err _ _ => apply w_rmap_err
      | fold_idx _ _ _ _ => apply w_fold_idx; [ w_side | intros ? ? ? ? ? ]
      | mapM _ _ _ => apply w_mapM; [ w_side | intros ? ? ? ? ]
      | out_write _ _ => w_call IH
      | indent_aware_write _ _ => w_call IH
      | log_write _ _ => w_call IH
      | evaluate2 _ _ _ => w_call IH
      | evaluate _ _ _ => w_call IH
      | call_inner _ _ _ _ => w_call IH
      | param_or _ _ _ _ _ => unfold param_or
      | strict_error _ _ => unfold strict_error, rfail; w_leaf
      | rfail _ _ => unfold rfail; w_leaf
      | ROk _ _ => w_leaf
      | RErr _ _ => w_leaf
      | RFuel => exact I
      | match ?y with _ => _ end =>
          let z := inner_scrut y in
          lazymatch z with
          | do_escape ?r ?c ?s =>
              let H := fresh "Hesc" in
              assert (H : wf_state (snd (do_escape r c s))) by (apply w_do_escape; w_side);
              destruct (do_escape r c s) as [? ?]; cbn [snd] in H
          | call_inner ?r ?hid ?h ?s =>
              let X := fresh "X" in
              assert (X : sat z (okw anyv) errw False) by (apply w_call_inner; w_side);
              destruct z; cbn [sat] in X; unfold okw, errw, anyv in X; [ destruct X as [X _] | | contradiction | ]
          | _ =>
              tryif is_ih_call z
              then (let X := fresh "X" in
                    assert (X : sat z (okw anyv) errw False) by (first [w_ih IH | w_call IH]);
                    destruct z; cbn [sat] in X; unfold okw, errw, anyv in X;
                    [ destruct X as [X _] | | contradiction | ])
              else destruct z eqn:?
          end
      | _ => w_ih IH
      end
  end.

Section NoPanicInd.
Variables (reg : registry) (data : json) (ft : ftable).
Hypothesis Hreg : wf_registry reg.

Section Steps.
Variable f : nat.
Hypothesis IH : holds reg data ft np_spec f.

Lemma np_rt t s : wsp (wf_template t) anyv s (render_template reg data ft (S f) t s).
Proof.
  rewrite render_template_S. intros Ht Hs. apply wf_template_els in Ht. rewrite Forall_forall in Ht.
  repeat w_step IH.
Qed.

Lemma np_et t s : wsp (wf_template t) anyv s (eval_template reg data ft (S f) t s).
Proof.
  rewrite eval_template_S. intros Ht Hs. apply wf_template_els in Ht. rewrite Forall_forall in Ht.
  repeat w_step IH.
Qed.

Lemma np_or t s : wsp (opt_wf t) anyv s (opt_render reg data ft (S f) t s).
Proof. rewrite opt_render_S. intros Ht Hs. destruct t; cbn [opt_wf] in Ht; repeat w_step IH. Qed.

Lemma np_re e s : wsp (wf_element e) anyv s (render_element reg data ft (S f) e s).
Proof.
  rewrite render_element_S. intros He Hs. destruct e; cbn [wf_element] in He; repeat w_step IH.
Qed.

Lemma np_ee e s : wsp (wf_element e) anyv s (eval_element reg data ft (S f) e s).
Proof.
  rewrite eval_element_S. intros He Hs. destruct e; cbn [wf_element] in He; repeat w_step IH.
Qed.

Lemma np_rx ht html s : wsp (wf_helper ht) anyv s (render_expression reg data ft (S f) ht html s).
Proof.
  rewrite render_expression_S. cbv zeta. intros Hht Hs.
  pose proof (proj1 (wf_helper_proj ht) Hht) as (Hn & _).
  apply (sat_post_id _ (fun s' => if html then set_disable_escape s' false else s')
           (fun s' => if html then set_disable_escape s' false else s') (okw anyv) errw).
  - assert (Hs0 : wf_state (if html then set_disable_escape s true else s)) by (destruct html; exact Hs).
    revert Hs0. generalize (if html then set_disable_escape s true else s). intros s0 Hs0.
    repeat w_step IH.
  - intros a s' [H1 H2]. split; [destruct html; exact H1 | exact H2].
  - intros e s' H1. unfold errw in *. destruct html; exact H1.
Qed.

Lemma np_rh ht s : wsp (wf_helper ht) anyv s (render_helper reg data ft (S f) ht s).
Proof.
  rewrite render_helper_S. cbv zeta. intros Hht Hs. repeat w_step IH.
Qed.

Lemma np_hft ht s : wsp (wf_helper ht) wf_hv s (helper_from_template reg data ft (S f) ht s).
Proof.
  rewrite helper_from_template_S. intros Hht Hs.
  pose proof (proj1 (wf_helper_proj ht) Hht) as (Hn & Hps & Hhs & Htpl & Hinv).
  unfold wf_hash in Hhs. rewrite Forall_forall in Hps, Hhs.
  repeat w_step IH. split; assumption.
Qed.

Lemma np_dft dt s : wsp (wf_deco dt) wf_dv s (deco_from_template reg data ft (S f) dt s).
Proof.
  rewrite deco_from_template_S. intros Hdt Hs.
  pose proof (proj1 (wf_deco_proj dt) Hdt) as (Hn & Hps & Hhs & Htpl).
  unfold wf_hash in Hhs. rewrite Forall_forall in Hps, Hhs.
  repeat w_step IH.
Qed.

Lemma np_ean p s : wsp (wf_param p) anyv s (expand_as_name reg data ft (S f) p s).
Proof. rewrite expand_as_name_S. intros Hp Hs. repeat w_step IH. Qed.

Lemma np_ep p s : wsp (wf_param p) anyv s (expand_param reg data ft (S f) p s).
Proof.
  rewrite expand_param_S. intros Hp Hs. destruct p as [n|pa|j|el]; try solve [repeat w_step IH].
  apply wf_param_sub_iff in Hp. destruct Hp as (ht & -> & Hht).
  pose proof (proj1 (wf_helper_proj ht) Hht) as (Hn & _).
  repeat w_step IH.
Qed.

Lemma np_chv hid h s : wsp (wf_hv h) anyv s (call_helper_for_value reg data ft (S f) hid h s).
Proof.
  rewrite call_helper_for_value_S. intros Hh Hs. repeat w_step IH.
Qed.

Lemma np_ch hid h s : wsp (wf_hv h) anyv s (call_helper reg data ft (S f) hid h s).
Proof.
  rewrite call_helper_S. cbv zeta. intros [Htpl Hinv] Hs. repeat w_step IH.
Qed.

Lemma np_ed dt s : wsp (wf_deco dt) anyv s (eval_decorator reg data ft (S f) dt s).
Proof.
  rewrite eval_decorator_S. intros Hdt Hs. repeat w_step IH.
  (* *inline: the stored template is the decorator's own (well-formed) body *)
  cbn [sat]. split; [|exact I]. destruct H as (Hp & Hst & Hdev).
  unfold wf_dv in H0. rewrite Heqo0 in H0. cbn [opt_wf] in H0.
  split; [|split]; cbn [s_partials s_pb_stack s_dev set_partials]; try assumption.
  apply wf_named_insert; assumption.
Qed.

Lemma np_rp dt s : wsp (wf_deco dt) anyv s (render_partial reg data ft (S f) dt s).
Proof.
  rewrite render_partial_S. cbv zeta. intros Hdt Hs. repeat w_step IH.
Qed.

Lemma np_xp d s : wsp (wf_dv d) anyv s (expand_partial reg data ft (S f) d s).
Proof.
  rewrite expand_partial_S. cbv zeta. intros Hd Hs. unfold wf_dv in Hd.
  eapply w_rbind with (Q1 := anyv).
  { destruct (dv_tpl d) eqn:E; [|w_leaf]. apply (h_et IH); [exact Hd | exact Hs]. }
  intros u s1 Hs1 _.
  destruct (match s_current s1 with Some c => str_eqb c (dv_name d) | None => false end); [w_leaf|].
  (* whichever table the partial comes from, it is well formed *)
  lazymatch goal with
  | |- sat (match ?found with _ => _ end) _ _ _ =>
      assert (Hfound : forall p, found = Some p -> wf_template p);
        [ | destruct found as [partial|]; [specialize (Hfound _ eq_refl) | w_leaf] ]
  end.
  { intros p. destruct (get_partial s1 (dv_name d)) as [p1|] eqn:E1.
    - intros E; inversion E; subst. eapply wf_get_partial; eassumption.
    - destruct (match s_dev s1 with Some dm => map_get dm (dv_name d) | None => None end) as [p2|] eqn:E2.
      + intros E; inversion E; subst. destruct Hs1 as (_ & _ & Hdev).
        destruct (s_dev s1) as [dm|]; [|discriminate]. eapply wf_named_get; eassumption.
      + destruct (map_get (r_templates reg) (dv_name d)) as [p3|] eqn:E3.
        * intros E; inversion E; subst. eapply wf_named_get; [exact Hreg | exact E3].
        * intros E. rewrite E in Hd. exact Hd. }
  set (s2 := if str_eqb (dv_name d) PARTIAL_BLOCK then _ else _).
  assert (Hs2 : wf_state s2).
  { subst s2. destruct (str_eqb (dv_name d) PARTIAL_BLOCK); [|exact Hs1].
    destruct (current_pb s1) as [[? ?]|]; exact Hs1. }
  clearbody s2.
  eapply w_rbind with (Q1 := anyv); [repeat w_step IH|].
  intros merged s3 Hs3 _.
  lazymatch goal with
  | |- sat (match render_template reg data ft f partial ?s6 with _ => _ end) _ _ _ =>
      assert (X : sat (render_template reg data ft f partial s6) (okw anyv) errw False);
        [ apply (h_rt IH); [exact Hfound|] | destruct (render_template reg data ft f partial s6) ]
  end.
  - autorewrite with wfs. destruct (dv_tpl d) as [pb|]; [|autorewrite with wfs; exact Hs3].
    apply wfs_push_pb; [autorewrite with wfs; exact Hs3 | exact Hd].
  - destruct X as [X _]. cbn [sat]. split; [|exact I]. autorewrite with wfs.
    destruct (dv_tpl d); [apply wfs_pop_pb|]; exact X.
  - cbn [sat] in *. unfold errw in *. autorewrite with wfs.
    destruct (dv_tpl d); [apply wfs_pop_pb|]; exact X.
  - exact X.
  - exact I.
Qed.
End Steps.

Lemma np_fuel_ok : fuel_ok np_spec.
Proof. constructor; intros; intros ? ?; exact I. Qed.

Lemma np_steps : steps reg data ft np_spec.
Proof.
  constructor; intros f IH.
  - apply np_rt; exact IH.
  - apply np_et; exact IH.
  - apply np_or; exact IH.
  - apply np_re; exact IH.
  - apply np_ee; exact IH.
  - apply np_rx; exact IH.
  - apply np_rh; exact IH.
  - apply np_hft; exact IH.
  - apply np_dft; exact IH.
  - apply np_ean; exact IH.
  - apply np_ep; exact IH.
  - apply np_chv; exact IH.
  - apply np_ch; exact IH.
  - apply np_ed; exact IH.
  - apply np_rp; exact IH.
  - apply np_xp; exact IH.
Qed.

Theorem no_panic_holds : forall f, holds reg data ft np_spec f.
Proof. apply render_ind; [exact np_fuel_ok | exact np_steps]. Qed.

End NoPanicInd.

(* reading of the outcome predicate *)
Lemma okw_safe {A} (r : rres A) (Q : A -> Prop) :
  sat r (okw Q) errw False ->
  (forall site, r <> RPanic site) /\ (forall s', ends_in r s' -> wf_state s') /\
  (forall a s', r = ROk a s' -> Q a).
Proof.
  destruct r as [a s|e s|p|]; cbn; unfold okw, errw; intros H; (split; [|split]).
  - discriminate.
  - intros s' <-. tauto.
  - intros a' s' E. inversion E; subst. tauto.
  - discriminate.
  - intros s' <-. exact H.
  - discriminate.
  - contradiction.
  - contradiction.
  - discriminate.
  - discriminate.
  - contradiction.
  - discriminate.
Qed.

Lemma okw_safe1 {A} (r : rres A) (Q : A -> Prop) : sat r (okw Q) errw False -> safe_outcome r.
Proof. intros H. destruct (okw_safe r Q H) as (H1 & H2 & _). split; assumption. Qed.

(* C05 (b): all sixteen functions *)
Theorem no_panic_all : forall reg data ft f, wf_registry reg ->
  (forall t s, wf_template t -> wf_state s -> safe_outcome (render_template reg data ft f t s)) /\
  (forall t s, wf_template t -> wf_state s -> safe_outcome (eval_template reg data ft f t s)) /\
  (forall t s, opt_wf t -> wf_state s -> safe_outcome (opt_render reg data ft f t s)) /\
  (forall e s, wf_element e -> wf_state s -> safe_outcome (render_element reg data ft f e s)) /\
  (forall e s, wf_element e -> wf_state s -> safe_outcome (eval_element reg data ft f e s)) /\
  (forall ht html s, wf_helper ht -> wf_state s ->
     safe_outcome (render_expression reg data ft f ht html s)) /\
  (forall ht s, wf_helper ht -> wf_state s -> safe_outcome (render_helper reg data ft f ht s)) /\
  (forall ht s, wf_helper ht -> wf_state s ->
     safe_outcome (helper_from_template reg data ft f ht s) /\
     forall h s', helper_from_template reg data ft f ht s = ROk h s' -> wf_hv h) /\
  (forall dt s, wf_deco dt -> wf_state s ->
     safe_outcome (deco_from_template reg data ft f dt s) /\
     forall d s', deco_from_template reg data ft f dt s = ROk d s' -> wf_dv d) /\
  (forall p s, wf_param p -> wf_state s -> safe_outcome (expand_as_name reg data ft f p s)) /\
  (forall p s, wf_param p -> wf_state s -> safe_outcome (expand_param reg data ft f p s)) /\
  (forall hid h s, wf_hv h -> wf_state s ->
     safe_outcome (call_helper_for_value reg data ft f hid h s)) /\
  (forall hid h s, wf_hv h -> wf_state s -> safe_outcome (call_helper reg data ft f hid h s)) /\
  (forall dt s, wf_deco dt -> wf_state s -> safe_outcome (eval_decorator reg data ft f dt s)) /\
  (forall dt s, wf_deco dt -> wf_state s -> safe_outcome (render_partial reg data ft f dt s)) /\
  (forall d s, wf_dv d -> wf_state s -> safe_outcome (expand_partial reg data ft f d s)).
Proof.
  intros reg data ft f Hreg. pose proof (no_panic_holds reg data ft Hreg f) as H.
  split; [intros; eapply okw_safe1, (h_rt H); assumption|].
  split; [intros; eapply okw_safe1, (h_et H); assumption|].
  split; [intros; eapply okw_safe1, (h_or H); assumption|].
  split; [intros; eapply okw_safe1, (h_re H); assumption|].
  split; [intros; eapply okw_safe1, (h_ee H); assumption|].
  split; [intros; eapply okw_safe1, (h_rx H); assumption|].
  split; [intros; eapply okw_safe1, (h_rh H); assumption|].
  split; [intros ht s Hht Hs; pose proof (okw_safe _ _ (h_hft H ht s Hht Hs)) as (X1 & X2 & X3);
          split; [split; assumption | exact X3]|].
  split; [intros dt s Hdt Hs; pose proof (okw_safe _ _ (h_dft H dt s Hdt Hs)) as (X1 & X2 & X3);
          split; [split; assumption | exact X3]|].
  split; [intros; eapply okw_safe1, (h_ean H); assumption|].
  split; [intros; eapply okw_safe1, (h_ep H); assumption|].
  split; [intros; eapply okw_safe1, (h_chv H); assumption|].
  split; [intros; eapply okw_safe1, (h_ch H); assumption|].
  split; [intros; eapply okw_safe1, (h_ed H); assumption|].
  split; [intros; eapply okw_safe1, (h_rp H); assumption|].
  intros; eapply okw_safe1, (h_xp H); assumption.
Qed.

(* C05 (c): the entry *)
Theorem no_panic : forall reg data ft fuel t s,
  wf_registry reg -> wf_template t -> wf_state s ->
  (forall site, render_template reg data ft fuel t s <> RPanic site) /\
  (forall s', ends_in (render_template reg data ft fuel t s) s' -> wf_state s').
Proof.
  intros reg data ft fuel t s Hreg Ht Hs.
  destruct (no_panic_all reg data ft fuel Hreg) as (H & _). exact (H t s Ht Hs).
Qed.

Lemma wf_st_init root dev fail_at :
  match dev with Some dm => wf_named dm | None => True end -> wf_state (st_init root dev fail_at).
Proof. intros H. split; [constructor | split; [constructor | exact H]]. Qed.

Theorem no_panic_top : forall reg data ft fuel t root dev fail_at,
  wf_registry reg -> wf_template t ->
  match dev with Some dm => wf_named dm | None => True end ->
  forall site, render_template reg data ft fuel t (st_init root dev fail_at) <> RPanic site.
Proof.
  intros reg data ft fuel t root dev fail_at Hreg Ht Hdev.
  apply no_panic; [exact Hreg | exact Ht | apply wf_st_init; exact Hdev].
Qed.

(* ====================================================================== *)
(** * Examples: the hypotheses are satisfiable, and needed *)

Definition ex_src : str :=
  `"Hi {{name}}! {{#if ok}}[{{lookup xs 1}}]{{else}}no{{/if}} {{eq (len xs) 2}}{{{name}}}".
Definition ex_tpl : template :=
  match compile2 ex_src default_opts with COk t => t | _ => t_empty end.
Definition ex_data : json :=
  JObj [(`"name", JStr (`"A<b")); (`"ok", JBool true);
        (`"xs", JArr [JNum (PosInt 1); JNum (PosInt 2)])].

Example ex_compiles : compile2 ex_src default_opts = COk ex_tpl.
Proof. vm_compute. reflexivity. Qed.

Example ex_wf_template : wf_template ex_tpl.
Proof. vm_compute. tauto. Qed.

Example ex_wf_registry : wf_registry reg_new.
Proof. constructor. Qed.

Example ex_wf_state : wf_state (st_init None None None).
Proof. apply wf_st_init. exact I. Qed.

Example ex_render_ok :
  exists s', render_template reg_new ex_data [] 12 ex_tpl (st_init None None None) = ROk tt s'
             /\ out_text (s_out s') = `"Hi A&lt;b! [2] trueA<b".
Proof. eexists. split; vm_compute; reflexivity. Qed.

(* without well-formedness the first panic site is reachable *)
Example ill_formed_panics : forall reg data ft f s,
  expand_param reg data ft (S f) (PSub (ElRaw [])) s = RPanic (`"Parameter::expand unreachable").
Proof. reflexivity. Qed.
