(* Proofs/CompileWf.v — compile_wf (C05): every template produced by the
   compiler model is well-formed in the sense of Spec/WfTemplate.v: every
   `PSub e` has `e = ElExpr _` at every depth. *)
From HB Require Import Tpl.Compile Spec.WfTemplate Proofs.CompileBase.
Open Scope N_scope.

Ltac okinv H := injection H; clear H; intros; subst.

Definition wf_espec (e : espec) : Prop :=
  wf_param (es_name e) /\ Forall wf_param (es_params e) /\ wf_hash (es_hash e).

Lemma wf_new_subexpression e : wf_espec e -> wf_param (new_subexpression e).
Proof.
  intros (Hn & Hp & Hh). unfold new_subexpression. apply wf_param_sub_iff.
  eexists; split; [reflexivity|]. apply wf_helper_iff. cbn. tauto.
Qed.

Lemma wf_es_or_pre e b : wf_espec e -> wf_espec (es_or_pre e b).
Proof. exact (fun H => H). Qed.

Lemma wf_hash_insert hs k v : wf_hash hs -> wf_param v -> wf_hash (map_insert hs k v).
Proof.
  unfold wf_hash. intros H Hv. induction hs as [|[k' v'] r IH]; cbn [map_insert].
  - constructor; [exact Hv|constructor].
  - inversion H as [|? ? H1 H2]; subst.
    destruct (str_cmp k k').
    + constructor; [exact Hv|exact H2].
    + constructor; [exact Hv|exact H].
    + constructor; [exact H1|apply IH; exact H2].
Qed.

Section Wf.
  Variable src : str.

  Lemma parse_wf : forall fuel,
    (forall it limit e it', parse_expression src fuel it limit = COk (e, it') -> wf_espec e) /\
    (forall it limit name params hash bp pre pro e it',
        wf_param name -> Forall wf_param params -> wf_hash hash ->
        expr_loop src fuel it limit name params hash bp pre pro = COk (e, it') -> wf_espec e) /\
    (forall it p it', parse_name src fuel it = COk (p, it') -> wf_param p) /\
    (forall it p it', parse_param src fuel it = COk (p, it') -> wf_param p).
  Proof.
    induction fuel as [|f IH].
    - split; [|split; [|split]]; intros; discriminate.
    - destruct IH as (IHe & IHl & IHn & IHp). split; [|split; [|split]].
      + intros it limit e it' H. rewrite parse_expression_S in H.
        destruct it as [|t0 it0]; [discriminate|].
        destruct (if is_rule R_leading_tilde_to_omit_whitespace t0 then (true, it0) else (false, t0 :: it0))
          as [pre it1].
        cinv H. destruct a as [name it2].
        eapply IHl; [| | |exact H].
        * eapply IHn; exact E.
        * constructor.
        * constructor.
      + intros it limit name params hash bp pre pro e it' Hn Hp Hh H.
        rewrite expr_loop_S in H. cbv zeta in H.
        assert (Hfin : forall it0, COk ({| es_name := name; es_params := rev params; es_hash := hash;
                                 es_bp := bp; es_pre := pre; es_pro := pro |}, it0) = COk (e, it') -> wf_espec e).
        { intros it0 H0. inversion H0; subst. unfold wf_espec; cbn.
          split; [exact Hn|split; [|exact Hh]]. apply Forall_rev. exact Hp. }
        destruct it as [|p it1]; [eapply Hfin; exact H|].
        destruct (N.ltb (tk_end p) limit); [|eapply Hfin; exact H].
        destruct (arg_classify (tk_rule p)).
        * cinv H. destruct a as [v it2].
          eapply IHl; [exact Hn| |exact Hh|exact H].
          constructor; [eapply IHp; exact E|exact Hp].
        * destruct it1 as [|k it2]; [discriminate|].
          cinv H. cinv H. destruct a0 as [v it3].
          eapply IHl; [exact Hn|exact Hp| |exact H].
          apply wf_hash_insert; [exact Hh|eapply IHp; exact E0].
        * cinv H. destruct a as [b it2]. eapply IHl; [exact Hn|exact Hp|exact Hh|exact H].
        * eapply IHl; [exact Hn|exact Hp|exact Hh|exact H].
        * eapply IHl; [exact Hn|exact Hp|exact Hh|exact H].
      + intros it p it' H. rewrite parse_name_S in H.
        destruct it as [|n it1]; [discriminate|].
        destruct (name_classify (tk_rule n)); try discriminate.
        * cinv H. inversion H; subst. exact I.
        * cinv H. cinv H. destruct a0 as [segs it2]. inversion H; subst. exact I.
        * cinv H. destruct a as [e it2]. inversion H; subst.
          apply wf_new_subexpression. eapply IHe; exact E.
      + intros it p it' H. rewrite parse_param_S in H.
        destruct it as [|p0 it0]; [discriminate|]. cbv zeta in H.
        cinv H. destruct a as [p1 it1]. cinv H. cinv H. destruct a0 as [result it2].
        inversion H; subst. clear H.
        destruct (name_classify (tk_rule p1)); try discriminate.
        * cinv E1. destruct a0 as [segs it3]. inversion E1; subst. exact I.
        * cinv E1. destruct a0 as [e it3]. inversion E1; subst.
          apply wf_new_subexpression. eapply IHe; exact E2.
        * destruct it1 as [|lit it3]; [discriminate|].
          cinv E1. destruct a0 as [jr it4]. destruct jr as [j|]; [|discriminate].
          inversion E1; subst. exact I.
  Qed.

  Lemma parse_expression_wf fuel it limit e it' :
    parse_expression src fuel it limit = COk (e, it') -> wf_espec e.
  Proof. apply (parse_wf fuel). Qed.
  Lemma parse_name_wf fuel it p it' : parse_name src fuel it = COk (p, it') -> wf_param p.
  Proof. apply (parse_wf fuel). Qed.
  Lemma parse_param_wf fuel it p it' : parse_param src fuel it = COk (p, it') -> wf_param p.
  Proof. apply (parse_wf fuel). Qed.
End Wf.

(* ---------- templates, helpers: closure of wf under the builders ---------- *)
Lemma wf_t_empty : wf_template t_empty.
Proof. apply wf_template_iff. constructor. Qed.

Lemma wf_t_push t e lc : wf_template t -> wf_element e -> wf_template (t_push t e lc).
Proof.
  destruct t as [n es m]. cbn [t_push]. rewrite !wf_template_iff. intros H He.
  apply Forall_app; split; [exact H|constructor; [exact He|constructor]].
Qed.

Lemma wf_t_single e lc : wf_element e -> wf_template (MkT None [e] [lc]).
Proof. intro H. apply wf_template_iff. constructor; [exact H|constructor]. Qed.

Lemma wf_t_push_el t e : wf_template t -> wf_element e -> wf_template (t_push_el t e).
Proof.
  destruct t as [n es m]. cbn [t_push_el]. rewrite !wf_template_iff. intros H He.
  apply Forall_app; split; [exact H|constructor; [exact He|constructor]].
Qed.

Lemma wf_t_push_map t lc : wf_template t -> wf_template (t_push_map t lc).
Proof. destruct t as [n es m]. cbn [t_push_map]. rewrite !wf_template_iff. exact (fun H => H). Qed.

Lemma wf_t_set_name t n : wf_template t -> wf_template (t_set_name t n).
Proof. destruct t as [n0 es m]. cbn [t_set_name]. rewrite !wf_template_iff. exact (fun H => H). Qed.

Lemma wf_map_last_raw f t : wf_template t -> wf_template (map_last_raw f t).
Proof.
  destruct t as [n es m]. unfold map_last_raw. intro H.
  destruct (rev es) as [|e r] eqn:E; [exact H|].
  destruct e; try exact H.
  rewrite wf_template_iff in *. apply Forall_rev.
  apply Forall_rev in H. rewrite E in H. inversion H; subst.
  constructor; [exact I|assumption].
Qed.

Lemma wf_h_set_tpl h t : wf_helper h -> opt_wf t -> wf_helper (h_set_tpl h t).
Proof. destruct h. cbn [h_set_tpl]. rewrite !wf_helper_iff. tauto. Qed.
Lemma wf_h_set_inv h t : wf_helper h -> opt_wf t -> wf_helper (h_set_inv h t).
Proof. destruct h. cbn [h_set_inv]. rewrite !wf_helper_iff. tauto. Qed.
Lemma wf_h_set_chain h b : wf_helper h -> wf_helper (h_set_chain h b).
Proof. destruct h. cbn [h_set_chain]. rewrite !wf_helper_iff. tauto. Qed.
Lemma wf_h_inv h : wf_helper h -> opt_wf (h_inv h).
Proof. destruct h. cbn [h_inv]. rewrite !wf_helper_iff. tauto. Qed.
Lemma wf_d_set_tpl d t : wf_deco d -> opt_wf t -> wf_deco (d_set_tpl d t).
Proof. destruct d. cbn [d_set_tpl]. rewrite !wf_deco_iff. tauto. Qed.
Lemma wf_d_set_indent d i : wf_deco d -> wf_deco (d_set_indent d i).
Proof. destruct d. cbn [d_set_indent]. rewrite !wf_deco_iff. tauto. Qed.

Lemma wf_mk_helper e b c w : wf_espec e -> wf_helper (mk_helper e b c w).
Proof. intros (Hn & Hp & Hh). unfold mk_helper. apply wf_helper_iff. cbn. tauto. Qed.
Lemma wf_mk_deco e w : wf_espec e -> wf_deco (mk_deco e w).
Proof. intros (Hn & Hp & Hh). unfold mk_deco. apply wf_deco_iff. cbn. tauto. Qed.

Lemma wf_block_wrapper n h m : wf_helper h -> wf_template (MkT n [ElBlock h] m).
Proof. intro H. apply wf_template_iff. constructor; [exact H|constructor]. Qed.

Lemma wf_insert_inverse_node h node :
  wf_helper h -> wf_helper node -> wf_helper (insert_inverse_node h node).
Proof.
  intros Hh Hn. unfold insert_inverse_node. apply wf_h_set_inv; [exact Hh|].
  cbn [opt_wf]. apply wf_block_wrapper. apply wf_h_set_inv; [exact Hn|apply wf_h_inv; exact Hh].
Qed.

Lemma ref_chain_head_wf h head : ref_chain_head h = Some (Some head) -> wf_helper h -> wf_helper head.
Proof.
  unfold ref_chain_head. intros H Hh.
  destruct (h_chain h); [|discriminate].
  pose proof (wf_h_inv _ Hh) as Hi.
  destruct (h_inv h) as [[n els m]|]; [|discriminate].
  destruct els as [|e r]; [discriminate|].
  destruct e; destruct r; try discriminate. inversion H; subst.
  cbn [opt_wf] in Hi. apply wf_template_iff in Hi. inversion Hi; subst. assumption.
Qed.

Lemma wf_set_chain_head h head : wf_helper h -> wf_helper head -> wf_helper (set_chain_head h head).
Proof.
  intros Hh Hd. unfold set_chain_head. destruct (h_inv h) as [[n els m]|]; [|exact Hh].
  apply wf_h_set_inv; [exact Hh|]. cbn [opt_wf]. apply wf_block_wrapper; exact Hd.
Qed.

Lemma wf_set_chain_template h tmpl h' :
  set_chain_template h tmpl = COk h' -> wf_helper h -> opt_wf tmpl -> wf_helper h'.
Proof.
  unfold set_chain_template. intros H Hh Ht.
  destruct (ref_chain_head h) as [[head|]|] eqn:E; try discriminate; inversion H; subst.
  - apply wf_set_chain_head; [exact Hh|]. apply wf_h_set_tpl; [|exact Ht].
    eapply ref_chain_head_wf; eassumption.
  - apply wf_h_set_tpl; assumption.
Qed.

Lemma wf_revert_loop fuel : forall cur prev p,
  revert_loop fuel cur prev = COk p -> opt_wf cur -> opt_wf prev -> opt_wf p.
Proof.
  induction fuel as [|f IH]; intros cur prev p H Hc Hp; [discriminate|].
  cbn [revert_loop] in H.
  destruct cur as [[n els m]|]; [|inversion H; subst; exact Hp].
  destruct els as [|e r]; [discriminate|].
  destruct e; destruct r; try discriminate; try (inversion H; subst; exact Hp).
  cbn [opt_wf] in Hc. apply wf_template_iff in Hc. inversion Hc; subst.
  match goal with Hh : wf_element (ElBlock _) |- _ => cbn [wf_element] in Hh end.
  eapply IH; [exact H| |].
  - apply wf_h_inv. assumption.
  - cbn [opt_wf]. apply wf_block_wrapper. apply wf_h_set_inv; assumption.
Qed.

Lemma wf_revert_chain_and_set fuel h inverse h' :
  revert_chain_and_set fuel h inverse = COk h' -> wf_helper h -> opt_wf inverse -> wf_helper h'.
Proof.
  unfold revert_chain_and_set. intros H Hh Hi.
  destruct (h_chain h).
  - destruct (ref_chain_head h) as [hd|] eqn:E; [|discriminate].
    assert (Hpair : wf_helper (fst (match hd with
              | Some head => match h_tpl head with
                             | Some _ => (h, inverse)
                             | None => (set_chain_head h (h_set_tpl head inverse), None)
                             end
              | None => (h, None) end))
            /\ opt_wf (snd (match hd with
              | Some head => match h_tpl head with
                             | Some _ => (h, inverse)
                             | None => (set_chain_head h (h_set_tpl head inverse), None)
                             end
              | None => (h, None) end))).
    { destruct hd as [head|]; [|split; [exact Hh|exact I]].
      destruct (h_tpl head); [split; assumption|]. split; [|exact I].
      apply wf_set_chain_head; [exact Hh|]. apply wf_h_set_tpl; [|exact Hi].
      eapply ref_chain_head_wf; eassumption. }
    destruct (match hd with
              | Some head => match h_tpl head with
                             | Some _ => (h, inverse)
                             | None => (set_chain_head h (h_set_tpl head inverse), None)
                             end
              | None => (h, None) end) as [h1 prev].
    cbn [fst snd] in Hpair. destruct Hpair as [H1 H2].
    cinv H. inversion H; subst. apply wf_h_set_inv; [exact H1|].
    eapply wf_revert_loop; [exact E0|apply wf_h_inv; exact H1|exact H2].
  - destruct (h_tpl h); inversion H; subst.
    + apply wf_h_set_inv; assumption.
    + apply wf_h_set_tpl; assumption.
Qed.

(* ---------- the loop ---------- *)
Definition wf_cstate (c : cstate) : Prop :=
  Forall wf_template (c_ts c) /\ Forall wf_helper (c_hs c) /\ Forall wf_deco (c_ds c).

Lemma wf_cstate_mk ts hs ds o t e :
  Forall wf_template ts -> Forall wf_helper hs -> Forall wf_deco ds ->
  wf_cstate {| c_ts := ts; c_hs := hs; c_ds := ds; c_omit := o; c_trim := t; c_end := e |}.
Proof. intros; repeat split; assumption. Qed.

Section WfStep.
  Variable src : str.

  Lemma raw_string_wf text pr a b el : raw_string text pr a b = COk el -> wf_element el.
  Proof.
    unfold raw_string. intro H. cinv H.
    destruct a; [okinv H; exact I|]. destruct b; okinv H; exact I.
  Qed.

  Lemma push_front_el_wf ts e lc site ts' :
    push_front_el ts e lc site = COk ts' -> Forall wf_template ts -> wf_element e ->
    Forall wf_template ts'.
  Proof.
    unfold push_front_el. destruct ts as [|t r]; [discriminate|]. intros H Hts He.
    okinv H. inversion Hts; subst. constructor; [apply wf_t_push; assumption|assumption].
  Qed.

  Lemma remove_previous_whitespace_wf ts ts' :
    remove_previous_whitespace ts = COk ts' -> Forall wf_template ts -> Forall wf_template ts'.
  Proof.
    unfold remove_previous_whitespace. destruct ts as [|t r]; [discriminate|]. intros H Hts.
    okinv H. inversion Hts; subst. constructor; [apply wf_map_last_raw; assumption|assumption].
  Qed.

  Lemma process_standalone_statement_wf ts t pi ip b ts' :
    process_standalone_statement src ts t pi ip = COk (b, ts') ->
    Forall wf_template ts -> Forall wf_template ts'.
  Proof.
    unfold process_standalone_statement. intros H Hts.
    destruct (suffix_from src (tk_end t)) as [cont|]; [|discriminate].
    match type of H with (if ?c then _ else _) = _ => destruct c end;
      [|okinv H; exact Hts].
    destruct (prefix_to src (tk_start t)) as [before|]; [|discriminate].
    cinv H. okinv H.
    match type of E with (if ?c then _ else _) = _ => destruct c end;
      [|okinv E; exact Hts].
    destruct ts as [|t0 r]; [discriminate|]. okinv E. inversion Hts; subst.
    constructor; [apply wf_map_last_raw; assumption|assumption].
  Qed.

  Lemma trailing_string_wf c pr lc c1 :
    trailing_string src c pr lc = COk c1 -> wf_cstate c -> wf_cstate c1.
  Proof.
    unfold trailing_string. intros H (Hts & Hhs & Hds).
    match type of H with (if ?c then _ else _) = _ => destruct c end;
      [|okinv H; repeat split; assumption].
    destruct (slice src _ _) as [txt|]; [|discriminate].
    cinv H. pose proof (raw_string_wf _ _ _ _ _ E) as Hel.
    destruct (rule_eqb (tk_rule pr) R_raw_block_end).
    - okinv H. apply wf_cstate_mk; try assumption.
      constructor; [apply wf_t_single; exact Hel|exact Hts].
    - cinv H. okinv H. apply wf_cstate_mk; try assumption.
      eapply push_front_el_wf; eassumption.
  Qed.

  Lemma tag_prologue_wf fuel c pr it e ts1 it1 :
    tag_prologue src fuel c pr it = COk (e, ts1, it1) ->
    Forall wf_template (c_ts c) -> wf_espec e /\ Forall wf_template ts1.
  Proof.
    unfold tag_prologue. intros H Hts. cinv H. destruct a as [e0 it0]. cinv H.
    okinv H. split; [eapply parse_expression_wf; exact E|].
    destruct (es_pre e); [eapply remove_previous_whitespace_wf; eassumption|].
    okinv E0. exact Hts.
  Qed.

  Variable all_tokens : list tok.
  Variable opts : copts.

  Lemma step_wf fuel c pr it c' it' :
    step src all_tokens opts fuel c pr it = COk (c', it') -> wf_cstate c -> wf_cstate c'.
  Proof.
    unfold step. intros H Hc. cinv H. rename a into c1.
    pose proof (trailing_string_wf _ _ _ _ E Hc) as (Hts & Hhs & Hds). clear E Hc.
    cinv H. destruct a as [c2 it2].
    assert (Hc2 : wf_cstate c2).
    { clear H. destruct (tag_classify (tk_rule pr)).
      - (* template *) okinv E. apply wf_cstate_mk; try assumption. constructor; [exact wf_t_empty|exact Hts].
      - (* raw text *)
        destruct (slice src _ _) as [txt|]; [|discriminate].
        cinv E. cinv E. okinv E. apply wf_cstate_mk; try assumption.
        eapply push_front_el_wf; [eassumption|exact Hts|eapply raw_string_wf; eassumption].
      - (* raw block text *)
        destruct (slice src _ _) as [txt|]; [|discriminate].
        cinv E. okinv E. apply wf_cstate_mk; try assumption.
        constructor; [|exact Hts]. apply wf_t_single. eapply raw_string_wf; eassumption.
      - (* block start *)
        cinv E. destruct a as [[e ts1] it1]. cinv E. destruct a as [trim ts2].
        destruct (tag_prologue_wf _ _ _ _ _ _ _ E0 Hts) as [He Hts1].
        pose proof (process_standalone_statement_wf _ _ _ _ _ _ E1 Hts1) as Hts2.
        destruct deco; cbn [c_ts] in E.
        + destruct ts2 as [|t r]; [discriminate|]. okinv E.
          inversion Hts2; subst.
          apply wf_cstate_mk; try assumption.
          * constructor; [apply wf_t_push_map; assumption|assumption].
          * constructor; [apply wf_mk_deco; exact He|exact Hds].
        + destruct ts2 as [|t r]; [discriminate|]. okinv E.
          inversion Hts2; subst.
          apply wf_cstate_mk; try assumption.
          * constructor; [apply wf_t_push_map; assumption|assumption].
          * constructor; [apply wf_mk_helper; exact He|exact Hhs].
      - (* invert *)
        match type of E with (let '(_, _) := ?x in _) = _ => destruct x as [chain_pre ita] end.
        cinv E. rename a into it0. cinv E. destruct a as [e0 it1].
        pose proof (wf_es_or_pre e0 chain_pre (parse_expression_wf _ _ _ _ _ _ E1)) as He.
        set (e := es_or_pre e0 chain_pre) in *. clearbody e.
        cinv E. rename a into ts1. cinv E. destruct a as [trim ts2].
        assert (Hts1 : Forall wf_template ts1).
        { destruct (es_pre e); [eapply remove_previous_whitespace_wf; eassumption|].
          okinv E2. exact Hts. }
        pose proof (process_standalone_statement_wf _ _ _ _ _ _ E3 Hts1) as Hts2.
        destruct ts2 as [|t ts3]; [discriminate|]. inversion Hts2; subst.
        destruct (c_hs c1) as [|h hs]; [discriminate|]. inversion Hhs; subst.
        cinv E. rename a into h2. okinv E.
        apply wf_cstate_mk; try assumption.
        constructor; [|assumption].
        assert (Hh2 : wf_helper h2).
        { eapply wf_set_chain_template; [exact E4| |cbn; assumption].
          destruct chain; [apply wf_h_set_chain|]; assumption. }
        destruct chain; [|exact Hh2].
        apply wf_insert_inverse_node; [exact Hh2|apply wf_mk_helper; exact He].
      - (* value expression *)
        cinv E. destruct a as [[e ts1] it1]. cinv E. okinv E.
        destruct (tag_prologue_wf _ _ _ _ _ _ _ E0 Hts) as [He Hts1].
        apply wf_cstate_mk; try assumption.
        eapply push_front_el_wf; [eassumption|exact Hts1|].
        destruct html; cbn [wf_element]; apply wf_mk_helper; exact He.
      - (* decorator / partial expression *)
        cinv E. destruct a as [[e ts1] it1]. cinv E. destruct a as [trim ts2]. cinv E. cinv E.
        okinv E.
        destruct (tag_prologue_wf _ _ _ _ _ _ _ E0 Hts) as [He Hts1].
        pose proof (process_standalone_statement_wf _ _ _ _ _ _ E1 Hts1) as Hts2.
        apply wf_cstate_mk; try assumption.
        eapply push_front_el_wf; [eassumption|exact Hts2|].
        destruct partial; cbn [wf_element]; apply wf_d_set_indent; apply wf_mk_deco; exact He.
      - (* helper block end *)
        cinv E. destruct a as [[e ts1] it1]. cinv E. destruct a as [trim ts2].
        destruct (tag_prologue_wf _ _ _ _ _ _ _ E0 Hts) as [He Hts1].
        pose proof (process_standalone_statement_wf _ _ _ _ _ _ E1 Hts1) as Hts2.
        destruct (c_hs c1) as [|h hs]; [discriminate|]. inversion Hhs; subst.
        destruct (opt_str_eqb _ _); [|discriminate].
        destruct ts2 as [|prev_t ts3]; [discriminate|]. inversion Hts2; subst.
        cinv E. rename a into h'.
        destruct ts3 as [|t r]; [discriminate|]. okinv E.
        match goal with Hr : Forall wf_template (t :: r) |- _ => inversion Hr; subst end.
        apply wf_cstate_mk; try assumption.
        constructor; [|assumption]. apply wf_t_push_el; [assumption|]. cbn [wf_element].
        eapply wf_revert_chain_and_set; [eassumption|assumption|cbn; assumption].
      - (* decorator / partial block end *)
        cinv E. destruct a as [[e ts1] it1]. cinv E. destruct a as [trim ts2].
        destruct (tag_prologue_wf _ _ _ _ _ _ _ E0 Hts) as [He Hts1].
        pose proof (process_standalone_statement_wf _ _ _ _ _ _ E1 Hts1) as Hts2.
        destruct (c_ds c1) as [|d ds]; [discriminate|]. inversion Hds; subst.
        destruct (opt_str_eqb _ _); [|discriminate].
        destruct ts2 as [|prev_t ts3]; [discriminate|]. inversion Hts2; subst.
        destruct ts3 as [|t r]; [discriminate|]. okinv E.
        match goal with Hr : Forall wf_template (t :: r) |- _ => inversion Hr; subst end.
        apply wf_cstate_mk; try assumption.
        constructor; [|assumption]. apply wf_t_push_el; [assumption|].
        destruct partial; cbn [wf_element]; apply wf_d_set_tpl; cbn; assumption.
      - (* comment *)
        cinv E. destruct a as [trim ts1]. cinv E. cinv E. okinv E.
        pose proof (process_standalone_statement_wf _ _ _ _ _ _ E0 Hts) as Hts1.
        apply wf_cstate_mk; try assumption.
        eapply push_front_el_wf; [eassumption|exact Hts1|exact I].
      - okinv E. repeat split; assumption. }
    destruct (tag_classify (tk_rule pr)); okinv H; try exact Hc2;
      destruct Hc2 as (H1 & H2 & H3); repeat split; assumption.
  Qed.

  Lemma main_loop_wf fuel : forall c it t,
    main_loop src all_tokens opts fuel c it = COk t -> wf_cstate c -> wf_template t.
  Proof.
    induction fuel as [|f IH]; intros c it t H Hc; [discriminate|].
    cbn [main_loop] in H. destruct it as [|pr it1].
    - cinv H. rename a into ts.
      assert (Hts : Forall wf_template ts).
      { destruct Hc as (Hts & _ & _).
        destruct (N.ltb _ _); [|okinv E; exact Hts].
        destruct (slice src _ _) as [text|]; [|discriminate].
        destruct (c_end c) as [ep|]; [|discriminate].
        eapply push_front_el_wf; [eassumption|exact Hts|exact I]. }
      destruct ts as [|root r]; [discriminate|]. okinv H. inversion Hts; subst.
      apply wf_t_set_name. assumption.
    - cinv H. destruct a as [c' it'']. eapply IH; [exact H|]. eapply step_wf; eassumption.
  Qed.
End WfStep.

Lemma wf_init_cstate : wf_cstate init_cstate.
Proof. repeat split; constructor. Qed.

Theorem compile_tokens_wf src opts ts t : compile_tokens src opts ts = COk t -> wf_template t.
Proof. unfold compile_tokens. intro H. eapply main_loop_wf; [exact H|exact wf_init_cstate]. Qed.

Theorem compile_wf src opts t : compile2 src opts = COk t -> wf_template t.
Proof.
  unfold compile2. destruct (hb_parse (peg_fuel src) R_handlebars src); try discriminate.
  apply compile_tokens_wf.
Qed.

(* the hypothesis of compile_wf is satisfiable by a template with a
   subexpression inside an else-chain *)
Example compile_wf_example :
  exists t, compile2 (`"{{#if a}}x{{else if (b c)}}y{{else}}z{{/if}}") default_opts = COk t
            /\ wf_template t.
Proof.
  destruct (compile2 (`"{{#if a}}x{{else if (b c)}}y{{else}}z{{/if}}") default_opts) as [t| | |] eqn:E;
    [|vm_compute in E; discriminate E..].
  exists t. split; [reflexivity|]. eapply compile_wf. exact E.
Qed.
