(* Proofs/DispatchProofs.v — property C14: name resolution and dispatch.  The
   decision tables of render.rs as equations over the model (Rt/Render.v), in
   the one-step unfolding form `f (S fuel) ... = ... (inner calls at fuel)`, so
   no fuel bound is needed. *)
From Coq Require Import Lia List Bool NArith.
From HB Require Import Rt.Render Reg.RegOps Spec.DispatchSpec Proofs.NumProofs.
Import ListNotations.
Open Scope nat_scope.

(* ------------------------------------------------------------------ *)
(* 0. generic facts                                                    *)
(* ------------------------------------------------------------------ *)

Lemma rbind_ext {A B} (x : rres A) (k k' : A -> rstate -> rres B) :
  (forall a s, k a s = k' a s) -> rbind x k = rbind x k'.
Proof. intros H. destruct x; cbn; auto. Qed.

Lemma rbind_assoc {A B C} (x : rres A) (k : A -> rstate -> rres B) (k' : B -> rstate -> rres C) :
  rbind (rbind x k) k' = rbind x (fun a s => rbind (k a s) k').
Proof. destruct x; reflexivity. Qed.

Lemma rmap_err_ext {A} (x : rres A) (g g' : rerror -> rerror) :
  (forall e, g e = g' e) -> rmap_err x g = rmap_err x g'.
Proof. intros H. destruct x; cbn; congruence. Qed.

Lemma list_eqb_eq : forall a b : str, str_eqb a b = true -> a = b.
Proof.
  unfold str_eqb. induction a as [|x a IH]; destruct b as [|y b]; cbn; try discriminate; auto.
  intros H. apply andb_prop in H as [Hx Hr]. apply N.eqb_eq in Hx. f_equal; auto.
Qed.

Lemma str_eqb_refl : forall a : str, str_eqb a a = true.
Proof. unfold str_eqb. induction a as [|x a IH]; cbn; auto. rewrite N.eqb_refl. exact IH. Qed.

Lemma map_get_insert_same {A} : forall (m : list (str * A)) k v,
  map_get (map_insert m k v) k = Some v.
Proof.
  induction m as [|[k' v'] m IH]; intros k v; cbn [map_insert].
  - cbn. rewrite str_eqb_refl. reflexivity.
  - destruct (str_cmp k k') eqn:Hc.
    + cbn. rewrite str_eqb_refl. reflexivity.
    + cbn. rewrite str_eqb_refl. reflexivity.
    + cbn [map_get]. destruct (str_eqb k k') eqn:He.
      * apply list_eqb_eq in He. subst k'.
        assert (str_cmp k k = Eq) by (apply str_cmp_eq; reflexivity). congruence.
      * apply IH.
Qed.

Lemma map_get_none {A} : forall (m : list (str * A)) n,
  (forall k v, In (k, v) m -> k <> n) -> map_get m n = None.
Proof.
  induction m as [|[k v] m IH]; intros n H; cbn [map_get]; [reflexivity|].
  destruct (str_eqb n k) eqn:He.
  - apply list_eqb_eq in He. exfalso. apply (H k v); [left; reflexivity|auto].
  - apply IH. intros k' v' Hin. apply (H k' v'). right. exact Hin.
Qed.

(* ------------------------------------------------------------------ *)
(* 1. fold_idx over an appended list                                   *)
(* ------------------------------------------------------------------ *)

Theorem fold_idx_app {A} (step : A -> nat -> rstate -> rres unit) : forall l1 l2 i s,
  fold_idx step (l1 ++ l2) i s =
  rbind (fold_idx step l1 i s) (fun _ s' => fold_idx step l2 (i + length l1) s').
Proof.
  induction l1 as [|x l1 IH]; intros l2 i s; cbn [app fold_idx length].
  - cbn [rbind]. rewrite Nat.add_0_r. reflexivity.
  - rewrite rbind_assoc. apply rbind_ext. intros _ s1. rewrite IH.
    apply rbind_ext. intros _ s2. f_equal. lia.
Qed.

Lemma fold_idx_ext {A} (step step' : A -> nat -> rstate -> rres unit) : forall l i s,
  (forall x j s', i <= j < i + length l -> step x j s' = step' x j s') ->
  fold_idx step l i s = fold_idx step' l i s.
Proof.
  induction l as [|x l IH]; intros i s H; cbn [fold_idx]; [reflexivity|].
  rewrite (H x i s) by (cbn [length]; lia).
  apply rbind_ext. intros _ s1. apply IH. intros y j s' Hj. apply H. cbn [length]. lia.
Qed.

Section Dispatch.
  Variable reg : registry.
  Variable data : json.
  Variable ft : ftable.

  (* ---------------------------------------------------------------- *)
  (* 2. one-step unfoldings of the mutual fixpoint (all by computation) *)
  (* ---------------------------------------------------------------- *)

  Lemma render_template_S f t s :
    render_template reg data ft (S f) t s =
    rbind (fold_idx (render_step reg data ft f t) (t_els t) 0 (set_current s (t_name t)))
          (restore_current s).
  Proof. reflexivity. Qed.

  (* a successful Template::render leaves the caller's template name in place *)
  Theorem render_template_restores_current f t s u s' :
    render_template reg data ft f t s = ROk u s' -> s_current s' = s_current s.
  Proof.
    destruct f as [|f]; [discriminate|]. rewrite render_template_S.
    destruct (fold_idx (render_step reg data ft f t) (t_els t) 0 (set_current s (t_name t)))
      as [u0 s1| | |]; cbn [rbind]; try discriminate.
    unfold restore_current. intros H; injection H as _ <-. reflexivity.
  Qed.

  Lemma render_element_S f e s :
    render_element reg data ft (S f) e s =
    match e with
    | ElRaw v => indent_aware_write v s
    | ElExpr ht => render_expression reg data ft f ht false s
    | ElHtml ht => render_expression reg data ft f ht true s
    | ElBlock ht => render_helper reg data ft f ht s
    | ElDecoExpr dt => eval_decorator reg data ft f dt s
    | ElDecoBlock dt => eval_decorator reg data ft f dt s
    | ElPartExpr dt => render_partial reg data ft f dt s
    | ElPartBlock dt => render_partial reg data ft f dt s
    | ElComment _ => ROk tt s
    end.
  Proof. reflexivity. Qed.

  Lemma expand_as_name_S f p s :
    expand_as_name reg data ft (S f) p s =
    match p with
    | PName n => ROk n s
    | PPath pa => ROk (path_raw pa) s
    | PSub _ => rbind (expand_param reg data ft f p s)
                      (fun v s1 => ROk (json_render ft (pj_value v)) s1)
    | PLit j => ROk (json_render ft j) s
    end.
  Proof. reflexivity. Qed.

  Lemma helper_from_template_S f ht s :
    helper_from_template reg data ft (S f) ht s =
    rbind (expand_as_name reg data ft f (h_name ht) s) (fun name s1 =>
    rbind (mapM (expand_param reg data ft f) (h_params ht) s1) (fun pv s2 =>
    rbind (mapM (fun kv s' => rbind (expand_param reg data ft f (snd kv) s')
                                     (fun v s'' => ROk (fst kv, v) s''))
                (h_hash ht) s2) (fun hm s3 =>
      ROk {| hv_name := name; hv_params := pv; hv_hash := hm; hv_tpl := h_tpl ht;
             hv_inv := h_inv ht; hv_bp := h_bp ht; hv_block := h_block ht |} s3))).
  Proof. reflexivity. Qed.

  (* ---------------------------------------------------------------- *)
  (* 3. render_helper: dispatch of calls with arguments and of blocks   *)
  (* ---------------------------------------------------------------- *)

  Theorem render_helper_dispatch f ht s :
    render_helper reg data ft (S f) ht s =
    rbind (helper_from_template reg data ft f ht s) (fun h s1 =>
      match resolve_helper reg s1 (hv_name h) (h_block ht) with
      | Some hid => call_indent_aware reg data ft f ht h hid s1
      | None => rfail (RHelperNotFound (hv_name h)) s1
      end).
  Proof.
    cbn [render_helper]. apply rbind_ext. intros h s1. unfold resolve_helper.
    destruct (find_local_helper s1 (hv_name h)); [reflexivity|].
    destruct (find_reg_helper reg (hv_name h)); [reflexivity|].
    destruct (find_reg_helper reg (if h_block ht then BLOCK_HELPER_MISSING else HELPER_MISSING));
      reflexivity.
  Qed.

  (* the four rows of the table, given the Helper value *)
  Theorem dispatch_local f ht s h s1 hid :
    helper_from_template reg data ft f ht s = ROk h s1 ->
    find_local_helper s1 (hv_name h) = Some hid ->
    render_helper reg data ft (S f) ht s = call_indent_aware reg data ft f ht h hid s1.
  Proof.
    intros Hh Hl. rewrite render_helper_dispatch, Hh. cbn [rbind]. unfold resolve_helper.
    rewrite Hl. reflexivity.
  Qed.

  Theorem dispatch_registry f ht s h s1 hid :
    helper_from_template reg data ft f ht s = ROk h s1 ->
    find_local_helper s1 (hv_name h) = None ->
    find_reg_helper reg (hv_name h) = Some hid ->
    render_helper reg data ft (S f) ht s = call_indent_aware reg data ft f ht h hid s1.
  Proof.
    intros Hh Hl Hr. rewrite render_helper_dispatch, Hh. cbn [rbind]. unfold resolve_helper.
    rewrite Hl, Hr. reflexivity.
  Qed.

  Theorem dispatch_hook f ht s h s1 hid :
    helper_from_template reg data ft f ht s = ROk h s1 ->
    find_local_helper s1 (hv_name h) = None ->
    find_reg_helper reg (hv_name h) = None ->
    find_reg_helper reg (if h_block ht then BLOCK_HELPER_MISSING else HELPER_MISSING) = Some hid ->
    render_helper reg data ft (S f) ht s = call_indent_aware reg data ft f ht h hid s1.
  Proof.
    intros Hh Hl Hr Hk. rewrite render_helper_dispatch, Hh. cbn [rbind]. unfold resolve_helper.
    rewrite Hl, Hr, Hk. reflexivity.
  Qed.

  Theorem dispatch_not_found f ht s h s1 :
    helper_from_template reg data ft f ht s = ROk h s1 ->
    find_local_helper s1 (hv_name h) = None ->
    find_reg_helper reg (hv_name h) = None ->
    find_reg_helper reg (if h_block ht then BLOCK_HELPER_MISSING else HELPER_MISSING) = None ->
    render_helper reg data ft (S f) ht s = RErr (mk_err (RHelperNotFound (hv_name h))) s1.
  Proof.
    intros Hh Hl Hr Hk. rewrite render_helper_dispatch, Hh. cbn [rbind]. unfold resolve_helper.
    rewrite Hl, Hr, Hk. reflexivity.
  Qed.

  (* the name under which the helper is looked up is the expanded tag name *)
  Theorem helper_value_name f ht s h s' :
    helper_from_template reg data ft (S f) ht s = ROk h s' ->
    exists s1, expand_as_name reg data ft f (h_name ht) s = ROk (hv_name h) s1.
  Proof.
    rewrite helper_from_template_S. intros H.
    destruct (expand_as_name reg data ft f (h_name ht) s) as [nm s1| | |]; cbn [rbind] in H;
      try discriminate.
    destruct (mapM (expand_param reg data ft f) (h_params ht) s1) as [pv s2| | |];
      cbn [rbind] in H; try discriminate.
    destruct (mapM _ (h_hash ht) s2) as [hm s3| | |]; cbn [rbind] in H; try discriminate.
    injection H as <- _. exists s1. reflexivity.
  Qed.

  (* a local helper shadows a registry helper of the same name: the registry
     is not consulted *)
  Theorem local_shadows_registry f ht s h s1 hid :
    helper_from_template reg data ft f ht s = ROk h s1 ->
    find_local_helper s1 (hv_name h) = Some hid ->
    forall block, resolve_helper reg s1 (hv_name h) block = Some hid.
  Proof. intros _ Hl block. unfold resolve_helper. rewrite Hl. reflexivity. Qed.

  (* ---------------------------------------------------------------- *)
  (* 4. render_expression                                               *)
  (* ---------------------------------------------------------------- *)

  Theorem render_expression_dispatch f ht html s :
    render_expression reg data ft (S f) ht html s =
    reset_escape html
      (if is_name_only ht then
         rbind (expand_as_name reg data ft f (h_name ht) (enter_escape html s)) (fun name s1 =>
           if helper_exists reg s1 name then render_helper reg data ft f ht s1
           else name_as_data reg data ft f ht s1)
       else render_helper reg data ft f ht (enter_escape html s)).
  Proof. reflexivity. Qed.

  Theorem dispatch_args f ht html s :
    is_name_only ht = false ->
    render_expression reg data ft (S f) ht html s =
    reset_escape html (render_helper reg data ft f ht (enter_escape html s)).
  Proof. intros H. rewrite render_expression_dispatch, H. reflexivity. Qed.

  Theorem dispatch_name_only_helper f ht html s name s1 :
    is_name_only ht = true ->
    expand_as_name reg data ft f (h_name ht) (enter_escape html s) = ROk name s1 ->
    helper_exists reg s1 name = true ->
    render_expression reg data ft (S f) ht html s =
    reset_escape html (render_helper reg data ft f ht s1).
  Proof.
    intros H Hn He. rewrite render_expression_dispatch, H, Hn. cbn [rbind]. rewrite He. reflexivity.
  Qed.

  Theorem dispatch_name_only_value f ht html s name s1 cj s2 :
    is_name_only ht = true ->
    expand_as_name reg data ft f (h_name ht) (enter_escape html s) = ROk name s1 ->
    helper_exists reg s1 name = false ->
    expand_param reg data ft f (h_name ht) s1 = ROk cj s2 ->
    sc_missing (pj_val cj) = false ->
    render_expression reg data ft (S f) ht html s =
    reset_escape html (write_value reg ft (pj_value cj) s2).
  Proof.
    intros H Hn He Hp Hm. rewrite render_expression_dispatch, H, Hn. cbn [rbind]. rewrite He.
    unfold name_as_data. rewrite Hp. cbn [rbind]. unfold finish_value. rewrite Hm. reflexivity.
  Qed.

  Theorem dispatch_name_only_missing_strict f ht html s name s1 cj s2 :
    is_name_only ht = true ->
    expand_as_name reg data ft f (h_name ht) (enter_escape html s) = ROk name s1 ->
    helper_exists reg s1 name = false ->
    expand_param reg data ft f (h_name ht) s1 = ROk cj s2 ->
    sc_missing (pj_val cj) = true ->
    r_strict reg = true ->
    render_expression reg data ft (S f) ht html s =
    RErr (mk_err (RMissingVariable (pj_rel cj))) (if html then set_disable_escape s2 false else s2).
  Proof.
    intros H Hn He Hp Hm Hs. rewrite render_expression_dispatch, H, Hn. cbn [rbind]. rewrite He.
    unfold name_as_data. rewrite Hp. cbn [rbind]. unfold finish_value. rewrite Hm, Hs. reflexivity.
  Qed.

  Theorem dispatch_name_only_missing_hook f ht html s name s1 cj s2 hook :
    is_name_only ht = true ->
    expand_as_name reg data ft f (h_name ht) (enter_escape html s) = ROk name s1 ->
    helper_exists reg s1 name = false ->
    expand_param reg data ft f (h_name ht) s1 = ROk cj s2 ->
    sc_missing (pj_val cj) = true ->
    r_strict reg = false ->
    find_reg_helper reg HELPER_MISSING = Some hook ->
    render_expression reg data ft (S f) ht html s =
    reset_escape html
      (rbind (helper_from_template reg data ft f ht s2)
             (fun h s3 => call_helper reg data ft f hook h s3)).
  Proof.
    intros H Hn He Hp Hm Hs Hk. rewrite render_expression_dispatch, H, Hn. cbn [rbind]. rewrite He.
    unfold name_as_data. rewrite Hp. cbn [rbind]. unfold finish_value. rewrite Hm, Hs, Hk.
    reflexivity.
  Qed.

  Theorem dispatch_name_only_missing_nothing f ht html s name s1 cj s2 :
    is_name_only ht = true ->
    expand_as_name reg data ft f (h_name ht) (enter_escape html s) = ROk name s1 ->
    helper_exists reg s1 name = false ->
    expand_param reg data ft f (h_name ht) s1 = ROk cj s2 ->
    sc_missing (pj_val cj) = true ->
    r_strict reg = false ->
    find_reg_helper reg HELPER_MISSING = None ->
    render_expression reg data ft (S f) ht html s =
    ROk tt (if html then set_disable_escape s2 false else s2).
  Proof.
    intros H Hn He Hp Hm Hs Hk. rewrite render_expression_dispatch, H, Hn. cbn [rbind]. rewrite He.
    unfold name_as_data. rewrite Hp. cbn [rbind]. unfold finish_value. rewrite Hm, Hs, Hk.
    reflexivity.
  Qed.

  Theorem helper_exists_iff s name :
    helper_exists reg s name = true <->
    (exists hid, find_local_helper s name = Some hid) \/
    (exists hid, find_reg_helper reg name = Some hid).
  Proof.
    unfold helper_exists. split.
    - destruct (find_local_helper s name) as [h|]; [eauto|].
      destruct (find_reg_helper reg name) as [h|]; [eauto|discriminate].
    - intros [(h & ->) | (h & ->)]; [reflexivity|].
      destruct (find_local_helper s name); reflexivity.
  Qed.

  Lemma helper_exists_enter html s name :
    helper_exists reg (enter_escape html s) name = helper_exists reg s name.
  Proof. destruct html; reflexivity. Qed.

  (* ---------------------------------------------------------------- *)
  (* 5. explicit paths: the helper name looked up is the raw spelling   *)
  (* ---------------------------------------------------------------- *)

  Theorem expand_param_path f p s :
    expand_param reg data ft (S f) (PPath p) s =
    match s_modified s with
    | Some c =>
        rbind (evaluate2 c p s) (fun r s1 =>
          ROk {| pj_rel := Some (path_raw p); pj_val := SDerived (sc_json r) |} s1)
    | None =>
        rbind (evaluate2 data p s) (fun r s1 =>
          ROk {| pj_rel := Some (path_raw p); pj_val := r |} s1)
    end.
  Proof. reflexivity. Qed.

  Theorem path_name_is_raw f ht html s p :
    is_name_only ht = true ->
    h_name ht = PPath p ->
    render_expression reg data ft (S (S f)) ht html s =
    reset_escape html
      (if helper_exists reg s (path_raw p)
       then render_helper reg data ft (S f) ht (enter_escape html s)
       else name_as_data reg data ft (S f) ht (enter_escape html s)).
  Proof.
    intros H Hp. rewrite render_expression_dispatch, H, Hp, expand_as_name_S. cbn [rbind].
    rewrite helper_exists_enter. reflexivity.
  Qed.

  Theorem explicit_path_is_data f ht html s p :
    is_name_only ht = true ->
    h_name ht = PPath p ->
    helper_exists reg s (path_raw p) = false ->
    render_expression reg data ft (S (S f)) ht html s =
    reset_escape html
      (rbind (expand_param reg data ft (S f) (PPath p) (enter_escape html s))
             (finish_value reg data ft (S f) ht)).
  Proof.
    intros H Hp He. rewrite (path_name_is_raw f ht html s p H Hp), He.
    unfold name_as_data. rewrite Hp. reflexivity.
  Qed.

  Lemma plain_differs k n : plain_name k = true -> plain_name n = false -> k <> n.
  Proof. intros Hk Hn ->. congruence. Qed.

  Theorem explicit_spelling_no_helper s raw :
    (forall k hid, In (k, hid) (r_helpers reg) -> plain_name k = true) ->
    (forall k hid, In (k, hid) (s_local_helpers s) -> plain_name k = true) ->
    plain_name raw = false ->
    helper_exists reg s raw = false.
  Proof.
    intros Hr Hl Hraw. unfold helper_exists, find_local_helper, find_reg_helper.
    rewrite (map_get_none (s_local_helpers s) raw).
    - rewrite (map_get_none (r_helpers reg) raw); [reflexivity|].
      intros k v Hin. exact (plain_differs k raw (Hr k v Hin) Hraw).
    - intros k v Hin. exact (plain_differs k raw (Hl k v Hin) Hraw).
  Qed.

  (* a bare name given as Parameter::Name (an identifier) never reads data *)
  Theorem bare_identifier_dispatch f ht html s n :
    is_name_only ht = true ->
    h_name ht = PName n ->
    render_expression reg data ft (S (S f)) ht html s =
    reset_escape html
      (if helper_exists reg s n then render_helper reg data ft (S f) ht (enter_escape html s)
       else if r_strict reg then rfail (RMissingVariable (Some n)) (enter_escape html s)
       else match find_reg_helper reg HELPER_MISSING with
            | Some hook =>
                rbind (helper_from_template reg data ft (S f) ht (enter_escape html s))
                      (fun h s3 => call_helper reg data ft (S f) hook h s3)
            | None => ROk tt (enter_escape html s)
            end).
  Proof.
    intros H Hp. rewrite render_expression_dispatch, H, Hp, expand_as_name_S. cbn [rbind].
    rewrite helper_exists_enter. unfold name_as_data. rewrite Hp. reflexivity.
  Qed.

  (* ---------------------------------------------------------------- *)
  (* 6. subexpressions                                                  *)
  (* ---------------------------------------------------------------- *)

  Theorem dispatch_subexpr f ht s :
    expand_param reg data ft (S f) (PSub (ElExpr ht)) s =
    rbind (expand_as_name reg data ft f (h_name ht) s) (fun name s1 =>
    rbind (helper_from_template reg data ft f ht s1) (fun h s2 =>
      match resolve_helper reg s2 name (h_block ht) with
      | Some hid => call_helper_for_value reg data ft f hid h s2
      | None => rfail (RHelperNotFound name) s2
      end)).
  Proof.
    cbn [expand_param]. apply rbind_ext. intros name s1. apply rbind_ext. intros h s2.
    unfold resolve_helper.
    destruct (find_local_helper s2 name); [reflexivity|].
    destruct (find_reg_helper reg name); [reflexivity|].
    destruct (find_reg_helper reg (if h_block ht then BLOCK_HELPER_MISSING else HELPER_MISSING));
      reflexivity.
  Qed.

  Theorem dispatch_subexpr_not_found f ht s name s1 h s2 :
    expand_as_name reg data ft f (h_name ht) s = ROk name s1 ->
    helper_from_template reg data ft f ht s1 = ROk h s2 ->
    resolve_helper reg s2 name (h_block ht) = None ->
    expand_param reg data ft (S f) (PSub (ElExpr ht)) s = RErr (mk_err (RHelperNotFound name)) s2.
  Proof.
    intros Hn Hh Hr. rewrite dispatch_subexpr, Hn. cbn [rbind]. rewrite Hh. cbn [rbind].
    rewrite Hr. reflexivity.
  Qed.

  Theorem dispatch_subexpr_found f ht s name s1 h s2 hid :
    expand_as_name reg data ft f (h_name ht) s = ROk name s1 ->
    helper_from_template reg data ft f ht s1 = ROk h s2 ->
    resolve_helper reg s2 name (h_block ht) = Some hid ->
    expand_param reg data ft (S f) (PSub (ElExpr ht)) s =
    call_helper_for_value reg data ft f hid h s2.
  Proof.
    intros Hn Hh Hr. rewrite dispatch_subexpr, Hn. cbn [rbind]. rewrite Hh. cbn [rbind].
    rewrite Hr. reflexivity.
  Qed.

  (* the resolution order, as a table *)
  Theorem resolve_helper_table s name block :
    resolve_helper reg s name block =
    match find_local_helper s name, find_reg_helper reg name,
          find_reg_helper reg (if block then BLOCK_HELPER_MISSING else HELPER_MISSING) with
    | Some l, _, _ => Some l
    | None, Some r, _ => Some r
    | None, None, Some k => Some k
    | None, None, None => None
    end.
  Proof.
    unfold resolve_helper. destruct (find_local_helper s name); [reflexivity|].
    destruct (find_reg_helper reg name); [reflexivity|].
    destruct (find_reg_helper reg _); reflexivity.
  Qed.

  (* ---------------------------------------------------------------- *)
  (* 7. decorators                                                      *)
  (* ---------------------------------------------------------------- *)

  Theorem decorator_dispatch f dt s :
    eval_decorator reg data ft (S f) dt s =
    rbind (deco_from_template reg data ft f dt s) (fun d s1 =>
      match map_get (r_decorators reg) (dv_name d) with
      | Some did => apply_decorator did d s1
      | None => rfail (RDecoratorNotFound (dv_name d)) s1
      end).
  Proof.
    cbn [eval_decorator]. apply rbind_ext. intros d s1.
    destruct (map_get (r_decorators reg) (dv_name d)) as [[| |]|]; reflexivity.
  Qed.

  Theorem decorator_not_found f dt s d s1 :
    deco_from_template reg data ft f dt s = ROk d s1 ->
    map_get (r_decorators reg) (dv_name d) = None ->
    eval_decorator reg data ft (S f) dt s = RErr (mk_err (RDecoratorNotFound (dv_name d))) s1.
  Proof. intros Hd Hm. rewrite decorator_dispatch, Hd. cbn [rbind]. rewrite Hm. reflexivity. Qed.

  Theorem decorator_found f dt s d s1 did :
    deco_from_template reg data ft f dt s = ROk d s1 ->
    map_get (r_decorators reg) (dv_name d) = Some did ->
    eval_decorator reg data ft (S f) dt s = apply_decorator did d s1.
  Proof. intros Hd Hm. rewrite decorator_dispatch, Hd. cbn [rbind]. rewrite Hm. reflexivity. Qed.

  (* a decorator that registers a local helper: afterwards that name resolves
     to the local helper, whatever the registry holds *)
  Theorem sethelper_then_local d s1 p rest name :
    dv_params d = p :: rest -> pj_value p = JStr name ->
    exists s', apply_decorator DSetHelper d s1 = ROk tt s' /\
      s' = set_local_helpers s1 (map_insert (s_local_helpers s1) name (HLocal (sethelper_tag d name))) /\
      find_local_helper s' name = Some (HLocal (sethelper_tag d name)) /\
      (forall block, resolve_helper reg s' name block = Some (HLocal (sethelper_tag d name))) /\
      helper_exists reg s' name = true.
  Proof.
    intros Hp Hv. eexists. split.
    - unfold apply_decorator. rewrite Hp, Hv. reflexivity.
    - split; [reflexivity|].
      assert (Hf : find_local_helper
                     (set_local_helpers s1 (map_insert (s_local_helpers s1) name (HLocal (sethelper_tag d name)))) name
                   = Some (HLocal (sethelper_tag d name))).
      { unfold find_local_helper. cbn [s_local_helpers set_local_helpers].
        apply map_get_insert_same. }
      split; [exact Hf|]. split.
      + intros block. unfold resolve_helper. rewrite Hf. reflexivity.
      + unfold helper_exists. rewrite Hf. reflexivity.
  Qed.

  (* a decorator that replaces the context: afterwards paths evaluate against it *)
  Theorem setctx_effect d s1 p rest :
    dv_params d = p :: rest ->
    apply_decorator DSetCtx d s1 = ROk tt (set_modified s1 (Some (pj_value p))) /\
    s_modified (set_modified s1 (Some (pj_value p))) = Some (pj_value p).
  Proof. intros Hp. unfold apply_decorator. rewrite Hp. split; reflexivity. Qed.

  Theorem setctx_forward f p s c :
    s_modified s = Some c ->
    expand_param reg data ft (S f) (PPath p) s =
    rbind (evaluate2 c p s) (fun r s1 =>
      ROk {| pj_rel := Some (path_raw p); pj_val := SDerived (sc_json r) |} s1).
  Proof. intros Hm. rewrite expand_param_path, Hm. reflexivity. Qed.

  Theorem no_setctx_reads_data f p s :
    s_modified s = None ->
    expand_param reg data ft (S f) (PPath p) s =
    rbind (evaluate2 data p s) (fun r s1 =>
      ROk {| pj_rel := Some (path_raw p); pj_val := r |} s1).
  Proof. intros Hm. rewrite expand_param_path, Hm. reflexivity. Qed.

  (* inline partial registration *)
  Theorem inline_effect d s1 p rest name t :
    dv_params d = p :: rest -> pj_value p = JStr name -> dv_tpl d = Some t ->
    apply_decorator DInline d s1 = ROk tt (set_partials s1 (map_insert (s_partials s1) name t)) /\
    map_get (s_partials (set_partials s1 (map_insert (s_partials s1) name t))) name = Some t.
  Proof.
    intros Hp Hv Ht. unfold apply_decorator. rewrite Hp, Hv, Ht. split; [reflexivity|].
    cbn [s_partials set_partials]. apply map_get_insert_same.
  Qed.

  (* ---------------------------------------------------------------- *)
  (* 8. effects apply forward only                                      *)
  (* ---------------------------------------------------------------- *)

  Theorem render_template_app f t s A B :
    t_els t = A ++ B ->
    render_template reg data ft (S f) t s =
    rbind (fold_idx (render_step reg data ft f t) A 0 (set_current s (t_name t)))
          (fun _ s' => rbind (fold_idx (render_step reg data ft f t) B (length A) s')
                             (restore_current s)).
  Proof. intros He. rewrite render_template_S, He, fold_idx_app, rbind_assoc. reflexivity. Qed.

  Lemma attach_render_agree t1 t2 idx e :
    t_name t1 = t_name t2 -> nth_error (t_map t1) idx = nth_error (t_map t2) idx ->
    attach_render t1 idx e = attach_render t2 idx e.
  Proof. intros Hn Hm. unfold attach_render, attach_pos. rewrite Hn, Hm. reflexivity. Qed.

  (* rendering the prefix A does not depend on what follows A in the template *)
  Theorem prefix_independent f t1 t2 A s0 :
    t_name t1 = t_name t2 ->
    (forall i, i < length A -> nth_error (t_map t1) i = nth_error (t_map t2) i) ->
    fold_idx (render_step reg data ft f t1) A 0 s0 = fold_idx (render_step reg data ft f t2) A 0 s0.
  Proof.
    intros Hn Hm. apply fold_idx_ext. intros x j s' Hj. unfold render_step.
    apply rmap_err_ext. intros e. apply attach_render_agree; [exact Hn|apply Hm; lia].
  Qed.

  Theorem decorator_effects_forward f t1 t2 A R1 R2 s :
    t_els t1 = A ++ R1 -> t_els t2 = A ++ R2 ->
    t_name t1 = t_name t2 ->
    (forall i, i < length A -> nth_error (t_map t1) i = nth_error (t_map t2) i) ->
    exists P : rres unit,
      P = fold_idx (render_step reg data ft f t1) A 0 (set_current s (t_name t1)) /\
      render_template reg data ft (S f) t1 s =
        rbind P (fun _ s' => rbind (fold_idx (render_step reg data ft f t1) R1 (length A) s')
                                   (restore_current s)) /\
      render_template reg data ft (S f) t2 s =
        rbind P (fun _ s' => rbind (fold_idx (render_step reg data ft f t2) R2 (length A) s')
                                   (restore_current s)).
  Proof.
    intros H1 H2 Hn Hm. eexists. split; [reflexivity|]. split.
    - apply render_template_app. exact H1.
    - rewrite (render_template_app f t2 s A R2 H2).
      rewrite <- (prefix_independent f t1 t2 A _ Hn Hm). rewrite Hn. reflexivity.
  Qed.

  (* in particular: with or without a decorator after A, the state (output
     chunks included) after A is the same, and a failure inside A is the same
     failure *)
  Corollary decorator_after_prefix f nm A dt B m1 m2 s :
    (forall i, i < length A -> nth_error m1 i = nth_error m2 i) ->
    let P := fold_idx (render_step reg data ft f (MkT nm (A ++ ElDecoExpr dt :: B) m1)) A 0
                      (set_current s nm) in
    render_template reg data ft (S f) (MkT nm (A ++ ElDecoExpr dt :: B) m1) s =
      rbind P (fun _ sA =>
        rbind (render_step reg data ft f (MkT nm (A ++ ElDecoExpr dt :: B) m1) (ElDecoExpr dt)
                           (length A) sA)
              (fun _ sD =>
                 rbind (fold_idx (render_step reg data ft f (MkT nm (A ++ ElDecoExpr dt :: B) m1))
                                 B (S (length A)) sD)
                       (restore_current s))) /\
    render_template reg data ft (S f) (MkT nm (A ++ B) m2) s =
      rbind P (fun _ sA => rbind (fold_idx (render_step reg data ft f (MkT nm (A ++ B) m2)) B (length A) sA)
                                 (restore_current s)).
  Proof.
    intros Hm P. split.
    - rewrite (render_template_app f (MkT nm (A ++ ElDecoExpr dt :: B) m1) s A (ElDecoExpr dt :: B) eq_refl).
      apply rbind_ext. intros _ sA. cbn [fold_idx]. rewrite rbind_assoc. reflexivity.
    - rewrite (render_template_app f (MkT nm (A ++ B) m2) s A B eq_refl). unfold P.
      rewrite (prefix_independent f (MkT nm (A ++ ElDecoExpr dt :: B) m1) (MkT nm (A ++ B) m2) A
                 (set_current s nm) eq_refl Hm).
      reflexivity.
  Qed.

  (* written-out forms (no resolve_helper) *)
  Theorem render_helper_table f ht s :
    render_helper reg data ft (S f) ht s =
    rbind (helper_from_template reg data ft f ht s) (fun h s1 =>
      match find_local_helper s1 (hv_name h) with
      | Some hid => call_indent_aware reg data ft f ht h hid s1
      | None =>
          match find_reg_helper reg (hv_name h) with
          | Some hid => call_indent_aware reg data ft f ht h hid s1
          | None =>
              match find_reg_helper reg (if h_block ht then BLOCK_HELPER_MISSING else HELPER_MISSING) with
              | Some hid => call_indent_aware reg data ft f ht h hid s1
              | None => RErr (mk_err (RHelperNotFound (hv_name h))) s1
              end
          end
      end).
  Proof.
    rewrite render_helper_dispatch. apply rbind_ext. intros h s1. unfold resolve_helper.
    destruct (find_local_helper s1 (hv_name h)); [reflexivity|].
    destruct (find_reg_helper reg (hv_name h)); [reflexivity|].
    destruct (find_reg_helper reg _); reflexivity.
  Qed.

  Theorem dispatch_subexpr_table f ht s :
    expand_param reg data ft (S f) (PSub (ElExpr ht)) s =
    rbind (expand_as_name reg data ft f (h_name ht) s) (fun name s1 =>
    rbind (helper_from_template reg data ft f ht s1) (fun h s2 =>
      match find_local_helper s2 name with
      | Some hid => call_helper_for_value reg data ft f hid h s2
      | None =>
          match find_reg_helper reg name with
          | Some hid => call_helper_for_value reg data ft f hid h s2
          | None =>
              match find_reg_helper reg (if h_block ht then BLOCK_HELPER_MISSING else HELPER_MISSING) with
              | Some hid => call_helper_for_value reg data ft f hid h s2
              | None => RErr (mk_err (RHelperNotFound name)) s2
              end
          end
      end)).
  Proof. reflexivity. Qed.

  Theorem local_shadows_registry_full f ht s h s1 hid :
    helper_from_template reg data ft f ht s = ROk h s1 ->
    find_local_helper s1 (hv_name h) = Some hid ->
    render_helper reg data ft (S f) ht s = call_indent_aware reg data ft f ht h hid s1 /\
    forall block, resolve_helper reg s1 (hv_name h) block = Some hid.
  Proof.
    intros Hh Hl. split.
    - exact (dispatch_local f ht s h s1 hid Hh Hl).
    - exact (local_shadows_registry f ht s h s1 hid Hh Hl).
  Qed.

End Dispatch.

(* ------------------------------------------------------------------ *)
(* 9. the explicit spellings are never plain names                     *)
(* ------------------------------------------------------------------ *)

Theorem explicit_spellings_not_plain : forall n : str,
  plain_name (`"./" ++ n) = false /\
  plain_name (`"this." ++ n) = false /\
  plain_name (`"[" ++ n ++ `"]") = false /\
  plain_name (`"this/" ++ n) = false /\
  plain_name (`"../" ++ n) = false.
Proof. intros n. repeat split; reflexivity. Qed.

(* every built-in helper name is plain, and so are the hook names *)
Theorem builtin_names_plain :
  forallb plain_name (map fst builtin_helpers) = true /\
  plain_name HELPER_MISSING = true /\ plain_name BLOCK_HELPER_MISSING = true.
Proof. repeat split; vm_compute; reflexivity. Qed.

Lemma builtin_plain k hid : In (k, hid) (r_helpers reg_new) -> plain_name k = true.
Proof.
  intros Hin. destruct builtin_names_plain as (Hb & _).
  rewrite forallb_forall in Hb. apply Hb. change k with (fst (k, hid)). apply in_map. exact Hin.
Qed.

(* with the default registry and no local helpers an explicit spelling is
   never a helper call *)
Corollary explicit_spelling_default_registry : forall s n raw,
  s_local_helpers s = [] ->
  In raw [`"./" ++ n; `"this." ++ n; `"[" ++ n ++ `"]"; `"this/" ++ n] ->
  helper_exists reg_new s raw = false.
Proof.
  intros s n raw Hl Hin. apply explicit_spelling_no_helper.
  - exact builtin_plain.
  - rewrite Hl. intros k hid [].
  - destruct (explicit_spellings_not_plain n) as (H1 & H2 & H3 & H4 & _).
    cbn [In] in Hin. destruct Hin as [<-|[<-|[<-|[<-|[]]]]]; assumption.
Qed.

(* ------------------------------------------------------------------ *)
(* 10. the hypotheses of the theorems above are satisfiable             *)
(* ------------------------------------------------------------------ *)

Definition regP : registry := add_helpers reg_new probe_helpers.
Definition regH : registry :=
  add_helpers regP [(`"helperMissing", HHelperMissing); (`"blockHelperMissing", HBlockHelperMissing)].
Definition regD (r : registry) : registry :=
  reg_set_helpers r (r_helpers r)
    [(`"inline", DInline); (`"setctx", DSetCtx); (`"sethelper", DSetHelper)].
Definition strictly (r : registry) : registry := set_strict_mode r true.
Definition s0 : rstate := st_init None None None.
Definition s_loc : rstate := set_local_helpers s0 [(`"dump", HLocal (`"dump"))].
Definition dataN : json := JObj [(`"n", JStr (`"v"))].
Definition call_t (n : string) : helper_t :=
  MkH (PName (`n)) [PLit (JNum (PosInt 1))] [] None None None false false false.
Definition block_t (n : string) : helper_t :=
  MkH (PName (`n)) [] [] None (Some t_empty) None true false false.
Definition bare_t (raw : string) (field : string) : helper_t :=
  MkH (PPath (PathRelative [SegNamed (`field)] (`raw))) [] [] None None None false false false.
Definition deco_t_ (n : string) (arg : json) : deco_t := MkD (PName (`n)) [PLit arg] [] None None false.

Ltac ex_compute := repeat eexists; repeat split; vm_compute; reflexivity.

Example ex_dispatch_local : exists h s1 hid,
  helper_from_template regP dataN [] 3 (call_t "dump") s_loc = ROk h s1 /\
  find_local_helper s1 (hv_name h) = Some hid /\
  find_reg_helper regP (hv_name h) = Some HDump /\ hid = HLocal (`"dump").
Proof. ex_compute. Qed.

Example ex_dispatch_registry : exists h s1,
  helper_from_template regP dataN [] 3 (call_t "dump") s0 = ROk h s1 /\
  find_local_helper s1 (hv_name h) = None /\
  find_reg_helper regP (hv_name h) = Some HDump.
Proof. ex_compute. Qed.

Example ex_dispatch_hook : exists h s1,
  helper_from_template regH dataN [] 3 (call_t "nope") s0 = ROk h s1 /\
  find_local_helper s1 (hv_name h) = None /\
  find_reg_helper regH (hv_name h) = None /\
  find_reg_helper regH (if h_block (call_t "nope") then BLOCK_HELPER_MISSING else HELPER_MISSING)
  = Some HHelperMissing.
Proof. ex_compute. Qed.

Example ex_dispatch_block_hook : exists h s1,
  helper_from_template regH dataN [] 3 (block_t "nope") s0 = ROk h s1 /\
  find_local_helper s1 (hv_name h) = None /\
  find_reg_helper regH (hv_name h) = None /\
  find_reg_helper regH (if h_block (block_t "nope") then BLOCK_HELPER_MISSING else HELPER_MISSING)
  = Some HBlockHelperMissing.
Proof. ex_compute. Qed.

Example ex_dispatch_not_found : exists h s1,
  helper_from_template regP dataN [] 3 (call_t "nope") s0 = ROk h s1 /\
  find_local_helper s1 (hv_name h) = None /\
  find_reg_helper regP (hv_name h) = None /\
  find_reg_helper regP (if h_block (call_t "nope") then BLOCK_HELPER_MISSING else HELPER_MISSING) = None /\
  render_helper regP dataN [] 4 (call_t "nope") s0 = RErr (mk_err (RHelperNotFound (`"nope"))) s1.
Proof. ex_compute. Qed.

Example ex_helper_value_name : exists h s',
  helper_from_template regP dataN [] 3 (call_t "dump") s0 = ROk h s' /\ hv_name h = `"dump".
Proof. ex_compute. Qed.

Example ex_dispatch_args : is_name_only (call_t "dump") = false.
Proof. reflexivity. Qed.

(* helper before field: the data has a field `dump` too *)
Example ex_name_only_helper : exists name s1,
  is_name_only (bare_t "dump" "dump") = true /\
  expand_as_name regP (JObj [(`"dump", JStr (`"field"))]) [] 3 (h_name (bare_t "dump" "dump"))
                 (enter_escape false s0) = ROk name s1 /\
  helper_exists regP s1 name = true.
Proof. ex_compute. Qed.

Example ex_name_only_value : exists name s1 cj s2,
  is_name_only (bare_t "n" "n") = true /\
  expand_as_name regP dataN [] 3 (h_name (bare_t "n" "n")) (enter_escape false s0) = ROk name s1 /\
  helper_exists regP s1 name = false /\
  expand_param regP dataN [] 3 (h_name (bare_t "n" "n")) s1 = ROk cj s2 /\
  sc_missing (pj_val cj) = false /\ pj_value cj = JStr (`"v").
Proof. ex_compute. Qed.

Example ex_name_only_missing_strict : exists name s1 cj s2,
  is_name_only (bare_t "zz" "zz") = true /\
  expand_as_name (strictly regP) dataN [] 3 (h_name (bare_t "zz" "zz")) (enter_escape false s0)
  = ROk name s1 /\
  helper_exists (strictly regP) s1 name = false /\
  expand_param (strictly regP) dataN [] 3 (h_name (bare_t "zz" "zz")) s1 = ROk cj s2 /\
  sc_missing (pj_val cj) = true /\ r_strict (strictly regP) = true /\
  render_expression (strictly regP) dataN [] 4 (bare_t "zz" "zz") false s0
  = RErr (mk_err (RMissingVariable (Some (`"zz")))) s2.
Proof. ex_compute. Qed.

Example ex_name_only_missing_hook : exists name s1 cj s2,
  is_name_only (bare_t "zz" "zz") = true /\
  expand_as_name regH dataN [] 3 (h_name (bare_t "zz" "zz")) (enter_escape false s0) = ROk name s1 /\
  helper_exists regH s1 name = false /\
  expand_param regH dataN [] 3 (h_name (bare_t "zz" "zz")) s1 = ROk cj s2 /\
  sc_missing (pj_val cj) = true /\ r_strict regH = false /\
  find_reg_helper regH HELPER_MISSING = Some HHelperMissing.
Proof. ex_compute. Qed.

Example ex_name_only_missing_nothing : exists name s1 cj s2,
  is_name_only (bare_t "zz" "zz") = true /\
  expand_as_name regP dataN [] 3 (h_name (bare_t "zz" "zz")) (enter_escape true s0) = ROk name s1 /\
  helper_exists regP s1 name = false /\
  expand_param regP dataN [] 3 (h_name (bare_t "zz" "zz")) s1 = ROk cj s2 /\
  sc_missing (pj_val cj) = true /\ r_strict regP = false /\
  find_reg_helper regP HELPER_MISSING = None /\
  render_expression regP dataN [] 4 (bare_t "zz" "zz") true s0 = ROk tt s0.
Proof. ex_compute. Qed.

(* explicit spellings: what compile produces, and that they are data *)
Definition copts0 : copts := {| o_prevent_indent := false; o_is_partial := false; o_name := None |}.
Example ex_explicit_spellings_compile :
  compile2 (`"{{./n}}") copts0 = COk (MkT None [ElExpr (bare_t "./n" "n")] [(1, 1)%N]) /\
  compile2 (`"{{this.n}}") copts0 = COk (MkT None [ElExpr (bare_t "this.n" "n")] [(1, 1)%N]) /\
  compile2 (`"{{[n]}}") copts0 = COk (MkT None [ElExpr (bare_t "[n]" "n")] [(1, 1)%N]) /\
  compile2 (`"{{this/n}}") copts0 = COk (MkT None [ElExpr (bare_t "this/n" "n")] [(1, 1)%N]) /\
  compile2 (`"{{n}}") copts0 = COk (MkT None [ElExpr (bare_t "n" "n")] [(1, 1)%N]).
Proof. repeat split; vm_compute; reflexivity. Qed.

(* even with a registered helper called `n`, `{{./n}}` reads the field while
   `{{n}}` calls the helper *)
Definition regN : registry := add_helpers regP [(`"n", HDump)].
Example ex_explicit_path_is_data :
  is_name_only (bare_t "./n" "n") = true /\
  helper_exists regN s0 (`"./n") = false /\
  helper_exists regN s0 (`"n") = true /\
  (exists s', render_expression regN dataN [] 5 (bare_t "./n" "n") false s0 = ROk tt s' /\
              out_text (s_out s') = `"v" /\ s_log s' = []) /\
  (exists s', render_expression regN dataN [] 5 (bare_t "n" "n") false s0 = ROk tt s' /\
              s_log s' <> []).
Proof.
  split; [reflexivity|]. split; [vm_compute; reflexivity|]. split; [vm_compute; reflexivity|]. split.
  - eexists. split; [vm_compute; reflexivity|]. split; vm_compute; reflexivity.
  - eexists. split; [vm_compute; reflexivity|]. vm_compute. discriminate.
Qed.

Example ex_explicit_spelling_no_helper :
  (forall k hid, In (k, hid) (r_helpers reg_new) -> plain_name k = true) /\
  (forall k hid, In (k, hid) (s_local_helpers s0) -> plain_name k = true) /\
  plain_name (`"this.n") = false.
Proof. split; [exact builtin_plain|]. split; [intros k hid []|reflexivity]. Qed.

Example ex_bare_identifier : 
  is_name_only (MkH (PName (`"zz")) [] [] None None None false false false) = true.
Proof. reflexivity. Qed.

Definition sub_t (n : string) : helper_t :=
  MkH (PName (`n)) [PLit (JNum (PosInt 1)); PLit (JNum (PosInt 1))] [] None None None false false false.

Example ex_subexpr_found : exists name s1 h s2,
  expand_as_name regP dataN [] 3 (h_name (sub_t "eq")) s0 = ROk name s1 /\
  helper_from_template regP dataN [] 3 (sub_t "eq") s1 = ROk h s2 /\
  resolve_helper regP s2 name (h_block (sub_t "eq")) = Some HEq /\
  expand_param regP dataN [] 4 (PSub (ElExpr (sub_t "eq"))) s0
  = ROk {| pj_rel := None; pj_val := SDerived (JBool true) |} s2.
Proof. ex_compute. Qed.

Example ex_subexpr_not_found : exists name s1 h s2,
  expand_as_name regP dataN [] 3 (h_name (sub_t "nope")) s0 = ROk name s1 /\
  helper_from_template regP dataN [] 3 (sub_t "nope") s1 = ROk h s2 /\
  resolve_helper regP s2 name (h_block (sub_t "nope")) = None.
Proof. ex_compute. Qed.

Example ex_subexpr_local_first : exists name s1 h s2,
  expand_as_name regP dataN [] 3 (h_name (sub_t "dump")) s_loc = ROk name s1 /\
  helper_from_template regP dataN [] 3 (sub_t "dump") s1 = ROk h s2 /\
  find_reg_helper regP name = Some HDump /\
  resolve_helper regP s2 name (h_block (sub_t "dump")) = Some (HLocal (`"dump")).
Proof. ex_compute. Qed.

Example ex_decorator_not_found : exists d s1,
  deco_from_template regP dataN [] 3 (deco_t_ "nope" JNull) s0 = ROk d s1 /\
  map_get (r_decorators regP) (dv_name d) = None /\
  eval_decorator regP dataN [] 4 (deco_t_ "nope" JNull) s0
  = RErr (mk_err (RDecoratorNotFound (`"nope"))) s1.
Proof. ex_compute. Qed.

Example ex_decorator_found : exists d s1,
  deco_from_template (regD regP) dataN [] 3 (deco_t_ "sethelper" (JStr (`"x"))) s0 = ROk d s1 /\
  map_get (r_decorators (regD regP)) (dv_name d) = Some DSetHelper /\
  (exists p rest, dv_params d = p :: rest /\ pj_value p = JStr (`"x")).
Proof. ex_compute. Qed.

Example ex_setctx : exists d s1,
  deco_from_template (regD regP) dataN [] 3 (deco_t_ "setctx" (JObj [(`"n", JStr (`"new"))])) s0
  = ROk d s1 /\
  map_get (r_decorators (regD regP)) (dv_name d) = Some DSetCtx /\
  (exists p rest, dv_params d = p :: rest) /\
  (* ... and afterwards {{n}} reads the new context *)
  exists s2 s3,
    eval_decorator (regD regP) dataN [] 4 (deco_t_ "setctx" (JObj [(`"n", JStr (`"new"))])) s0
    = ROk tt s2 /\
    s_modified s2 = Some (JObj [(`"n", JStr (`"new"))]) /\
    render_expression (regD regP) dataN [] 5 (bare_t "n" "n") false s2 = ROk tt s3 /\
    out_text (s_out s3) = `"new".
Proof. ex_compute. Qed.

Example ex_inline : exists (d : deco_v) p rest name t,
  d = {| dv_name := `"inline"; dv_params := [{| pj_rel := None; pj_val := SConstant (JStr (`"p")) |}];
         dv_hash := []; dv_tpl := Some t_empty; dv_indent := None |} /\
  dv_params d = p :: rest /\ pj_value p = JStr name /\ dv_tpl d = Some t.
Proof. ex_compute. Qed.

(* decorator_effects_forward on a concrete template: "a" then a setctx
   decorator then {{n}}, against the same template without the decorator *)
Definition tA : list element := [ElRaw (`"a"); ElExpr (bare_t "n" "n")].
Definition tDeco : template :=
  MkT None (tA ++ [ElDecoExpr (deco_t_ "setctx" (JObj [(`"n", JStr (`"new"))]));
                   ElExpr (bare_t "n" "n")]) [(1,1); (1,2); (1,7); (1,30)]%N.
Definition tPlain : template := MkT None (tA ++ [ElExpr (bare_t "n" "n")]) [(1,1); (1,2); (1,7)]%N.

Example ex_effects_forward :
  t_name tDeco = t_name tPlain /\
  (forall i, i < length tA -> nth_error (t_map tDeco) i = nth_error (t_map tPlain) i) /\
  (exists s', render_template (regD regP) dataN [] 9 tDeco s0 = ROk tt s' /\
              out_text (s_out s') = `"avnew") /\
  (exists s', render_template (regD regP) dataN [] 9 tPlain s0 = ROk tt s' /\
              out_text (s_out s') = `"avv").
Proof.
  split; [reflexivity|]. split.
  - intros i Hi. destruct i as [|[|i]]; [reflexivity|reflexivity|cbn in Hi; lia].
  - split; eexists; (split; [vm_compute; reflexivity|vm_compute; reflexivity]).
Qed.
