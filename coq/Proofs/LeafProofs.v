(* Proofs/LeafProofs.v — the leaf-function theorems of properties C02, C06,
   C11, C12 (one file per topic, gathered here). *)
From HB Require Export Spec.EscapeSpec Spec.WriterSpec.
From HB Require Export Proofs.LeafTruthy Proofs.LeafStr Proofs.LeafEscape Proofs.LeafWriter.
