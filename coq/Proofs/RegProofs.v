(* Proofs/RegProofs.v — registry-level theorems (C17, C16, C04 last sentence,
   C05 last sentence) over Reg/RegOps.v. *)
From Coq Require Import Lia List Bool NArith Permutation.
From HB Require Import Reg.RegOps Spec.RegistryMap.
Import ListNotations.
Open Scope N_scope.

(* ================================================================== *)
(* 1. strings: equality and order                                      *)
(* ================================================================== *)

Lemma str_eqb_refl a : str_eqb a a = true.
Proof.
  unfold str_eqb. induction a as [|x a IH]; cbn [list_eqb]; [reflexivity|].
  rewrite N.eqb_refl, IH. reflexivity.
Qed.

Lemma str_eqb_eq a b : str_eqb a b = true <-> a = b.
Proof.
  split; [|intros ->; apply str_eqb_refl].
  unfold str_eqb. revert b. induction a as [|x a IH]; intros [|y b] H; cbn [list_eqb] in H;
    try discriminate; [reflexivity|].
  apply andb_true_iff in H as [H1 H2]. apply N.eqb_eq in H1. subst. f_equal. apply IH, H2.
Qed.

Lemma str_eqb_neq a b : str_eqb a b = false <-> a <> b.
Proof.
  split.
  - intros H E. apply str_eqb_eq in E. congruence.
  - intros H. destruct (str_eqb a b) eqn:E; [|reflexivity]. apply str_eqb_eq in E. contradiction.
Qed.

Lemma str_eqb_sym a b : str_eqb a b = str_eqb b a.
Proof.
  destruct (str_eqb a b) eqn:E.
  - apply str_eqb_eq in E. subst. symmetry. apply str_eqb_refl.
  - symmetry. apply str_eqb_neq. apply str_eqb_neq in E. congruence.
Qed.

Lemma str_cmp_eq a b : str_cmp a b = Eq <-> a = b.
Proof.
  revert b. induction a as [|x a IH]; intros [|y b]; cbn [str_cmp]; split; intros H;
    try discriminate; try reflexivity.
  - destruct (N.compare x y) eqn:C; try discriminate. apply N.compare_eq_iff in C. subst.
    f_equal. apply IH, H.
  - injection H as -> ->. rewrite N.compare_refl. apply IH. reflexivity.
Qed.

Lemma str_cmp_refl a : str_cmp a a = Eq.
Proof. apply str_cmp_eq. reflexivity. Qed.

Lemma str_cmp_antisym a b : str_cmp a b = CompOpp (str_cmp b a).
Proof.
  revert b. induction a as [|x a IH]; intros [|y b]; cbn [str_cmp]; try reflexivity.
  rewrite (N.compare_antisym y x). destruct (N.compare y x); cbn [CompOpp]; auto.
Qed.

Lemma str_cmp_gt_lt a b : str_cmp a b = Gt <-> str_cmp b a = Lt.
Proof.
  rewrite (str_cmp_antisym a b). destruct (str_cmp b a); cbn [CompOpp]; split; congruence.
Qed.

Lemma str_cmp_lt_trans a b c : str_cmp a b = Lt -> str_cmp b c = Lt -> str_cmp a c = Lt.
Proof.
  revert b c. induction a as [|x a IH]; intros [|y b] [|z c]; cbn [str_cmp]; intros H1 H2;
    try discriminate; try reflexivity.
  destruct (N.compare x y) eqn:C1; try discriminate;
    destruct (N.compare y z) eqn:C2; try discriminate.
  - apply N.compare_eq_iff in C1, C2. subst. rewrite N.compare_refl. eapply IH; eauto.
  - apply N.compare_eq_iff in C1. subst. rewrite C2. reflexivity.
  - apply N.compare_eq_iff in C2. subst. rewrite C1. reflexivity.
  - rewrite N.compare_lt_iff in C1, C2. assert (Hxz : (x < z)%N) by lia.
    apply N.compare_lt_iff in Hxz. rewrite Hxz. reflexivity.
Qed.

Lemma str_cmp_lt_neq a b : str_cmp a b = Lt -> str_eqb a b = false.
Proof.
  intros H. apply str_eqb_neq. intros ->. rewrite str_cmp_refl in H. discriminate.
Qed.

Lemma str_cmp_gt_neq a b : str_cmp a b = Gt -> str_eqb a b = false.
Proof.
  intros H. apply str_eqb_neq. intros ->. rewrite str_cmp_refl in H. discriminate.
Qed.

(* ================================================================== *)
(* 2. finite-map laws of the sorted association lists                  *)
(* ================================================================== *)
Section MapLaws.
  Context {A : Type}.
  Implicit Types m : list (str * A).

  Lemma map_get_insert m k v k' :
    map_get (map_insert m k v) k' = if str_eqb k' k then Some v else map_get m k'.
  Proof.
    induction m as [|[k0 v0] r IH]; cbn [map_insert map_get].
    - reflexivity.
    - destruct (str_cmp k k0) eqn:C; cbn [map_get].
      + apply str_cmp_eq in C. subst k0. destruct (str_eqb k' k); reflexivity.
      + reflexivity.
      + rewrite IH. destruct (str_eqb k' k0) eqn:E0; [|reflexivity].
        destruct (str_eqb k' k) eqn:E; [|reflexivity].
        apply str_eqb_eq in E0, E. subst. rewrite str_cmp_refl in C. discriminate.
  Qed.

  Lemma map_get_insert_eq m k v : map_get (map_insert m k v) k = Some v.
  Proof. rewrite map_get_insert, str_eqb_refl. reflexivity. Qed.

  Lemma map_get_insert_neq m k v k' : k' <> k -> map_get (map_insert m k v) k' = map_get m k'.
  Proof. intros H. rewrite map_get_insert. apply str_eqb_neq in H. rewrite H. reflexivity. Qed.

  Lemma map_get_remove_neq m k k' : k' <> k -> map_get (map_remove m k) k' = map_get m k'.
  Proof.
    intros H. induction m as [|[k0 v0] r IH]; cbn [map_remove map_get]; [reflexivity|].
    destruct (str_eqb k k0) eqn:E.
    - apply str_eqb_eq in E. subst k0. apply str_eqb_neq in H. rewrite H. reflexivity.
    - cbn [map_get]. rewrite IH. reflexivity.
  Qed.

  Lemma map_get_notin m k : ~ In k (map fst m) -> map_get m k = None.
  Proof.
    induction m as [|[k0 v0] r IH]; cbn [map_get map fst In]; intros H; [reflexivity|].
    destruct (str_eqb k k0) eqn:E.
    - apply str_eqb_eq in E. subst. exfalso. apply H. left. reflexivity.
    - apply IH. intros Hin. apply H. right. exact Hin.
  Qed.

  Lemma map_get_in m k : In k (map fst m) -> map_get m k <> None.
  Proof.
    induction m as [|[k0 v0] r IH]; cbn [map_get map fst In]; intros H; [contradiction|].
    destruct (str_eqb k k0) eqn:E; [discriminate|].
    destruct H as [H|H]; [subst; rewrite str_eqb_refl in E; discriminate|]. apply IH, H.
  Qed.

  Lemma map_get_some_in m k v : map_get m k = Some v -> In k (map fst m).
  Proof.
    induction m as [|[k0 v0] r IH]; cbn [map_get map fst In]; intros H; [discriminate|].
    destruct (str_eqb k k0) eqn:E.
    - apply str_eqb_eq in E. left. congruence.
    - right. apply IH, H.
  Qed.

  Lemma skeys_head_notin k (v : A) (r : list (str * A)) : skeys ((k, v) :: r) -> ~ In k (map fst r).
  Proof.
    cbn [skeys]. intros [H _] Hin. apply H in Hin. rewrite str_cmp_refl in Hin. discriminate.
  Qed.

  Lemma in_keys_insert m k v x :
    In x (map fst (map_insert m k v)) -> x = k \/ In x (map fst m).
  Proof.
    induction m as [|[k0 v0] r IH]; cbn [map_insert map fst In].
    - intros [H|[]]. left. congruence.
    - destruct (str_cmp k k0) eqn:C; cbn [map fst In].
      + apply str_cmp_eq in C. subst. intros [H|H]; [left; congruence|right; right; exact H].
      + intros [H|[H|H]]; [left; congruence|right; left; exact H|right; right; exact H].
      + intros [H|H]; [right; left; exact H|]. apply IH in H as [H|H]; [left|right; right]; exact H.
  Qed.

  Lemma in_keys_remove m k x : In x (map fst (map_remove m k)) -> In x (map fst m).
  Proof.
    induction m as [|[k0 v0] r IH]; cbn [map_remove map fst In]; [tauto|].
    destruct (str_eqb k k0); cbn [map fst In]; [tauto|]. intros [H|H]; [left; exact H|right; apply IH, H].
  Qed.

  Lemma skeys_insert m k v : skeys m -> skeys (map_insert m k v).
  Proof.
    induction m as [|[k0 v0] r IH]; cbn [map_insert]; intros Hs.
    - cbn. split; [intros ? []|exact I].
    - destruct (str_cmp k k0) eqn:C.
      + apply str_cmp_eq in C. subst k0. exact Hs.
      + cbn [skeys map fst In]. split; [|exact Hs].
        intros k' [<-|Hin]; [exact C|]. destruct Hs as [Hs _].
        eapply str_cmp_lt_trans; [exact C|apply Hs, Hin].
      + destruct Hs as [Hlt Hs]. cbn [skeys]. split; [|apply IH, Hs].
        intros k' Hin. apply in_keys_insert in Hin as [->|Hin]; [apply str_cmp_gt_lt, C|apply Hlt, Hin].
  Qed.

  Lemma skeys_remove m k : skeys m -> skeys (map_remove m k).
  Proof.
    induction m as [|[k0 v0] r IH]; cbn [map_remove]; intros Hs; [exact I|].
    destruct Hs as [Hlt Hs]. destruct (str_eqb k k0); [exact Hs|].
    cbn [skeys]. split; [|apply IH, Hs]. intros k' Hin. apply Hlt. eapply in_keys_remove, Hin.
  Qed.

  Lemma notin_keys_remove m k : skeys m -> ~ In k (map fst (map_remove m k)).
  Proof.
    induction m as [|[k0 v0] r IH]; cbn [map_remove]; intros Hs; [intros []|].
    destruct (str_eqb k k0) eqn:E.
    - apply str_eqb_eq in E. subst k0. eapply skeys_head_notin, Hs.
    - cbn [map fst In]. intros [H|H].
      + subst. rewrite str_eqb_refl in E. discriminate.
      + destruct Hs as [_ Hs]. exact (IH Hs H).
  Qed.

  Lemma map_get_remove_eq m k : skeys m -> map_get (map_remove m k) k = None.
  Proof. intros Hs. apply map_get_notin, notin_keys_remove, Hs. Qed.

  (* membership in the key list is exactly definedness *)
  Lemma in_keys_iff m k : In k (map fst m) <-> map_get m k <> None.
  Proof.
    split; [apply map_get_in|]. intros H. destruct (map_get m k) eqn:E; [|congruence].
    eapply map_get_some_in, E.
  Qed.
  Lemma map_remove_absent m k : map_get m k = None -> map_remove m k = m.
  Proof.
    induction m as [|[k0 v0] r IH]; cbn [map_get map_remove]; [reflexivity|].
    destruct (str_eqb k k0); [discriminate|]. intros H. rewrite IH by exact H. reflexivity.
  Qed.
End MapLaws.

(* key-wise mapping of the values of a map *)
Definition vmap {A B} (h : str -> A -> B) (m : list (str * A)) : list (str * B) :=
  map (fun kv => (fst kv, h (fst kv) (snd kv))) m.

Section VMap.
  Context {A B : Type}.
  Implicit Types (h : str -> A -> B) (m : list (str * A)).

  Lemma keys_vmap h m : map fst (vmap h m) = map fst m.
  Proof. unfold vmap. rewrite map_map. apply map_ext. reflexivity. Qed.

  Lemma vmap_get h m k : map_get (vmap h m) k = option_map (h k) (map_get m k).
  Proof.
    induction m as [|[k0 v0] r IH]; cbn [vmap map map_get fst snd]; [reflexivity|].
    destruct (str_eqb k k0) eqn:E; [|exact IH]. apply str_eqb_eq in E. subst. reflexivity.
  Qed.

  Lemma vmap_insert h m k v : vmap h (map_insert m k v) = map_insert (vmap h m) k (h k v).
  Proof.
    induction m as [|[k0 v0] r IH]; cbn [vmap map map_insert fst snd]; [reflexivity|].
    destruct (str_cmp k k0); cbn [map fst snd]; try reflexivity.
    f_equal. exact IH.
  Qed.

  Lemma vmap_remove h m k : vmap h (map_remove m k) = map_remove (vmap h m) k.
  Proof.
    induction m as [|[k0 v0] r IH]; cbn [vmap map map_remove fst snd]; [reflexivity|].
    destruct (str_eqb k k0); cbn [map fst snd]; [reflexivity|]. f_equal. exact IH.
  Qed.

  Lemma vmap_ext_in h1 h2 m :
    (forall k v, In k (map fst m) -> h1 k v = h2 k v) -> vmap h1 m = vmap h2 m.
  Proof.
    intros H. unfold vmap. apply map_ext_in. intros [k v] Hin. cbn [fst snd]. f_equal.
    apply H. apply in_map_iff. exists (k, v). split; [reflexivity|exact Hin].
  Qed.

  Lemma skeys_vmap h m : skeys m -> skeys (vmap h m).
  Proof.
    induction m as [|[k0 v0] r IH]; cbn [vmap map skeys fst snd]; [tauto|].
    intros [H1 H2]. split; [|apply IH, H2]. intros k' Hin.
    change (map (fun kv => (fst kv, h (fst kv) (snd kv))) r) with (vmap h r) in Hin.
    rewrite keys_vmap in Hin. apply H1, Hin.
  Qed.

  Lemma insert_vmap_ext h1 h2 m k x :
    skeys m -> (forall k' v, k' <> k -> h1 k' v = h2 k' v) ->
    map_insert (vmap h1 m) k x = map_insert (vmap h2 m) k x.
  Proof.
    intros Hs Hext. induction m as [|[k0 v0] r IH]; cbn [vmap map map_insert fst snd]; [reflexivity|].
    fold (vmap h1 r). fold (vmap h2 r).
    assert (Hrest : forall k1, In k1 (map fst r) -> str_cmp k0 k1 = Lt) by apply Hs.
    destruct (str_cmp k k0) eqn:C.
    - apply str_cmp_eq in C. subst k0. f_equal. apply vmap_ext_in. intros k1 v1 Hin.
      apply Hext. intros ->. apply Hrest in Hin. rewrite str_cmp_refl in Hin. discriminate.
    - f_equal. f_equal.
      + f_equal. apply Hext. intros ->. rewrite str_cmp_refl in C. discriminate.
      + apply vmap_ext_in. intros k1 v1 Hin. apply Hext. intros ->. apply Hrest in Hin.
        pose proof (str_cmp_lt_trans _ _ _ C Hin) as Hkk. rewrite str_cmp_refl in Hkk. discriminate.
    - f_equal.
      + f_equal. apply Hext. intros ->. rewrite str_cmp_refl in C. discriminate.
      + apply IH. apply Hs.
  Qed.
End VMap.

(* ================================================================== *)
(* 3. the registry invariant and the abstraction function              *)
(* ================================================================== *)

Definition ent_of (srcs : list (str * str)) (n : str) (t : template) : entry :=
  {| en_tpl := t; en_file := map_get srcs n |}.

Lemma abs_ents r : a_ents (abs r) = vmap (ent_of (r_sources r)) (r_templates r).
Proof. reflexivity. Qed.

Lemma areg_eq a e s d p :
  a_ents a = e -> a_strict a = s -> a_dev a = d -> a_pi a = p ->
  a = {| a_ents := e; a_strict := s; a_dev := d; a_pi := p |}.
Proof. destruct a; cbn; intros; subst; reflexivity. Qed.

Lemma reg_inv_new : reg_inv reg_new.
Proof. split; cbn; auto. Qed.

Lemma reg_inv_same r r' :
  r_templates r' = r_templates r -> r_sources r' = r_sources r -> r_dev r' = r_dev r ->
  reg_inv r -> reg_inv r'.
Proof. intros Ht Hs Hd [H1 H2 H3 H4]. split; rewrite ?Ht, ?Hs, ?Hd; assumption. Qed.

Lemma abs_same r r' :
  r_templates r' = r_templates r -> r_sources r' = r_sources r -> r_strict r' = r_strict r ->
  r_dev r' = r_dev r -> r_prevent_indent r' = r_prevent_indent r -> abs r' = abs r.
Proof. intros Ht Hs H1 H2 H3. unfold abs. rewrite Ht, Hs, H1, H2, H3. reflexivity. Qed.

(* ---- register_template ---- *)
Lemma abs_register_template r n t :
  reg_inv r -> abs (register_template r n t) = a_put (abs r) n t.
Proof.
  intros Hi. unfold a_put, a_with. apply areg_eq; try reflexivity.
  rewrite !abs_ents. cbn [register_template reg_with r_templates r_sources].
  rewrite vmap_insert.
  replace (ent_of (map_remove (r_sources r) n) n t) with {| en_tpl := t; en_file := None |}
    by (unfold ent_of; rewrite map_get_remove_eq by apply (inv_srcs r Hi); reflexivity).
  apply insert_vmap_ext; [apply (inv_tpls r Hi)|].
  intros k v Hk. unfold ent_of. rewrite map_get_remove_neq by exact Hk. reflexivity.
Qed.

Lemma inv_register_template r n t : reg_inv r -> reg_inv (register_template r n t).
Proof.
  intros [H1 H2 H3 H4]. split; cbn [register_template reg_with r_templates r_sources r_dev].
  - apply skeys_insert, H1.
  - apply skeys_remove, H2.
  - intros k Hk. rewrite map_get_insert in Hk. destruct (str_eqb k n) eqn:E; [discriminate|].
    apply str_eqb_neq in E. rewrite map_get_remove_neq by exact E. apply H3, Hk.
  - intros Hd. rewrite (H4 Hd). reflexivity.
Qed.

(* ---- register_template_string ---- *)
Lemma abs_register_template_string r n s :
  reg_inv r ->
  abs (fst (register_template_string r n s)) = fst (a_register_template_string (abs r) n s)
  /\ snd (register_template_string r n s) = snd (a_register_template_string (abs r) n s)
  /\ reg_inv (fst (register_template_string r n s)).
Proof.
  intros Hi. unfold register_template_string, a_register_template_string.
  change (a_opts (abs r) (Some n)) with (reg_opts r (Some n)).
  destruct (compile2 s (reg_opts r (Some n))); cbn [fst snd]; auto.
  split; [apply abs_register_template, Hi|]. split; [reflexivity|apply inv_register_template, Hi].
Qed.

(* ---- register_template_file ---- *)
Lemma abs_register_template_file r fs n p :
  reg_inv r ->
  abs (fst (register_template_file r fs n p)) = fst (a_register_template_file (abs r) fs n p)
  /\ snd (register_template_file r fs n p) = snd (a_register_template_file (abs r) fs n p)
  /\ reg_inv (fst (register_template_file r fs n p)).
Proof.
  intros Hi. unfold register_template_file, a_register_template_file.
  destruct (map_get fs p) as [content|]; cbn [fst snd]; auto.
  unfold register_template_string. change (a_opts (abs r) (Some n)) with (reg_opts r (Some n)).
  destruct (compile2 content (reg_opts r (Some n))) as [t| | |]; cbn [fst snd]; auto.
  change (r_dev (register_template r n t)) with (r_dev r). change (a_dev (abs r)) with (r_dev r).
  destruct (r_dev r) eqn:Hd.
  - (* dev mode: the file is tracked from now on *)
    split; [|split; [reflexivity|]].
    + unfold a_with. apply areg_eq; try reflexivity. rewrite !abs_ents.
      cbn [register_template reg_with r_templates r_sources].
      rewrite vmap_insert.
      replace (ent_of (map_insert (map_remove (r_sources r) n) n p) n t)
        with {| en_tpl := t; en_file := Some p |}
        by (unfold ent_of; rewrite map_get_insert_eq; reflexivity).
      apply insert_vmap_ext; [apply (inv_tpls r Hi)|].
      intros k v Hk. unfold ent_of. rewrite map_get_insert_neq by exact Hk.
      rewrite map_get_remove_neq by exact Hk. reflexivity.
    + destruct Hi as [H1 H2 H3 H4].
      split; cbn [register_template reg_with r_templates r_sources r_dev].
      * apply skeys_insert, H1.
      * apply skeys_insert, skeys_remove, H2.
      * intros k Hk. rewrite map_get_insert in Hk. rewrite map_get_insert.
        destruct (str_eqb k n) eqn:E; [discriminate|]. apply str_eqb_neq in E.
        rewrite map_get_remove_neq by exact E. apply H3, Hk.
      * rewrite Hd. discriminate.
  - split; [|split; [reflexivity|apply inv_register_template, Hi]].
    rewrite abs_register_template by exact Hi. reflexivity.
Qed.

(* ---- unregister_template / clear_templates ---- *)
Lemma abs_unregister r n : reg_inv r -> abs (unregister_template r n) = a_unregister (abs r) n.
Proof.
  intros Hi. unfold a_unregister, a_with. apply areg_eq; try reflexivity. rewrite !abs_ents.
  cbn [unregister_template reg_with r_templates r_sources]. rewrite <- vmap_remove.
  apply vmap_ext_in. intros k v Hin. unfold ent_of. rewrite map_get_remove_neq; [reflexivity|].
  intros ->. eapply notin_keys_remove; [apply (inv_tpls r Hi)|exact Hin].
Qed.

Lemma inv_unregister r n : reg_inv r -> reg_inv (unregister_template r n).
Proof.
  intros [H1 H2 H3 H4]. split; cbn [unregister_template reg_with r_templates r_sources r_dev].
  - apply skeys_remove, H1.
  - apply skeys_remove, H2.
  - intros k Hk. destruct (str_eqb k n) eqn:E.
    + apply str_eqb_eq in E. subst. apply map_get_remove_eq, H2.
    + apply str_eqb_neq in E. rewrite map_get_remove_neq in Hk by exact E.
      rewrite map_get_remove_neq by exact E. apply H3, Hk.
  - intros Hd. rewrite (H4 Hd). reflexivity.
Qed.

Lemma abs_clear r : abs (clear_templates r) = a_clear (abs r).
Proof. reflexivity. Qed.

Lemma inv_clear r : reg_inv (clear_templates r).
Proof. split; cbn; auto. Qed.

(* ---- flags ---- *)
Lemma abs_set_dev r b : abs (set_dev_mode r b) = a_set_dev (abs r) b.
Proof.
  unfold a_set_dev. apply areg_eq; try reflexivity. destruct b; [reflexivity|].
  rewrite !abs_ents. cbn [set_dev_mode reg_set_flags r_templates r_sources].
  unfold vmap. rewrite map_map. apply map_ext. reflexivity.
Qed.

Lemma inv_set_dev r b : reg_inv r -> reg_inv (set_dev_mode r b).
Proof.
  intros [H1 H2 H3 H4]. destruct b; split; cbn [set_dev_mode reg_set_flags r_templates r_sources r_dev];
    cbn; auto; discriminate.
Qed.

Lemma abs_set_pi r b : abs (set_prevent_indent r b) = a_set_pi (abs r) b.
Proof. reflexivity. Qed.
Lemma abs_set_strict r b : abs (set_strict_mode r b) = a_set_strict (abs r) b.
Proof. reflexivity. Qed.
Lemma inv_set_pi r b : reg_inv r -> reg_inv (set_prevent_indent r b).
Proof. apply reg_inv_same; reflexivity. Qed.
Lemma inv_set_strict r b : reg_inv r -> reg_inv (set_strict_mode r b).
Proof. apply reg_inv_same; reflexivity. Qed.

(* ---- observations ---- *)
Lemma has_abs r n :
  (match map_get (r_templates r) n with Some _ => true | None => false end) = a_has (abs r) n.
Proof.
  unfold a_has. rewrite abs_ents, vmap_get. destruct (map_get (r_templates r) n); reflexivity.
Qed.

Lemma keys_abs r : map fst (r_templates r) = a_keys (abs r).
Proof. unfold a_keys. rewrite abs_ents, keys_vmap. reflexivity. Qed.

Lemma load_abs r fs n : reg_inv r -> get_or_load_template r fs n = a_load (abs r) fs n.
Proof.
  intros Hi. unfold get_or_load_template, get_or_load_template_optional, a_load.
  rewrite abs_ents, vmap_get. change (a_opts (abs r) (Some n)) with (reg_opts r (Some n)).
  destruct (r_dev r) eqn:Hd.
  - destruct (map_get (r_sources r) n) as [path|] eqn:Es.
    + destruct (map_get (r_templates r) n) as [t|] eqn:Et.
      * cbn [option_map ent_of en_file en_tpl]. rewrite Es. reflexivity.
      * apply (inv_sub r Hi) in Et. congruence.
    + destruct (map_get (r_templates r) n) as [t|] eqn:Et; cbn [option_map ent_of en_file en_tpl];
        [rewrite Es|]; reflexivity.
  - rewrite (inv_dev r Hi Hd).
    destruct (map_get (r_templates r) n) as [t|]; cbn [option_map ent_of en_file en_tpl map_get]; reflexivity.
Qed.

(* ================================================================== *)
(* 4. worlds: one step of the case interpreter                         *)
(* ================================================================== *)

Definition world_inv (w : world) : Prop :=
  reg_inv (w_a w) /\ (forall b, w_b w = Some b -> reg_inv b).

Lemma world_inv_init : world_inv world_init.
Proof. split; [apply reg_inv_new|intros b Hb; discriminate]. Qed.

Lemma abs_cur w : abs (cur w) = acur (abs_world w).
Proof.
  unfold cur, acur, abs_world; cbn [aw_sel aw_a aw_b].
  destruct (w_sel w); [destruct (w_b w)|]; reflexivity.
Qed.

Lemma abs_world_set_cur w r : abs_world (set_cur w r) = aset_cur (abs_world w) (abs r).
Proof.
  unfold set_cur, aset_cur, abs_world; cbn [aw_sel aw_a aw_b aw_files].
  destruct (w_sel w); reflexivity.
Qed.

Lemma world_inv_cur w : world_inv w -> reg_inv (cur w).
Proof.
  intros [Ha Hb]. unfold cur. destruct (w_sel w); [|exact Ha].
  destruct (w_b w) as [b|]; [apply Hb; reflexivity|exact Ha].
Qed.

Lemma world_inv_set_cur w r : world_inv w -> reg_inv r -> world_inv (set_cur w r).
Proof.
  intros [Ha Hb] Hr. unfold set_cur. destruct (w_sel w); split; cbn [w_a w_b]; auto.
  intros b E. injection E as <-. exact Hr.
Qed.

Lemma abs_helpers r hs ds : abs (reg_set_helpers r hs ds) = abs r.
Proof. reflexivity. Qed.
Lemma abs_escape r f m : abs (reg_set_escape r f m) = abs r.
Proof. reflexivity. Qed.
Lemma abs_add_helpers r l : abs (add_helpers r l) = abs r.
Proof. reflexivity. Qed.
Lemma inv_helpers r hs ds : reg_inv r -> reg_inv (reg_set_helpers r hs ds).
Proof. apply reg_inv_same; reflexivity. Qed.
Lemma inv_escape r f m : reg_inv r -> reg_inv (reg_set_escape r f m).
Proof. apply reg_inv_same; reflexivity. Qed.
Lemma inv_add_helpers r l : reg_inv r -> reg_inv (add_helpers r l).
Proof. apply reg_inv_same; reflexivity. Qed.

Lemma touch_sim w r :
  world_inv w -> abs r = abs (cur w) -> reg_inv r ->
  abs_world (set_cur w r) = aset_cur (abs_world w) (acur (abs_world w)) /\ world_inv (set_cur w r).
Proof.
  intros Hw E Hr. split; [|apply world_inv_set_cur; assumption].
  rewrite abs_world_set_cur, E, abs_cur. reflexivity.
Qed.

Lemma step_sim w o :
  world_inv w ->
  abs_world (fst (step_op w o)) = a_step (abs_world w) o
  /\ world_inv (fst (step_op w o)).
Proof.
  intros Hw. pose proof (world_inv_cur w Hw) as Hc.
  destruct o; unfold step_op, a_step; cbv beta iota zeta; cbn [fst];
    try (split; [reflexivity|exact Hw]).
  - (* OStrict *) rewrite <- abs_cur, abs_world_set_cur, abs_set_strict.
    split; [reflexivity|apply world_inv_set_cur; auto using inv_set_strict].
  - (* ODev *) rewrite <- abs_cur, abs_world_set_cur, abs_set_dev.
    split; [reflexivity|apply world_inv_set_cur; auto using inv_set_dev].
  - (* OPi *) rewrite <- abs_cur, abs_world_set_cur, abs_set_pi.
    split; [reflexivity|apply world_inv_set_cur; auto using inv_set_pi].
  - (* OEsc *) apply touch_sim; auto.
    + destruct (k =? 0); [|destruct (k =? 1)]; apply abs_escape.
    + destruct (k =? 0); [|destruct (k =? 1)]; apply inv_escape, Hc.
  - (* OProbes *) apply touch_sim; auto. apply inv_helpers, inv_add_helpers, Hc.
  - (* OHooks *) apply touch_sim; auto.
    + destruct (N.odd m); destruct (N.odd (m / 2)); destruct (N.odd (m / 4)); reflexivity.
    + destruct (N.odd m); destruct (N.odd (m / 2)); destruct (N.odd (m / 4)); auto using inv_add_helpers.
  - (* OMacros *) apply touch_sim; auto. apply inv_add_helpers, Hc.
  - (* OClone *) split.
    + unfold abs_world at 1. cbn [w_a w_b w_sel w_files option_map]. rewrite abs_cur. reflexivity.
    + split; [exact (proj1 Hw)|]. cbn [w_b]. intros b E. injection E as <-. exact Hc.
  - (* OUnreg *) rewrite <- abs_cur, abs_world_set_cur, abs_unregister by exact Hc.
    split; [reflexivity|apply world_inv_set_cur; auto using inv_unregister].
  - (* OClear *) rewrite <- abs_cur, abs_world_set_cur, abs_clear.
    split; [reflexivity|apply world_inv_set_cur; auto using inv_clear].
  - (* ORegs *)
    destruct (abs_register_template_string (cur w) name src Hc) as (H1 & H2 & H3).
    destruct (register_template_string (cur w) name src) as [r' res]. cbn [fst snd] in *.
    rewrite <- abs_cur, abs_world_set_cur, H1.
    split; [reflexivity|apply world_inv_set_cur; assumption].
  - (* ORegp *)
    destruct (abs_register_template_string (cur w) name src Hc) as (H1 & H2 & H3).
    destruct (register_template_string (cur w) name src) as [r' res]. cbn [fst snd] in *.
    rewrite <- abs_cur, abs_world_set_cur, H1.
    split; [reflexivity|apply world_inv_set_cur; assumption].
  - (* ORegf *)
    destruct (abs_register_template_file (cur w) (w_files w) name path Hc) as (H1 & H2 & H3).
    destruct (register_template_file (cur w) (w_files w) name path) as [r' res]. cbn [fst snd] in *.
    rewrite <- abs_cur, abs_world_set_cur, H1.
    split; [reflexivity|apply world_inv_set_cur; assumption].
  - (* ORegt *)
    destruct (compile2 src _) as [t| | |]; cbn [fst]; try (split; [reflexivity|exact Hw]).
    rewrite <- abs_cur, abs_world_set_cur, abs_register_template by exact Hc.
    split; [reflexivity|apply world_inv_set_cur; auto using inv_register_template].
Qed.

(* ================================================================== *)
(* 5. C17: refinement for every operation sequence                     *)
(* ================================================================== *)

Lemma exec_ops_cons w o ops : exec_ops w (o :: ops) = exec_ops (fst (step_op w o)) ops.
Proof. reflexivity. Qed.

Lemma exec_ops_app w l1 l2 : exec_ops w (l1 ++ l2) = exec_ops (exec_ops w l1) l2.
Proof. unfold exec_ops. apply fold_left_app. Qed.

Lemma exec_sim ops : forall w,
  world_inv w ->
  abs_world (exec_ops w ops) = a_exec (abs_world w) ops /\ world_inv (exec_ops w ops).
Proof.
  induction ops as [|o ops IH]; intros w Hw; [split; [reflexivity|exact Hw]|].
  rewrite exec_ops_cons. destruct (step_sim w o Hw) as [E Hw'].
  destruct (IH _ Hw') as [E' Hw'']. split; [|exact Hw''].
  rewrite E', E. reflexivity.
Qed.

Lemma reachable_inv ops : world_inv (exec_ops world_init ops).
Proof. apply exec_sim, world_inv_init. Qed.

(* the abstraction of the concrete world after ANY sequence of operations is
   the abstract world after the same sequence *)
Theorem refines : forall ops,
  abs_world (exec_ops world_init ops) = a_exec aworld_init ops.
Proof. intros ops. apply (exec_sim ops world_init world_inv_init). Qed.

(* observations on a world satisfying the invariant *)
Lemma observations_of_abs w n s p :
  world_inv w ->
  let a := acur (abs_world w) in
  snd (step_op w (OHas n)) = Some (ObBool (a_has a n))
  /\ snd (step_op w OKeys) = Some (ObKeys (a_keys a))
  /\ get_or_load_template (cur w) (w_files w) n = a_load a (w_files w) n
  /\ snd (step_op w (ORegs n s)) = Some (ObUnit (snd (a_register_template_string a n s)))
  /\ snd (step_op w (ORegp n s)) = Some (ObUnit (snd (a_register_template_string a n s)))
  /\ snd (step_op w (ORegf n p)) = Some (ObUnit (snd (a_register_template_file a (w_files w) n p))).
Proof.
  intros Hw a. subst a. rewrite <- abs_cur. pose proof (world_inv_cur w Hw) as Hc.
  unfold step_op; cbv beta iota zeta.
  repeat split.
  - cbn [snd]. rewrite has_abs. reflexivity.
  - cbn [snd]. rewrite keys_abs. reflexivity.
  - apply load_abs, Hc.
  - destruct (abs_register_template_string (cur w) n s Hc) as (_ & H2 & _).
    destruct (register_template_string (cur w) n s). cbn [snd] in *. rewrite H2. reflexivity.
  - destruct (abs_register_template_string (cur w) n s Hc) as (_ & H2 & _).
    destruct (register_template_string (cur w) n s). cbn [snd] in *. rewrite H2. reflexivity.
  - destruct (abs_register_template_file (cur w) (w_files w) n p Hc) as (_ & H2 & _).
    destruct (register_template_file (cur w) (w_files w) n p). cbn [snd] in *. rewrite H2. reflexivity.
Qed.

Theorem observations_agree : forall ops n s p,
  let w := exec_ops world_init ops in
  let aw := a_exec aworld_init ops in
  snd (step_op w (OHas n)) = Some (ObBool (a_has (acur aw) n))
  /\ snd (step_op w OKeys) = Some (ObKeys (a_keys (acur aw)))
  /\ get_or_load_template (cur w) (w_files w) n = a_load (acur aw) (aw_files aw) n
  /\ snd (step_op w (ORegs n s))
     = Some (ObUnit (snd (a_register_template_string (acur aw) n s)))
  /\ snd (step_op w (ORegp n s))
     = Some (ObUnit (snd (a_register_template_string (acur aw) n s)))
  /\ snd (step_op w (ORegf n p))
     = Some (ObUnit (snd (a_register_template_file (acur aw) (aw_files aw) n p))).
Proof.
  intros ops n s p w aw. subst w aw. rewrite <- refines.
  apply observations_of_abs, reachable_inv.
Qed.

(* the invariant holds of every registry the interpreter can reach *)
Theorem reachable_reg_inv : forall ops, reg_inv (cur (exec_ops world_init ops)).
Proof. intros ops. apply world_inv_cur, reachable_inv. Qed.

(* exec_ops is the state behind run_ops *)
Definition obs_list (x : option obs) : list obs := match x with Some o => [o] | None => [] end.

Lemma run_ops_cons w o rest :
  run_ops w (o :: rest) = obs_list (snd (step_op w o)) ++ run_ops (fst (step_op w o)) rest.
Proof.
  cbn [run_ops]. destruct (step_op w o) as [w' [x|]]; reflexivity.
Qed.

Lemma run_ops_app w l1 l2 : run_ops w (l1 ++ l2) = run_ops w l1 ++ run_ops (exec_ops w l1) l2.
Proof.
  revert w. induction l1 as [|o l1 IH]; intros w; [reflexivity|].
  rewrite <- app_comm_cons, !run_ops_cons, exec_ops_cons, IH, app_assoc. reflexivity.
Qed.

Theorem run_ops_snoc : forall w ops o,
  run_ops w (ops ++ [o]) = run_ops w ops ++ obs_list (snd (step_op (exec_ops w ops) o)).
Proof.
  intros. rewrite run_ops_app, run_ops_cons. cbn [run_ops]. rewrite app_nil_r. reflexivity.
Qed.

(* ================================================================== *)
(* 6. C17: the F6 witness (now fixed) and the single-operation facts   *)
(* ================================================================== *)

(* after a successful register_template_string the name is not tracked and a
   render uses the freshly compiled template, dev mode on or off *)
Theorem register_string_untracks : forall r fs n src t,
  reg_inv r ->
  compile2 src (reg_opts r (Some n)) = COk t ->
  let r' := fst (register_template_string r n src) in
  snd (register_template_string r n src) = COk tt
  /\ map_get (r_sources r') n = None
  /\ get_or_load_template r' fs n = LoadOk t.
Proof.
  intros r fs n src t Hi Hc r'. subst r'. unfold register_template_string. rewrite Hc. cbn [fst snd].
  assert (Hs : map_get (r_sources (register_template r n t)) n = None).
  { cbn [register_template reg_with r_sources]. apply map_get_remove_eq, (inv_srcs r Hi). }
  split; [reflexivity|]. split; [exact Hs|].
  unfold get_or_load_template, get_or_load_template_optional. rewrite Hs.
  cbn [register_template reg_with r_templates]. rewrite map_get_insert_eq.
  destruct (r_dev _); reflexivity.
Qed.

(* the same for a precompiled template *)
Theorem register_template_untracks : forall r fs n t,
  reg_inv r ->
  map_get (r_sources (register_template r n t)) n = None
  /\ get_or_load_template (register_template r n t) fs n = LoadOk t.
Proof.
  intros r fs n t Hi.
  assert (Hs : map_get (r_sources (register_template r n t)) n = None).
  { cbn [register_template reg_with r_sources]. apply map_get_remove_eq, (inv_srcs r Hi). }
  split; [exact Hs|].
  unfold get_or_load_template, get_or_load_template_optional. rewrite Hs.
  cbn [register_template reg_with r_templates]. rewrite map_get_insert_eq.
  destruct (r_dev _); reflexivity.
Qed.

Example register_string_untracks_nonvacuous :
  let r := cur (exec_ops world_init [ODev true; OFw (`"f") (`"A"); ORegf (`"n") (`"f")]) in
  reg_inv r /\ r_dev r = true /\ map_get (r_sources r) (`"n") = Some (`"f")
  /\ exists t, compile2 (`"B") (reg_opts r (Some (`"n"))) = COk t.
Proof.
  split; [apply reachable_reg_inv|]. split; [reflexivity|]. split; [vm_compute; reflexivity|].
  eexists. vm_compute. reflexivity.
Qed.

Definition f6_ops : list op :=
  [ODev true; OFw (`"f") (`"A"); ORegf (`"n") (`"f"); ORegs (`"n") (`"B")].

(* the witness of finding F6 (dev mode on; file f = "A"; register n from f;
   register n from the string "B"): with the fix, the template a render of n
   uses is the compile of "B" *)
Theorem restated_source_witness :
  let w := exec_ops world_init
             [ODev true; OFw (`"f") (`"A"); ORegf (`"n") (`"f"); ORegs (`"n") (`"B")] in
  exists t,
    compile2 (`"B") (reg_opts (cur w) (Some (`"n"))) = COk t
    /\ get_or_load_template (cur w) (w_files w) (`"n") = LoadOk t
    /\ map_get (r_sources (cur w)) (`"n") = None.
Proof. eexists. vm_compute. repeat split; reflexivity. Qed.

Theorem restated_source_render :
  run_case [ODev true; OFw (`"f") (`"A"); ORegf (`"n") (`"f"); ORegs (`"n") (`"B");
            ORender 0 (`"n") JNull None]
  = [ObUnit (COk tt); ObUnit (COk tt); ObRender (RoOk (`"B") [] 1)].
Proof. vm_compute. reflexivity. Qed.

(* a history that uses dev mode, file tracking, re-registration after
   unregistering, a clone and a failed registration *)
Definition ok_ops : list op :=
  [ODev true; OFw (`"f") (`"A"); ORegf (`"n") (`"f"); ORegs (`"m") (`"B");
   OFw (`"f") (`"C"); OUnreg (`"n"); ORegs (`"n") (`"{{x}}"); ORegs (`"n") (`"{{#if}}");
   ORegf (`"m") (`"f"); OClone; OSel true; ODev false; ORegs (`"m") (`"D"); OPi true].

Example ok_ops_observed :
  run_case (ok_ops ++ [OKeys; ORender 0 (`"m") JNull None; OSel false; ORender 0 (`"m") JNull None])
  = [ObUnit (COk tt); ObUnit (COk tt); ObUnit (COk tt); ObUnit (CErr TESyntax); ObUnit (COk tt);
     ObUnit (COk tt); ObKeys [`"m"; `"n"]; ObRender (RoOk (`"D") [] 1); ObRender (RoOk (`"C") [] 1)].
Proof. vm_compute. reflexivity. Qed.

(* ---- a failed registration changes nothing (C04, last sentence) ---- *)
Theorem registry_unchanged_string : forall r n src,
  snd (register_template_string r n src) <> COk tt -> fst (register_template_string r n src) = r.
Proof.
  intros r n src. unfold register_template_string.
  destruct (compile2 src (reg_opts r (Some n))); cbn [fst snd]; congruence.
Qed.

Theorem registry_unchanged_string_err : forall r n src e,
  compile2 src (reg_opts r (Some n)) = CErr e -> register_template_string r n src = (r, CErr e).
Proof. intros r n src e H. unfold register_template_string. rewrite H. reflexivity. Qed.

Theorem registry_unchanged_file : forall r fs n p,
  snd (register_template_file r fs n p) <> COk tt -> fst (register_template_file r fs n p) = r.
Proof.
  intros r fs n p. unfold register_template_file. destruct (map_get fs p); [|reflexivity].
  unfold register_template_string.
  destruct (compile2 s (reg_opts r (Some n))); cbn [fst snd]; congruence.
Qed.

Lemma step_regs w n s :
  step_op w (ORegs n s) = (set_cur w (fst (register_template_string (cur w) n s)),
                           Some (ObUnit (snd (register_template_string (cur w) n s)))).
Proof. unfold step_op. cbv beta iota zeta. destruct (register_template_string (cur w) n s); reflexivity. Qed.
Lemma step_regp w n s :
  step_op w (ORegp n s) = (set_cur w (fst (register_template_string (cur w) n s)),
                           Some (ObUnit (snd (register_template_string (cur w) n s)))).
Proof. unfold step_op. cbv beta iota zeta. destruct (register_template_string (cur w) n s); reflexivity. Qed.
Lemma step_regf w n p :
  step_op w (ORegf n p) = (set_cur w (fst (register_template_file (cur w) (w_files w) n p)),
                           Some (ObUnit (snd (register_template_file (cur w) (w_files w) n p)))).
Proof.
  unfold step_op. cbv beta iota zeta. destruct (register_template_file (cur w) (w_files w) n p); reflexivity.
Qed.

(* at the level of the interpreter: the selected registry (and the other one)
   are as before *)
Theorem registry_unchanged_step : forall w o res,
  (exists n s, o = ORegs n s \/ o = ORegp n s \/ o = ORegf n s) ->
  snd (step_op w o) = Some (ObUnit res) -> res <> COk tt ->
  cur (fst (step_op w o)) = cur w /\ w_a (fst (step_op w o)) = w_a w
  /\ (w_sel w = false -> w_b (fst (step_op w o)) = w_b w).
Proof.
  intros w o res (n & s & Ho) Hs Hne.
  assert (Hcs : forall r, cur (set_cur w r) = r)
    by (intros r; unfold cur, set_cur; destruct (w_sel w); reflexivity).
  assert (Hsc : w_a (set_cur w (cur w)) = w_a w /\ (w_sel w = false -> w_b (set_cur w (cur w)) = w_b w)).
  { unfold cur, set_cur. destruct (w_sel w); cbn [w_a w_b]; split; try reflexivity; discriminate. }
  destruct Ho as [->|[->| ->]].
  - rewrite step_regs in Hs |- *. cbn [fst snd] in Hs |- *. injection Hs as Hs.
    rewrite registry_unchanged_string by congruence. rewrite Hcs. tauto.
  - rewrite step_regp in Hs |- *. cbn [fst snd] in Hs |- *. injection Hs as Hs.
    rewrite registry_unchanged_string by congruence. rewrite Hcs. tauto.
  - rewrite step_regf in Hs |- *. cbn [fst snd] in Hs |- *. injection Hs as Hs.
    rewrite registry_unchanged_file by congruence. rewrite Hcs. tauto.
Qed.

Example registry_unchanged_nonvacuous :
  snd (register_template_string reg_new (`"n") (`"{{#if}}")) = CErr TESyntax.
Proof. vm_compute. reflexivity. Qed.

Example registry_unchanged_file_nonvacuous :
  snd (register_template_file reg_new [(`"f", `"{{/x}}")] (`"n") (`"f")) <> COk tt
  /\ snd (register_template_file reg_new [] (`"n") (`"f")) = CErr TEIo.
Proof. split; [vm_compute; discriminate|reflexivity]. Qed.

(* ---- unregistering: rendering the name is TemplateNotFound ---- *)
Theorem unregister_not_found : forall ops n,
  let w := exec_ops world_init (ops ++ [OUnreg n]) in
  get_or_load_template (cur w) (w_files w) n = LoadErr (RTemplateNotFound n)
  /\ snd (step_op w (OHas n)) = Some (ObBool false).
Proof.
  intros ops n w. subst w.
  destruct (observations_agree (ops ++ [OUnreg n]) n [] []) as (H1 & _ & H3 & _).
  rewrite H1, H3. clear H1 H3.
  unfold a_exec. rewrite fold_left_app. cbn [fold_left].
  set (aw := fold_left a_step ops aworld_init).
  assert (Hs : skeys (a_ents (acur aw))).
  { subst aw. fold (a_exec aworld_init ops). rewrite <- refines, <- abs_cur.
    rewrite abs_ents. apply skeys_vmap. apply (inv_tpls _ (world_inv_cur _ (reachable_inv ops))). }
  assert (Hc : forall a, acur (aset_cur aw a) = a)
    by (intros a; unfold acur, aset_cur; destruct (aw_sel aw); reflexivity).
  cbn [a_step]. rewrite Hc. unfold a_load, a_has, a_unregister, a_with. cbn [a_ents].
  rewrite map_get_remove_eq by exact Hs. split; reflexivity.
Qed.

(* registry-level form, for registries satisfying the invariant *)
Theorem unregister_not_found_reg : forall r fs n,
  reg_inv r -> get_or_load_template (unregister_template r n) fs n = LoadErr (RTemplateNotFound n).
Proof.
  intros r fs n Hi. unfold get_or_load_template, get_or_load_template_optional.
  cbn [unregister_template reg_with r_templates r_sources r_dev].
  rewrite !map_get_remove_eq by apply Hi. destruct (r_dev r); reflexivity.
Qed.

(* ---- set_dev_mode false stops all tracking ---- *)
Theorem dev_off_clears_tracking : forall r fs n,
  r_sources (set_dev_mode r false) = []
  /\ get_or_load_template (set_dev_mode r false) fs n
     = match map_get (r_templates r) n with
       | Some t => LoadOk t
       | None => LoadErr (RTemplateNotFound n)
       end.
Proof.
  intros r fs n. split; [reflexivity|].
  unfold get_or_load_template, get_or_load_template_optional.
  cbn [set_dev_mode reg_set_flags r_templates r_sources r_dev].
  destruct (map_get (r_templates r) n); reflexivity.
Qed.

(* ---- compiled with the prevent_indent flag in force at registration ---- *)
Theorem prevent_indent_at_registration : forall r fs n src t b,
  map_get (r_sources r) n = None ->
  compile2 src {| o_prevent_indent := r_prevent_indent r; o_is_partial := false; o_name := Some n |} = COk t ->
  snd (register_template_string r n src) = COk tt
  /\ get_or_load_template (set_prevent_indent (fst (register_template_string r n src)) b) fs n = LoadOk t.
Proof.
  intros r fs n src t b Hs Hc. unfold register_template_string, reg_opts. rewrite Hc. cbn [fst snd].
  split; [reflexivity|]. unfold get_or_load_template, get_or_load_template_optional.
  cbn [set_prevent_indent reg_set_flags register_template reg_with r_templates r_sources r_dev].
  rewrite (map_remove_absent _ _ Hs), Hs, map_get_insert_eq. destruct (r_dev r); reflexivity.
Qed.

(* ... and for every reachable registry, tracked or not *)
Theorem prevent_indent_at_registration_inv : forall r fs n src t b,
  reg_inv r ->
  compile2 src {| o_prevent_indent := r_prevent_indent r; o_is_partial := false; o_name := Some n |} = COk t ->
  snd (register_template_string r n src) = COk tt
  /\ get_or_load_template (set_prevent_indent (fst (register_template_string r n src)) b) fs n = LoadOk t.
Proof.
  intros r fs n src t b Hi Hc. unfold register_template_string, reg_opts. rewrite Hc. cbn [fst snd].
  split; [reflexivity|]. unfold get_or_load_template, get_or_load_template_optional.
  cbn [set_prevent_indent reg_set_flags register_template reg_with r_templates r_sources r_dev].
  rewrite map_get_remove_eq by apply (inv_srcs r Hi). rewrite map_get_insert_eq.
  destruct (r_dev r); reflexivity.
Qed.

Example prevent_indent_at_registration_nonvacuous :
  exists t, compile2 (`"  {{>p}}") {| o_prevent_indent := r_prevent_indent reg_new; o_is_partial := false;
                                      o_name := Some (`"n") |} = COk t
            /\ map_get (r_sources reg_new) (`"n") = None.
Proof. eexists. split; [vm_compute; reflexivity|reflexivity]. Qed.

(* Observation (modelled as is): while a file is tracked, every render
   recompiles it with the prevent_indent flag in force AT RENDER TIME; the
   flag at registration applies to the stored template, which is what is used
   once tracking stops. *)
Theorem tracked_file_uses_current_flags : forall r fs n path content b,
  r_dev r = true -> map_get (r_sources r) n = Some path -> map_get fs path = Some content ->
  get_or_load_template (set_prevent_indent r b) fs n
  = match compile2 content {| o_prevent_indent := b; o_is_partial := false; o_name := Some n |} with
    | COk t => LoadOk t
    | CErr e => LoadErr (RTemplateError e)
    | CPanic _ => LoadPanic
    | CFuel => LoadFuel
    end.
Proof.
  intros r fs n path content b Hd Hs Hf. unfold get_or_load_template, get_or_load_template_optional.
  cbn [set_prevent_indent reg_set_flags r_dev r_sources]. rewrite Hd, Hs, Hf. reflexivity.
Qed.

Example tracked_file_prevent_indent_at_render_time :
  run_case [ODev true; ORegs (`"p") [120; 10; 121]; OFw (`"f") (`" {{>p}}"); ORegf (`"n") (`"f");
            ORender 0 (`"n") JNull None; OPi true; ORender 0 (`"n") JNull None;
            ODev false; ORender 0 (`"n") JNull None]
  = [ObUnit (COk tt); ObUnit (COk tt);
     ObRender (RoOk [32; 120; 10; 32; 121] [] 4);     (* " x\n y"  indented *)
     ObRender (RoOk [32; 120; 10; 121] [] 2);         (* " x\ny"   flag at render time *)
     ObRender (RoOk [32; 120; 10; 32; 121] [] 4)].    (* stored template: flag at registration *)
Proof. vm_compute. reflexivity. Qed.

(* Observation (modelled as is; the property text is silent): while a tracked
   file is missing or invalid, EVERY render of that registry fails, also of
   templates that do not use it; once the file is back, renders succeed again. *)
Example missing_tracked_file_fails_every_render :
  run_case [ODev true; OFw (`"f") (`"A"); ORegf (`"n") (`"f"); ORegs (`"m") (`"B"); OFd (`"f");
            ORender 0 (`"n") JNull None; ORender 0 (`"m") JNull None;
            OFw (`"f") (`"{{#if}}"); ORender 0 (`"n") JNull None;
            OFw (`"f") (`"C"); ORender 0 (`"n") JNull None; ORender 0 (`"m") JNull None]
  = [ObUnit (COk tt); ObUnit (COk tt);
     ObRender (RoErr (mk_err RTemplateIo) [] []);
     ObRender (RoErr (mk_err RTemplateIo) [] []);
     ObRender (RoErr (mk_err (RTemplateError TESyntax)) [] []);
     ObRender (RoOk (`"C") [] 1); ObRender (RoOk (`"B") [] 1)].
Proof. vm_compute. reflexivity. Qed.

(* the whole template map (what partial lookup sees with dev mode off) is the
   projection of the abstract map *)
Lemma templates_of_abs r :
  r_templates r = map (fun kv => (fst kv, en_tpl (snd kv))) (a_ents (abs r)).
Proof.
  unfold abs. cbn [a_ents]. rewrite map_map. cbn [fst snd en_tpl].
  rewrite <- (map_id (r_templates r)) at 1. apply map_ext. intros [k v]. reflexivity.
Qed.

(* ---- a cloned registry evolves independently ---- *)
Lemma step_other_side w o :
  is_clone_or_sel o = false ->
  w_sel (fst (step_op w o)) = w_sel w
  /\ (w_sel w = false -> w_b (fst (step_op w o)) = w_b w)
  /\ (w_sel w = true -> w_a (fst (step_op w o)) = w_a w).
Proof.
  intros Ho.
  assert (Hsc : forall r, w_sel (set_cur w r) = w_sel w
                          /\ (w_sel w = false -> w_b (set_cur w r) = w_b w)
                          /\ (w_sel w = true -> w_a (set_cur w r) = w_a w)).
  { intros r. unfold set_cur. destruct (w_sel w); cbn [w_sel w_a w_b]; repeat split; congruence. }
  destruct o; try discriminate Ho; unfold step_op; cbv beta iota zeta; cbn [fst];
    try apply Hsc; try (cbn [w_sel w_a w_b]; tauto).
  - destruct (register_template_string (cur w) name src); apply Hsc.
  - destruct (register_template_string (cur w) name src); apply Hsc.
  - destruct (register_template_file (cur w) (w_files w) name path); apply Hsc.
  - destruct (compile2 src _); cbn [fst]; try apply Hsc; tauto.
Qed.

Theorem clone_independent : forall ops w,
  forallb (fun o => negb (is_clone_or_sel o)) ops = true ->
  w_sel (exec_ops w ops) = w_sel w
  /\ (w_sel w = false -> w_b (exec_ops w ops) = w_b w)
  /\ (w_sel w = true -> w_a (exec_ops w ops) = w_a w).
Proof.
  induction ops as [|o ops IH]; intros w H; [cbn; tauto|].
  cbn [forallb] in H. apply andb_true_iff in H as [H1 H2]. apply negb_true_iff in H1.
  rewrite exec_ops_cons. destruct (step_other_side w o H1) as (S1 & S2 & S3).
  destruct (IH (fst (step_op w o)) H2) as (I1 & I2 & I3).
  rewrite I1, S1. repeat split.
  - intros Hs. rewrite I2 by congruence. apply S2, Hs.
  - intros Hs. rewrite I3 by congruence. apply S3, Hs.
Qed.

(* clone, then operate on the original: the clone stays the snapshot;
   clone, select the clone, operate: the original stays as it was *)
Theorem clone_snapshot : forall w ops,
  forallb (fun o => negb (is_clone_or_sel o)) ops = true ->
  (w_sel w = false -> w_b (exec_ops w (OClone :: ops)) = Some (w_a w))
  /\ w_a (exec_ops w (OClone :: OSel true :: ops)) = w_a w.
Proof.
  intros w ops H. split.
  - intros Hs. rewrite exec_ops_cons.
    destruct (clone_independent ops (fst (step_op w OClone)) H) as (_ & I2 & _).
    rewrite I2 by exact Hs. cbn. unfold cur. rewrite Hs. reflexivity.
  - rewrite !exec_ops_cons.
    destruct (clone_independent ops (fst (step_op (fst (step_op w OClone)) (OSel true))) H) as (_ & _ & I3).
    rewrite I3 by reflexivity. reflexivity.
Qed.

Example clone_independent_nonvacuous :
  forallb (fun o => negb (is_clone_or_sel o))
          [ORegs (`"n") (`"B"); OUnreg (`"k"); ODev true; OClear] = true.
Proof. reflexivity. Qed.

Example clone_diverges :
  run_case [ORegs (`"n") (`"A"); OClone; OSel true; ORegs (`"n") (`"B"); OUnreg (`"k");
            ORender 0 (`"n") JNull None; OSel false; ORender 0 (`"n") JNull None]
  = [ObUnit (COk tt); ObUnit (COk tt); ObRender (RoOk (`"B") [] 1); ObRender (RoOk (`"A") [] 1)].
Proof. vm_compute. reflexivity. Qed.

(* ================================================================== *)
(* 7. C16: the entry points; rendering is pure                          *)
(* ================================================================== *)

Theorem render_entry_named : forall r fs ft e target data fa,
  e < 4 ->
  render_entry r fs ft e target data fa
  = render_named r fs ft target data (if (e =? 2) || (e =? 3) then fa else None).
Proof.
  intros r fs ft e target data fa H. unfold render_entry, entry_uses_writer.
  apply N.ltb_lt in H as H'. rewrite H'.
  replace (e =? 6) with false by (symmetry; apply N.eqb_neq; lia).
  replace (e =? 7) with false by (symmetry; apply N.eqb_neq; lia).
  rewrite !orb_false_r. reflexivity.
Qed.

Theorem render_entry_string : forall r fs ft e target data fa,
  4 <= e ->
  render_entry r fs ft e target data fa
  = render_string r fs ft target data (if (e =? 6) || (e =? 7) then fa else None).
Proof.
  intros r fs ft e target data fa H. unfold render_entry, entry_uses_writer.
  replace (e <? 4) with false by (symmetry; apply N.ltb_ge; lia).
  replace (e =? 2) with false by (symmetry; apply N.eqb_neq; lia).
  replace (e =? 3) with false by (symmetry; apply N.eqb_neq; lia).
  reflexivity.
Qed.

(* with a writer that does not fail all four entry points of a group agree *)
Theorem entries_named_agree : forall r fs ft e1 e2 target data,
  e1 < 4 -> e2 < 4 ->
  render_entry r fs ft e1 target data None = render_entry r fs ft e2 target data None.
Proof.
  intros. rewrite !render_entry_named by assumption.
  destruct ((e1 =? 2) || (e1 =? 3)), ((e2 =? 2) || (e2 =? 3)); reflexivity.
Qed.

Theorem entries_string_agree : forall r fs ft e1 e2 target data,
  4 <= e1 -> 4 <= e2 ->
  render_entry r fs ft e1 target data None = render_entry r fs ft e2 target data None.
Proof.
  intros. rewrite !render_entry_string by assumption.
  destruct ((e1 =? 6) || (e1 =? 7)), ((e2 =? 6) || (e2 =? 7)); reflexivity.
Qed.

(* the entry points that do not take a writer cannot see writer failures; the
   *_to_write pairs agree with each other for every writer *)
Theorem entries_pairs_agree : forall r fs ft target data fa,
  render_entry r fs ft 0 target data fa = render_entry r fs ft 1 target data fa
  /\ render_entry r fs ft 0 target data fa = render_entry r fs ft 0 target data None
  /\ render_entry r fs ft 2 target data fa = render_entry r fs ft 3 target data fa
  /\ render_entry r fs ft 4 target data fa = render_entry r fs ft 5 target data fa
  /\ render_entry r fs ft 4 target data fa = render_entry r fs ft 4 target data None
  /\ render_entry r fs ft 6 target data fa = render_entry r fs ft 7 target data fa.
Proof.
  intros. unfold render_entry, entry_uses_writer.
  cbn [N.eqb N.ltb N.compare Pos.compare Pos.compare_cont Pos.eqb orb].
  repeat split; reflexivity.
Qed.

Example entries_agree_nonvacuous : (0 < 4 /\ 3 < 4 /\ 4 <= 4 /\ 4 <= 7)%N.
Proof. lia. Qed.

(* ---- rendering does not change the world ---- *)
Theorem render_pure : forall w e target data fa,
  step_op w (ORender e target data fa)
  = (w, Some (ObRender (render_entry (cur w) (w_files w) (w_ft w) e target data fa))).
Proof. reflexivity. Qed.

Lemma exec_render_ops w qs : exec_ops w (map render_op qs) = w.
Proof.
  induction qs as [|[[[e t] d] f] qs IH]; [reflexivity|].
  cbn [map render_op]. rewrite exec_ops_cons, render_pure. exact IH.
Qed.

(* a batch of renders: each gives what it gives when run alone on the same world *)
Theorem render_batch : forall w qs,
  run_ops w (map render_op qs) = flat_map (fun q => run_ops w [render_op q]) qs.
Proof.
  intros w qs. induction qs as [|[[[e t] d] f] qs IH]; [reflexivity|].
  cbn [map flat_map render_op]. rewrite run_ops_cons, render_pure. cbn [fst snd obs_list].
  rewrite IH. reflexivity.
Qed.

Theorem render_alone : forall w e t d f,
  run_ops w [render_op (e, t, d, f)]
  = [ObRender (render_entry (cur w) (w_files w) (w_ft w) e t d f)].
Proof. reflexivity. Qed.

(* any order of the batch gives the same results, reordered the same way *)
Theorem render_batch_perm : forall w qs qs',
  Permutation qs qs' ->
  Permutation (run_ops w (map render_op qs)) (run_ops w (map render_op qs')).
Proof.
  intros w qs qs' H. rewrite !render_batch. induction H.
  - constructor.
  - cbn [flat_map]. apply Permutation_app_head. exact IHPermutation.
  - cbn [flat_map]. rewrite !app_assoc. apply Permutation_app_tail. apply Permutation_app_comm.
  - eapply Permutation_trans; eassumption.
Qed.

Example render_batch_perm_nonvacuous :
  Permutation [(0, `"a", JNull, None); (4, `"b", JNull, None)]
              [(4, `"b", JNull, None); (0, `"a", JNull, @None N)].
Proof. constructor. Qed.

(* renders interleaved anywhere in any sequence of operations: a render leaves
   the state, hence every other observation, as if it had not happened, and
   observes the world exactly as it was at that point *)
Theorem render_interleaved : forall w l1 l2 e t d f,
  let w1 := exec_ops w l1 in
  run_ops w (l1 ++ ORender e t d f :: l2)
  = run_ops w l1 ++ ObRender (render_entry (cur w1) (w_files w1) (w_ft w1) e t d f) :: run_ops w1 l2
  /\ run_ops w (l1 ++ l2) = run_ops w l1 ++ run_ops w1 l2
  /\ exec_ops w (l1 ++ ORender e t d f :: l2) = exec_ops w (l1 ++ l2).
Proof.
  intros w l1 l2 e t d f w1. subst w1. repeat split.
  - rewrite run_ops_app, run_ops_cons, render_pure. reflexivity.
  - apply run_ops_app.
  - rewrite !exec_ops_app, exec_ops_cons, render_pure. reflexivity.
Qed.

(* repeating a render gives the same result *)
Theorem render_repeat : forall w e t d f k,
  run_ops w (repeat (ORender e t d f) k)
  = repeat (ObRender (render_entry (cur w) (w_files w) (w_ft w) e t d f)) k.
Proof.
  intros w e t d f k. induction k as [|k IH]; [reflexivity|].
  cbn [repeat]. rewrite run_ops_cons, render_pure. cbn [fst snd obs_list app]. rewrite IH. reflexivity.
Qed.

(* rendering from a clone gives the same results as from the original *)
Lemma step_clone w :
  step_op w OClone = ({| w_a := w_a w; w_b := Some (cur w); w_sel := w_sel w; w_files := w_files w;
                         w_ft := w_ft w |}, None).
Proof. reflexivity. Qed.
Lemma step_sel w b :
  step_op w (OSel b) = ({| w_a := w_a w; w_b := w_b w; w_sel := b; w_files := w_files w;
                           w_ft := w_ft w |}, None).
Proof. reflexivity. Qed.

Theorem render_from_clone : forall w e t d f,
  run_ops w [OClone; OSel true; ORender e t d f] = run_ops w [ORender e t d f].
Proof.
  intros w e t d f. rewrite !run_ops_cons, step_clone. cbn [fst snd]. rewrite step_sel. cbn [fst snd].
  rewrite !render_pure. cbn [fst snd obs_list app run_ops]. reflexivity.
Qed.

(* ---- C05, last sentence: a failed render leaves later renders unaffected ---- *)
Theorem after_failed_render : forall w l1 l2 e t d f err acc lg,
  let w1 := exec_ops w l1 in
  render_entry (cur w1) (w_files w1) (w_ft w1) e t d f = RoErr err acc lg ->
  run_ops w (l1 ++ ORender e t d f :: l2)
  = run_ops w l1 ++ ObRender (RoErr err acc lg) :: run_ops w1 l2
  /\ run_ops w (l1 ++ l2) = run_ops w l1 ++ run_ops w1 l2
  /\ exec_ops w (l1 ++ ORender e t d f :: l2) = exec_ops w (l1 ++ l2).
Proof.
  intros w l1 l2 e t d f err acc lg w1 H.
  destruct (render_interleaved w l1 l2 e t d f) as (H1 & H2 & H3). fold w1 in H1, H2.
  rewrite H in H1. auto.
Qed.

Example after_failed_render_nonvacuous :
  exists err acc lg,
    render_entry (cur world_init) (w_files world_init) (w_ft world_init) 0 (`"nope") JNull None
    = RoErr err acc lg.
Proof. do 3 eexists. vm_compute. reflexivity. Qed.

Example failed_then_ok :
  run_case [ORegs (`"n") (`"A"); ORender 0 (`"nope") JNull None; ORender 0 (`"n") JNull None]
  = [ObUnit (COk tt); ObRender (RoErr (mk_err (RTemplateNotFound (`"nope"))) [] []);
     ObRender (RoOk (`"A") [] 1)].
Proof. vm_compute. reflexivity. Qed.

(* ================================================================== *)
(* 8. C16 across the groups: the template name is set at the very end  *)
(* ================================================================== *)

Lemma step_name_irrel src ts o1 o2 f c pr it :
  o_prevent_indent o1 = o_prevent_indent o2 -> o_is_partial o1 = o_is_partial o2 ->
  step src ts o1 f c pr it = step src ts o2 f c pr it.
Proof. destruct o1, o2; cbn; intros -> ->; reflexivity. Qed.

Lemma t_set_name_twice t a b : t_set_name (t_set_name t a) b = t_set_name t b.
Proof. destruct t; reflexivity. Qed.

Lemma t_name_set t a : t_name (t_set_name t a) = a.
Proof. destruct t; reflexivity. Qed.

Lemma main_loop_name src ts o1 o2 :
  o_prevent_indent o1 = o_prevent_indent o2 -> o_is_partial o1 = o_is_partial o2 ->
  forall fuel c it,
    main_loop src ts o2 fuel c it
    = cres_map (fun t => t_set_name t (o_name o2)) (main_loop src ts o1 fuel c it).
Proof.
  intros Hp Hq. induction fuel as [|f IH]; intros c it; [reflexivity|].
  cbn [main_loop]. destruct it as [|pr it'].
  - destruct (if _ <? _ then _ else _) as [l| | |]; cbn [cbind cres_map]; try reflexivity.
    destruct l as [|root l']; cbn [cres_map]; [reflexivity|].
    rewrite t_set_name_twice. reflexivity.
  - rewrite (step_name_irrel src ts o1 o2 f c pr it' Hp Hq).
    destruct (step src ts o2 f c pr it') as [[c' it'']| | |]; cbn [cbind cres_map]; try reflexivity.
    apply IH.
Qed.

(* the options' name is used only to name the finished root template *)
Theorem compile2_name : forall src o1 o2,
  o_prevent_indent o1 = o_prevent_indent o2 -> o_is_partial o1 = o_is_partial o2 ->
  compile2 src o2 = cres_map (fun t => t_set_name t (o_name o2)) (compile2 src o1).
Proof.
  intros src o1 o2 Hp Hq. unfold compile2.
  destruct (hb_parse (peg_fuel src) R_handlebars src); try reflexivity.
  unfold compile_tokens. apply main_loop_name; assumption.
Qed.

Theorem compile2_named_vs_anonymous : forall r src n,
  compile2 src (reg_opts r (Some n))
  = cres_map (fun t => t_set_name t (Some n)) (compile2 src (reg_opts r None)).
Proof. intros. apply (compile2_name src (reg_opts r None) (reg_opts r (Some n))); reflexivity. Qed.

Theorem compile2_root_name : forall src o t, compile2 src o = COk t -> t_name t = o_name o.
Proof.
  intros src o t H. pose proof (compile2_name src o o eq_refl eq_refl) as E. rewrite H in E.
  cbn [cres_map] in E. injection E as E. rewrite E. apply t_name_set.
Qed.

(* PARTIAL: the two groups run the same renderer on templates that differ only
   in the root name, over registries that differ only in the entry of n.
   Missing: that render_template gives the same output for the two when the
   template (and the partials it reaches) never refers to the name n — a
   statement about the render fixpoint, not about RegOps. *)
Theorem cross_group_partial : forall r fs ft n src data fa t,
  r_dev r = false ->
  compile2 src (reg_opts r None) = COk t ->
  let t' := t_set_name t (Some n) in
  let r' := register_template r n t' in
  register_template_string r n src = (r', COk tt)
  /\ t_name t = None
  /\ render_entry r' fs ft 0 n data fa
     = finish_render (render_template r' data ft (render_fuel r' t') t' (st_init (Some n) None None))
  /\ render_entry r fs ft 4 src data fa
     = finish_render (render_template r data ft (render_fuel r t) t (st_init None None None)).
Proof.
  intros r fs ft n src data fa t Hd Hc t' r'.
  assert (Hn : t_name t = None) by (apply (compile2_root_name _ _ _ Hc)).
  repeat split.
  - unfold register_template_string. rewrite compile2_named_vs_anonymous, Hc. reflexivity.
  - exact Hn.
  - rewrite render_entry_named by lia. cbn [N.eqb orb].
    unfold render_named, get_or_load_template, get_or_load_template_optional.
    change (r_dev r') with (r_dev r). rewrite Hd.
    subst r'. cbn [register_template reg_with r_templates]. rewrite map_get_insert_eq.
    cbn [option_map]. unfold render_resolved.
    change (r_dev (register_template r n t')) with (r_dev r). rewrite Hd. cbn [negb].
    subst t'. rewrite t_name_set. reflexivity.
  - rewrite render_entry_string by lia. cbn [N.eqb orb]. unfold render_string. rewrite Hc.
    unfold render_resolved. rewrite Hd. cbn [negb]. rewrite Hn. reflexivity.
Qed.

Example cross_group_nonvacuous :
  exists t, compile2 (`"a{{x}}") (reg_opts reg_new None) = COk t /\ r_dev reg_new = false.
Proof. eexists. split; [vm_compute; reflexivity|reflexivity]. Qed.
