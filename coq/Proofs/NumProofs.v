(* Proofs/NumProofs.v — exactness and order laws of the comparison helpers. *)
From Coq Require Import QArith Lia ZArith.
From HB Require Import Base.Json.
Open Scope Z_scope.

(* the rational denoted by mant * 2^exp, written out concretely *)
Definition dy_q (d : Z * Z) : Q :=
  let '(m, e) := d in
  if 0 <=? e then inject_Z (m * 2 ^ e) else Qmake m (Z.to_pos (2 ^ (- e))).

Definition num_q (x : num) : Q := dy_q (dyadic x).

Lemma pow2_pos e : 0 <= e -> 0 < 2 ^ e.
Proof. intros; apply Z.pow_pos_nonneg; lia. Qed.

Lemma cmp_scale x y c : 0 < c -> (x * c ?= y * c) = (x ?= y).
Proof. intros Hc. symmetry. apply Zmult_compare_compat_r. lia. Qed.

Lemma cmp_common x y a b c : 0 < c -> a = x * c -> b = y * c -> (x ?= y) = (a ?= b).
Proof. intros Hc -> ->. symmetry. apply cmp_scale; exact Hc. Qed.

Lemma pow2_split a b : 0 <= a -> 0 <= b -> 2 ^ (a + b) = 2 ^ a * 2 ^ b.
Proof. intros. apply Z.pow_add_r; lia. Qed.

Lemma dy_cmp_exact a b : dy_cmp a b = Qcompare (dy_q a) (dy_q b).
Proof.
  destruct a as [m1 e1], b as [m2 e2]. unfold dy_cmp, dy_q, Qcompare.
  destruct (Z.leb_spec 0 e1) as [H1|H1]; destruct (Z.leb_spec 0 e2) as [H2|H2]; cbn [Qnum Qden inject_Z].
  - (* both exponents non-negative: scale both sides by 2^min *)
    rewrite !Z.mul_1_r.
    apply (cmp_common _ _ _ _ (2 ^ Z.min e1 e2)); [apply pow2_pos; lia| |].
    + rewrite <- Z.mul_assoc, <- pow2_split by lia. f_equal. f_equal. lia.
    + rewrite <- Z.mul_assoc, <- pow2_split by lia. f_equal. f_equal. lia.
  - (* e1 >= 0 > e2 *)
    rewrite Z.min_r by lia. replace (e2 - e2) with 0 by lia. rewrite Z.pow_0_r, !Z.mul_1_r.
    rewrite Z2Pos.id by (apply pow2_pos; lia).
    replace (e1 - e2) with (e1 + - e2) by lia. rewrite pow2_split by lia.
    rewrite Z.mul_assoc. reflexivity.
  - (* e2 >= 0 > e1 *)
    rewrite Z.min_l by lia. replace (e1 - e1) with 0 by lia. rewrite Z.pow_0_r, !Z.mul_1_r.
    rewrite Z2Pos.id by (apply pow2_pos; lia).
    replace (e2 - e1) with (e2 + - e1) by lia. rewrite pow2_split by lia.
    rewrite Z.mul_assoc. reflexivity.
  - (* both negative: (m1 * 2^(e1-e)) * 2^(-e1-e2+e)... scale by 2^(-max) *)
    rewrite !Z2Pos.id by (apply pow2_pos; lia).
    apply (cmp_common _ _ _ _ (2 ^ (- Z.max e1 e2))); [apply pow2_pos; lia| |].
    + rewrite <- Z.mul_assoc, <- pow2_split by lia. f_equal. f_equal. lia.
    + rewrite <- Z.mul_assoc, <- pow2_split by lia. f_equal. f_equal. lia.
Qed.

Lemma dy_q_int z : dy_q (z, 0) = inject_Z z.
Proof. unfold dy_q. cbn. rewrite Z.mul_1_r. reflexivity. Qed.

Lemma Qcompare_inject a b : Qcompare (inject_Z a) (inject_Z b) = (a ?= b).
Proof. unfold Qcompare; cbn. rewrite !Z.mul_1_r. reflexivity. Qed.

Lemma Qcompare_opp_flip p q : CompOpp (Qcompare p q) = Qcompare q p.
Proof. unfold Qcompare. rewrite <- Z.compare_antisym. reflexivity. Qed.

(* cmp_nums compares the exact mathematical values, for every pair of numbers
   in every combination of representations *)
Theorem cmp_nums_exact a b : cmp_nums a b = Some (Qcompare (num_q a) (num_q b)).
Proof.
  unfold num_q.
  destruct a as [x|x|x]; destruct b as [y|y|y]; unfold cmp_nums;
    cbn [is_u64 is_i64 is_f64 as_u64 as_i64 option_map dyadic].
  - rewrite !dy_q_int, Qcompare_inject, N2Z.inj_compare. reflexivity.
  - rewrite !dy_q_int, Qcompare_inject. reflexivity.
  - unfold cmp_u64_f64. rewrite dy_cmp_exact. reflexivity.
  - rewrite !dy_q_int, Qcompare_inject. reflexivity.
  - rewrite !dy_q_int, Qcompare_inject. reflexivity.
  - unfold cmp_i64_f64. rewrite dy_cmp_exact. reflexivity.
  - unfold cmp_u64_f64. rewrite dy_cmp_exact, Qcompare_opp_flip. reflexivity.
  - unfold cmp_i64_f64. rewrite dy_cmp_exact, Qcompare_opp_flip. reflexivity.
  - rewrite dy_cmp_exact. reflexivity.
Qed.

Lemma cmp_nums_antisym a b : cmp_nums b a = option_map CompOpp (cmp_nums a b).
Proof. rewrite !cmp_nums_exact. cbn. rewrite Qcompare_opp_flip. reflexivity. Qed.

Lemma str_cmp_antisym a : forall b, str_cmp b a = CompOpp (str_cmp a b).
Proof.
  induction a as [|x a IH]; intros [|y b]; cbn; try reflexivity.
  rewrite (N.compare_antisym x y). destruct (x ?= y)%N; cbn; auto.
Qed.

Lemma option_map_CompOpp_invol (o : option comparison) :
  option_map CompOpp (option_map CompOpp o) = o.
Proof. destruct o as [[]|]; reflexivity. Qed.

Theorem compare_json_antisym x y : compare_json y x = option_map CompOpp (compare_json x y).
Proof.
  destruct x, y; cbn; try reflexivity.
  - destruct b, b0; reflexivity.
  - apply cmp_nums_antisym.
  - destruct (parse_json_number s); reflexivity.
  - destruct (parse_json_number s); cbn; [|reflexivity].
    rewrite option_map_CompOpp_invol. reflexivity.
  - rewrite str_cmp_antisym. reflexivity.
Qed.

Theorem lt_gt_flip x y : h_lt x y = h_gt y x.
Proof. unfold h_lt, h_gt. rewrite (compare_json_antisym x y). destruct (compare_json x y) as [[]|]; reflexivity. Qed.

Theorem gte_lte_flip x y : h_gte x y = h_lte y x.
Proof. unfold h_gte, h_lte. rewrite (compare_json_antisym x y). destruct (compare_json x y) as [[]|]; reflexivity. Qed.

Theorem gt_implies x y : h_gt x y = true -> h_gte x y = true /\ h_lt x y = false.
Proof. unfold h_gt, h_gte, h_lt. destruct (compare_json x y) as [[]|]; intros; try discriminate; auto. Qed.

Theorem eq_ne x y : h_eq x y = negb (h_ne x y).
Proof. unfold h_eq, h_ne. rewrite negb_involutive. reflexivity. Qed.

(* every pairing other than number/number, string/string, bool/bool and
   number/numeric-string makes all four comparisons false *)
Definition comparable (x y : json) : bool :=
  match x, y with
  | JNum _, JNum _ | JStr _, JStr _ | JBool _, JBool _ | JNum _, JStr _ | JStr _, JNum _ => true
  | _, _ => false
  end.
Theorem incomparable_all_false x y :
  comparable x y = false -> h_gt x y = false /\ h_gte x y = false /\ h_lt x y = false /\ h_lte x y = false.
Proof.
  unfold h_gt, h_gte, h_lt, h_lte. destruct x, y; cbn; intros H; try discriminate; auto.
Qed.

Theorem num_vs_nonnumeric_string a s :
  parse_json_number s = None ->
  h_gt (JNum a) (JStr s) = false /\ h_gte (JNum a) (JStr s) = false /\
  h_lt (JNum a) (JStr s) = false /\ h_lte (JNum a) (JStr s) = false.
Proof. unfold h_gt, h_gte, h_lt, h_lte. cbn. intros ->. auto. Qed.

Theorem num_vs_numeric_string a s b :
  parse_json_number s = Some b ->
  compare_json (JNum a) (JStr s) = Some (Qcompare (num_q a) (num_q b)).
Proof. cbn. intros ->. apply cmp_nums_exact. Qed.

(* strings: lexicographic by code point *)
Inductive lex_lt : str -> str -> Prop :=
| lex_nil y b : lex_lt [] (y :: b)
| lex_head x y a b : (x < y)%N -> lex_lt (x :: a) (y :: b)
| lex_tail x a b : lex_lt a b -> lex_lt (x :: a) (x :: b).

Theorem str_cmp_lex a : forall b, str_cmp a b = Lt <-> lex_lt a b.
Proof.
  induction a as [|x a IH]; intros [|y b]; cbn.
  - split; [discriminate|inversion 1].
  - split; [constructor|reflexivity].
  - split; [discriminate|inversion 1].
  - destruct (N.compare_spec x y) as [->|Hlt|Hgt].
    + rewrite IH. split; [apply lex_tail|]. inversion 1; subst; auto. lia.
    + split; [intros _; apply lex_head; auto|reflexivity].
    + split; [discriminate|]. inversion 1; subst; lia.
Qed.

Theorem str_cmp_eq a : forall b, str_cmp a b = Eq <-> a = b.
Proof.
  induction a as [|x a IH]; intros [|y b]; cbn; try (split; [discriminate|discriminate]); [tauto|].
  destruct (N.compare_spec x y) as [->|Hlt|Hgt].
  - rewrite IH. split; [intros ->; reflexivity|inversion 1; reflexivity].
  - split; [discriminate|inversion 1; lia].
  - split; [discriminate|inversion 1; lia].
Qed.

Theorem bool_order : compare_json (JBool false) (JBool true) = Some Lt
  /\ compare_json (JBool true) (JBool false) = Some Gt
  /\ compare_json (JBool true) (JBool true) = Some Eq
  /\ compare_json (JBool false) (JBool false) = Some Eq.
Proof. cbn. auto. Qed.

Theorem and_or_not_len :
  (forall l, h_and l = forallb (is_truthy false) l) /\
  (forall l, h_or l = existsb (is_truthy false) l) /\
  (forall x, h_not x = negb (is_truthy false x)) /\
  h_and [] = true /\ h_or [] = false /\
  (forall l, h_len (JArr l) = N.of_nat (length l)) /\
  (forall m, h_len (JObj m) = N.of_nat (length m)) /\
  (forall s, h_len (JStr s) = utf8_len s) /\
  (forall x, (match x with JArr _ | JObj _ | JStr _ => False | _ => True end) -> h_len x = 0%N).
Proof.
  repeat split; try reflexivity. intros x; destruct x; cbn; tauto.
Qed.

(* non-vacuity / boundary examples evaluated by the kernel *)
Example cmp_2p53_plus1 :
  cmp_nums (PosInt 9007199254740993) (Float 4845873199050653696 (* 2^53 as f64 *)) = Some Gt.
Proof. vm_compute. reflexivity. Qed.
Example cmp_i64min_float :
  cmp_nums (NegInt (-9223372036854775808)) (Float 14114281232179134464 (* -2^63 *)) = Some Eq.
Proof. vm_compute. reflexivity. Qed.
Example cmp_u64max_float :
  cmp_nums (PosInt 18446744073709551615) (Float 4895412794951729152 (* 2^64 *)) = Some Lt.
Proof. vm_compute. reflexivity. Qed.
Example cmp_negzero : cmp_nums (PosInt 0) (Float 9223372036854775808 (* -0.0 *)) = Some Eq.
Proof. vm_compute. reflexivity. Qed.
