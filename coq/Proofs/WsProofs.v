(* Proofs/WsProofs.v — the whitespace state machine of the compile loop (C11,
   C03): what every tag class does to the two flags c_omit / c_trim, to the text
   in front of the tag and to the text behind it. *)
From HB Require Import Tpl.Compile Proofs.CompileBase Spec.AlignedSpec Spec.WsSpec Proofs.LeafStr.
Open Scope N_scope.

Ltac okinv H := injection H; clear H; intros; subst.

(* ---------- small facts ---------- *)
Lemma start_is_prev_end (a b : N) : (if negb (N.eqb a b) then b else a) = b.
Proof. destruct (N.eqb_spec a b); cbn [negb]; congruence. Qed.

Lemma es_or_pre_false e : es_or_pre e false = e.
Proof. destruct e. unfold es_or_pre. cbn. rewrite orb_false_r. reflexivity. Qed.

Lemma raw_string_none txt t el :
  raw_string txt None false t = COk el -> el = ElRaw (ws_text false t txt).
Proof. unfold raw_string, ws_text. cbn [cbind]. destruct t; intro H; okinv H; reflexivity. Qed.

Lemma raw_string_some all_tokens txt pr o t el :
  raw_string txt (Some (pr, inner_escapes all_tokens pr)) o t = COk el ->
  exists s, unescape all_tokens pr txt = COk s /\ el = ElRaw (ws_text o t s).
Proof.
  unfold raw_string. intro H. cinv H. exists a. split; [unfold unescape; exact E|].
  unfold ws_text. destruct o; [okinv H; reflexivity|]. destruct t; okinv H; reflexivity.
Qed.

Section Ws.
  Variable src : str.

  (* ---------- item 5: the standalone check ---------- *)
  Lemma process_standalone_statement_spec ts pr pi ip b ts' :
    process_standalone_statement src ts pr pi ip = COk (b, ts') ->
    b = standalone src pr ip /\ ts' = sa_trim src pr pi ip ts.
  Proof.
    unfold process_standalone_statement, standalone, sa_trim, line_end_after, line_start_before, all_blank.
    intro H. destruct (suffix_from src (tk_end pr)) as [cont|]; [|discriminate].
    match type of H with (if ?c then _ else _) = _ => destruct c end;
      [|okinv H; split; reflexivity].
    destruct (prefix_to src (tk_start pr)) as [before|]; [|discriminate].
    cinv H. okinv H. cbn [andb]. split; [reflexivity|].
    destruct (pi && ends_with_empty_line before); [|okinv E; reflexivity].
    destruct ts as [|t0 r]; [discriminate|]. okinv E. reflexivity.
  Qed.

  (* when does it succeed: the two slices exist, and a front template exists if
     the indentation has to be removed *)
  Lemma process_standalone_statement_ok ts pr pi ip :
    (exists after, suffix_from src (tk_end pr) = Some after) ->
    (exists before, prefix_to src (tk_start pr) = Some before) ->
    ts <> [] ->
    process_standalone_statement src ts pr pi ip
    = COk (standalone src pr ip, sa_trim src pr pi ip ts).
  Proof.
    intros [after Ha] [before Hb] Hts.
    unfold process_standalone_statement, standalone, sa_trim, line_end_after, line_start_before, all_blank.
    rewrite Ha, Hb.
    match goal with |- (if ?c then _ else _) = _ => destruct c end; [|reflexivity].
    cbn [andb]. destruct (pi && ends_with_empty_line before); [|reflexivity].
    destruct ts as [|t0 r]; [contradiction Hts; reflexivity|]. reflexivity.
  Qed.

  (* the verdict as a closed formula over the text around the tag, in the
     vocabulary of the leaf specifications (32 = space, 9 = tab, 10 = LF, 13 = CR) *)
  Lemma all_blank_iff s : all_blank s = true <-> Forall (fun c => c = 32 \/ c = 9) s.
  Proof.
    unfold all_blank, trim_start_blank. rewrite <- blanks_iff.
    induction s as [|c s IH]; cbn [drop_while forallb]; [tauto|].
    destruct (is_blank c); cbn [andb]; [exact IH|]. split; discriminate.
  Qed.

  Theorem standalone_closed_form pr ip :
    standalone src pr ip = true <->
    exists before after,
      prefix_to src (tk_start pr) = Some before /\ suffix_from src (tk_end pr) = Some after /\
      ((exists b c r, after = b ++ c :: r /\ Forall (fun c => c = 32 \/ c = 9) b /\ (c = 10 \/ c = 13))
       \/ (ip = false /\ Forall (fun c => c = 32 \/ c = 9) after)) /\
      (tk_start pr = 0
       \/ exists p t, before = p ++ t /\ Forall (fun c => c = 32 \/ c = 9) t /\
            (p = [] \/ exists p' c, p = p' ++ [c] /\ (c = 10 \/ c = 13))).
  Proof.
    unfold standalone, line_end_after, line_start_before. split.
    - intro H. apply andb_prop in H. destruct H as [Ha Hb].
      destruct (suffix_from src (tk_end pr)) as [after|] eqn:Es; [|discriminate].
      assert (Hpre : exists before, prefix_to src (tk_start pr) = Some before).
      { destruct (prefix_to src (tk_start pr)) as [before|] eqn:Ep; [eexists; reflexivity|].
        (* tk_start = 0: the prefix of length 0 always exists *)
        apply orb_prop in Hb. destruct Hb as [Hb|Hb]; [|discriminate].
        apply N.eqb_eq in Hb. rewrite Hb in Ep. unfold prefix_to, slice in Ep.
        assert (H0 : N.leb 0 (len src) = true) by (apply N.leb_le; lia).
        rewrite H0 in Ep. change (N.leb 0 0) with true in Ep. discriminate. }
      destruct Hpre as [before Ep]. rewrite Ep in Hb. exists before, after.
      split; [exact Ep|]. split; [reflexivity|]. split.
      + apply orb_prop in Ha. destruct Ha as [Ha|Ha].
        * left. apply starts_with_empty_line_spec. exact Ha.
        * right. apply andb_prop in Ha. destruct Ha as [H1 H2]. split.
          -- destruct ip; [discriminate|reflexivity].
          -- apply all_blank_iff. exact H2.
      + apply orb_prop in Hb. destruct Hb as [Hb|Hb].
        * left. apply N.eqb_eq. exact Hb.
        * right. apply ends_with_empty_line_spec. exact Hb.
    - intros (before & after & Ep & Es & Ha & Hb). rewrite Es, Ep. apply andb_true_intro. split.
      + apply orb_true_intro. destruct Ha as [Ha|[-> Ha]].
        * left. apply starts_with_empty_line_spec. exact Ha.
        * right. cbn [negb andb]. apply all_blank_iff. exact Ha.
      + apply orb_true_intro. destruct Hb as [Hb|Hb].
        * left. apply N.eqb_eq. exact Hb.
        * right. apply ends_with_empty_line_spec. exact Hb.
  Qed.

  (* ---------- the tag prologue ---------- *)
  Lemma remove_previous_whitespace_spec ts ts' :
    remove_previous_whitespace ts = COk ts' -> ts' = front_map trim_end ts.
  Proof. unfold remove_previous_whitespace. destruct ts; [discriminate|]. intro H. okinv H. reflexivity. Qed.

  Lemma lead_trim_spec (pre : bool) ts ts1 :
    (if pre then remove_previous_whitespace ts else COk ts) = COk ts1 -> ts1 = lead_trim pre ts.
  Proof.
    unfold lead_trim. destruct pre; [apply remove_previous_whitespace_spec|]. intro H. okinv H. reflexivity.
  Qed.

  Lemma tag_prologue_spec fuel c pr it e ts1 it1 :
    tag_prologue src fuel c pr it = COk (e, ts1, it1) ->
    parse_expression src fuel it (tk_end pr) = COk (e, it1) /\ ts1 = lead_trim (es_pre e) (c_ts c).
  Proof.
    unfold tag_prologue. intro H. cinv H. destruct a as [e' it']. cinv H. okinv H.
    split; [reflexivity|]. apply lead_trim_spec. exact E0.
  Qed.

  (* ---------- the trailing-string pre-step ---------- *)
  Lemma trailing_string_spec c pr lc c1 :
    trailing_string src c pr lc = COk c1 ->
    c_omit c1 = c_omit c /\ c_hs c1 = c_hs c /\ c_ds c1 = c_ds c /\ c_end c1 = c_end c /\
    if trailing_fires c pr
    then c_omit c = false /\ c_trim c1 = false /\
         exists txt, slice src (prev_end c) (tk_start pr) = Some txt
                     /\ trailing_push c pr lc (ElRaw (ws_text false (c_trim c) txt)) (c_ts c1)
    else c1 = c.
  Proof.
    unfold trailing_string, trailing_fires, prev_end, trailing_push. intro H.
    match type of H with (if ?b then _ else _) = _ => destruct b eqn:Ef end;
      [|okinv H; repeat split].
    assert (Ho : c_omit c = false).
    { destruct (c_omit c); [|reflexivity]. rewrite !andb_false_r in Ef. cbn in Ef.
      rewrite ?andb_false_r in Ef. discriminate. }
    destruct (slice src _ _) as [txt|]; [|discriminate].
    cinv H. apply raw_string_none in E. subst a.
    destruct (rule_eqb (tk_rule pr) R_raw_block_end).
    - okinv H. cbn [set_stack c_omit c_hs c_ds c_end c_trim c_ts].
      repeat split; try assumption. exists txt. split; reflexivity.
    - cinv H. okinv H. cbn [set_stack c_omit c_hs c_ds c_end c_trim c_ts].
      repeat split; try assumption. exists txt. split; [reflexivity|].
      unfold push_front_el in E. destruct (c_ts c) as [|t r]; [discriminate|]. okinv E.
      exists t, r. split; reflexivity.
  Qed.

  (* no pre-step in front of template / raw_text / raw_block_text tokens *)
  Lemma trailing_fires_text c pr :
    match tag_classify (tk_rule pr) with
    | KTemplate | KRawText | KRawBlockText => trailing_fires c pr = false
    | _ => True
    end.
  Proof.
    unfold trailing_fires. destruct (tk_rule pr); cbn [tag_classify]; try exact I;
      cbn; rewrite ?andb_false_r; reflexivity.
  Qed.

  Variable all_tokens : list tok.
  Variable opts : copts.

  (* ---------- the master characterisation of one step ---------- *)
  Theorem step_ws fuel c pr it c' it' :
    step src all_tokens opts fuel c pr it = COk (c', it') ->
    let lc := line_col src (tk_start pr) in
    let cls := tag_classify (tk_rule pr) in
    exists c1, trailing_string src c pr lc = COk c1 /\
    match cls with
    | KTemplate =>
        c_omit c' = c_omit c1 /\ c_trim c' = c_trim c1 /\ c_ts c' = t_empty :: c_ts c1 /\ it' = it
    | KOtherRule =>
        c_omit c' = c_omit c1 /\ c_trim c' = c_trim c1 /\ c_ts c' = c_ts c1 /\ it' = it
    | KRawText =>
        exists txt s t r,
          slice src (prev_end c) (tk_end pr) = Some txt /\ unescape all_tokens pr txt = COk s /\
          c_ts c1 = t :: r /\
          c_ts c' = t_push t (ElRaw (ws_text (c_omit c1) (c_trim c1) s)) lc :: r /\
          c_omit c' = c_omit c1 /\ c_trim c' = false /\ it' = it
    | KRawBlockText =>
        exists txt s,
          slice src (prev_end c) (tk_end pr) = Some txt /\ unescape all_tokens pr txt = COk s /\
          c_ts c' = t_push t_empty (ElRaw (ws_text (c_omit c1) (c_trim c1) s)) lc :: c_ts c1 /\
          c_omit c' = c_omit c1 /\ c_trim c' = c_trim c1 /\ it' = it
    | KComment _ =>
        c_omit c' = false /\ c_trim c' = standalone src pr (o_is_partial opts) /\
        own_effect cls lc (tag_ws_stack src opts cls pr false (c_ts c1)) (c_ts c') /\ it' = it
    | _ =>
        exists e, tag_expr src fuel pr it = COk (e, it') /\
          c_omit c' = es_pro e /\
          c_trim c' = (match cls with KValueExpr _ => false | _ => standalone src pr (o_is_partial opts) end) /\
          own_effect cls lc (tag_ws_stack src opts cls pr (es_pre e) (c_ts c1)) (c_ts c')
    end.
  Proof.
    unfold step, tag_expr. intros H. cbv zeta. cinv H. rename a into c1. exists c1. split; [reflexivity|].
    clear E. fold (prev_end c) in H. cinv H. destruct a as [c2 it2].
    destruct (tag_classify (tk_rule pr)) eqn:Ecls.
    - (* template *) okinv E. okinv H. repeat split.
    - (* raw text *)
      rewrite start_is_prev_end in E.
      destruct (slice src (prev_end c) (tk_end pr)) as [txt|]; [|discriminate].
      cinv E. cinv E. okinv E. okinv H.
      destruct (raw_string_some _ _ _ _ _ _ E0) as (s & Hs & ->).
      unfold push_front_el in E1. destruct (c_ts c1) as [|t r]; [discriminate|]. okinv E1.
      exists txt, s, t, r. repeat split. exact Hs.
    - (* raw block text *)
      rewrite start_is_prev_end in E.
      destruct (slice src (prev_end c) (tk_end pr)) as [txt|]; [|discriminate].
      cinv E. okinv E. okinv H.
      destruct (raw_string_some _ _ _ _ _ _ E0) as (s & Hs & ->).
      exists txt, s. repeat split. exact Hs.
    - (* block start *)
      cinv E. destruct a as [[e ts1] it1]. cinv E. destruct a as [trim ts2].
      destruct (tag_prologue_spec _ _ _ _ _ _ _ E0) as [Hpe ->].
      destruct (process_standalone_statement_spec _ _ _ _ _ _ E1) as [-> ->].
      exists e.
      destruct deco; cbn [c_ts] in E;
        (destruct (sa_trim src pr true (o_is_partial opts) (lead_trim (es_pre e) (c_ts c1))) as [|t r] eqn:Ets;
         [discriminate|]); okinv E; okinv H;
        (split; [exact Hpe|]); repeat split;
        unfold own_effect, tag_ws_stack; cbn [standalone_capable]; rewrite Ets;
        exists t, r; split; reflexivity.
    - (* invert *)
      match type of E with (let '(_, _) := ?x in _) = _ => destruct x as [chain_pre ita] eqn:Epre end.
      cinv E. rename a into it0. cinv E. destruct a as [e0 it1].
      cinv E. rename a into ts1. cinv E. destruct a as [trim ts2].
      apply lead_trim_spec in E2. subst ts1.
      destruct (process_standalone_statement_spec _ _ _ _ _ _ E3) as [-> ->].
      destruct (sa_trim src pr true (o_is_partial opts)
                  (lead_trim (es_pre (es_or_pre e0 chain_pre)) (c_ts c1))) as [|t ts3] eqn:Ets;
        [discriminate|].
      destruct (c_hs c1) as [|h hs]; [discriminate|]. cinv E. okinv E. okinv H.
      assert (Hexpr : (if chain
                       then (let '(chain_pre0, ita0) :=
                               match it with
                               | t0 :: it0' => if is_rule R_leading_tilde_to_omit_whitespace t0
                                               then (true, it0') else (false, it)
                               | [] => (false, it)
                               end in
                             do '(_, it0') <- parse_name src fuel ita0;
                             do '(e1, it1') <- parse_expression src fuel it0' (tk_end pr);
                             COk (es_or_pre e1 chain_pre0, it1'))
                       else parse_expression src fuel it (tk_end pr))
                      = COk (es_or_pre e0 chain_pre, it')).
      { destruct chain.
        - rewrite Epre. cbv beta iota.
          destruct (parse_name src fuel ita) as [[nm it0']| | |]; cbn [cbind] in E0 |- *;
            try discriminate.
          okinv E0. rewrite E1. reflexivity.
        - okinv Epre. okinv E0. rewrite es_or_pre_false. exact E1. }
      exists (es_or_pre e0 chain_pre). split.
      + destruct chain; exact Hexpr.
      + repeat split. unfold own_effect, tag_ws_stack. cbn [standalone_capable]. rewrite Ets.
        exists t. reflexivity.
    - (* value expression *)
      cinv E. destruct a as [[e ts1] it1]. cinv E. okinv E. okinv H.
      destruct (tag_prologue_spec _ _ _ _ _ _ _ E0) as [Hpe ->].
      exists e. split; [exact Hpe|]. repeat split.
      unfold own_effect, tag_ws_stack. cbn [standalone_capable].
      unfold push_front_el in E1. destruct (lead_trim (es_pre e) (c_ts c1)) as [|t r]; [discriminate|].
      okinv E1. exists t, r, (mk_helper e false false false). split; reflexivity.
    - (* decorator / partial expression *)
      cinv E. destruct a as [[e ts1] it1]. cinv E. destruct a as [trim ts2]. cinv E. cinv E.
      okinv E. okinv H.
      destruct (tag_prologue_spec _ _ _ _ _ _ _ E0) as [Hpe ->].
      destruct (process_standalone_statement_spec _ _ _ _ _ _ E1) as [-> ->].
      exists e. split; [exact Hpe|]. repeat split.
      unfold own_effect, tag_ws_stack. cbn [standalone_capable].
      unfold push_front_el in E3.
      destruct (sa_trim src pr (negb (partial && o_prevent_indent opts)) (o_is_partial opts)
                  (lead_trim (es_pre e) (c_ts c1))) as [|t r]; [discriminate|].
      okinv E3. exists t, r. eexists. split; reflexivity.
    - (* helper block end *)
      cinv E. destruct a as [[e ts1] it1]. cinv E. destruct a as [trim ts2].
      destruct (tag_prologue_spec _ _ _ _ _ _ _ E0) as [Hpe ->].
      destruct (process_standalone_statement_spec _ _ _ _ _ _ E1) as [-> ->].
      destruct (c_hs c1) as [|h hs]; [discriminate|].
      destruct (opt_str_eqb _ _); [|discriminate].
      destruct (sa_trim src pr true (o_is_partial opts) (lead_trim (es_pre e) (c_ts c1)))
        as [|prev_t ts3] eqn:Ets; [discriminate|].
      cinv E. destruct ts3 as [|t r]; [discriminate|]. okinv E. okinv H.
      exists e. split; [exact Hpe|]. repeat split.
      unfold own_effect, tag_ws_stack. cbn [standalone_capable]. rewrite Ets.
      exists prev_t, t, r, a. split; reflexivity.
    - (* decorator / partial block end *)
      cinv E. destruct a as [[e ts1] it1]. cinv E. destruct a as [trim ts2].
      destruct (tag_prologue_spec _ _ _ _ _ _ _ E0) as [Hpe ->].
      destruct (process_standalone_statement_spec _ _ _ _ _ _ E1) as [-> ->].
      destruct (c_ds c1) as [|d ds]; [discriminate|].
      destruct (opt_str_eqb _ _); [|discriminate].
      destruct (sa_trim src pr true (o_is_partial opts) (lead_trim (es_pre e) (c_ts c1)))
        as [|prev_t ts3] eqn:Ets; [discriminate|].
      destruct ts3 as [|t r]; [discriminate|]. okinv E. okinv H.
      exists e. split; [exact Hpe|]. repeat split.
      unfold own_effect, tag_ws_stack. cbn [standalone_capable]. rewrite Ets.
      exists prev_t, t, r. eexists. split; reflexivity.
    - (* comment *)
      cinv E. destruct a as [trim ts1]. cinv E. cinv E. okinv E. okinv H.
      destruct (process_standalone_statement_spec _ _ _ _ _ _ E0) as [-> ->].
      repeat split.
      unfold own_effect, tag_ws_stack, lead_trim. cbn [standalone_capable].
      unfold push_front_el in E2.
      destruct (sa_trim src pr true (o_is_partial opts) (c_ts c1)) as [|t r]; [discriminate|].
      okinv E2. exists t, r. eexists. split; reflexivity.
    - (* other rules *) okinv E. okinv H. repeat split.
  Qed.
End Ws.

(* ---------- the five statements ---------- *)
Section WsStatements.
  Variable src : str.
  Variable all_tokens : list tok.
  Variable opts : copts.

  (* no pre-step in front of template / raw_text / raw_block_text: c1 = c *)
  Lemma trailing_string_text c pr lc c1 :
    trailing_string src c pr lc = COk c1 ->
    match tag_classify (tk_rule pr) with
    | KTemplate | KRawText | KRawBlockText => c1 = c
    | _ => True
    end.
  Proof.
    intro H. pose proof (trailing_string_spec src c pr lc c1 H) as (_ & _ & _ & _ & Hf).
    pose proof (trailing_fires_text c pr) as Ht.
    destruct (tag_classify (tk_rule pr)); try exact I; rewrite Ht in Hf; exact Hf.
  Qed.

  (* 1. omit_pro_ws never survives a tag *)
  Theorem omit_flag fuel c pr it c' it' :
    step src all_tokens opts fuel c pr it = COk (c', it') ->
    match tag_classify (tk_rule pr) with
    | KComment _ => c_omit c' = false
    | KTemplate | KRawText | KRawBlockText | KOtherRule => c_omit c' = c_omit c
    | _ => exists e, tag_expr src fuel pr it = COk (e, it') /\ c_omit c' = es_pro e
    end.
  Proof.
    intro H. destruct (step_ws src all_tokens opts fuel c pr it c' it' H) as (c1 & Ht & Hc).
    cbv zeta in Hc. pose proof (trailing_string_spec src c pr _ c1 Ht) as (Ho & _).
    destruct (tag_classify (tk_rule pr)).
    - destruct Hc as (H1 & _). congruence.
    - destruct Hc as (txt & s & t & r & _ & _ & _ & _ & H1 & _). congruence.
    - destruct Hc as (txt & s & _ & _ & _ & H1 & _). congruence.
    - destruct Hc as (e & H1 & H2 & _). exists e. split; assumption.
    - destruct Hc as (e & H1 & H2 & _). exists e. split; assumption.
    - destruct Hc as (e & H1 & H2 & _). exists e. split; assumption.
    - destruct Hc as (e & H1 & H2 & _). exists e. split; assumption.
    - destruct Hc as (e & H1 & H2 & _). exists e. split; assumption.
    - destruct Hc as (e & H1 & H2 & _). exists e. split; assumption.
    - destruct Hc as (H1 & _). exact H1.
    - destruct Hc as (H1 & _). congruence.
  Qed.

  (* 2. trim_line_required is the standalone verdict of the tag just seen, and is
     consumed by the first text element *)
  Theorem trim_flag fuel c pr it c' it' :
    step src all_tokens opts fuel c pr it = COk (c', it') ->
    match tag_classify (tk_rule pr) with
    | KBlockStart _ | KInvert _ | KHelperEnd | KDecoEnd _ | KDecoExpr _ | KComment _ =>
        c_trim c' = standalone src pr (o_is_partial opts)
    | KValueExpr _ | KRawText => c_trim c' = false
    | KRawBlockText | KTemplate => c_trim c' = c_trim c
    | KOtherRule => c_trim c' = if trailing_fires c pr then false else c_trim c
    end.
  Proof.
    intro H. destruct (step_ws src all_tokens opts fuel c pr it c' it' H) as (c1 & Ht & Hc).
    cbv zeta in Hc. pose proof (trailing_string_text c pr _ c1 Ht) as Htxt.
    pose proof (trailing_string_spec src c pr _ c1 Ht) as (_ & _ & _ & _ & Hf).
    destruct (tag_classify (tk_rule pr)).
    - destruct Hc as (_ & H1 & _). congruence.
    - destruct Hc as (txt & s & t & r & _ & _ & _ & _ & _ & H1 & _). exact H1.
    - destruct Hc as (txt & s & _ & _ & _ & _ & H1 & _). congruence.
    - destruct Hc as (e & _ & _ & H1 & _). exact H1.
    - destruct Hc as (e & _ & _ & H1 & _). exact H1.
    - destruct Hc as (e & _ & _ & H1 & _). exact H1.
    - destruct Hc as (e & _ & _ & H1 & _). exact H1.
    - destruct Hc as (e & _ & _ & H1 & _). exact H1.
    - destruct Hc as (e & _ & _ & H1 & _). exact H1.
    - destruct Hc as (_ & H1 & _). exact H1.
    - destruct Hc as (_ & H1 & _). rewrite H1.
      destruct (trailing_fires c pr); [apply Hf|rewrite Hf; reflexivity].
  Qed.

  (* 3. what a tag does to the text in front of it, and nothing else before its own effect *)
  Theorem leading_tilde fuel c pr it c' it' :
    step src all_tokens opts fuel c pr it = COk (c', it') ->
    let lc := line_col src (tk_start pr) in
    let cls := tag_classify (tk_rule pr) in
    expr_class cls = true ->
    exists c1 e,
      trailing_string src c pr lc = COk c1 /\
      tag_expr src fuel pr it = COk (e, it') /\
      own_effect cls lc (tag_ws_stack src opts cls pr (es_pre e) (c_ts c1)) (c_ts c').
  Proof.
    intro H. destruct (step_ws src all_tokens opts fuel c pr it c' it' H) as (c1 & Ht & Hc).
    cbv zeta in *. intro Hcls. exists c1.
    destruct (tag_classify (tk_rule pr)); try discriminate Hcls;
      destruct Hc as (e & H1 & _ & _ & H2); exists e; repeat split; assumption.
  Qed.

  Theorem comment_ws fuel c pr it c' it' compact :
    step src all_tokens opts fuel c pr it = COk (c', it') ->
    tag_classify (tk_rule pr) = KComment compact ->
    exists c1,
      trailing_string src c pr (line_col src (tk_start pr)) = COk c1 /\
      own_effect (KComment compact) (line_col src (tk_start pr))
                 (tag_ws_stack src opts (KComment compact) pr false (c_ts c1)) (c_ts c') /\
      it' = it.
  Proof.
    intros H Hcls. destruct (step_ws src all_tokens opts fuel c pr it c' it' H) as (c1 & Ht & Hc).
    cbv zeta in *. rewrite Hcls in Hc. exists c1. destruct Hc as (_ & _ & H1 & H2).
    repeat split; assumption.
  Qed.

  (* what lead_trim / sa_trim can touch: only the last element of the front
     template, and only if it is raw text *)
  Lemma map_last_raw_raw f n es s m :
    map_last_raw f (MkT n (es ++ [ElRaw s]) m) = MkT n (es ++ [ElRaw (f s)]) m.
  Proof. unfold map_last_raw. rewrite rev_app_distr. cbn [rev app]. rewrite rev_involutive. reflexivity. Qed.

  Lemma map_last_raw_other f n es e m :
    (forall s, e <> ElRaw s) -> map_last_raw f (MkT n (es ++ [e]) m) = MkT n (es ++ [e]) m.
  Proof.
    intro H. unfold map_last_raw. rewrite rev_app_distr. cbn [rev app].
    destruct e; try reflexivity. exfalso. eapply H. reflexivity.
  Qed.

  Lemma map_last_raw_empty f n m : map_last_raw f (MkT n [] m) = MkT n [] m.
  Proof. reflexivity. Qed.

  (* without a leading `~` and off a standalone line, a tag leaves the text in front of it alone *)
  Lemma tag_ws_stack_id cls pr ts :
    match standalone_capable opts cls with
    | None => True
    | Some pi => line_end_after src pr (o_is_partial opts) && (pi && line_start_before src pr) = false
    end ->
    tag_ws_stack src opts cls pr false ts = ts.
  Proof.
    unfold tag_ws_stack, lead_trim, sa_trim. destruct (standalone_capable opts cls); [|reflexivity].
    intros ->. reflexivity.
  Qed.

  (* 4. the text element *)
  Theorem text_element fuel c pr it c' it' :
    step src all_tokens opts fuel c pr it = COk (c', it') ->
    tag_classify (tk_rule pr) = KRawText ->
    exists txt s t r,
      slice src (prev_end c) (tk_end pr) = Some txt /\
      unescape all_tokens pr txt = COk s /\
      c_ts c = t :: r /\
      c_ts c' = t_push t (ElRaw (ws_text (c_omit c) (c_trim c) s)) (line_col src (tk_start pr)) :: r /\
      c_omit c' = c_omit c /\ c_trim c' = false /\ it' = it.
  Proof.
    intros H Hcls. destruct (step_ws src all_tokens opts fuel c pr it c' it' H) as (c1 & Ht & Hc).
    cbv zeta in Hc. pose proof (trailing_string_text c pr _ c1 Ht) as Htxt.
    rewrite Hcls in Hc, Htxt. subst c1. exact Hc.
  Qed.

  Theorem raw_block_text_element fuel c pr it c' it' :
    step src all_tokens opts fuel c pr it = COk (c', it') ->
    tag_classify (tk_rule pr) = KRawBlockText ->
    exists txt s,
      slice src (prev_end c) (tk_end pr) = Some txt /\
      unescape all_tokens pr txt = COk s /\
      c_ts c' = t_push t_empty (ElRaw (ws_text (c_omit c) (c_trim c) s)) (line_col src (tk_start pr))
                :: c_ts c /\
      c_omit c' = c_omit c /\ c_trim c' = c_trim c /\ it' = it.
  Proof.
    intros H Hcls. destruct (step_ws src all_tokens opts fuel c pr it c' it' H) as (c1 & Ht & Hc).
    cbv zeta in Hc. pose proof (trailing_string_text c pr _ c1 Ht) as Htxt.
    rewrite Hcls in Hc, Htxt. subst c1. exact Hc.
  Qed.

  Lemma unescape_no_escapes pr txt s :
    inner_escapes all_tokens pr = [] -> unescape all_tokens pr txt = COk s -> s = txt.
  Proof.
    unfold unescape. intros ->. cbn [rev remove_escapes].
    destruct (N.ltb _ _); [discriminate|]. intro H. okinv H. reflexivity.
  Qed.

  (* C03: with both flags down, the text between two tags goes in verbatim *)
  Theorem text_verbatim_step fuel c pr it c' it' :
    step src all_tokens opts fuel c pr it = COk (c', it') ->
    tag_classify (tk_rule pr) = KRawText ->
    c_omit c = false -> c_trim c = false -> inner_escapes all_tokens pr = [] ->
    exists txt t r,
      slice src (prev_end c) (tk_end pr) = Some txt /\
      c_ts c = t :: r /\
      c_ts c' = t_push t (ElRaw txt) (line_col src (tk_start pr)) :: r.
  Proof.
    intros H Hcls Ho Htr Hesc.
    destruct (text_element fuel c pr it c' it' H Hcls) as (txt & s & t & r & H1 & H2 & H3 & H4 & _).
    apply (unescape_no_escapes pr txt s Hesc) in H2. subst s.
    rewrite Ho, Htr in H4. exists txt, t, r. repeat split; assumption.
  Qed.

  Theorem trailing_verbatim_step c pr lc c1 :
    trailing_string src c pr lc = COk c1 ->
    trailing_fires c pr = true -> c_trim c = false ->
    exists txt, slice src (prev_end c) (tk_start pr) = Some txt
                /\ trailing_push c pr lc (ElRaw txt) (c_ts c1).
  Proof.
    intros H Hf Htr. pose proof (trailing_string_spec src c pr lc c1 H) as (_ & _ & _ & _ & Hs).
    rewrite Hf in Hs. destruct Hs as (_ & _ & txt & H1 & H2). rewrite Htr in H2.
    exists txt. split; assumption.
  Qed.
End WsStatements.

(* ---------- the four formerly defective shapes, through the whole compiler ---------- *)
Definition x_expr : element :=
  ElExpr (MkH (PPath (PathRelative [SegNamed (`"x")] (`"x"))) [] [] None None None false false false).

(* a comment resets omit_pro_ws: the text after the comment keeps its blanks *)
Example comment_resets_omit :
  compile2 (`"{{x~}}  {{!c}}  z") default_opts
  = COk (MkT None [x_expr; ElComment (`"c"); ElRaw (`"  z")] [(1, 1); (1, 9); (1, 17)]).
Proof. vm_compute. reflexivity. Qed.

(* a value expression resets trim_line_required: the line break after {{x}} stays *)
Example value_expr_resets_trim :
  compile2 (`"{{#if a~}}" ++ [10] ++ `"{{x}}" ++ [10] ++ `" foo{{/if}}") default_opts
  = COk (MkT None
           [ElBlock (MkH (PName (`"if")) [PPath (PathRelative [SegNamed (`"a")] (`"a"))] [] None
                         (Some (MkT None [x_expr; ElRaw ([10] ++ `" foo")] [(2, 1); (3, 2)]))
                         None true false true)]
           [(1, 1)]).
Proof. vm_compute. reflexivity. Qed.

(* the end of the template is a line end also when only blanks follow the tag *)
Example standalone_at_end_with_blanks :
  compile2 (`"{{#if x}}" ++ [10] ++ `"b" ++ [10] ++ `"{{/if}}  ") default_opts
  = COk (MkT None
           [ElBlock (MkH (PName (`"if")) [PPath (PathRelative [SegNamed (`"x")] (`"x"))] [] None
                         (Some (MkT None [ElRaw (`"b" ++ [10])] [(2, 1)])) None true false true);
            ElRaw []]
           [(1, 1); (3, 10)]).
Proof. vm_compute. reflexivity. Qed.

(* a leading tilde on a chained else trims the text in front of it *)
Example chained_else_leading_tilde :
  compile2 (`"{{#if a}}A  {{~else if b}}B{{/if}}") default_opts
  = COk (MkT None
           [ElBlock (MkH (PName (`"if")) [PPath (PathRelative [SegNamed (`"a")] (`"a"))] [] None
              (Some (MkT None [ElRaw (`"A")] [(1, 10)]))
              (Some (MkT None
                 [ElBlock (MkH (PName (`"if")) [PPath (PathRelative [SegNamed (`"b")] (`"b"))] [] None
                               (Some (MkT None [ElRaw (`"B")] [(1, 27)])) None true true false)] []))
              true true false)]
           [(1, 1)]).
Proof. vm_compute. reflexivity. Qed.

(* the hypotheses of the step theorems hold at the first token of every run *)
Example step_ws_example :
  exists c' it', step (`"a {{x}}") [] default_opts 10 init_cstate (R_template, 0, 7) [] = COk (c', it').
Proof. do 2 eexists. vm_compute. reflexivity. Qed.

Example standalone_example :
  let src := `"a" ++ [10] ++ `"  {{#if x}}  " ++ [13; 10] ++ `"b{{/if}}" in
  standalone src (R_helper_block_start, 4, 13) false = true
  /\ standalone src (R_helper_block_end, 18, 25) false = false.
Proof. cbv zeta. split; vm_compute; reflexivity. Qed.

Example text_verbatim_step_example :
  let src := `"a  {{x}}" in
  let c := {| c_ts := [t_empty]; c_hs := []; c_ds := []; c_omit := false; c_trim := false; c_end := None |} in
  let pr : tok := (R_raw_text, 0, 3) in
  (exists c' it', step src [] default_opts 10 c pr [] = COk (c', it'))
  /\ tag_classify (tk_rule pr) = KRawText /\ c_omit c = false /\ c_trim c = false
  /\ inner_escapes [] pr = [].
Proof. cbv zeta. split; [do 2 eexists; vm_compute; reflexivity|]. repeat split. Qed.

Example trailing_verbatim_step_example :
  let src := `"{{x}}  {{y}}" in
  let c := {| c_ts := [t_empty]; c_hs := []; c_ds := []; c_omit := false; c_trim := false;
              c_end := Some 5 |} in
  let pr : tok := (R_expression, 7, 12) in
  (exists c1, trailing_string src c pr (1, 8) = COk c1)
  /\ trailing_fires c pr = true /\ c_trim c = false.
Proof. cbv zeta. split; [eexists; vm_compute; reflexivity|]. split; reflexivity. Qed.
