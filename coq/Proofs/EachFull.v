(* Proofs/EachFull.v — C07 without hypotheses on the loop body: the frame
   property (Proofs/Frame.v, C08) and the append-only writer
   (Proofs/WriterPrefix.v, C19) discharge what Proofs/EachProofs.v assumed. *)
From Coq Require Import Lia List NArith Bool.
From HB Require Import Rt.Render Spec.Scope Spec.RenderAll Spec.RenderFrameSpec Spec.Writer.
From HB Require Import Proofs.PathProofs Proofs.EachProofs Proofs.Frame Proofs.WriterPrefix.
Import ListNotations.
Open Scope N_scope.
Open Scope list_scope.

(* ------------------------------------------------------------------ *)
(* the two facts about the body                                        *)
(* ------------------------------------------------------------------ *)
Lemma body_frame reg data ft f t s1 s2 :
  render_template reg data ft f t s1 = ROk tt s2 -> s_blocks s2 = s_blocks s1.
Proof. intro H. apply frame_template in H. apply H. Qed.

Lemma body_grows reg data ft f t s1 s2 :
  ends_in (render_template reg data ft f t s1) s2 ->
  exists d, out_text (s_out s2) = out_text (s_out s1) ++ d.
Proof. destruct (text_only_grows reg data ft f) as (H & _). apply H. Qed.

Lemma body_grows_ok reg data ft f t s1 s2 :
  render_template reg data ft f t s1 = ROk tt s2 ->
  exists d, out_text (s_out s2) = out_text (s_out s1) ++ d.
Proof. intro H. apply (body_grows reg data ft f t s1 s2). rewrite H. reflexivity. Qed.

(* ------------------------------------------------------------------ *)
(* generic facts about fold_idx and iter_run                           *)
(* ------------------------------------------------------------------ *)
Lemma fold_of_run {A} (step : A -> nat -> rstate -> rres unit) l i s ds s' :
  iter_run step l i s ds s' -> fold_idx step l i s = ROk tt s'.
Proof.
  intro H. induction H as [|x r i s s1 d ds s' Hst Hd Hr IH]; cbn [fold_idx]; [reflexivity|].
  rewrite Hst. exact IH.
Qed.

(* the first non-Ok outcome stops the fold and is its result *)
Lemma fold_stop {A} (step : A -> nat -> rstate -> rres unit) (r : rres unit) :
  (forall u s', r <> ROk u s') ->
  forall l i s,
    fold_idx step l i s = r <->
    exists j x s_j, nth_error l j = Some x
                    /\ fold_idx step (firstn j l) i s = ROk tt s_j
                    /\ step x (i + j)%nat s_j = r.
Proof.
  intros Hr. induction l as [|x l IH]; intros i s; cbn [fold_idx].
  - split.
    + intro H. exfalso. exact (Hr tt s (eq_sym H)).
    + intros (j & x & s_j & Hn & _). destruct j; discriminate.
  - split.
    + intro H. destruct (step x i s) as [u s1|e s1|site|] eqn:E; cbn [rbind] in H.
      * destruct u. apply IH in H as (j & y & s_j & Hn & Hf & Hs).
        exists (S j), y, s_j. split; [exact Hn|]. split.
        -- cbn [firstn fold_idx]. rewrite E. exact Hf.
        -- replace (i + S j)%nat with (S i + j)%nat by lia. exact Hs.
      * exists O, x, s. repeat split. rewrite Nat.add_0_r, E. exact H.
      * exists O, x, s. repeat split. rewrite Nat.add_0_r, E. exact H.
      * exists O, x, s. repeat split. rewrite Nat.add_0_r, E. exact H.
    + intros (j & y & s_j & Hn & Hf & Hs). destruct j as [|j].
      * cbn [nth_error firstn fold_idx] in *. inversion Hn; subst y. inversion Hf; subst s_j.
        rewrite Nat.add_0_r in Hs. rewrite Hs.
        destruct r as [u s1| | |]; try reflexivity. exfalso. exact (Hr u s1 eq_refl).
      * cbn [nth_error firstn fold_idx] in *.
        destruct (step x i s) as [u s1|e s1|site|] eqn:E; cbn [rbind] in Hf; try discriminate.
        cbn [rbind]. apply IH. exists j, y, s_j. split; [exact Hn|]. split; [exact Hf|].
        replace (S i + j)%nat with (i + S j)%nat by lia. exact Hs.
Qed.

(* everything `restored` speaks about, except the block stack *)
Definition kept_but_blocks (s s' : rstate) : Prop :=
  s_pb_stack s' = s_pb_stack s /\ s_pb_depth s' = s_pb_depth s /\
  s_current s' = s_current s /\ s_indent s' = s_indent s /\
  s_root s' = s_root s /\ s_dev s' = s_dev s /\
  (s_disable_escape s' = true -> s_disable_escape s = true).

Lemma kept_refl s : kept_but_blocks s s.
Proof. unfold kept_but_blocks. intuition. Qed.
Lemma kept_trans a b c : kept_but_blocks a b -> kept_but_blocks b c -> kept_but_blocks a c.
Proof. unfold kept_but_blocks. intuition congruence. Qed.
Lemma kept_of_restored s bl s' : restored (set_blocks s bl) s' -> kept_but_blocks s s'.
Proof. unfold restored, kept_but_blocks. cbn. intuition. Qed.
Lemma restored_of_kept s s' : kept_but_blocks s s' -> restored s (set_blocks s' (s_blocks s)).
Proof. unfold restored, kept_but_blocks. cbn. intuition. Qed.

(* ------------------------------------------------------------------ *)
(* the loop of an each, for arrays and objects at once                 *)
(* ------------------------------------------------------------------ *)
Section Full.
  Variables (reg : registry) (data : json) (ft : ftable) (f : nat) (t : template).
  Context {A : Type}.
  Variable mk : A -> nat -> block.        (* the block of iteration i on element x *)
  Variable outer : list block.

  Definition lstep (x : A) (i : nat) (s1 : rstate) : rres unit :=
    render_template reg data ft f t (set_blocks s1 (mk x i :: outer)).

  Lemma run_of_fold l i s s' :
    fold_idx lstep l i s = ROk tt s' -> exists ds, iter_run lstep l i s ds s'.
  Proof.
    apply fold_idx_run. intros x j s1 s2 H. unfold lstep in H.
    apply body_grows_ok in H. exact H.
  Qed.

  Lemma run_kept l i s ds s' : iter_run lstep l i s ds s' -> kept_but_blocks s s'.
  Proof.
    intro H. induction H as [|x r i s s1 d ds s' Hst Hd Hr IH]; [apply kept_refl|].
    eapply kept_trans; [|exact IH]. unfold lstep in Hst. apply frame_template in Hst.
    eapply kept_of_restored. exact Hst.
  Qed.

  (* the loop followed by putting the caller's blocks back *)
  Definition loop (l : list A) (s : rstate) : rres unit :=
    rbind (fold_idx lstep l O s) (fun _ s1 => ROk tt (set_blocks s1 outer)).

  Theorem loop_ok l s s' :
    loop l s = ROk tt s' <->
    exists ds s_last, iter_run lstep l O s ds s_last /\ s' = set_blocks s_last outer.
  Proof.
    unfold loop. split.
    - intro H. destruct (fold_idx lstep l 0 s) as [u s1|e s1|site|] eqn:E; cbn [rbind] in H;
        try discriminate. destruct u. inversion H; subst s'.
      destruct (run_of_fold _ _ _ _ E) as (ds & Hrun). eauto.
    - intros (ds & s_last & Hrun & ->). rewrite (fold_of_run _ _ _ _ _ _ Hrun). reflexivity.
  Qed.

  Theorem loop_ok_facts l s ds s_last :
    iter_run lstep l O s ds s_last ->
    length ds = length l
    /\ out_text (s_out (set_blocks s_last outer)) = out_text (s_out s) ++ concat ds
    /\ kept_but_blocks s s_last.
  Proof.
    intros Hrun. split; [eapply iter_run_length; exact Hrun|].
    split; [apply (iter_run_out _ _ _ _ _ _ Hrun)|].
    eapply run_kept. exact Hrun.
  Qed.

  Theorem loop_stop l s r :
    (forall u s', r <> ROk u s') ->
    (loop l s = r <->
     exists j x ds s_j, nth_error l j = Some x
                        /\ iter_run lstep (firstn j l) O s ds s_j
                        /\ lstep x j s_j = r).
  Proof.
    intro Hr. unfold loop. split.
    - intro H.
      assert (Hf : fold_idx lstep l 0 s = r).
      { destruct (fold_idx lstep l 0 s) as [u s1|e s1|site|]; cbn [rbind] in H; try exact H.
        exfalso. exact (Hr tt _ (eq_sym H)). }
      apply (fold_stop lstep r Hr) in Hf as (j & x & s_j & Hn & Hpre & Hs).
      destruct (run_of_fold _ _ _ _ Hpre) as (ds & Hrun). cbn [Nat.add] in Hs. eauto 8.
    - intros (j & x & ds & s_j & Hn & Hrun & Hs).
      assert (Hf : fold_idx lstep l 0 s = r).
      { apply (fold_stop lstep r Hr). exists j, x, s_j. split; [exact Hn|].
        split; [apply (fold_of_run _ _ _ _ _ _ Hrun) | exact Hs]. }
      rewrite Hf. destruct r as [u s1| | |]; try reflexivity. exfalso. exact (Hr u s1 eq_refl).
  Qed.

  Theorem loop_err_output l s j x ds s_j e s_e :
    nth_error l j = Some x ->
    iter_run lstep (firstn j l) O s ds s_j ->
    lstep x j s_j = RErr e s_e ->
    length ds = j
    /\ exists d, out_text (s_out s_e) = out_text (s_out s_j) ++ d
                 /\ out_text (s_out s_e) = out_text (s_out s) ++ concat ds ++ d.
  Proof.
    intros Hn Hrun Hs. split.
    - rewrite (iter_run_length _ _ _ _ _ _ Hrun). apply firstn_length_le.
      apply Nat.lt_le_incl. apply nth_error_Some. congruence.
    - unfold lstep in Hs.
      destruct (body_grows reg data ft f t (set_blocks s_j (mk x j :: outer)) s_e) as (d & Hd).
      { rewrite Hs. reflexivity. }
      exists d. split; [exact Hd|]. cbn [s_out set_blocks] in Hd. rewrite Hd.
      rewrite (iter_run_out _ _ _ _ _ _ Hrun), app_assoc. reflexivity.
  Qed.
End Full.

(* ------------------------------------------------------------------ *)
(* the scope of iteration i, for every provenance of the collection    *)
(* ------------------------------------------------------------------ *)
Lemma each_R_array D blocks scopes bp value l n i x :
  R D blocks scopes -> pj_ok D value -> pj_value value = JArr l ->
  nth_error l i = Some x -> N.of_nat i <= u64_max ->
  R D (each_block bp (sc_context_path (pj_val value)) n i None x :: blocks)
      (each_scope bp n i None x :: scopes).
Proof.
  intros HR Hok Hv Hn Hi. apply R_push; [exact HR|].
  unfold pj_ok, pj_value in *. destruct (pj_val value) as [j|j|j cp|]; cbn [sc_context_path sc_json] in *;
    try apply each_scope_R_value.
  subst j. eapply each_scope_R_array; eassumption.
Qed.

Lemma each_R_object D blocks scopes bp value m n i k x :
  R D blocks scopes -> pj_ok D value -> pj_value value = JObj m -> keys_sorted m = true ->
  nth_error m i = Some (k, x) ->
  R D (each_block bp (sc_context_path (pj_val value)) n i (Some k) x :: blocks)
      (each_scope bp n i (Some k) x :: scopes).
Proof.
  intros HR Hok Hv Hs Hn. apply R_push; [exact HR|].
  unfold pj_ok, pj_value in *. destruct (pj_val value) as [j|j|j cp|]; cbn [sc_context_path sc_json] in *;
    try apply each_scope_R_value.
  subst j. eapply each_scope_R_object; eassumption.
Qed.

(* ------------------------------------------------------------------ *)
(* C07_each_array_full / C07_each_object_full                          *)
(* ------------------------------------------------------------------ *)
Theorem each_array_full reg data ft f h s value rest t l :
  hv_params h = value :: rest -> hv_tpl h = Some t -> pj_value value = JArr l -> l <> [] ->
  let n := length l in
  let path := sc_context_path (pj_val value) in
  let step := fun (x : json) (i : nat) (s1 : rstate) =>
    render_template reg data ft f t
      (set_blocks s1 (each_block (hv_bp h) path n i None x :: s_blocks s)) in
  (forall s', call_helper reg data ft (S f) HEach h s = ROk tt s' <->
              exists ds s_last, iter_run step l O s ds s_last /\ s' = set_blocks s_last (s_blocks s))
  /\ (forall ds s_last, iter_run step l O s ds s_last ->
        length ds = n
        /\ out_text (s_out (set_blocks s_last (s_blocks s))) = out_text (s_out s) ++ concat ds
        /\ restored s (set_blocks s_last (s_blocks s)))
  /\ (forall r, (forall u s', r <> ROk u s') ->
        (call_helper reg data ft (S f) HEach h s = r <->
         exists j x ds s_j, nth_error l j = Some x
                            /\ iter_run step (firstn j l) O s ds s_j
                            /\ step x j s_j = r))
  /\ (forall j x ds s_j e s_e,
        nth_error l j = Some x -> iter_run step (firstn j l) O s ds s_j -> step x j s_j = RErr e s_e ->
        length ds = j
        /\ exists d, out_text (s_out s_e) = out_text (s_out s_j) ++ d
                     /\ out_text (s_out s_e) = out_text (s_out s) ++ concat ds ++ d)
  /\ (forall D scopes i x,
        R D (s_blocks s) scopes -> pj_ok D value -> nth_error l i = Some x -> N.of_nat i <= u64_max ->
        R D (each_block (hv_bp h) path n i None x :: s_blocks s)
            (each_scope (hv_bp h) n i None x :: scopes)).
Proof.
  intros Hp Ht Hv Hne n path step.
  assert (Hcall : call_helper reg data ft (S f) HEach h s =
                  loop reg data ft f t (fun x i => each_block (hv_bp h) path n i None x) (s_blocks s) l s).
  { apply (each_array reg data ft f h s value rest t l Hp Ht Hv (or_introl Hne)).
    intros s1 s2. apply body_frame. }
  rewrite Hcall. split; [|split; [|split; [|split]]].
  - intro s'. apply loop_ok.
  - intros ds s_last Hrun.
    destruct (loop_ok_facts reg data ft f t _ (s_blocks s) l s ds s_last Hrun) as (H1 & H2 & H3).
    split; [exact H1|]. split; [exact H2|]. apply restored_of_kept. exact H3.
  - intros r Hr. apply loop_stop. exact Hr.
  - intros j x ds s_j e s_e. apply loop_err_output.
  - intros D scopes i x HR Hok Hn Hi. eapply each_R_array; eassumption.
Qed.

Theorem each_object_full reg data ft f h s value rest t m :
  hv_params h = value :: rest -> hv_tpl h = Some t -> pj_value value = JObj m -> m <> [] ->
  let n := length m in
  let path := sc_context_path (pj_val value) in
  let step := fun (kv : str * json) (i : nat) (s1 : rstate) =>
    render_template reg data ft f t
      (set_blocks s1 (each_block (hv_bp h) path n i (Some (fst kv)) (snd kv) :: s_blocks s)) in
  (forall s', call_helper reg data ft (S f) HEach h s = ROk tt s' <->
              exists ds s_last, iter_run step m O s ds s_last /\ s' = set_blocks s_last (s_blocks s))
  /\ (forall ds s_last, iter_run step m O s ds s_last ->
        length ds = n
        /\ out_text (s_out (set_blocks s_last (s_blocks s))) = out_text (s_out s) ++ concat ds
        /\ restored s (set_blocks s_last (s_blocks s)))
  /\ (forall r, (forall u s', r <> ROk u s') ->
        (call_helper reg data ft (S f) HEach h s = r <->
         exists j kv ds s_j, nth_error m j = Some kv
                             /\ iter_run step (firstn j m) O s ds s_j
                             /\ step kv j s_j = r))
  /\ (forall j kv ds s_j e s_e,
        nth_error m j = Some kv -> iter_run step (firstn j m) O s ds s_j -> step kv j s_j = RErr e s_e ->
        length ds = j
        /\ exists d, out_text (s_out s_e) = out_text (s_out s_j) ++ d
                     /\ out_text (s_out s_e) = out_text (s_out s) ++ concat ds ++ d)
  /\ (forall D scopes i k x,
        R D (s_blocks s) scopes -> pj_ok D value -> keys_sorted m = true -> nth_error m i = Some (k, x) ->
        R D (each_block (hv_bp h) path n i (Some k) x :: s_blocks s)
            (each_scope (hv_bp h) n i (Some k) x :: scopes)).
Proof.
  intros Hp Ht Hv Hne n path step.
  assert (Hcall : call_helper reg data ft (S f) HEach h s =
                  loop reg data ft f t
                       (fun (kv : str * json) i => each_block (hv_bp h) path n i (Some (fst kv)) (snd kv))
                       (s_blocks s) m s).
  { apply (each_object reg data ft f h s value rest t m Hp Ht Hv (or_introl Hne)).
    intros s1 s2. apply body_frame. }
  rewrite Hcall. split; [|split; [|split; [|split]]].
  - intro s'. apply loop_ok.
  - intros ds s_last Hrun.
    destruct (loop_ok_facts reg data ft f t _ (s_blocks s) m s ds s_last Hrun) as (H1 & H2 & H3).
    split; [exact H1|]. split; [exact H2|]. apply restored_of_kept. exact H3.
  - intros r Hr. apply loop_stop. exact Hr.
  - intros j kv ds s_j e s_e. apply loop_err_output.
  - intros D scopes i k x HR Hok Hs Hn. eapply each_R_object; eassumption.
Qed.

(* the earlier output theorems, now without hypotheses on the body *)
Theorem each_array_output_full reg data ft f h s value rest t l s' :
  hv_params h = value :: rest -> hv_tpl h = Some t -> pj_value value = JArr l ->
  (l <> [] \/ hv_inv h = None) ->
  call_helper reg data ft (S f) HEach h s = ROk tt s' ->
  exists ds s_last,
    iter_run (fun v i s1 =>
                render_template reg data ft f t
                  (set_blocks s1 (each_block (hv_bp h) (sc_context_path (pj_val value))
                                             (length l) i None v :: s_blocks s)))
             l O s ds s_last
    /\ s' = set_blocks s_last (s_blocks s)
    /\ length ds = length l
    /\ out_text (s_out s') = out_text (s_out s) ++ concat ds.
Proof.
  intros Hp Ht Hv Hne. apply (each_array_output reg data ft f h s value rest t l s' Hp Ht Hv Hne).
  - intros s1 s2. apply body_frame.
  - intros s1 s2. apply body_grows_ok.
Qed.

Theorem each_object_output_full reg data ft f h s value rest t m s' :
  hv_params h = value :: rest -> hv_tpl h = Some t -> pj_value value = JObj m ->
  (m <> [] \/ hv_inv h = None) ->
  call_helper reg data ft (S f) HEach h s = ROk tt s' ->
  exists ds s_last,
    iter_run (fun (kv : str * json) i s1 =>
                render_template reg data ft f t
                  (set_blocks s1 (each_block (hv_bp h) (sc_context_path (pj_val value))
                                             (length m) i (Some (fst kv)) (snd kv) :: s_blocks s)))
             m O s ds s_last
    /\ s' = set_blocks s_last (s_blocks s)
    /\ length ds = length m
    /\ out_text (s_out s') = out_text (s_out s) ++ concat ds.
Proof.
  intros Hp Ht Hv Hne. apply (each_object_output reg data ft f h s value rest t m s' Hp Ht Hv Hne).
  - intros s1 s2. apply body_frame.
  - intros s1 s2. apply body_grows_ok.
Qed.

(* ------------------------------------------------------------------ *)
(* The second form asked for (the output of iteration i is what the body
   writes from a fresh copy of the pre-loop state with only the block pushed)
   is FALSE of the model in general.
   Witness: an each over [1, 2] whose body is
     #if @first / #*inline p = x / end if / > p
   The inline partial defined during iteration 0 persists (the partial table
   is deliberately not part of `restored`), iteration 1 uses it and the each
   renders xx; the body of iteration 1 run from the pre-loop state fails with
   PartialNotFound.  Iteration 0 is by definition run from the pre-loop state
   (first step of iter_run). *)
Definition fr_reg : registry :=
  {| r_templates := []; r_sources := [];
     r_helpers := [(`"each", HEach); (`"if", HIf)];
     r_decorators := [(`"inline", DInline)];
     r_escape := escape_html; r_esc_mark := false; r_strict := false; r_dev := false;
     r_prevent_indent := false |}.
Definition fr_inline : element :=
  ElDecoBlock (MkD (PName (`"inline")) [PLit (JStr (`"p"))] [] (Some (MkT None [ElRaw (`"x")] [])) None false).
Definition fr_body : template :=
  MkT None
      [ElBlock (MkH (PName (`"if")) [PPath (PathLocal 0 (`"first") (`"@first"))] [] None
                    (Some (MkT None [fr_inline] [])) None true false false);
       ElPartExpr (MkD (PName (`"p")) [] [] None None false)]
      [].
Definition fr_value : pj := {| pj_rel := None; pj_val := SConstant (JArr [JNum (PosInt 1); JNum (PosInt 2)]) |}.
Definition fr_h : helper_v :=
  {| hv_name := `"each"; hv_params := [fr_value]; hv_hash := []; hv_tpl := Some fr_body;
     hv_inv := None; hv_bp := None; hv_block := true |}.
Definition fr_s : rstate := st_init None None None.

Theorem each_fresh_state_refuted :
  exists reg data ft f h s value t l s',
    hv_params h = [value] /\ hv_tpl h = Some t /\ pj_value value = JArr l
    /\ call_helper reg data ft (S f) HEach h s = ROk tt s'
    /\ out_text (s_out s') = `"xx"
    /\ exists i x s_e,
         nth_error l i = Some x
         /\ render_template reg data ft f t
              (set_blocks s (each_block (hv_bp h) (sc_context_path (pj_val value)) (length l) i None x
                             :: s_blocks s))
            = RErr {| e_reason := RPartialNotFound (`"p"); e_tpl := None; e_line := None; e_col := None |} s_e.
Proof.
  exists fr_reg, JNull, [], 12%nat, fr_h, fr_s, fr_value, fr_body,
         [JNum (PosInt 1); JNum (PosInt 2)].
  eexists. split; [reflexivity|]. split; [reflexivity|]. split; [reflexivity|].
  split; [vm_compute; reflexivity|]. split; [vm_compute; reflexivity|].
  exists 1%nat, (JNum (PosInt 2)). eexists. split; [reflexivity|]. vm_compute. reflexivity.
Qed.

(* the hypotheses of each_array_full are satisfiable (and its first conjunct
   applies): the call above succeeds *)
Example each_array_full_sat :
  hv_params fr_h = [fr_value] /\ hv_tpl fr_h = Some fr_body
  /\ pj_value fr_value = JArr [JNum (PosInt 1); JNum (PosInt 2)]
  /\ [JNum (PosInt 1); JNum (PosInt 2)] <> []
  /\ exists s', call_helper fr_reg JNull [] 13 HEach fr_h fr_s = ROk tt s'.
Proof. repeat split; try discriminate. eexists. vm_compute. reflexivity. Qed.
