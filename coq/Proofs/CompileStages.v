(* Proofs/CompileStages.v — C04 ladder, stage (iii): the compile2 fold
   (main_loop / step / parse_expression ...) never panics on token lists of the
   shape the grammar produces.

   `wf_tokens` (Spec/WfTokens.v) is an inductively defined set of token lists that
   mirrors grammar.pest (template := items; item := raw text | tag with its
   argument tokens | comment | helper block (start, template, (chain tag,
   template)*, (else, template)?, end) | raw block | decorator/partial block),
   with the span ordering that pest's pre-order flattening gives.

   That every token list pest produces is in wf_tokens is the grammar-schema
   theorem (Proofs/GrammarSchema.v). *)
From Coq Require Import List NArith Lia Bool Sorting.Sorted.
From HB Require Import Peg.Peg Peg.Grammar Tpl.Compile Spec.WfTokens Proofs.PegFacts Proofs.CompileNoPanic.
Import ListNotations.
Open Scope N_scope.

Arguments N.add : simpl never.
Arguments N.sub : simpl never.
Arguments N.mul : simpl never.
Arguments N.leb : simpl never.
Arguments N.ltb : simpl never.
Arguments N.eqb : simpl never.

(* ---------- outcomes ---------- *)
Definition NP {A} (x : cres A) : Prop := forall site, x <> CPanic site.
Definition okres {A} (P : A -> Prop) (x : cres A) : Prop :=
  match x with COk a => P a | CPanic _ => False | _ => True end.

Lemma okres_NP {A} (P : A -> Prop) x : okres P x -> NP x.
Proof. intros H site E. subst x. exact H. Qed.

Lemma okres_bind {A B} (P : A -> Prop) (Q : B -> Prop) x (f : A -> cres B) :
  okres P x -> (forall a, P a -> okres Q (f a)) -> okres Q (cbind x f).
Proof. intros H Hf. destruct x; cbn [cbind okres] in *; auto. Qed.

Lemma NP_bind {A B} (P : A -> Prop) x (f : A -> cres B) :
  okres P x -> (forall a, P a -> NP (f a)) -> NP (cbind x f).
Proof.
  intros H Hf. destruct x; cbn [cbind okres] in *; auto; try contradiction; intros site E; discriminate.
Qed.

Lemma okres_and {A} (P Q : A -> Prop) x :
  okres P x -> (forall a, x = COk a -> Q a) -> okres (fun a => P a /\ Q a) x.
Proof. intros H HQ. destruct x; cbn [okres] in *; auto. Qed.

Lemma okres_weaken {A} (P Q : A -> Prop) x : okres P x -> (forall a, P a -> Q a) -> okres Q x.
Proof. intros H HPQ. destruct x; cbn [okres] in *; auto. Qed.

(* ---------- span vocabulary ---------- *)
Definition next_gt (e : N) (rest : list tok) : Prop :=
  match rest with [] => True | t :: _ => e < tk_end t end.
Definition next_ge (e : N) (rest : list tok) : Prop :=
  match rest with [] => True | t :: _ => e <= tk_end t end.
(* the next main-level token starts at or after lo (and is a proper span) *)
Definition first_ge (lo : N) (rest : list tok) : Prop :=
  match rest with [] => True | t :: _ => lo <= tk_start t /\ tk_start t <= tk_end t end.

Lemma next_gt_ge e rest : next_gt e rest -> next_ge e rest.
Proof. destruct rest; cbn; [auto|lia]. Qed.
Lemma next_ge_gt e e' rest : next_ge e rest -> e' < e -> next_gt e' rest.
Proof. destruct rest; cbn; [auto|lia]. Qed.
Lemma first_ge_next lo rest : first_ge lo rest -> next_ge lo rest.
Proof. destruct rest; cbn; [auto|lia]. Qed.

Lemma arg_root e a : arg_toks e a -> exists r s tl, a = (r, s, e) :: tl.
Proof. intros H. inversion H; subst; eexists _, _, _; reflexivity. Qed.

Lemma args_next : forall lo limit l rest,
  args_toks lo limit l -> lo < limit -> next_ge limit rest -> next_gt lo (l ++ rest).
Proof.
  intros lo limit l rest H Hlt Hr. inversion H; subst.
  - cbn [app]. eapply next_ge_gt; eassumption.
  - destruct (arg_root _ _ H0) as (r & s & tl & ->). cbn. assumption.
Qed.

Lemma name_head en nm : name_toks en nm ->
  exists r s tl, nm = (r, s, en) :: tl /\ is_rule R_leading_tilde_to_omit_whitespace (r, s, en) = false
                 /\ name_classify r <> NmOther /\ name_classify r <> NmLiteral.
Proof.
  intros H. inversion H; subst.
  - eexists _, _, _. split; [reflexivity|].
    destruct r; cbn in H0; try discriminate; repeat split; try reflexivity; cbn; congruence.
  - eexists _, _, _. repeat split; cbn; congruence.
  - eexists _, _, _. repeat split; cbn; congruence.
Qed.

Scheme items_mut := Minimality for items Sort Prop
with item_mut := Minimality for item Sort Prop
with tmpl_mut := Minimality for tmpl Sort Prop
with chain_mut := Minimality for chain_parts Sort Prop
with inv_mut := Minimality for inv_part Sort Prop.
Combined Scheme wf_mutind from items_mut, item_mut, tmpl_mut, chain_mut, inv_mut.

(* first-token facts *)
Definition Ffirst (lo hi : N) (l : list tok) : Prop :=
  lo <= hi /\ forall rest, first_ge hi rest -> first_ge lo (l ++ rest).

Lemma wf_first :
  (forall lo hi l, items lo hi l -> Ffirst lo hi l) /\
  (forall lo hi l, item lo hi l -> Ffirst lo hi l) /\
  (forall lo hi l, tmpl lo hi l -> Ffirst lo hi l) /\
  (forall lo hi l, chain_parts lo hi l -> Ffirst lo hi l) /\
  (forall lo hi l, inv_part lo hi l -> Ffirst lo hi l).
Proof.
  apply wf_mutind; unfold Ffirst; intros;
    repeat match goal with H : _ /\ _ |- _ => destruct H end;
    try (split; [lia | intros; cbn [app first_ge tk_start tk_end fst snd]; first [assumption | lia]]).
  - (* is_cons *) split; [lia|]. intros rest0 Hr. rewrite <- app_assoc. auto.
Qed.

Section Stages.
  Variable src : str.
  Notation SP := (Forall (span_ok src)).

  Lemma SP_app l1 l2 : SP (l1 ++ l2) <-> SP l1 /\ SP l2.
  Proof. apply Forall_app. Qed.

  Lemma span_str_okres (t : tok) site : span_ok src t -> okres (fun _ => True) (span_str src t site).
  Proof. intros H. destruct (span_str_ok src t site H) as (s & ->). exact I. Qed.

  (* ---------- leaf consumers ---------- *)
  Lemma pjp_ok : forall l rest limit acc, ends_le limit l -> SP l -> next_gt limit rest ->
    exists segs, parse_json_path src (l ++ rest) limit acc = COk (segs, rest).
  Proof.
    induction l as [|n l IH]; intros rest limit acc He Hs Hn; cbn [app parse_json_path].
    - destruct rest as [|t r]; [eexists; reflexivity|]. cbn [parse_json_path].
      cbn in Hn. replace (limit <? tk_end t) with true by (symmetry; apply N.ltb_lt; assumption).
      eexists; reflexivity.
    - inversion He; subst. inversion Hs; subst.
      replace (limit <? tk_end n) with false by (symmetry; apply N.ltb_ge; assumption).
      destruct (seg_classify (tk_rule n)); try (apply IH; assumption).
      destruct H3 as [A B]. destruct (slice_some src _ _ A B) as (nm & -> & _).
      destruct (str_eqb nm _); apply IH; assumption.
  Qed.

  Lemma skip_upto_ok : forall l rest limit, ends_le limit l -> next_gt limit rest ->
    skip_upto (l ++ rest) limit = rest.
  Proof.
    induction l as [|n l IH]; intros rest limit He Hn; cbn [app skip_upto].
    - destruct rest as [|t r]; [reflexivity|]. cbn in Hn. cbn [skip_upto].
      replace (limit <? tk_end t) with true by (symmetry; apply N.ltb_lt; assumption). reflexivity.
    - inversion He; subst.
      replace (limit <? tk_end n) with false by (symmetry; apply N.ltb_ge; assumption).
      apply IH; assumption.
  Qed.

  Lemma rule_eqb_string_literal k : k <> R_string_literal -> rule_eqb R_string_literal k = false.
  Proof. intros H. destruct k; try reflexivity. congruence. Qed.

  (* ---------- the mutual discipline lemma, by induction on fuel ---------- *)
  Definition consumes {A} (rest : list tok) (x : cres (A * list tok)) : Prop :=
    okres (fun r => snd r = rest) x.

  Definition PE (f : nat) : Prop := forall limit l rest,
    tag_toks limit l -> SP l -> next_ge limit rest ->
    consumes rest (parse_expression src f (l ++ rest) limit).
  Definition EL (f : nat) : Prop := forall lo limit l rest name params hash bp pre pro,
    args_toks lo limit l -> SP l -> next_ge limit rest ->
    consumes rest (expr_loop src f (l ++ rest) limit name params hash bp pre pro).
  Definition PN (f : nat) : Prop := forall en nm rest,
    name_toks en nm -> SP nm -> next_gt en rest ->
    consumes rest (parse_name src f (nm ++ rest)).
  Definition PP (f : nat) : Prop := forall ev v rest,
    value_toks ev v -> SP v -> next_gt ev rest ->
    consumes rest (parse_param src f (v ++ rest)).

  Lemma parse_param_hp f s e p it1 : is_rule R_helper_parameter p = false ->
    parse_param src (S f) ((R_helper_parameter, s, e) :: p :: it1) = parse_param src (S f) (p :: it1).
  Proof.
    intros H. cbn [parse_param].
    change (is_rule R_helper_parameter (R_helper_parameter, s, e)) with true. cbn iota.
    rewrite H. reflexivity.
  Qed.

  Lemma value_head ev v : value_toks ev v ->
    exists r s tl, v = (r, s, ev) :: tl /\ is_rule R_helper_parameter (r, s, ev) = false.
  Proof. intros H. inversion H; subst; eexists _, _, _; split; reflexivity. Qed.

  Lemma PE_step f : PN f -> EL f -> PE (S f).
  Proof.
    intros HPN HEL limit l rest Ht Hs Hn. unfold consumes.
    assert (Hsub : forall l pre, sub_toks limit l -> SP l ->
      okres (fun r => snd r = rest)
        (cbind (parse_name src f (l ++ rest))
           (fun x => let '(name, it2) := x in expr_loop src f it2 limit name [] [] None pre false))).
    { intros l0 pre Hsub Hs0. inversion Hsub as [lim en nm args Hnm Hlt Hargs]; subst.
      apply SP_app in Hs0. destruct Hs0 as [Hs1 Hs2]. rewrite <- app_assoc.
      eapply okres_bind.
      - apply (HPN en nm (args ++ rest)); [assumption|assumption|].
        eapply args_next; eassumption.
      - intros [name it2] E. cbn [snd] in E. subst it2.
        eapply HEL; eassumption. }
    inversion Ht as [l0 Hsub0|s e l0 Hsub0]; subst.
    - inversion Hsub0 as [lim en nm args Hnm Hlt Hargs]; subst.
      destruct (name_head _ _ Hnm) as (r & s & tl & -> & Hti & _).
      cbn [app parse_expression]. rewrite Hti.
      apply (Hsub (((r, s, en) :: tl) ++ args) false); assumption.
    - cbn [app parse_expression].
      change (is_rule R_leading_tilde_to_omit_whitespace (R_leading_tilde_to_omit_whitespace, s, e)) with true.
      inversion Hs; subst. apply (Hsub l0 true); assumption.
  Qed.

  Lemma PN_step f : PE f -> PN (S f).
  Proof.
    intros HPE en nm rest Hnm Hs Hn. unfold consumes.
    inversion Hnm as [r s e Hc|s e l He|s e l Hsub]; subst; cbn [app parse_name tk_rule fst snd].
    - rewrite Hc. inversion Hs; subst.
      destruct (span_str_ok src (r, s, en) (`"name span") H1) as (x & ->). cbn [cbind okres snd]. reflexivity.
    - change (name_classify R_reference) with NmReference. cbn iota.
      inversion Hs; subst.
      destruct (span_str_ok src (R_reference, s, en) (`"name span") H1) as (x & ->). cbn [cbind].
      destruct (pjp_ok l rest (tk_end (R_reference, s, en)) [] He H2 Hn) as (segs & ->).
      cbn [cbind okres snd]. reflexivity.
    - change (name_classify R_subexpression) with NmSubexpression. cbn iota.
      inversion Hs; subst.
      eapply okres_bind.
      + apply (HPE en l rest); [apply tg_plain; assumption | assumption | apply next_gt_ge; assumption].
      + intros [e it2] E. cbn [snd] in E. subst it2. cbn [okres snd]. reflexivity.
  Qed.

  Lemma parse_param_S f it :
    parse_param src (S f) it =
        match it with
        | [] => CPanic (`"parse_param next")
        | p0 :: it0 =>
            let first :=
              if is_rule R_helper_parameter p0 then
                match it0 with
                | [] => CPanic (`"parse_param next2")
                | p1 :: it1 => COk (p1, it1)
                end
              else COk (p0, it0) in
            do '(p, it1) <- first;
            do ptxt <- span_str src p (`"param span");
            do '(result, it2) <-
              match name_classify (tk_rule p) with
              | NmReference =>
                  do '(segs, it2) <- parse_json_path src it1 (tk_end p) [];
                  COk (PPath (path_new ptxt segs), it2)
              | NmLiteral =>
                  match it1 with
                  | [] => CPanic (`"parse_param literal next")
                  | lit :: it2 =>
                      do '(jr, it3) <-
                        (if is_rule R_string_literal lit then
                           match it2 with
                           | [] => CPanic (`"parse_param peek")
                           | q :: it3 =>
                               if is_rule R_string_inner_single_quote q then
                                 do inner <- span_str src q (`"inner span");
                                 COk (json_from_str (single_quote_rewrite inner), it3)
                               else COk (json_from_str ptxt, it2)
                           end
                         else COk (json_from_str ptxt, it2));
                      match jr with
                      | Some j => COk (PLit j, it3)
                      | None => CErr (TEInvalidParam ptxt)
                      end
                  end
              | NmSubexpression =>
                  do '(e, it2) <- parse_expression src f it1 (tk_end p);
                  COk (new_subexpression e, it2)
              | _ => CPanic (`"parse_param unreachable")
              end;
            COk (result, skip_upto it2 (tk_end p))
        end.
  Proof. reflexivity. Qed.

  Lemma PP_step f : PE f -> PP (S f).
  Proof.
    intros HPE ev v rest Hv Hs Hn. unfold consumes.
    inversion Hv as [s e l He|s e k s1 e1 l Hk He|s e s1 e1 q l He|s e l Hsub]; subst;
      rewrite parse_param_S; cbn [app]; inversion Hs as [|x0 l0 Hp Hs']; subst.
    - change (is_rule R_helper_parameter (R_reference, s, ev)) with false. cbn iota. cbn [cbind].
      destruct (span_str_ok src (R_reference, s, ev) (`"param span") Hp) as (x & ->). cbn [cbind].
      cbn [tk_rule fst snd]. change (name_classify R_reference) with NmReference. cbn iota.
      destruct (pjp_ok l rest (tk_end (R_reference, s, ev)) [] He Hs' Hn) as (segs & ->).
      cbn [cbind okres snd]. apply (skip_upto_ok [] rest); [constructor | assumption].
    - change (is_rule R_helper_parameter (R_literal, s, ev)) with false. cbn iota. cbn [cbind].
      destruct (span_str_ok src (R_literal, s, ev) (`"param span") Hp) as (x & ->). cbn [cbind].
      cbn [tk_rule fst snd]. change (name_classify R_literal) with NmLiteral. cbn iota.
      unfold is_rule at 1. cbn [tk_rule fst snd]. rewrite (rule_eqb_string_literal k Hk). cbn [cbind].
      destruct (json_from_str x); cbn [cbind okres snd]; [|exact I].
      inversion He; subst. apply skip_upto_ok; assumption.
    - change (is_rule R_helper_parameter (R_literal, s, ev)) with false. cbn iota. cbn [cbind].
      destruct (span_str_ok src (R_literal, s, ev) (`"param span") Hp) as (x & ->). cbn [cbind].
      cbn [tk_rule fst snd]. change (name_classify R_literal) with NmLiteral. cbn iota.
      change (is_rule R_string_literal (R_string_literal, s1, e1)) with true. cbn iota.
      inversion Hs' as [|x1 l1 Hp1 Hs'']; subst. inversion Hs'' as [|x2 l2 Hq Hs3]; subst.
      inversion He as [|x3 l3 He1 He2]; subst. inversion He2 as [|x4 l4 Heq Hel]; subst.
      destruct (is_rule R_string_inner_single_quote q).
      + destruct (span_str_ok src q (`"inner span") Hq) as (y & ->). cbn [cbind].
        destruct (json_from_str _); cbn [cbind okres snd]; [|exact I].
        apply skip_upto_ok; assumption.
      + cbn [cbind]. destruct (json_from_str x); cbn [cbind okres snd]; [|exact I].
        change (q :: l ++ rest) with ((q :: l) ++ rest).
        apply skip_upto_ok; [constructor|]; assumption.
    - change (is_rule R_helper_parameter (R_subexpression, s, ev)) with false. cbn iota. cbn [cbind].
      destruct (span_str_ok src (R_subexpression, s, ev) (`"param span") Hp) as (x & ->). cbn [cbind].
      cbn [tk_rule fst snd]. change (name_classify R_subexpression) with NmSubexpression. cbn iota.
      eapply okres_bind.
      + eapply okres_bind.
        * apply (HPE ev l rest); [apply tg_plain; assumption | assumption | apply next_gt_ge; assumption].
        * intros [e it2] E. cbn [snd] in E. subst it2. cbn [okres]. instantiate (1 := fun r => snd r = rest). reflexivity.
      + intros [result it2] E. cbn [snd] in E. subst it2. cbn [okres snd].
        apply (skip_upto_ok [] rest); [constructor | assumption].
  Qed.

  Lemma expr_loop_S f it limit name params hash bp pre pro :
    expr_loop src (S f) it limit name params hash bp pre pro =
        let finish := COk ({| es_name := name; es_params := rev params; es_hash := hash;
                              es_bp := bp; es_pre := pre; es_pro := pro |}, it) in
        match it with
        | [] => finish
        | p :: it' =>
            if N.ltb (tk_end p) limit then
              let e := tk_end p in
              match arg_classify (tk_rule p) with
              | XHelperParam =>
                  do '(v, it2) <- parse_param src f it';
                  expr_loop src f it2 limit name (v :: params) hash bp pre pro
              | XHash =>
                  match it' with
                  | [] => CPanic (`"parse_hash next")
                  | k :: it1 =>
                      do key <- span_str src k (`"hash key span");
                      do '(v, it2) <- parse_param src f it1;
                      expr_loop src f it2 limit name params (map_insert hash key v) bp pre pro
                  end
              | XBlockParam =>
                  do '(b, it2) <- parse_block_param src it' e;
                  expr_loop src f it2 limit name params hash (Some b) pre pro
              | XTrailingTilde =>
                  expr_loop src f it' limit name params hash bp pre true
              | XOther => expr_loop src f it' limit name params hash bp pre pro
              end
            else finish
        end.
  Proof. reflexivity. Qed.

  Lemma EL_step f : PP f -> EL f -> EL (S f).
  Proof.
    intros HPP HEL lo limit l rest name params hash bp pre pro Ha Hs Hn. unfold consumes.
    rewrite expr_loop_S. cbn zeta.
    inversion Ha as [lo0 lim0|lo0 lim0 ea a rest' Harg Hlo Hlim Hrest]; subst.
    - cbn [app]. destruct rest as [|p r]; [reflexivity|]. cbn in Hn.
      replace (tk_end p <? limit) with false by (symmetry; apply N.ltb_ge; assumption).
      reflexivity.
    - apply SP_app in Hs. destruct Hs as [Hsa Hsr]. rewrite <- app_assoc.
      assert (Hnext : next_gt ea (rest' ++ rest)) by (eapply args_next; eassumption).
      assert (Hk : forall name params hash bp pre pro,
                 okres (fun r => snd r = rest)
                   (expr_loop src f (rest' ++ rest) limit name params hash bp pre pro)).
      { intros. eapply HEL; eassumption. }
      inversion Harg as [s e ev v Hv Hev|s e k ks ke ps pe ev v Hv Hev|s e r1 s1 e1|s e r1 s1 e1 r2 s2 e2 He2|s e];
        subst; cbn [app tk_end tk_rule fst snd];
        (replace (ea <? limit) with true by (symmetry; apply N.ltb_lt; assumption)).
      + change (arg_classify R_helper_parameter) with XHelperParam. cbn iota.
        inversion Hsa; subst.
        eapply okres_bind.
        * apply (HPP ev v (rest' ++ rest)); [assumption|assumption|].
          destruct (rest' ++ rest); cbn in *; [auto|lia].
        * intros [v0 it2] E. cbn [snd] in E. subst it2. apply Hk.
      + change (arg_classify R_hash) with XHash. cbn iota.
        inversion Hsa as [|x0 l0 Hp0 Hsa1]; subst. inversion Hsa1 as [|x1 l1 Hp1 Hsa2]; subst.
        inversion Hsa2 as [|x2 l2 Hp2 Hsa3]; subst.
        destruct (span_str_ok src (k, ks, ke) (`"hash key span") Hp1) as (key & ->). cbn [cbind].
        destruct (value_head _ _ Hv) as (r & s' & tl & -> & Hnot).
        cbn [app]. destruct f as [|f']; [exact I|].
        rewrite parse_param_hp by exact Hnot.
        eapply okres_bind.
        * apply (HPP ev ((r, s', ev) :: tl) (rest' ++ rest)); [assumption|assumption|].
          destruct (rest' ++ rest); cbn in *; [auto|lia].
        * intros [v0 it2] E. cbn [snd] in E. subst it2. apply Hk.
      + change (arg_classify R_block_param) with XBlockParam. cbn iota.
        inversion Hsa as [|x0 l0 Hp0 Hsa1]; subst. inversion Hsa1 as [|x1 l1 Hp1 Hsa2]; subst.
        unfold parse_block_param.
        destruct (span_str_ok src (r1, s1, e1) (`"bp span") Hp1) as (n1 & ->). cbn [cbind].
        revert Hnext Hk. generalize (rest' ++ rest). intros R Hnext Hk.
        destruct R as [|p2 it2].
        * cbn [cbind]. apply Hk.
        * cbn in Hnext. replace (tk_end p2 <=? ea) with false by (symmetry; apply N.leb_gt; assumption).
          cbn [cbind]. apply Hk.
      + change (arg_classify R_block_param) with XBlockParam. cbn iota.
        inversion Hsa as [|x0 l0 Hp0 Hsa1]; subst. inversion Hsa1 as [|x1 l1 Hp1 Hsa2]; subst.
        inversion Hsa2 as [|x2 l2 Hp2 Hsa3]; subst.
        unfold parse_block_param.
        destruct (span_str_ok src (r1, s1, e1) (`"bp span") Hp1) as (n1 & ->). cbn [cbind].
        cbn [tk_end snd].
        replace (e2 <=? ea) with true by (symmetry; apply N.leb_le; assumption).
        destruct (span_str_ok src (r2, s2, e2) (`"bp span") Hp2) as (n2 & ->). cbn [cbind].
        apply Hk.
      + change (arg_classify R_trailing_tilde_to_omit_whitespace) with XTrailingTilde. cbn iota.
        apply Hk.
  Qed.

  Theorem discipline : forall f, PE f /\ EL f /\ PN f /\ PP f.
  Proof.
    induction f as [|f (IPE & IEL & IPN & IPP)].
    - repeat split; red; intros; exact I.
    - repeat split.
      + apply PE_step; assumption.
      + apply EL_step; assumption.
      + apply PN_step; assumption.
      + apply PP_step; assumption.
  Qed.

  (* ---------- the main loop: state shape ---------- *)
  Variable all : list tok.
  Variable opts : copts.

  Definition pe (c : cstate) : N := match c_end c with Some p => p | None => 0 end.

  Inductive chain_wf : option template -> Prop :=
  | cw_none : chain_wf None
  | cw_node n c m : chain_wf (h_inv c) -> chain_wf (Some (MkT n [ElBlock c] m)).
  Definition hwf (h : helper_t) : Prop := chain_wf (h_inv h).

  (* stack depths (a lower bound for the template stack), well-formed else-chains on the helper stack *)
  Definition Sh (n k d : nat) (c : cstate) : Prop :=
    (n <= length (c_ts c))%nat /\ length (c_hs c) = k /\ length (c_ds c) = d /\ Forall hwf (c_hs c).
  Definition St (n k d : nat) (lo : N) (c : cstate) : Prop := Sh n k d c /\ pe c = lo.

  Notation escapes_sorted := (escapes_sorted all).

  Lemma StronglySorted_filter {A} (R : A -> A -> Prop) (f : A -> bool) l :
    StronglySorted R l -> StronglySorted R (filter f l).
  Proof.
    induction 1 as [|x l Hs IH Hall]; cbn [filter]; [constructor|].
    destruct (f x); [|assumption]. constructor; [assumption|].
    apply Forall_forall. intros y Hy. apply filter_In in Hy. destruct Hy as [Hy _].
    rewrite Forall_forall in Hall. auto.
  Qed.

  Lemma filter_filter {A} (f g : A -> bool) l :
    filter (fun x => f x && g x) l = filter g (filter f l).
  Proof.
    induction l as [|x l IH]; cbn [filter]; [reflexivity|].
    destruct (f x); cbn [andb filter]; [destruct (g x)|]; rewrite IH; reflexivity.
  Qed.

  Lemma inner_escapes_ok p : escapes_sorted -> escapes_inside p (inner_escapes all p).
  Proof.
    intros [Hsort Hne]. unfold inner_escapes, escapes_inside. split.
    - rewrite (filter_ext _ (fun t => is_rule R_escape t &&
                 (N.leb (tk_start p) (tk_start t) && N.leb (tk_end t) (tk_end p))))
        by (intros; rewrite andb_assoc; reflexivity).
      rewrite filter_filter. apply StronglySorted_filter. exact Hsort.
    - intros e He. apply filter_In in He. destruct He as [Hin Hc].
      apply andb_true_iff in Hc. destruct Hc as [Hc H3]. apply andb_true_iff in Hc. destruct Hc as [H1 H2].
      apply N.leb_le in H2, H3. rewrite Forall_forall in Hne. specialize (Hne e Hin H1). lia.
  Qed.

  Hypothesis Hesc : escapes_sorted.

  Lemma push_front_okres ts el lc site n : (n <= length ts)%nat -> (1 <= n)%nat ->
    okres (fun ts' => (n <= length ts')%nat) (push_front_el ts el lc site).
  Proof. intros Hl Hn. destruct ts as [|t r]; cbn [length] in Hl; [lia|]. cbn. assumption. Qed.

  (* ---------- the pre-step ---------- *)
  Lemma trailing_string_ok c pr lc n :
    (n <= length (c_ts c))%nat -> (1 <= n)%nat -> pe c <= tk_start pr -> span_ok src pr ->
    okres (fun c1 => (n <= length (c_ts c1))%nat /\ c_hs c1 = c_hs c /\ c_ds c1 = c_ds c /\ c_end c1 = c_end c)
          (trailing_string src c pr lc).
  Proof.
    intros Hl Hn Hpe [Hse Hel]. unfold trailing_string. fold (pe c).
    match goal with |- context [if ?b then _ else _] => destruct b eqn:Eb end; [|cbn; auto].
    destruct (slice_some src (pe c) (tk_start pr)) as (txt & -> & _); [assumption|lia|].
    destruct (raw_string_plain_ok txt false (c_trim c)) as (el & ->). cbn [cbind].
    destruct (rule_eqb (tk_rule pr) R_raw_block_end) eqn:Er.
    - cbn. repeat split; auto.
    - eapply okres_bind; [apply push_front_okres; eassumption|].
      intros ts' Hts'. cbn. auto.
  Qed.

  (* ---------- else-chain bookkeeping never trips its assertions ---------- *)
  Lemma h_inv_set_tpl h t : h_inv (h_set_tpl h t) = h_inv h.
  Proof. destruct h; reflexivity. Qed.
  Lemma h_inv_set_inv h t : h_inv (h_set_inv h t) = t.
  Proof. destruct h; reflexivity. Qed.
  Lemma h_inv_set_chain h b : h_inv (h_set_chain h b) = h_inv h.
  Proof. destruct h; reflexivity. Qed.
  Lemma h_chain_set_chain h b : h_chain (h_set_chain h b) = b.
  Proof. destruct h; reflexivity. Qed.

  Lemma ref_chain_head_wf h : hwf h ->
    ref_chain_head h = Some None \/
    exists n head m, h_inv h = Some (MkT n [ElBlock head] m) /\ ref_chain_head h = Some (Some head)
                     /\ chain_wf (h_inv head).
  Proof.
    intros H. unfold ref_chain_head. destruct (h_chain h); [|left; reflexivity].
    unfold hwf in H. inversion H as [|n c m Hc E]; [left; reflexivity|].
    right. exists n, c, m. repeat split; assumption.
  Qed.

  Lemma set_chain_template_ok h t : hwf h -> okres hwf (set_chain_template h t).
  Proof.
    intros H. unfold set_chain_template.
    destruct (ref_chain_head_wf h H) as [->|(n & head & m & Ei & -> & Hc)].
    - cbn [okres]. unfold hwf. rewrite h_inv_set_tpl. exact H.
    - cbn [okres]. unfold hwf, set_chain_head. rewrite Ei. rewrite h_inv_set_inv.
      constructor. rewrite h_inv_set_tpl. exact Hc.
  Qed.

  Lemma insert_inverse_node_hwf h node : hwf h -> hwf (insert_inverse_node h node).
  Proof.
    intros H. unfold hwf, insert_inverse_node. rewrite h_inv_set_inv. constructor.
    rewrite h_inv_set_inv. exact H.
  Qed.

  Lemma revert_loop_ok : forall cur, chain_wf cur -> forall fuel prev,
    okres (fun _ => True) (revert_loop fuel cur prev).
  Proof.
    induction 1 as [|n c m Hc IH]; intros fuel prev; destruct fuel as [|f]; cbn [revert_loop okres]; auto.
  Qed.

  Lemma revert_chain_and_set_ok fuel h inverse : hwf h ->
    okres (fun _ => True) (revert_chain_and_set fuel h inverse).
  Proof.
    intros H. unfold revert_chain_and_set. destruct (h_chain h) eqn:Ec.
    - destruct (ref_chain_head_wf h H) as [->|(n & head & m & Ei & -> & Hc)].
      + eapply okres_bind; [apply revert_loop_ok; exact H | intros; exact I].
      + destruct (h_tpl head).
        * eapply okres_bind; [apply revert_loop_ok; exact H | intros; exact I].
        * eapply okres_bind; [apply revert_loop_ok | intros; exact I].
          unfold set_chain_head. rewrite Ei, h_inv_set_inv. constructor. rewrite h_inv_set_tpl. exact Hc.
    - destruct (h_tpl h); exact I.
  Qed.

  (* ---------- prologue of every tag ---------- *)
  Lemma tag_prologue_ok f c1 pr l rest n :
    tag_toks (tk_end pr) l -> SP l -> next_ge (tk_end pr) rest ->
    (n <= length (c_ts c1))%nat -> (1 <= n)%nat ->
    okres (fun x => snd x = rest /\ (n <= length (snd (fst x)))%nat) (tag_prologue src f c1 pr (l ++ rest)).
  Proof.
    intros Ht Hs Hn Hl Hn1. unfold tag_prologue.
    eapply okres_bind; [apply (proj1 (discipline f)); eassumption|].
    intros [e it1] E. cbn [snd] in E. subst it1.
    destruct (es_pre e).
    - unfold remove_previous_whitespace. destruct (c_ts c1) as [|t r]; cbn [length] in Hl; [lia|].
      cbn. auto.
    - cbn. auto.
  Qed.

  Lemma standalone_okres ts t pi ip n : span_ok src t -> (n <= length ts)%nat -> (1 <= n)%nat ->
    okres (fun x => (n <= length (snd x))%nat) (process_standalone_statement src ts t pi ip).
  Proof.
    intros [A B] Hl Hn.
    destruct (process_standalone_ok src ts t pi ip) as (b & ts' & -> & L); [lia|assumption| |].
    - destruct ts; cbn [length] in Hl; [lia|discriminate].
    - cbn. lia.
  Qed.

  Definition Res (rest : list tok) (n k d : nat) (hi : N) (r : cstate * list tok) : Prop :=
    snd r = rest /\ St n k d hi (fst r).

  Lemma step_finish (body : cres (cstate * list tok)) e rest n k d :
    okres (fun r => snd r = rest /\ Sh n k d (fst r)) body ->
    okres (Res rest n k d e)
      (cbind body (fun r => let '(c', it') := r in
         COk ({| c_ts := c_ts c'; c_hs := c_hs c'; c_ds := c_ds c'; c_omit := c_omit c';
                 c_trim := c_trim c'; c_end := Some e |}, it'))).
  Proof.
    intros H. eapply okres_bind; [exact H|]. intros [c' it'] [E1 E2]. cbn [fst snd] in *.
    cbn [okres]. split; [exact E1|]. split; [exact E2 | reflexivity].
  Qed.

  Lemma step_template f c s e it n k d lo : St n k d lo c ->
    okres (Res it (S n) k d lo) (step src all opts f c (R_template, s, e) it).
  Proof.
    intros [(A & B & C & D) E]. unfold step, trailing_string. cbn [tk_rule fst snd tag_classify].
    change (rule_eqb R_template R_template) with true. cbn [negb andb cbind okres].
    split; [reflexivity|]. split; [|exact E]. unfold Sh, with_ts. cbn [fst c_ts c_hs c_ds length]. repeat split; auto. lia.
  Qed.

  Lemma step_raw_text f c s e it n k d lo : St n k d lo c -> (1 <= n)%nat ->
    lo <= s -> span_ok src (R_raw_text, s, e) ->
    okres (Res it n k d e) (step src all opts f c (R_raw_text, s, e) it).
  Proof.
    intros [(A & B & C & D) E] Hn Hlo Hsp. pose proof Hsp as [Hse Hel]. cbn [tk_start tk_end fst snd] in Hse, Hel.
    unfold step. cbn [tk_rule fst snd tag_classify].
    eapply okres_bind.
    - apply (trailing_string_ok c _ _ n); try assumption. rewrite E; exact Hlo.
    - intros c1 (A1 & B1 & C1 & E1). fold (pe c). rewrite E. cbn [tk_start tk_end fst snd].
      set (start := if negb (s =? lo) then lo else s).
      assert (Hst : start <= s) by (unfold start; destruct (negb (s =? lo)); lia).
      destruct (slice_some src start e) as (txt & -> & Hlen); [lia|assumption|].
      destruct (raw_string_ok txt (R_raw_text, s, e) (inner_escapes all (R_raw_text, s, e)) (c_omit c1) (c_trim c1))
        as (el & Eel); [assumption | cbn [tk_start tk_end fst snd]; lia | apply inner_escapes_ok; assumption |].
      match goal with |- context [raw_string ?a ?b ?c ?d] =>
        replace (raw_string a b c d) with (@COk element el) by (symmetry; exact Eel) end.
      cbn [cbind]. apply step_finish.
      eapply okres_bind; [apply (push_front_okres _ _ _ _ n); assumption|].
      intros ts' Hts'. cbn [cbind okres fst snd]. split; [reflexivity|].
      unfold Sh, set_stack. cbn [c_ts c_hs c_ds]. rewrite B1, C1. repeat split; auto.
  Qed.

  Lemma Sh_pre c c1 n k d : Sh n k d c ->
    (n <= length (c_ts c1))%nat -> c_hs c1 = c_hs c -> c_ds c1 = c_ds c -> Sh n k d c1.
  Proof. intros (A & B & C & D) A1 B1 C1. unfold Sh. rewrite B1, C1. auto. Qed.

  (* {{expr}} / {{{expr}}} / {{&expr}} *)
  Lemma step_value f c r s e l rest n k d lo html :
    tag_classify r = KValueExpr html -> St n k d lo c -> (1 <= n)%nat -> lo <= s ->
    span_ok src (r, s, e) -> tag_toks e l -> SP l -> next_ge e rest ->
    okres (Res rest n k d e) (step src all opts f c (r, s, e) (l ++ rest)).
  Proof.
    intros Hc [HSh E] Hn Hlo Hsp Ht Hs Hnx. pose proof HSh as (A & B & C & D).
    unfold step. cbn [tk_rule tk_start tk_end fst snd]. rewrite Hc.
    eapply okres_bind.
    - apply (trailing_string_ok c _ _ n); try assumption. rewrite E; exact Hlo.
    - intros c1 (A1 & B1 & C1 & E1). pose proof (Sh_pre _ _ _ _ _ HSh A1 B1 C1) as HSh1.
      cbn iota. apply step_finish.
      eapply okres_bind; [apply (tag_prologue_ok f c1 (r, s, e) l rest n); assumption|].
      intros [[es ts1] it1] [X Y]. cbn [fst snd] in X, Y. subst it1.
      eapply okres_bind; [apply (push_front_okres _ _ _ _ n); assumption|].
      intros ts2 H2. cbn [okres fst snd]. split; [reflexivity|].
      destruct HSh1 as (A2 & B2 & C2 & D2). unfold Sh, set_stack. cbn [c_ts c_hs c_ds]. auto.
  Qed.

  (* {{* deco}} / {{> partial}} *)
  Lemma step_deco_expr f c r s e l rest n k d lo part :
    tag_classify r = KDecoExpr part -> St n k d lo c -> (1 <= n)%nat -> lo <= s ->
    span_ok src (r, s, e) -> tag_toks e l -> SP l -> next_ge e rest ->
    okres (Res rest n k d e) (step src all opts f c (r, s, e) (l ++ rest)).
  Proof.
    intros Hc [HSh E] Hn Hlo Hsp Ht Hs Hnx. pose proof HSh as (A & B & C & D).
    unfold step. cbn [tk_rule tk_start tk_end fst snd]. rewrite Hc.
    eapply okres_bind.
    - apply (trailing_string_ok c _ _ n); try assumption. rewrite E; exact Hlo.
    - intros c1 (A1 & B1 & C1 & E1). pose proof (Sh_pre _ _ _ _ _ HSh A1 B1 C1) as HSh1.
      cbn iota. apply step_finish.
      eapply okres_bind; [apply (tag_prologue_ok f c1 (r, s, e) l rest n); assumption|].
      intros [[es ts1] it1] [X Y]. cbn [fst snd] in X, Y. subst it1.
      eapply okres_bind; [apply (standalone_okres ts1 (r, s, e) _ _ n); assumption|].
      intros [trim ts2] Y2. cbn [snd] in Y2.
      eapply okres_bind with (P := fun _ => True).
      { destruct (part && negb (o_prevent_indent opts) && negb (es_pre es)); [|exact I].
        unfold prefix_to. destruct Hsp as [Hse Hel]. cbn [tk_start tk_end fst snd] in *.
        destruct (slice_some src 0 s) as (b & -> & _); [lia|lia|]. exact I. }
      intros indent _.
      eapply okres_bind; [apply (push_front_okres _ _ _ _ n); assumption|].
      intros ts3 H3. cbn [okres fst snd]. split; [reflexivity|].
      destruct HSh1 as (A2 & B2 & C2 & D2). unfold Sh, set_stack. cbn [c_ts c_hs c_ds]. auto.
  Qed.

  (* comments *)
  Lemma step_comment f c r s e rest n k d lo compact :
    tag_classify r = KComment compact -> St n k d lo c -> (1 <= n)%nat -> lo <= s ->
    span_ok src (r, s, e) ->
    okres (Res rest n k d e) (step src all opts f c (r, s, e) rest).
  Proof.
    intros Hc [HSh E] Hn Hlo Hsp. pose proof HSh as (A & B & C & D).
    unfold step. cbn [tk_rule tk_start tk_end fst snd]. rewrite Hc.
    eapply okres_bind.
    - apply (trailing_string_ok c _ _ n); try assumption. rewrite E; exact Hlo.
    - intros c1 (A1 & B1 & C1 & E1). pose proof (Sh_pre _ _ _ _ _ HSh A1 B1 C1) as HSh1.
      cbn iota. apply step_finish.
      eapply okres_bind; [apply (standalone_okres (c_ts c1) (r, s, e) _ _ n); assumption|].
      intros [trim ts1] Y1. cbn [snd] in Y1.
      destruct (span_str_ok src (r, s, e) (`"comment span") Hsp) as (txt & ->). cbn [cbind].
      eapply okres_bind; [apply (push_front_okres _ _ _ _ n); assumption|].
      intros ts2 H2. cbn [okres fst snd]. split; [reflexivity|].
      destruct HSh1 as (A2 & B2 & C2 & D2). unfold Sh, set_stack. cbn [c_ts c_hs c_ds]. auto.
  Qed.

  (* any token the loop does not interpret (EOI) *)
  Lemma step_other f c r s e rest n k d lo :
    tag_classify r = KOtherRule -> St n k d lo c -> (1 <= n)%nat -> lo <= s ->
    span_ok src (r, s, e) ->
    okres (Res rest n k d e) (step src all opts f c (r, s, e) rest).
  Proof.
    intros Hc [HSh E] Hn Hlo Hsp. pose proof HSh as (A & B & C & D).
    unfold step. cbn [tk_rule tk_start tk_end fst snd]. rewrite Hc.
    eapply okres_bind.
    - apply (trailing_string_ok c _ _ n); try assumption. rewrite E; exact Hlo.
    - intros c1 (A1 & B1 & C1 & E1). pose proof (Sh_pre _ _ _ _ _ HSh A1 B1 C1) as HSh1.
      cbn iota. apply step_finish. cbn [okres fst snd]. auto.
  Qed.

  (* raw block body: pushes its own template *)
  Lemma step_raw_block_text f c s e rest n k d lo :
    St n k d lo c -> (1 <= n)%nat -> lo <= s -> span_ok src (R_raw_block_text, s, e) ->
    okres (Res rest (S n) k d e) (step src all opts f c (R_raw_block_text, s, e) rest).
  Proof.
    intros [HSh E] Hn Hlo Hsp. pose proof HSh as (A & B & C & D). pose proof Hsp as [Hse Hel].
    cbn [tk_start tk_end fst snd] in Hse, Hel.
    unfold step, trailing_string. cbn [tk_rule tk_start tk_end fst snd tag_classify].
    change (rule_eqb R_raw_block_text R_raw_block_text) with true.
    rewrite !andb_false_r. cbn [negb andb cbind].
    apply step_finish. fold (pe c). rewrite E.
    set (start := if negb (s =? lo) then lo else s).
    assert (Hst : start <= s) by (unfold start; destruct (negb (s =? lo)); lia).
    destruct (slice_some src start e) as (txt & -> & Hlen); [lia|assumption|].
    destruct (raw_string_ok txt (R_raw_block_text, s, e) (inner_escapes all (R_raw_block_text, s, e)) (c_omit c) (c_trim c))
      as (el & Eel); [assumption | cbn [tk_start tk_end fst snd]; lia | apply inner_escapes_ok; assumption |].
    match goal with |- context [raw_string ?a ?b ?c ?d] =>
      replace (raw_string a b c d) with (@COk element el) by (symmetry; exact Eel) end.
    cbn [cbind okres fst snd]. split; [reflexivity|].
    unfold Sh, with_ts. cbn [c_ts c_hs c_ds length]. repeat split; auto. lia.
  Qed.

  (* block start tags: push a helper (or a decorator) *)
  Lemma step_block_start f c r s e l rest n k d lo deco :
    tag_classify r = KBlockStart deco -> St n k d lo c -> (1 <= n)%nat -> lo <= s ->
    span_ok src (r, s, e) -> tag_toks e l -> SP l -> next_ge e rest ->
    okres (Res rest n (if deco then k else S k) (if deco then S d else d) e)
          (step src all opts f c (r, s, e) (l ++ rest)).
  Proof.
    intros Hc [HSh E] Hn Hlo Hsp Ht Hs Hnx. pose proof HSh as (A & B & C & D).
    unfold step. cbn [tk_rule tk_start tk_end fst snd]. rewrite Hc.
    eapply okres_bind.
    - apply (trailing_string_ok c _ _ n); try assumption. rewrite E; exact Hlo.
    - intros c1 (A1 & B1 & C1 & E1). pose proof (Sh_pre _ _ _ _ _ HSh A1 B1 C1) as HSh1.
      cbn iota. apply step_finish.
      eapply okres_bind; [apply (tag_prologue_ok f c1 (r, s, e) l rest n); assumption|].
      intros [[es ts1] it1] [X Y]. cbn [fst snd] in X, Y. subst it1.
      eapply okres_bind; [apply (standalone_okres ts1 (r, s, e) _ _ n); assumption|].
      intros [trim ts2] Y2. cbn [snd] in Y2.
      destruct HSh1 as (A2 & B2 & C2 & D2).
      destruct ts2 as [|t2 r2]; cbn [length] in Y2; [lia|].
      destruct deco; cbn [c_ts]; cbn [okres fst snd]; (split; [reflexivity|]);
        unfold Sh, with_ts; cbn [c_ts c_hs c_ds length]; repeat split; auto.
      constructor; [|assumption]. unfold hwf, mk_helper. cbn. constructor.
  Qed.

  Lemma parse_name_plain f r s e rest : name_classify r = NmPlain -> span_ok src (r, s, e) ->
    consumes rest (parse_name src f ((r, s, e) :: rest)).
  Proof.
    intros Hc Hsp. destruct f as [|f]; [exact I|]. unfold consumes. cbn [parse_name tk_rule fst snd].
    rewrite Hc. destruct (span_str_ok src (r, s, e) (`"name span") Hsp) as (x & ->).
    cbn [cbind okres snd]. reflexivity.
  Qed.

  (* {{else}} / {{^}} / {{else if ..}}: pops the finished template into the helper *)
  (* the common tail of the invert arm, once the tokens of the tag are consumed *)
  Lemma invert_tail c1 pr (chain : bool) e (rest : list tok) n k d ts1 :
    Sh (S n) (S k) d c1 -> span_ok src pr -> (S n <= length ts1)%nat ->
    okres (fun r => snd r = rest /\ Sh n (S k) d (fst r))
      (do '(trim, ts2) <- process_standalone_statement src ts1 pr true (o_is_partial opts);
       let ibw := trim && negb (es_pre e) in
       match ts2 with
       | [] => CPanic (`"invert pop_front")
       | t :: ts3 =>
           match c_hs c1 with
           | [] => CPanic (`"invert helper front")
           | h :: hs =>
               let h1 := if chain then h_set_chain h true else h in
               do h2 <- set_chain_template h1 (Some t);
               let h3 := if chain then insert_inverse_node h2 (mk_helper e true true ibw) else h2 in
               COk ({| c_ts := ts3; c_hs := h3 :: hs; c_ds := c_ds c1;
                       c_omit := es_pro e; c_trim := trim; c_end := c_end c1 |}, rest)
           end
       end).
  Proof.
    intros (A2 & B2 & C2 & D2) Hsp Y.
    eapply okres_bind; [apply (standalone_okres ts1 pr _ _ (S n)); try assumption; lia|].
    intros [trim ts2] Y2. cbn [snd] in Y2.
    destruct ts2 as [|t2 ts3]; cbn [length] in Y2; [lia|].
    destruct (c_hs c1) as [|h hs] eqn:Eh; cbn [length] in B2; [lia|].
    inversion D2 as [|h' hs' Hh Hhs]; subst.
    eapply okres_bind.
    - apply set_chain_template_ok. destruct chain; [unfold hwf; rewrite h_inv_set_chain|]; exact Hh.
    - intros h2 Hh2. cbn [okres fst snd]. split; [reflexivity|].
      unfold Sh. cbn [c_ts c_hs c_ds length]. repeat split; try lia; try assumption.
      constructor; [|assumption]. destruct chain; [apply insert_inverse_node_hwf|]; exact Hh2.
  Qed.

  Lemma remove_prev_ws_okres ts (b : bool) n : (n <= length ts)%nat -> (1 <= n)%nat ->
    okres (fun ts1 => (n <= length ts1)%nat)
          (if b then remove_previous_whitespace ts else COk ts).
  Proof.
    intros Hl Hn. destruct b; [|exact Hl].
    unfold remove_previous_whitespace. destruct ts as [|t r]; cbn [length] in Hl; [lia|]. cbn. exact Hl.
  Qed.

  (* {{else}} / {{^}}: pops the finished template into the helper *)
  Lemma step_invert_plain f c s e l rest n k d lo :
    St (S n) (S k) d lo c -> lo <= s -> span_ok src (R_invert_tag, s, e) ->
    tag_toks e l -> SP l -> next_ge e rest ->
    okres (Res rest n (S k) d e) (step src all opts f c (R_invert_tag, s, e) (l ++ rest)).
  Proof.
    intros [HSh E] Hlo Hsp Ht Hs Hnx. pose proof HSh as (A & B & C & D).
    unfold step. cbn [tk_rule tk_start tk_end fst snd tag_classify].
    eapply okres_bind.
    - apply (trailing_string_ok c _ _ (S n)); try assumption; [lia | rewrite E; exact Hlo].
    - intros c1 (A1 & B1 & C1 & E1). pose proof (Sh_pre _ _ _ _ _ HSh A1 B1 C1) as HSh1.
      cbn iota. apply step_finish. cbn [cbind].
      eapply okres_bind; [apply (proj1 (discipline f)); eassumption|].
      intros [e0 it1] X. cbn [snd] in X. subst it1.
      eapply okres_bind; [apply (remove_prev_ws_okres _ _ (S n)); [exact A1 | lia]|].
      intros ts1 Y. apply (invert_tail c1 (R_invert_tag, s, e) false (es_or_pre e0 false) rest n k d ts1); assumption.
  Qed.

  (* {{else if ..}} and {{~else if ..}} *)
  Lemma step_invert_chain f c s e tl si ei l rest n k d lo :
    St (S n) (S k) d lo c -> lo <= s -> span_ok src (R_invert_chain_tag, s, e) ->
    opt_tilde tl -> span_ok src (R_invert_tag_item, si, ei) ->
    tag_toks e l -> SP l -> next_ge e rest ->
    okres (Res rest n (S k) d e)
          (step src all opts f c (R_invert_chain_tag, s, e)
                (tl ++ (R_invert_tag_item, si, ei) :: l ++ rest)).
  Proof.
    intros [HSh E] Hlo Hsp Htl Hspi Ht Hs Hnx. pose proof HSh as (A & B & C & D).
    unfold step. cbn [tk_rule tk_start tk_end fst snd tag_classify].
    eapply okres_bind.
    - apply (trailing_string_ok c _ _ (S n)); try assumption; [lia | rewrite E; exact Hlo].
    - intros c1 (A1 & B1 & C1 & E1). pose proof (Sh_pre _ _ _ _ _ HSh A1 B1 C1) as HSh1.
      cbn iota. apply step_finish.
      assert (Tail : forall pre : bool,
        okres (fun r => snd r = rest /\ Sh n (S k) d (fst r))
          (do it0 <- (do '(_, it') <- parse_name src f ((R_invert_tag_item, si, ei) :: l ++ rest); COk it');
           do '(e0, it1) <- parse_expression src f it0 e;
           let e1 := es_or_pre e0 pre in
           do ts1 <- (if es_pre e1 then remove_previous_whitespace (c_ts c1) else COk (c_ts c1));
           do '(trim, ts2) <- process_standalone_statement src ts1 (R_invert_chain_tag, s, e) true (o_is_partial opts);
           let ibw := trim && negb (es_pre e1) in
           match ts2 with
           | [] => CPanic (`"invert pop_front")
           | t :: ts3 =>
               match c_hs c1 with
               | [] => CPanic (`"invert helper front")
               | h :: hs =>
                   let h1 := h_set_chain h true in
                   do h2 <- set_chain_template h1 (Some t);
                   let h3 := insert_inverse_node h2 (mk_helper e1 true true ibw) in
                   COk ({| c_ts := ts3; c_hs := h3 :: hs; c_ds := c_ds c1;
                           c_omit := es_pro e1; c_trim := trim; c_end := c_end c1 |}, it1)
               end
           end)).
      { intros pre.
        eapply okres_bind with (P := fun it0 => it0 = l ++ rest).
        { eapply okres_bind.
          - apply (parse_name_plain f R_invert_tag_item si ei (l ++ rest)); [reflexivity|assumption].
          - intros [nm it'] X. cbn [snd] in X. subst it'. reflexivity. }
        intros it0 ->.
        eapply okres_bind; [apply (proj1 (discipline f)); eassumption|].
        intros [e0 it1] X. cbn [snd] in X. subst it1. cbn zeta.
        eapply okres_bind; [apply (remove_prev_ws_okres _ _ (S n)); [exact A1 | lia]|].
        intros ts1 Y. apply (invert_tail c1 (R_invert_chain_tag, s, e) true (es_or_pre e0 pre) rest n k d ts1); assumption. }
      destruct Htl as [-> | (s0 & e0 & ->)]; cbn [app].
      + change (is_rule R_leading_tilde_to_omit_whitespace (R_invert_tag_item, si, ei)) with false.
        cbn iota. apply Tail.
      + change (is_rule R_leading_tilde_to_omit_whitespace (R_leading_tilde_to_omit_whitespace, s0, e0)) with true.
        cbn iota. apply Tail.
  Qed.

  (* {{/name}} of a helper block or raw block: pops helper and template *)
  Lemma step_helper_end f c r s e l rest n k d lo :
    tag_classify r = KHelperEnd -> St (S (S n)) (S k) d lo c -> lo <= s ->
    span_ok src (r, s, e) -> tag_toks e l -> SP l -> next_ge e rest ->
    okres (Res rest (S n) k d e) (step src all opts f c (r, s, e) (l ++ rest)).
  Proof.
    intros Hc [HSh E] Hlo Hsp Ht Hs Hnx. pose proof HSh as (A & B & C & D).
    unfold step. cbn [tk_rule tk_start tk_end fst snd]. rewrite Hc.
    eapply okres_bind.
    - apply (trailing_string_ok c _ _ (S (S n))); try assumption; [lia | rewrite E; exact Hlo].
    - intros c1 (A1 & B1 & C1 & E1). pose proof (Sh_pre _ _ _ _ _ HSh A1 B1 C1) as HSh1.
      cbn iota. apply step_finish.
      eapply okres_bind; [apply (tag_prologue_ok f c1 (r, s, e) l rest (S (S n))); try assumption; lia|].
      intros [[es ts1] it1] [X Y]. cbn [fst snd] in X, Y. subst it1.
      eapply okres_bind; [apply (standalone_okres ts1 (r, s, e) _ _ (S (S n))); try assumption; lia|].
      intros [trim ts2] Y2. cbn [snd] in Y2.
      destruct HSh1 as (A2 & B2 & C2 & D2).
      destruct (c_hs c1) as [|h hs] eqn:Eh; cbn [length] in B2; [lia|].
      inversion D2 as [|h' hs' Hh Hhs]; subst.
      destruct (opt_str_eqb _ _); [|exact I].
      destruct ts2 as [|prev_t ts3]; cbn [length] in Y2; [lia|].
      eapply okres_bind; [apply revert_chain_and_set_ok; exact Hh|].
      intros h' _.
      destruct ts3 as [|t r3]; cbn [length] in Y2; [lia|].
      cbn [okres fst snd]. split; [reflexivity|].
      unfold Sh. cbn [c_ts c_hs c_ds length]. repeat split; try lia; assumption.
  Qed.

  (* {{/name}} of a decorator / partial block *)
  Lemma step_deco_end f c r s e l rest n k d lo part :
    tag_classify r = KDecoEnd part -> St (S (S n)) k (S d) lo c -> lo <= s ->
    span_ok src (r, s, e) -> tag_toks e l -> SP l -> next_ge e rest ->
    okres (Res rest (S n) k d e) (step src all opts f c (r, s, e) (l ++ rest)).
  Proof.
    intros Hc [HSh E] Hlo Hsp Ht Hs Hnx. pose proof HSh as (A & B & C & D).
    unfold step. cbn [tk_rule tk_start tk_end fst snd]. rewrite Hc.
    eapply okres_bind.
    - apply (trailing_string_ok c _ _ (S (S n))); try assumption; [lia | rewrite E; exact Hlo].
    - intros c1 (A1 & B1 & C1 & E1). pose proof (Sh_pre _ _ _ _ _ HSh A1 B1 C1) as HSh1.
      cbn iota. apply step_finish.
      eapply okres_bind; [apply (tag_prologue_ok f c1 (r, s, e) l rest (S (S n))); try assumption; lia|].
      intros [[es ts1] it1] [X Y]. cbn [fst snd] in X, Y. subst it1.
      eapply okres_bind; [apply (standalone_okres ts1 (r, s, e) _ _ (S (S n))); try assumption; lia|].
      intros [trim ts2] Y2. cbn [snd] in Y2.
      destruct HSh1 as (A2 & B2 & C2 & D2).
      destruct (c_ds c1) as [|dd ds] eqn:Ed; cbn [length] in C2; [lia|].
      destruct (opt_str_eqb _ _); [|exact I].
      destruct ts2 as [|prev_t ts3]; cbn [length] in Y2; [lia|].
      destruct ts3 as [|t r3]; cbn [length] in Y2; [lia|].
      cbn [okres fst snd]. split; [reflexivity|].
      unfold Sh. cbn [c_ts c_hs c_ds length]. repeat split; try lia; assumption.
  Qed.

  (* ---------- the loop ---------- *)
  Lemma main_loop_S f c pr it :
    main_loop src all opts (S f) c (pr :: it)
    = cbind (step src all opts f c pr it)
            (fun x => let '(c', it'') := x in main_loop src all opts f c' it'').
  Proof. reflexivity. Qed.

  Definition K (rest : list tok) (n k d : nat) (hi : N) : Prop :=
    forall fuel c', St n k d hi c' -> NP (main_loop src all opts fuel c' rest).

  Lemma loop_step pr it rest n k d hi fuel c :
    (forall f, okres (Res rest n k d hi) (step src all opts f c pr it)) ->
    K rest n k d hi -> NP (main_loop src all opts fuel c (pr :: it)).
  Proof.
    intros Hstep HK. destruct fuel as [|f]; [intros site E; discriminate|].
    rewrite main_loop_S. eapply NP_bind; [apply Hstep|].
    intros [c' it''] [E1 E2]. cbn [fst snd] in *. subst it''. apply HK. exact E2.
  Qed.

  Definition P0 (lo hi : N) (l : list tok) : Prop :=
    forall rest n k d, (1 <= n)%nat -> SP l -> first_ge hi rest -> K rest n k d hi ->
    forall fuel c, St n k d lo c -> NP (main_loop src all opts fuel c (l ++ rest)).
  Definition Ptmpl (lo hi : N) (l : list tok) : Prop :=
    forall rest n k d, (1 <= n)%nat -> SP l -> first_ge hi rest -> K rest (S n) k d hi ->
    forall fuel c, St n k d lo c -> NP (main_loop src all opts fuel c (l ++ rest)).
  Definition Pchain (lo hi : N) (l : list tok) : Prop :=
    forall rest n k d, (1 <= n)%nat -> SP l -> first_ge hi rest -> K rest (S n) (S k) d hi ->
    forall fuel c, St (S n) (S k) d lo c -> NP (main_loop src all opts fuel c (l ++ rest)).

  Lemma simple_tag_class r : simple_tag r ->
    exists b, tag_classify r = KValueExpr b \/ tag_classify r = KDecoExpr b.
  Proof.
    intros [E | [E | [E | E]]]; subst r; [exists false; left | exists true; left | exists false; right | exists true; right];
      reflexivity.
  Qed.

  Lemma SP_cons t l : SP (t :: l) <-> span_ok src t /\ SP l.
  Proof. split; [intros H; inversion H; auto | intros [A B]; constructor; auto]. Qed.

  Ltac split_SP :=
    repeat match goal with
    | H : SP (_ ++ _) |- _ => apply SP_app in H; destruct H
    | H : SP (_ :: _) |- _ => apply SP_cons in H; destruct H
    end.

  Theorem loop_wf :
    (forall lo hi l, items lo hi l -> P0 lo hi l) /\
    (forall lo hi l, item lo hi l -> P0 lo hi l) /\
    (forall lo hi l, tmpl lo hi l -> Ptmpl lo hi l) /\
    (forall lo hi l, chain_parts lo hi l -> Pchain lo hi l) /\
    (forall lo hi l, inv_part lo hi l -> Pchain lo hi l).
  Proof.
    destruct wf_first as (F1 & F2 & F3 & F4 & F5).
    apply wf_mutind; unfold P0, Ptmpl, Pchain.
    - (* is_nil *)
      intros lo rest n k d Hn Hs Hf HK fuel c Hst. cbn [app]. apply HK. exact Hst.
    - (* is_cons *)
      intros lo mid hi a rest' Ha IHa Hr IHr rest n k d Hn Hs Hf HK fuel c Hst.
      split_SP. rewrite <- app_assoc.
      destruct (F1 _ _ _ Hr) as [_ Fr].
      eapply IHa; try eassumption; [apply Fr; assumption|].
      intros fuel' c' Hst'. eapply IHr; eassumption.
    - (* i_raw *)
      intros lo s e Hlo Hse rest n k d Hn Hs Hf HK fuel c Hst. cbn [app]. split_SP.
      eapply loop_step; [|exact HK]. intros f. apply step_raw_text with (lo := lo); assumption.
    - (* i_tag *)
      intros lo r s e l Hr Hlo Hse Ht rest n k d Hn Hs Hf HK fuel c Hst. split_SP.
      rewrite <- app_comm_cons. eapply loop_step; [|exact HK]. intros f.
      destruct (simple_tag_class r Hr) as (b & [Hc|Hc]).
      + eapply step_value with (lo := lo); try eassumption. apply first_ge_next; assumption.
      + eapply step_deco_expr with (lo := lo); try eassumption. apply first_ge_next; assumption.
    - (* i_comment *)
      intros lo r s e Hr Hlo Hse rest n k d Hn Hs Hf HK fuel c Hst. cbn [app]. split_SP.
      eapply loop_step; [|exact HK]. intros f.
      destruct Hr as [E1 | E1]; subst r; eapply step_comment with (lo := lo); try eassumption; reflexivity.
    - (* i_hblock *)
      intros lo s0 e0 l0 body m1 chains m2 inv m3 s9 e9 l9 Hlo Hse0 Ht0 Hb IHb Hc IHc Hi IHi Hm3 Hse9 Ht9
             rest n k d Hn Hs Hf HK fuel c Hst.
      split_SP.
      destruct (F3 _ _ _ Hb) as [Lb Fb]. destruct (F4 _ _ _ Hc) as [Lc Fc]. destruct (F5 _ _ _ Hi) as [Li Fi].
      assert (Fend : first_ge m3 (((R_helper_block_end, s9, e9) :: l9) ++ rest))
        by (cbn [app first_ge tk_start tk_end fst snd]; lia).
      rewrite <- ?app_assoc, <- ?app_comm_cons.
      destruct n as [|n']; [lia|].
      eapply loop_step.
      { intros f. apply (step_block_start f c R_helper_block_start s0 e0 l0 _ (S n') k d lo false);
          try assumption; try reflexivity; try lia.
        apply first_ge_next. apply Fb. apply Fc. apply Fi. exact Fend. }
      intros fuel1 c1 Hst1. cbn iota in Hst1.
      eapply (IHb _ (S n') (S k) d); [lia | assumption | apply Fc; apply Fi; exact Fend | | exact Hst1].
      intros fuel2 c2 Hst2.
      eapply (IHc _ (S n') k d); [lia | assumption | apply Fi; exact Fend | | exact Hst2].
      intros fuel3 c3 Hst3.
      eapply (IHi _ (S n') k d); [lia | assumption | exact Fend | | exact Hst3].
      intros fuel4 c4 Hst4.
      eapply loop_step; [|exact HK]. intros f.
      apply (step_helper_end f c4 R_helper_block_end s9 e9 l9 rest n' k d m3); try assumption; try reflexivity.
      apply first_ge_next; assumption.
    - (* i_rawblock *)
      intros lo s0 e0 l0 s1 e1 e2 l2 Hlo Hse0 Ht0 He0 Hse1 He12 Ht2 rest n k d Hn Hs Hf HK fuel c Hst.
      split_SP.
      rewrite <- ?app_assoc, <- ?app_comm_cons.
      destruct n as [|n']; [lia|].
      eapply loop_step.
      { intros f. apply (step_block_start f c R_raw_block_start s0 e0 l0 _ (S n') k d lo false);
          try assumption; try reflexivity; try lia.
        cbn [next_ge tk_end snd]. lia. }
      intros fuel1 c1 Hst1. cbn iota in Hst1.
      eapply loop_step.
      { intros f. apply (step_raw_block_text f c1 s1 e1 _ (S n') (S k) d e0); try assumption; lia. }
      intros fuel2 c2 Hst2.
      eapply loop_step; [|exact HK]. intros f.
      apply (step_helper_end f c2 R_raw_block_end e1 e2 l2 rest n' k d e1); try assumption; try reflexivity; try lia.
      apply first_ge_next; assumption.
    - (* i_dblock *)
      intros lo rs re s0 e0 l0 body m1 s9 e9 l9 Hp Hlo Hse0 Ht0 Hb IHb Hm1 Hse9 Ht9
             rest n k d Hn Hs Hf HK fuel c Hst.
      split_SP.
      destruct (F3 _ _ _ Hb) as [Lb Fb].
      assert (Fend : first_ge m1 (((re, s9, e9) :: l9) ++ rest))
        by (cbn [app first_ge tk_start tk_end fst snd]; lia).
      rewrite <- ?app_assoc, <- ?app_comm_cons.
      destruct n as [|n']; [lia|].
      assert (Hcs : tag_classify rs = KBlockStart true /\ exists b, tag_classify re = KDecoEnd b).
      { destruct Hp as [[-> ->]|[-> ->]]; (split; [reflexivity | eexists; reflexivity]). }
      destruct Hcs as [Hcs (b & Hce)].
      eapply loop_step.
      { intros f. apply (step_block_start f c rs s0 e0 l0 _ (S n') k d lo true); try assumption; try lia.
        apply first_ge_next. apply Fb. exact Fend. }
      intros fuel1 c1 Hst1. cbn iota in Hst1.
      eapply (IHb _ (S n') k (S d)); [lia | assumption | exact Fend | | exact Hst1].
      intros fuel2 c2 Hst2.
      eapply loop_step; [|exact HK]. intros f.
      apply (step_deco_end f c2 re s9 e9 l9 rest n' k d m1 b); try assumption.
      apply first_ge_next; assumption.
    - (* t_mk *)
      intros lo hi s e body Hlo Hse Hb IHb rest n k d Hn Hs Hf HK fuel c Hst.
      split_SP. rewrite <- app_comm_cons.
      eapply loop_step.
      { intros f. apply step_template. exact Hst. }
      intros fuel1 c1 Hst1. eapply (IHb _ (S n) k d); [lia | assumption | exact Hf | exact HK | exact Hst1].
    - (* cp_nil *)
      intros lo rest n k d Hn Hs Hf HK fuel c Hst. cbn [app]. apply HK. exact Hst.
    - (* cp_cons *)
      intros lo s e tl si ei l body mid hi rest' Hlo Hse Htl Hl Hb IHb Hc IHc rest n k d Hn Hs Hf HK fuel c Hst.
      split_SP.
      destruct (F3 _ _ _ Hb) as [Lb Fb]. destruct (F4 _ _ _ Hc) as [Lc Fc].
      rewrite <- ?app_assoc, <- ?app_comm_cons. rewrite <- ?app_assoc, <- ?app_comm_cons.
      eapply loop_step.
      { intros f. apply (step_invert_chain f c s e tl si ei l _ n k d lo); try assumption.
        - apply tg_plain; assumption.
        - apply first_ge_next. apply Fb. apply Fc. assumption. }
      intros fuel1 c1 Hst1.
      eapply (IHb _ n (S k) d); [lia | assumption | apply Fc; assumption | | exact Hst1].
      intros fuel2 c2 Hst2. eapply (IHc _ n k d); [lia | assumption | exact Hf | exact HK | exact Hst2].
    - (* ip_none *)
      intros lo rest n k d Hn Hs Hf HK fuel c Hst. cbn [app]. apply HK. exact Hst.
    - (* ip_some *)
      intros lo s e l body hi Hlo Hse Hl Hb IHb rest n k d Hn Hs Hf HK fuel c Hst.
      split_SP.
      destruct (F3 _ _ _ Hb) as [Lb Fb].
      rewrite <- ?app_assoc, <- ?app_comm_cons.
      eapply loop_step.
      { intros f. apply (step_invert_plain f c s e l _ n k d lo); try assumption.
        apply first_ge_next. apply Fb. assumption. }
      intros fuel1 c1 Hst1.
      eapply (IHb _ n (S k) d); [lia | assumption | exact Hf | exact HK | exact Hst1].
  Qed.

  Lemma step_c_end f c pr it c' it' :
    tag_classify (tk_rule pr) <> KTemplate ->
    step src all opts f c pr it = COk (c', it') -> c_end c' = Some (tk_end pr).
  Proof.
    intros Hc H. unfold step in H.
    destruct (trailing_string src c pr (line_col src (tk_start pr))) as [c1| | |]; cbn [cbind] in H;
      try discriminate.
    match type of H with cbind ?Y _ = _ => destruct Y as [[c2 it2]| | |] end; cbn [cbind] in H;
      try discriminate.
    destruct (tag_classify (tk_rule pr)); try congruence; inversion H; reflexivity.
  Qed.

  (* the whole fold over a well-formed token list never panics *)
  Theorem main_loop_no_panic : forall ts, wf_tokens ts -> SP ts ->
    forall fuel, NP (main_loop src all opts fuel init_cstate ts).
  Proof.
    intros ts (s & e & body & hi & p & -> & Hit & Hhi) Hs fuel.
    apply SP_cons in Hs. destruct Hs as [Hs0 Hs]. apply SP_app in Hs. destruct Hs as [Hsb Hse].
    apply SP_cons in Hse. destruct Hse as [Hse _].
    eapply loop_step.
    { intros f. apply (step_template f init_cstate s e _ 0 0 0 0).
      split; [|reflexivity]. repeat split; constructor. }
    intros fuel1 c1 Hst1.
    eapply (proj1 loop_wf 0 hi body Hit [(R_EOI, p, p)] 1%nat 0%nat 0%nat);
      [lia | assumption | cbn; lia | | exact Hst1].
    intros fuel2 c2 Hst2.
    destruct fuel2 as [|f2]; [intros site E; discriminate|].
    rewrite main_loop_S.
    assert (Hne : tag_classify (tk_rule (R_EOI, p, p)) <> KTemplate) by (cbn; discriminate).
    eapply NP_bind.
    { apply (okres_and (Res [] 1 0 0 p) (fun r => c_end (fst r) = Some p)).
      - apply (step_other f2 c2 R_EOI p p [] 1 0 0 hi eq_refl Hst2 (le_n _) Hhi Hse).
      - intros [c3 it3] E. exact (step_c_end _ _ _ _ _ _ Hne E). }
    intros [c3 it3] [[E3 [(A & B & C & D) Epe]] Hce]. cbn [fst snd tk_end] in *. subst it3.
    destruct f2 as [|f3]; [intros site E; cbn [main_loop] in E; discriminate|].
    cbn [main_loop]. rewrite Hce.
    destruct Hse as [_ Hp]. cbn [tk_end snd] in Hp.
    destruct (p <? len src) eqn:Elt.
    - destruct (slice_some src p (len src)) as (txt & -> & _); [assumption|lia|].
      destruct (c_ts c3) as [|root r]; cbn [length] in A; [lia|].
      cbn. intros site E; discriminate.
    - cbn [cbind]. destruct (c_ts c3) as [|root r]; cbn [length] in A; [lia|].
      intros site E; discriminate.
  Qed.

End Stages.

(* ---------- compile2 ---------- *)

Lemma hb_parse_unfold f r s : hb_parse f r s = parse rule hb_defs hb_ws f r s.
Proof. reflexivity. Qed.

Lemma hb_parse_spans f r src ts : hb_parse f r src = Parsed ts -> Forall (span_ok src) ts.
Proof.
  intros H. rewrite hb_parse_unfold in H.
  exact (parse_spans rule hb_defs hb_ws f r src ts H).
Qed.

Lemma compile_tokens_no_panic src opts ts :
  wf_tokens (filter not_escape ts) -> escapes_sorted ts -> Forall (span_ok src) ts ->
  forall site, compile_tokens src opts ts <> CPanic site.
Proof.
  intros Hw He Hsp. unfold compile_tokens.
  apply (main_loop_no_panic src ts opts He (filter not_escape ts) Hw).
  apply Forall_forall. intros t Ht. apply filter_In in Ht. destruct Ht as [Ht _].
  rewrite Forall_forall in Hsp. exact (Hsp t Ht).
Qed.

Theorem compile2_no_panic_wf : forall src opts,
  (forall ts, hb_parse (peg_fuel src) R_handlebars src = Parsed ts ->
              wf_tokens (filter not_escape ts) /\ escapes_sorted ts) ->
  forall site, compile2 src opts <> CPanic site.
Proof.
  intros src opts Hwf site. unfold compile2.
  pose proof (hb_parse_spans (peg_fuel src) R_handlebars src) as Hsp.
  destruct (hb_parse (peg_fuel src) R_handlebars src) as [ts| |]; [|discriminate|discriminate].
  destruct (Hwf ts eq_refl) as [Hw He].
  apply compile_tokens_no_panic; [assumption|assumption|]. apply Hsp. reflexivity.
Qed.

(* ---------- the hypotheses are satisfiable: a real pest token stream ---------- *)
Definition ex_src : str := `"x{{#if a}}y{{else if b 1}}w{{else}}z{{/if}}".
Definition ex_tokens : list tok :=
  [(R_template, 0, 43); (R_raw_text, 0, 1);
   (R_helper_block_start, 1, 10); (R_identifier, 4, 6);
   (R_helper_parameter, 7, 8); (R_reference, 7, 8); (R_path_inline, 7, 8); (R_path_id, 7, 8);
   (R_template, 10, 11); (R_raw_text, 10, 11);
   (R_invert_chain_tag, 11, 26); (R_invert_tag_item, 13, 17);
   (R_identifier, 18, 20); (R_helper_parameter, 21, 22);
   (R_reference, 21, 22); (R_path_inline, 21, 22); (R_path_id, 21, 22);
   (R_helper_parameter, 23, 24); (R_literal, 23, 24); (R_number_literal, 23, 24);
   (R_template, 26, 27); (R_raw_text, 26, 27);
   (R_invert_tag, 27, 35); (R_invert_tag_item, 29, 33);
   (R_template, 35, 36); (R_raw_text, 35, 36);
   (R_helper_block_end, 36, 43); (R_identifier, 39, 41);
   (R_EOI, 43, 43)].

Example ex_parse : hb_parse (peg_fuel ex_src) R_handlebars ex_src = Parsed ex_tokens.
Proof. vm_compute. reflexivity. Qed.

Local Ltac side := first [ lia | reflexivity | (repeat constructor; cbn; lia) ].

Definition ex_pa : list tok :=
  [(R_helper_parameter, 7, 8); (R_reference, 7, 8); (R_path_inline, 7, 8); (R_path_id, 7, 8)].
Definition ex_pb : list tok :=
  [(R_helper_parameter, 21, 22); (R_reference, 21, 22); (R_path_inline, 21, 22); (R_path_id, 21, 22)].
Definition ex_p1 : list tok :=
  [(R_helper_parameter, 23, 24); (R_literal, 23, 24); (R_number_literal, 23, 24)].

Example ex_wf : wf_tokens (filter not_escape ex_tokens) /\ escapes_sorted ex_tokens.
Proof.
  split; [|split; [vm_compute; constructor | repeat constructor; cbn; discriminate]].
  change (filter not_escape ex_tokens) with ex_tokens.
  exists 0, 43.
  exists ([(R_raw_text, 0, 1)] ++
          ((((R_helper_block_start, 1, 10) :: ([(R_identifier, 4, 6)] ++ (ex_pa ++ []))) ++
            ((R_template, 10, 11) :: ([(R_raw_text, 10, 11)] ++ [])) ++
            (((R_invert_chain_tag, 11, 26) :: (R_invert_tag_item, 13, 17) ::
               ([(R_identifier, 18, 20)] ++ (ex_pb ++ (ex_p1 ++ [])))) ++
             ((R_template, 26, 27) :: ([(R_raw_text, 26, 27)] ++ [])) ++ []) ++
            (((R_invert_tag, 27, 35) :: ([(R_invert_tag_item, 29, 33)] ++ [])) ++
             ((R_template, 35, 36) :: ([(R_raw_text, 35, 36)] ++ []))) ++
            (R_helper_block_end, 36, 43) :: ([(R_identifier, 39, 41)] ++ [])) ++ [])).
  exists 43, 43. split; [reflexivity|]. split; [|lia].
  apply (is_cons 0 1 43); [apply i_raw; lia|].
  apply (is_cons 1 43 43); [|apply is_nil].
  apply (i_hblock 1 1 10 _ _ 11 _ 27 _ 36 36 43); try lia.
  - (* {{#if a}} *)
    apply tg_plain. apply (st_mk 10 6); [apply nt_plain; reflexivity | lia |].
    apply (at_cons 6 10 8); [|lia|lia|apply at_nil].
    apply (ag_param 7 8 8); [apply vt_ref; side | lia].
  - apply t_mk; try lia. apply (is_cons 10 11 11); [apply i_raw; lia | apply is_nil].
  - (* {{else if b 1}} y *)
    apply (cp_cons 11 11 26 [] 13 17 _ _ 27 27 []); try lia.
    + left; reflexivity.
    + apply (st_mk 26 20); [apply nt_plain; reflexivity | lia |].
      apply (at_cons 20 26 22); [|lia|lia|].
      * apply (ag_param 21 22 22); [apply vt_ref; side | lia].
      * apply (at_cons 22 26 24); [|lia|lia|apply at_nil].
        apply (ag_param 23 24 24); [|lia]. apply vt_lit; [discriminate | side].
    + apply t_mk; try lia. apply (is_cons 26 27 27); [apply i_raw; lia | apply is_nil].
    + apply cp_nil.
  - (* {{else}} z *)
    apply (ip_some 27 27 35 _ _ 36); try lia.
    + apply tg_plain. apply (st_mk 35 33); [apply nt_plain; reflexivity | lia | apply at_nil].
    + apply t_mk; try lia. apply (is_cons 35 36 36); [apply i_raw; lia | apply is_nil].
  - (* {{/if}} *)
    apply tg_plain. apply (st_mk 43 41); [apply nt_plain; reflexivity | lia | apply at_nil].
Qed.

Example ex_no_panic : forall site, compile2 ex_src default_opts <> CPanic site.
Proof.
  apply compile2_no_panic_wf. intros ts Hp. rewrite ex_parse in Hp. inversion Hp; subst. exact ex_wf.
Qed.
