(* Proofs/ExprOrder.v — parse_expression_order (C13, token level): positional
   parameters, hash pairs and block parameters come out of parse_expression in
   token order. *)
From HB Require Import Tpl.Compile Proofs.CompileBase Spec.ExprSpec.
Open Scope N_scope.

Section Order.
  Variable src : str.

  Lemma expr_items_0 it limit : expr_items src 0 it limit = CFuel.
  Proof. reflexivity. Qed.

  (* the accumulator lemma: whatever has been accumulated so far, the loop adds
     the remaining items in token order *)
  Lemma expr_loop_items : forall fuel it limit name params hash bp pre pro,
    expr_loop src fuel it limit name params hash bp pre pro
    = do '(items, it') <- expr_items src fuel it limit;
      COk ({| es_name := name;
              es_params := rev params ++ positional items;
              es_hash := hash_of items hash;
              es_bp := bp_of items bp;
              es_pre := pre;
              es_pro := pro_of items pro |}, it').
  Proof.
    induction fuel as [|f IH]; intros it limit name params hash bp pre pro; [reflexivity|].
    rewrite expr_loop_S. cbv zeta. cbn [expr_items].
    destruct it as [|p it1].
    - cbn [cbind positional hash_of bp_of pro_of fold_left]. rewrite app_nil_r. reflexivity.
    - destruct (N.ltb (tk_end p) limit);
        [|cbn [cbind positional hash_of bp_of pro_of fold_left]; rewrite app_nil_r; reflexivity].
      destruct (arg_classify (tk_rule p)).
      + destruct (parse_param src f it1) as [[v it2]| | |]; cbn [cbind]; try reflexivity.
        rewrite IH. destruct (expr_items src f it2 limit) as [[r it3]| | |]; cbn [cbind]; try reflexivity.
        cbn [rev positional]. rewrite <- app_assoc. reflexivity.
      + destruct it1 as [|k it2]; [reflexivity|].
        destruct (span_str src k _) as [key| | |]; cbn [cbind]; try reflexivity.
        destruct (parse_param src f it2) as [[v it3]| | |]; cbn [cbind]; try reflexivity.
        rewrite IH. destruct (expr_items src f it3 limit) as [[r it4]| | |]; cbn [cbind]; reflexivity.
      + destruct (parse_block_param src it1 (tk_end p)) as [[b it2]| | |]; cbn [cbind]; try reflexivity.
        rewrite IH. destruct (expr_items src f it2 limit) as [[r it3]| | |]; cbn [cbind]; reflexivity.
      + rewrite IH. destruct (expr_items src f it1 limit) as [[r it3]| | |]; cbn [cbind]; reflexivity.
      + apply IH.
  Qed.

  Theorem parse_expression_order : forall f it limit,
    parse_expression src (S f) it limit
    = match it with
      | [] => CPanic (`"parse_expression peek")
      | t0 :: it0 =>
          let '(pre, it1) := if is_rule R_leading_tilde_to_omit_whitespace t0
                             then (true, it0) else (false, it) in
          do '(name, it2) <- parse_name src f it1;
          do '(items, it') <- expr_items src f it2 limit;
          COk ({| es_name := name;
                  es_params := positional items;
                  es_hash := hash_of items [];
                  es_bp := bp_of items None;
                  es_pre := pre;
                  es_pro := pro_of items false |}, it')
      end.
  Proof.
    intros f it limit. rewrite parse_expression_S. destruct it as [|t0 it0]; [reflexivity|].
    destruct (if is_rule R_leading_tilde_to_omit_whitespace t0 then (true, it0) else (false, t0 :: it0))
      as [pre it1].
    destruct (parse_name src f it1) as [[name it2]| | |]; cbn [cbind]; try reflexivity.
    apply expr_loop_items.
  Qed.

  (* `as |a b|`: two names in token order; `as |a|`: one *)
  Lemma parse_block_param_two p1 p2 rest limit n1 n2 :
    span_str src p1 (`"bp span") = COk n1 -> span_str src p2 (`"bp span") = COk n2 ->
    N.leb (tk_end p2) limit = true ->
    parse_block_param src (p1 :: p2 :: rest) limit = COk (BP2 n1 n2, rest).
  Proof.
    intros H1 H2 Hl. unfold parse_block_param. rewrite H1. cbn [cbind]. rewrite Hl, H2. reflexivity.
  Qed.

  Lemma parse_block_param_one p1 rest limit n1 :
    span_str src p1 (`"bp span") = COk n1 ->
    match rest with [] => True | p2 :: _ => N.leb (tk_end p2) limit = false end ->
    parse_block_param src (p1 :: rest) limit = COk (BP1 n1, rest).
  Proof.
    intros H1 Hl. unfold parse_block_param. rewrite H1. cbn [cbind].
    destruct rest as [|p2 r]; [reflexivity|]. rewrite Hl. reflexivity.
  Qed.
End Order.

(* ---------- the hash map: last duplicate wins, keys sorted ---------- *)
Lemma str_eqb_eq a : forall b, str_eqb a b = true <-> a = b.
Proof.
  unfold str_eqb. induction a as [|x a IH]; destruct b as [|y b]; cbn [list_eqb]; split; intro H;
    try discriminate; try reflexivity.
  - apply andb_prop in H. destruct H as [H1 H2]. apply N.eqb_eq in H1. apply IH in H2. congruence.
  - injection H as -> ->. rewrite N.eqb_refl. cbn. apply IH. reflexivity.
Qed.

Lemma str_cmp_eq_iff a : forall b, str_cmp a b = Eq <-> a = b.
Proof.
  induction a as [|x a IH]; destruct b as [|y b]; cbn [str_cmp]; split; intro H;
    try discriminate; try reflexivity.
  - destruct (N.compare x y) eqn:E; try discriminate.
    apply N.compare_eq in E. apply IH in H. congruence.
  - injection H as -> ->. rewrite N.compare_refl. apply IH. reflexivity.
Qed.

Lemma str_cmp_flip a : forall b, str_cmp b a = CompOpp (str_cmp a b).
Proof.
  induction a as [|x a IH]; destruct b as [|y b]; cbn [str_cmp]; try reflexivity.
  rewrite (N.compare_antisym x y). destruct (N.compare x y); cbn [CompOpp]; try reflexivity. apply IH.
Qed.

Lemma str_eqb_cmp k k' : str_eqb k k' = match str_cmp k k' with Eq => true | _ => false end.
Proof.
  destruct (str_cmp k k') eqn:E.
  - apply str_eqb_eq. apply str_cmp_eq_iff. exact E.
  - destruct (str_eqb k k') eqn:E2; [|reflexivity]. apply str_eqb_eq in E2. subst.
    assert (str_cmp k' k' = Eq) by (apply str_cmp_eq_iff; reflexivity). congruence.
  - destruct (str_eqb k k') eqn:E2; [|reflexivity]. apply str_eqb_eq in E2. subst.
    assert (str_cmp k' k' = Eq) by (apply str_cmp_eq_iff; reflexivity). congruence.
Qed.

Lemma map_get_insert {A} (m : list (str * A)) k v k' :
  map_get (map_insert m k v) k' = if str_eqb k' k then Some v else map_get m k'.
Proof.
  induction m as [|[k0 v0] r IH]; cbn [map_insert map_get].
  - reflexivity.
  - destruct (str_cmp k k0) eqn:E; cbn [map_get].
    + apply str_cmp_eq_iff in E. subst k0. destruct (str_eqb k' k); reflexivity.
    + reflexivity.
    + rewrite IH. destruct (str_eqb k' k) eqn:E1; [|reflexivity].
      apply str_eqb_eq in E1. subst k'. rewrite str_eqb_cmp, E. reflexivity.
Qed.

Lemma hash_of_lookup : forall items h k,
  map_get (hash_of items h) k
  = match hash_last items k with Some v => Some v | None => map_get h k end.
Proof.
  unfold hash_of. induction items as [|i r IH]; intros h k; cbn [fold_left hash_last].
  - reflexivity.
  - rewrite IH. destruct (hash_last r k); [reflexivity|].
    destruct i; try reflexivity. rewrite map_get_insert. destruct (str_eqb k k0); reflexivity.
Qed.

Lemma map_insert_head {A} (m : list (str * A)) k v :
  match map_insert m k v with
  | [] => False
  | (k1, _) :: _ => k1 = k \/ match m with (k0, _) :: _ => k1 = k0 /\ str_cmp k k0 = Gt | [] => False end
  end.
Proof.
  destruct m as [|[k0 v0] r]; cbn [map_insert]; [left; reflexivity|].
  destruct (str_cmp k k0) eqn:E; [left; reflexivity|left; reflexivity|right; split; reflexivity].
Qed.

Lemma map_insert_sorted {A} (m : list (str * A)) k v :
  keys_sorted m = true -> keys_sorted (map_insert m k v) = true.
Proof.
  induction m as [|[k0 v0] r IH]; intro Hs; [reflexivity|].
  cbn [map_insert]. destruct (str_cmp k k0) eqn:E.
  - apply str_cmp_eq_iff in E. subst k0. exact Hs.
  - cbn [keys_sorted] in *. unfold str_ltb at 1. rewrite E. exact Hs.
  - assert (Hr : keys_sorted r = true).
    { cbn [keys_sorted] in Hs. destruct r as [|[k1 v1] r']; [reflexivity|].
      apply andb_prop in Hs. apply Hs. }
    specialize (IH Hr). pose proof (map_insert_head r k v) as Hh.
    cbn [keys_sorted]. destruct (map_insert r k v) as [|[k1 v1] r'] eqn:Em; [reflexivity|].
    rewrite IH, andb_true_r. destruct Hh as [->|Hh].
    + unfold str_ltb. rewrite str_cmp_flip, E. reflexivity.
    + destruct r as [|[k2 v2] r2]; [contradiction|]. destruct Hh as [-> _].
      cbn [keys_sorted] in Hs. apply andb_prop in Hs. apply Hs.
Qed.

Lemma hash_of_sorted : forall items h, keys_sorted h = true -> keys_sorted (hash_of items h) = true.
Proof.
  unfold hash_of. induction items as [|i r IH]; intros h Hs; cbn [fold_left]; [exact Hs|].
  apply IH. destruct i; try exact Hs. apply map_insert_sorted. exact Hs.
Qed.

(* the hypotheses-free statements above on a concrete tag: three positional
   parameters, a duplicated hash key, two block parameters *)
Example parse_expression_order_example :
  exists a b c v2 nm,
    compile2 (`"{{#h a 1 (b) k=1 j=c k=2 as |x y|}}{{/h}}") default_opts
    = COk (MkT None [ElBlock (MkH nm [a; PLit (JNum (PosInt 1)); b]
                                  [(`"j", c); (`"k", v2)] (Some (BP2 (`"x") (`"y")))
                                  (Some (MkT None [] [])) None true false false)] [(1, 1)])
    /\ v2 = PLit (JNum (PosInt 2)).
Proof. do 5 eexists. split; [vm_compute; reflexivity|reflexivity]. Qed.

Example parse_block_param_two_example :
  let src := `"{{#h a as |x y|}}{{/h}}" in
  let p1 : tok := (R_identifier, 11, 12) in
  let p2 : tok := (R_identifier, 13, 14) in
  span_str src p1 (`"bp span") = COk (`"x") /\ span_str src p2 (`"bp span") = COk (`"y")
  /\ N.leb (tk_end p2) 15 = true.
Proof. cbv zeta. repeat split; vm_compute; reflexivity. Qed.
