(* Proofs/StrictMono.v -- property C10: strict mode only adds errors.
   Lock-step simulation of the sixteen functions of the render fixpoint under
   two registries that differ only in r_strict. *)
From HB Require Export Proofs.RenderScaffold Reg.RegOps Spec.RenderFrameSpec.
Open Scope N_scope.

(* ---------- the simulation order on outcomes ---------- *)
Definition le {A} (x y : rres A) : Prop := forall a s', x = ROk a s' -> y = ROk a s'.

Lemma le_refl {A} (x : rres A) : le x x.
Proof. intros a s' H; exact H. Qed.
Lemma le_err {A} e s (y : rres A) : le (RErr e s) y.
Proof. intros a s' H; discriminate H. Qed.
Lemma le_rfail {A} r s (y : rres A) : le (rfail r s) y.
Proof. intros a s' H; discriminate H. Qed.
Lemma le_strict_error {A} p s (y : rres A) : le (strict_error p s) y.
Proof. intros a s' H; discriminate H. Qed.
Lemma le_fuel {A} (y : rres A) : le RFuel y.
Proof. intros a s' H; discriminate H. Qed.
Lemma le_panic {A} p (y : rres A) : le (RPanic p) y.
Proof. intros a s' H; discriminate H. Qed.

Lemma le_rbind {A B} (x y : rres A) (k1 k2 : A -> rstate -> rres B) :
  le x y -> (forall a s, le (k1 a s) (k2 a s)) -> le (rbind x k1) (rbind y k2).
Proof.
  intros Hxy Hk b s' H. apply rbind_ok in H. destruct H as (a & s1 & H1 & H2).
  rewrite (Hxy _ _ H1). cbn [rbind]. apply Hk. exact H2.
Qed.

Lemma le_rmap_err {A} (x y : rres A) g : le x y -> le (rmap_err x g) (rmap_err y g).
Proof. intros Hxy a s' H. apply rmap_err_ok in H. rewrite (Hxy _ _ H). reflexivity. Qed.

Lemma le_fold_idx {A} (st1 st2 : A -> nat -> rstate -> rres unit) :
  (forall x i s, le (st1 x i s) (st2 x i s)) ->
  forall l i s, le (fold_idx st1 l i s) (fold_idx st2 l i s).
Proof.
  intros Hs l. induction l as [|x l IH]; intros i s; cbn [fold_idx].
  - apply le_refl.
  - apply le_rbind; [apply Hs|intros; apply IH].
Qed.

Lemma le_mapM {A B} (f1 f2 : A -> rstate -> rres B) :
  (forall x s, le (f1 x s) (f2 x s)) -> forall l s, le (mapM f1 l s) (mapM f2 l s).
Proof.
  intros Hf l. induction l as [|x l IH]; intros s; cbn [mapM].
  - apply le_refl.
  - apply le_rbind; [apply Hf|intros]. apply le_rbind; [apply IH|intros; apply le_refl].
Qed.

Lemma le_param_or {A} h i n s (k1 k2 : pj -> rres A) :
  (forall p, le (k1 p) (k2 p)) -> le (param_or h i n s k1) (param_or h i n s k2).
Proof. intros Hk. unfold param_or. destruct (nth_error (hv_params h) i); [apply Hk|apply le_refl]. Qed.

(* a match on an outcome whose non-Ok arms cannot produce Ok *)
Ltac le_scrut :=
  match goal with
  | |- le (match ?x with _ => _ end) (match ?y with _ => _ end) =>
      let H := fresh "Hle" in
      assert (H : le x y);
      [ | let a := fresh "a" in let s := fresh "s" in
          destruct x as [a s| ? ?| ?| ];
          [ rewrite (H a s eq_refl) | try (intros ? ? Habs; discriminate Habs) .. ] ]
  end.

(* ---------- the macro expansion ---------- *)
Lemma macro_params_mono n decl : forall idx given acc v,
  macro_params n true decl idx given acc = inr v ->
  macro_params n false decl idx given acc = inr v.
Proof.
  induction decl as [|[pn t] rest IH]; intros idx given acc v H; cbn [macro_params] in *.
  - exact H.
  - destruct (nth_error given idx) as [x|]; [|discriminate H].
    cbn [andb] in *. destruct (sc_missing (pj_val x)); [discriminate H|].
    destruct (conv t (pj_value x)); [|discriminate H]. apply IH. exact H.
Qed.

Lemma macro_call_mono sg body h v :
  macro_call sg body true h = inr v -> macro_call sg body false h = inr v.
Proof.
  unfold macro_call. intros H.
  destruct (macro_params (ms_name sg) true (ms_params sg) 0 (hv_params h) []) as [e|ps] eqn:E;
    [discriminate H|].
  rewrite (macro_params_mono _ _ _ _ _ _ E). exact H.
Qed.

Lemma macro_params_err n b decl : forall idx given acc e,
  macro_params n b decl idx given acc = inl e -> is_unimplemented (mk_err e) = false.
Proof.
  induction decl as [|[pn t] rest IH]; intros idx given acc e H; cbn [macro_params] in *.
  - discriminate H.
  - destruct (nth_error given idx) as [x|]; [|injection H as <-; reflexivity].
    destruct (b && sc_missing (pj_val x)); [injection H as <-; reflexivity|].
    destruct (conv t (pj_value x)); [eapply IH; exact H|injection H as <-; reflexivity].
Qed.

Lemma macro_opts_err n decl hash : forall acc e,
  macro_opts n decl hash acc = inl e -> is_unimplemented (mk_err e) = false.
Proof.
  induction decl as [|[[on t] d] rest IH]; intros acc e H; cbn [macro_opts] in *.
  - discriminate H.
  - destruct (map_get hash on) as [x|]; [|eapply IH; exact H].
    destruct (conv t (pj_value x)); [eapply IH; exact H|injection H as <-; reflexivity].
Qed.

Lemma macro_call_err sg body b h e :
  macro_call sg body b h = inl e -> is_unimplemented (mk_err e) = false.
Proof.
  unfold macro_call. intros H.
  destruct (macro_params (ms_name sg) b (ms_params sg) 0 (hv_params h) []) as [e1|ps] eqn:E1.
  - injection H as <-. eapply macro_params_err; exact E1.
  - destruct (macro_opts (ms_name sg) (ms_opts sg) (hv_hash h) []) as [e2|os] eqn:E2; [|discriminate H].
    injection H as <-. eapply macro_opts_err; exact E2.
Qed.

(* ---------- registries differing only in the strict flag ---------- *)
Section Mono.
  Variable reg : registry.
  Variable data : json.
  Variable ft : ftable.

  Notation rS := (set_strict_mode reg true).
  Notation rN := (set_strict_mode reg false).

  Lemma find_reg_helper_strict b : find_reg_helper (set_strict_mode reg b) = find_reg_helper reg.
  Proof. reflexivity. Qed.
  Lemma helper_exists_strict b : helper_exists (set_strict_mode reg b) = helper_exists reg.
  Proof. reflexivity. Qed.
  Lemma do_escape_strict b : do_escape (set_strict_mode reg b) = do_escape reg.
  Proof. reflexivity. Qed.

  Ltac norm_reg :=
    rewrite ?find_reg_helper_strict, ?helper_exists_strict, ?do_escape_strict;
    cbn [r_strict r_decorators r_templates r_helpers set_strict_mode reg_set_flags].

  Lemma macro_inner_strict sg body h s :
    macro_inner rS sg body h s = macro_inner rN sg body h s \/
    exists e s', macro_inner rS sg body h s = RErr e s' /\ is_unimplemented e = false.
  Proof.
    unfold macro_inner. norm_reg.
    destruct (macro_call sg body true h) as [e|v] eqn:E.
    - right. exists (mk_err e), s. split; [reflexivity|]. eapply macro_call_err; exact E.
    - left. rewrite (macro_call_mono _ _ _ _ E). reflexivity.
  Qed.

  Lemma call_inner_strict hid h s :
    call_inner rS hid h s = call_inner rN hid h s \/
    exists e s', call_inner rS hid h s = RErr e s' /\ is_unimplemented e = false.
  Proof.
    destruct hid; cbn [call_inner]; try (left; reflexivity); try apply macro_inner_strict.
    (* HLookup *)
    unfold param_or.
    destruct (nth_error (hv_params h) 0) as [coll|]; [|left; reflexivity].
    destruct (nth_error (hv_params h) 1) as [index|]; [|left; reflexivity].
    norm_reg.
    match goal with |- context [match ?v with Some _ => _ | None => strict_error _ _ end] =>
      destruct v end.
    - left; reflexivity.
    - right. do 2 eexists. split; reflexivity.
  Qed.

  (* the induction hypothesis: all sixteen functions at one fuel *)
  Record mono_at (f : nat) : Prop := {
    m_render_template : forall t s, le (render_template rS data ft f t s) (render_template rN data ft f t s);
    m_eval_template : forall t s, le (eval_template rS data ft f t s) (eval_template rN data ft f t s);
    m_opt_render : forall t s, le (opt_render rS data ft f t s) (opt_render rN data ft f t s);
    m_render_element : forall e s, le (render_element rS data ft f e s) (render_element rN data ft f e s);
    m_eval_element : forall e s, le (eval_element rS data ft f e s) (eval_element rN data ft f e s);
    m_render_expression : forall ht html s,
      le (render_expression rS data ft f ht html s) (render_expression rN data ft f ht html s);
    m_render_helper : forall ht s, le (render_helper rS data ft f ht s) (render_helper rN data ft f ht s);
    m_helper_from_template : forall ht s,
      le (helper_from_template rS data ft f ht s) (helper_from_template rN data ft f ht s);
    m_deco_from_template : forall dt s,
      le (deco_from_template rS data ft f dt s) (deco_from_template rN data ft f dt s);
    m_expand_as_name : forall p s, le (expand_as_name rS data ft f p s) (expand_as_name rN data ft f p s);
    m_expand_param : forall p s, le (expand_param rS data ft f p s) (expand_param rN data ft f p s);
    m_call_helper_for_value : forall hid h s,
      le (call_helper_for_value rS data ft f hid h s) (call_helper_for_value rN data ft f hid h s);
    m_call_helper : forall hid h s, le (call_helper rS data ft f hid h s) (call_helper rN data ft f hid h s);
    m_eval_decorator : forall dt s, le (eval_decorator rS data ft f dt s) (eval_decorator rN data ft f dt s);
    m_render_partial : forall dt s, le (render_partial rS data ft f dt s) (render_partial rN data ft f dt s);
    m_expand_partial : forall d s, le (expand_partial rS data ft f d s) (expand_partial rN data ft f d s)
  }.

  Lemma mono_0 : mono_at 0.
  Proof. constructor; intros; apply le_fuel. Qed.

  Section Step.
    Variable f : nat.
    Hypothesis IH : mono_at f.

    Ltac ih :=
      first [ apply (m_render_template f IH) | apply (m_eval_template f IH) | apply (m_opt_render f IH)
            | apply (m_render_element f IH) | apply (m_eval_element f IH)
            | apply (m_render_expression f IH) | apply (m_render_helper f IH)
            | apply (m_helper_from_template f IH) | apply (m_deco_from_template f IH)
            | apply (m_expand_as_name f IH) | apply (m_expand_param f IH)
            | apply (m_call_helper_for_value f IH) | apply (m_call_helper f IH)
            | apply (m_eval_decorator f IH) | apply (m_render_partial f IH)
            | apply (m_expand_partial f IH) ].

    Ltac le_step :=
      match goal with
      | |- le ?x ?x => apply le_refl
      | |- le (RErr _ _) _ => apply le_err
      | |- le (rfail _ _) _ => apply le_rfail
      | |- le (strict_error _ _) _ => apply le_strict_error
      | |- le (RPanic _) _ => apply le_panic
      | |- le RFuel _ => apply le_fuel
      | |- _ => ih
      | |- le (rbind _ _) (rbind _ _) => apply le_rbind; [|intros ? ?]
      | |- le (rmap_err _ _) (rmap_err _ _) => apply le_rmap_err
      | |- le (fold_idx _ _ _ _) (fold_idx _ _ _ _) => apply le_fold_idx; intros ? ? ?
      | |- le (mapM _ _ _) (mapM _ _ _) => apply le_mapM; intros ? ?
      | |- le (param_or _ _ _ _ _) (param_or _ _ _ _ _) => apply le_param_or; intros ?
      | |- le (match ?c with _ => _ end) (match ?c with _ => _ end) => destruct c
      | |- le (if ?c then _ else _) (if ?c then _ else _) => destruct c
      | |- le (let '(_, _) := ?c in _) (let '(_, _) := ?c in _) => destruct c
      end.
    Ltac le_auto := norm_reg; cbv zeta; repeat (le_step; norm_reg).

    Lemma s_render_template t s :
      le (render_template rS data ft (S f) t s) (render_template rN data ft (S f) t s).
    Proof. rewrite !render_template_eq. le_auto. Qed.

    Lemma s_eval_template t s :
      le (eval_template rS data ft (S f) t s) (eval_template rN data ft (S f) t s).
    Proof. rewrite !eval_template_eq. le_auto. Qed.

    Lemma s_opt_render t s :
      le (opt_render rS data ft (S f) t s) (opt_render rN data ft (S f) t s).
    Proof. rewrite !opt_render_eq. le_auto. Qed.

    Lemma s_render_element e s :
      le (render_element rS data ft (S f) e s) (render_element rN data ft (S f) e s).
    Proof. rewrite !render_element_eq. le_auto. Qed.

    Lemma s_eval_element e s :
      le (eval_element rS data ft (S f) e s) (eval_element rN data ft (S f) e s).
    Proof. rewrite !eval_element_eq. le_auto. Qed.

    Lemma s_render_expression ht html s :
      le (render_expression rS data ft (S f) ht html s) (render_expression rN data ft (S f) ht html s).
    Proof.
      rewrite !render_expression_eq. norm_reg. cbv zeta.
      le_scrut; [le_auto|apply le_refl].
    Qed.

    Lemma s_render_helper ht s :
      le (render_helper rS data ft (S f) ht s) (render_helper rN data ft (S f) ht s).
    Proof. rewrite !render_helper_eq. le_auto. Qed.

    Lemma s_helper_from_template ht s :
      le (helper_from_template rS data ft (S f) ht s) (helper_from_template rN data ft (S f) ht s).
    Proof. rewrite !helper_from_template_eq. le_auto. Qed.

    Lemma s_deco_from_template dt s :
      le (deco_from_template rS data ft (S f) dt s) (deco_from_template rN data ft (S f) dt s).
    Proof. rewrite !deco_from_template_eq. le_auto. Qed.

    Lemma s_expand_as_name p s :
      le (expand_as_name rS data ft (S f) p s) (expand_as_name rN data ft (S f) p s).
    Proof. rewrite !expand_as_name_eq. le_auto. Qed.

    Lemma s_expand_param p s :
      le (expand_param rS data ft (S f) p s) (expand_param rN data ft (S f) p s).
    Proof. rewrite !expand_param_eq. le_auto. Qed.

    Lemma s_call_helper_for_value hid h s :
      le (call_helper_for_value rS data ft (S f) hid h s) (call_helper_for_value rN data ft (S f) hid h s).
    Proof.
      rewrite !call_helper_for_value_eq.
      destruct (call_inner_strict hid h s) as [E|(e & s1 & E & Hu)]; rewrite E.
      - destruct (call_inner rN hid h s) as [r s1|e s1|p|]; try apply le_refl.
        destruct (is_unimplemented e); [|apply le_refl]. cbv zeta.
        le_scrut; [ih|apply le_refl].
      - rewrite Hu. apply le_err.
    Qed.

    Lemma s_call_helper hid h s :
      le (call_helper rS data ft (S f) hid h s) (call_helper rN data ft (S f) hid h s).
    Proof.
      rewrite !call_helper_eq.
      destruct (has_call_inner hid) eqn:Hci.
      - destruct (call_inner_strict hid h s) as [E|(e & s1 & E & Hu)]; rewrite E.
        + destruct (call_inner rN hid h s) as [r s1|e s1|p|]; try apply le_refl.
          norm_reg. destruct (sc_missing r); cbn [andb]; [apply le_strict_error|apply le_refl].
        + rewrite Hu. apply le_err.
      - destruct hid; try discriminate Hci; try solve [le_auto].
        (* HLocal: the capture bracket of the "c:" mode *)
        cbv zeta. destruct (starts_with _ name); [|le_auto].
        destruct (hv_tpl h) as [t|]; [|apply le_refl].
        le_scrut; [ih|apply le_refl].
    Qed.

    Lemma s_eval_decorator dt s :
      le (eval_decorator rS data ft (S f) dt s) (eval_decorator rN data ft (S f) dt s).
    Proof. rewrite !eval_decorator_eq. le_auto. Qed.

    Lemma s_render_partial dt s :
      le (render_partial rS data ft (S f) dt s) (render_partial rN data ft (S f) dt s).
    Proof. rewrite !render_partial_eq. le_auto. Qed.

    Lemma s_expand_partial d s :
      le (expand_partial rS data ft (S f) d s) (expand_partial rN data ft (S f) d s).
    Proof.
      rewrite !expand_partial_eq. norm_reg. cbv zeta.
      le_step; [le_auto|]. norm_reg.
      repeat (le_step; norm_reg).
      all: try (le_scrut; [ih|apply le_refl]).
    Qed.

    Lemma mono_step : mono_at (S f).
    Proof.
      constructor.
      - exact s_render_template. - exact s_eval_template. - exact s_opt_render.
      - exact s_render_element. - exact s_eval_element. - exact s_render_expression.
      - exact s_render_helper. - exact s_helper_from_template. - exact s_deco_from_template.
      - exact s_expand_as_name. - exact s_expand_param. - exact s_call_helper_for_value.
      - exact s_call_helper. - exact s_eval_decorator. - exact s_render_partial.
      - exact s_expand_partial.
    Qed.
  End Step.

  Theorem mono_all : forall f, mono_at f.
  Proof. induction f as [|f IH]; [exact mono_0|exact (mono_step f IH)]. Qed.
End Mono.

(* ---------- statements over two arbitrary registries ---------- *)
Lemma same_but_strict_eq (reg_s reg_n : registry) :
  r_templates reg_s = r_templates reg_n -> r_sources reg_s = r_sources reg_n ->
  r_helpers reg_s = r_helpers reg_n -> r_decorators reg_s = r_decorators reg_n ->
  r_escape reg_s = r_escape reg_n -> r_esc_mark reg_s = r_esc_mark reg_n ->
  r_dev reg_s = r_dev reg_n -> r_prevent_indent reg_s = r_prevent_indent reg_n ->
  r_strict reg_s = true -> r_strict reg_n = false ->
  exists reg, reg_s = set_strict_mode reg true /\ reg_n = set_strict_mode reg false.
Proof.
  destruct reg_s, reg_n; cbn. intros; subst.
  eexists {| r_strict := false |}. split; reflexivity.
Qed.

Lemma gather_dev_strict reg b fs names : forall skip acc,
  gather_dev (set_strict_mode reg b) fs names skip acc = gather_dev reg fs names skip acc.
Proof.
  induction names as [|n rest IH]; intros skip acc; cbn [gather_dev]; [reflexivity|].
  change (get_or_load_template (set_strict_mode reg b) fs n) with (get_or_load_template reg fs n).
  destruct (match skip with Some k => str_eqb k n | None => false end); [apply IH|].
  destruct (get_or_load_template reg fs n); try reflexivity. apply IH.
Qed.

Lemma finish_render_ok x out log n :
  finish_render x = RoOk out log n ->
  exists s, x = ROk tt s /\ out = out_text (s_out s) /\ log = log_text s /\ n = o_writes (s_out s).
Proof.
  destruct x as [[] s| | |]; cbn; intros H; try discriminate H.
  injection H as <- <- <-. eauto.
Qed.

Lemma render_resolved_mono reg fs ft name t data fa out log n :
  render_resolved (set_strict_mode reg true) fs ft name t data fa = RoOk out log n ->
  render_resolved (set_strict_mode reg false) fs ft name t data fa = RoOk out log n.
Proof.
  unfold render_resolved, render_fuel. rewrite !gather_dev_strict.
  cbn [r_dev r_sources set_strict_mode reg_set_flags].
  destruct (negb (r_dev reg)).
  - intros H. apply finish_render_ok in H. destruct H as (s & H & -> & -> & ->).
    rewrite (m_render_template _ _ _ _ (mono_all reg data ft _) _ _ _ _ H). reflexivity.
  - destruct (gather_dev reg fs (map fst (r_sources reg)) name []) as [e|dm0]; [exact (fun H => H)|].
    intros H. apply finish_render_ok in H. destruct H as (s & H & -> & -> & ->).
    rewrite (m_render_template _ _ _ _ (mono_all reg data ft _) _ _ _ _ H). reflexivity.
Qed.

Lemma render_entry_mono reg fs ft entry target data fa out log n :
  render_entry (set_strict_mode reg true) fs ft entry target data fa = RoOk out log n ->
  render_entry (set_strict_mode reg false) fs ft entry target data fa = RoOk out log n.
Proof.
  unfold render_entry, render_named, render_string.
  change (get_or_load_template (set_strict_mode reg true) fs target)
    with (get_or_load_template (set_strict_mode reg false) fs target).
  change (reg_opts (set_strict_mode reg true) None) with (reg_opts (set_strict_mode reg false) None).
  destruct (N.ltb entry 4).
  - destruct (get_or_load_template (set_strict_mode reg false) fs target) as [t|e| |];
      [apply render_resolved_mono|exact (fun H => H)..].
  - destruct (compile2 target (reg_opts (set_strict_mode reg false) None)) as [t|e|p|];
      [apply render_resolved_mono|exact (fun H => H)..].
Qed.

Section Two.
  Variables reg_s reg_n : registry.
  Hypothesis H1 : r_templates reg_s = r_templates reg_n.
  Hypothesis H2 : r_sources reg_s = r_sources reg_n.
  Hypothesis H3 : r_helpers reg_s = r_helpers reg_n.
  Hypothesis H4 : r_decorators reg_s = r_decorators reg_n.
  Hypothesis H5 : r_escape reg_s = r_escape reg_n.
  Hypothesis H6 : r_esc_mark reg_s = r_esc_mark reg_n.
  Hypothesis H7 : r_dev reg_s = r_dev reg_n.
  Hypothesis H8 : r_prevent_indent reg_s = r_prevent_indent reg_n.
  Hypothesis HS : r_strict reg_s = true.
  Hypothesis HN : r_strict reg_n = false.
  Variable data : json.
  Variable ft : ftable.

  Lemma two_mono_at fuel :
    (forall t s s', render_template reg_s data ft fuel t s = ROk tt s' ->
                    render_template reg_n data ft fuel t s = ROk tt s') /\
    (forall t s s', eval_template reg_s data ft fuel t s = ROk tt s' ->
                    eval_template reg_n data ft fuel t s = ROk tt s') /\
    (forall t s s', opt_render reg_s data ft fuel t s = ROk tt s' ->
                    opt_render reg_n data ft fuel t s = ROk tt s') /\
    (forall e s s', render_element reg_s data ft fuel e s = ROk tt s' ->
                    render_element reg_n data ft fuel e s = ROk tt s') /\
    (forall e s s', eval_element reg_s data ft fuel e s = ROk tt s' ->
                    eval_element reg_n data ft fuel e s = ROk tt s') /\
    (forall ht html s s', render_expression reg_s data ft fuel ht html s = ROk tt s' ->
                          render_expression reg_n data ft fuel ht html s = ROk tt s') /\
    (forall ht s s', render_helper reg_s data ft fuel ht s = ROk tt s' ->
                     render_helper reg_n data ft fuel ht s = ROk tt s') /\
    (forall ht s h s', helper_from_template reg_s data ft fuel ht s = ROk h s' ->
                       helper_from_template reg_n data ft fuel ht s = ROk h s') /\
    (forall dt s d s', deco_from_template reg_s data ft fuel dt s = ROk d s' ->
                       deco_from_template reg_n data ft fuel dt s = ROk d s') /\
    (forall p s n s', expand_as_name reg_s data ft fuel p s = ROk n s' ->
                      expand_as_name reg_n data ft fuel p s = ROk n s') /\
    (forall p s v s', expand_param reg_s data ft fuel p s = ROk v s' ->
                      expand_param reg_n data ft fuel p s = ROk v s') /\
    (forall hid h s v s', call_helper_for_value reg_s data ft fuel hid h s = ROk v s' ->
                          call_helper_for_value reg_n data ft fuel hid h s = ROk v s') /\
    (forall hid h s s', call_helper reg_s data ft fuel hid h s = ROk tt s' ->
                        call_helper reg_n data ft fuel hid h s = ROk tt s') /\
    (forall dt s s', eval_decorator reg_s data ft fuel dt s = ROk tt s' ->
                     eval_decorator reg_n data ft fuel dt s = ROk tt s') /\
    (forall dt s s', render_partial reg_s data ft fuel dt s = ROk tt s' ->
                     render_partial reg_n data ft fuel dt s = ROk tt s') /\
    (forall d s s', expand_partial reg_s data ft fuel d s = ROk tt s' ->
                    expand_partial reg_n data ft fuel d s = ROk tt s').
  Proof.
    destruct (same_but_strict_eq reg_s reg_n H1 H2 H3 H4 H5 H6 H7 H8 HS HN) as (reg & -> & ->).
    destruct (mono_all reg data ft fuel) as [m1 m2 m3 m4 m5 m6 m7 m8 m9 m10 m11 m12 m13 m14 m15 m16].
    unfold le in *.
    repeat split; intros;
      first [apply m1|apply m2|apply m3|apply m4|apply m5|apply m6|apply m7|apply m8|apply m9
            |apply m10|apply m11|apply m12|apply m13|apply m14|apply m15|apply m16]; assumption.
  Qed.

  Theorem strict_mono fuel t s s' :
    render_template reg_s data ft fuel t s = ROk tt s' ->
    render_template reg_n data ft fuel t s = ROk tt s'.
  Proof. apply two_mono_at. Qed.

  (* all eight entry points (render / render_template / *_to_write / *_with_context) *)
  Theorem strict_mono_entry fs entry target fa out log n :
    render_entry reg_s fs ft entry target data fa = RoOk out log n ->
    render_entry reg_n fs ft entry target data fa = RoOk out log n.
  Proof.
    destruct (same_but_strict_eq reg_s reg_n H1 H2 H3 H4 H5 H6 H7 H8 HS HN) as (reg & -> & ->).
    apply render_entry_mono.
  Qed.
End Two.

(* ---------- C10_missing: where strict mode errs ---------- *)
Section Missing.
  Variable reg : registry.
  Variable data : json.
  Variable ft : ftable.
  Hypothesis Hstrict : r_strict reg = true.

  Lemma missing_expr f ht p s :
    is_name_only ht = true -> h_name ht = PPath p ->
    helper_exists reg s (path_raw p) = false ->
    s_modified s = None ->
    evaluate2 data p s = ROk SMissing s ->
    render_element reg data ft (S (S (S f))) (ElExpr ht) s
    = RErr (mk_err (RMissingVariable (Some (path_raw p)))) s.
  Proof.
    intros Hno Hname Hex Hmod Hev.
    rewrite render_element_eq, render_expression_eq. cbv zeta. rewrite Hno, Hname.
    rewrite expand_as_name_eq. cbn [rbind]. rewrite Hex.
    rewrite expand_param_eq, Hmod, Hev. cbn [rbind pj_val sc_missing pj_rel]. rewrite Hstrict.
    reflexivity.
  Qed.

  Lemma missing_each f h param t s :
    nth_error (hv_params h) 0 = Some param -> hv_tpl h = Some t -> hv_inv h = None ->
    (forall l, pj_value param <> JArr l) -> (forall m, pj_value param <> JObj m) ->
    call_helper reg data ft (S f) HEach h s = RErr (mk_err (RMissingVariable (pj_rel param))) s.
  Proof.
    intros Hp Ht Hi Ha Ho. rewrite call_helper_eq. cbn [has_call_inner]. unfold param_or.
    rewrite Hp, Ht, Hi, Hstrict.
    destruct (pj_value param); try reflexivity; [exfalso; eapply Ha|exfalso; eapply Ho]; reflexivity.
  Qed.

  Lemma missing_with f h param s :
    nth_error (hv_params h) 0 = Some param -> hv_inv h = None ->
    is_truthy false (pj_value param) = false ->
    call_helper reg data ft (S f) HWith h s = RErr (mk_err (RMissingVariable (pj_rel param))) s.
  Proof.
    intros Hp Hi Ht. rewrite call_helper_eq. cbn [has_call_inner]. unfold param_or.
    rewrite Hp, Ht, Hi, Hstrict. reflexivity.
  Qed.

  Lemma missing_lookup_inner h coll index s :
    nth_error (hv_params h) 0 = Some coll -> nth_error (hv_params h) 1 = Some index ->
    lookup_value (pj_value coll) (pj_value index) = None ->
    call_inner reg HLookup h s = RErr (mk_err (RMissingVariable None)) s.
  Proof.
    intros Hc Hi Hv. cbn [call_inner]. unfold param_or. rewrite Hc, Hi.
    unfold lookup_value in Hv. rewrite Hv, Hstrict. reflexivity.
  Qed.

  Lemma missing_lookup f h coll index s :
    nth_error (hv_params h) 0 = Some coll -> nth_error (hv_params h) 1 = Some index ->
    lookup_value (pj_value coll) (pj_value index) = None ->
    call_helper reg data ft (S f) HLookup h s = RErr (mk_err (RMissingVariable None)) s /\
    call_helper_for_value reg data ft (S f) HLookup h s = RErr (mk_err (RMissingVariable None)) s.
  Proof.
    intros Hc Hi Hv. rewrite call_helper_eq, call_helper_for_value_eq. cbn [has_call_inner].
    rewrite (missing_lookup_inner _ _ _ _ Hc Hi Hv). split; reflexivity.
  Qed.
End Missing.

(* ---------- the hypotheses are satisfiable ---------- *)
Definition ex_tpl (src : str) : template :=
  match compile2 src default_opts with COk t => t | _ => t_empty end.
Definition ex_data : json := JObj [(`"l", JArr [JNum (PosInt 1)]); (`"x", JStr (`"q"))].

Example strict_mono_ex :
  exists s', render_template (set_strict_mode reg_new true) ex_data [] 50
               (ex_tpl (`"a{{x}}b{{#each l}}{{this}}{{/each}}{{lookup l 0}}")) (st_init None None None)
             = ROk tt s' /\ out_text (s_out s') = `"aqb11".
Proof. eexists. vm_compute. split; reflexivity. Qed.

Example macro_call_mono_ex :
  macro_call (sig2 (`"eq")) (body2 h_eq) true
    {| hv_name := `"eq"; hv_params := [{| pj_rel := None; pj_val := SConstant JNull |};
                                       {| pj_rel := None; pj_val := SConstant JNull |}];
       hv_hash := []; hv_tpl := None; hv_inv := None; hv_bp := None; hv_block := false |}
  = inr (JBool true).
Proof. vm_compute. reflexivity. Qed.

Definition ex_ht : helper_t :=
  MkH (PPath (PathRelative [SegNamed (`"nope")] (`"nope"))) [] [] None None None false false false.
Example missing_expr_ex :
  is_name_only ex_ht = true /\ h_name ex_ht = PPath (PathRelative [SegNamed (`"nope")] (`"nope")) /\
  helper_exists (set_strict_mode reg_new true) (st_init None None None) (`"nope") = false /\
  s_modified (st_init None None None) = None /\
  evaluate2 ex_data (PathRelative [SegNamed (`"nope")] (`"nope")) (st_init None None None)
  = ROk SMissing (st_init None None None).
Proof. vm_compute. repeat split; reflexivity. Qed.

Definition ex_pj (v : json) : pj := {| pj_rel := Some (`"v"); pj_val := SDerived v |}.
Definition ex_hv (ps : list pj) : helper_v :=
  {| hv_name := `"h"; hv_params := ps; hv_hash := []; hv_tpl := Some t_empty; hv_inv := None;
     hv_bp := None; hv_block := true |}.
Example missing_each_ex :
  nth_error (hv_params (ex_hv [ex_pj JNull])) 0 = Some (ex_pj JNull) /\
  hv_tpl (ex_hv [ex_pj JNull]) = Some t_empty /\ hv_inv (ex_hv [ex_pj JNull]) = None /\
  (forall l, pj_value (ex_pj JNull) <> JArr l) /\ (forall m, pj_value (ex_pj JNull) <> JObj m) /\
  is_truthy false (pj_value (ex_pj JNull)) = false.
Proof. repeat split; try reflexivity; intros ? H; discriminate H. Qed.
Example missing_lookup_ex :
  lookup_value (JObj [(`"a", JNull)]) (JStr (`"b")) = None /\
  lookup_value (JArr [JNull]) (JNum (PosInt 1)) = None.
Proof. vm_compute. split; reflexivity. Qed.
