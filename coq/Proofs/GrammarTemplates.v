(* Proofs/GrammarTemplates.v — second half of the grammar-schema theorem: templates,
   items and blocks; the final theorems `schema`, `hb_parse_wf` and the
   unconditional `compile2_no_panic`. *)
From Coq Require Import List NArith Lia Bool Sorting.Sorted.
From HB Require Import Peg.Peg Peg.Grammar Tpl.Compile Spec.WfTokens
  Proofs.PegFacts Proofs.PegTermination Proofs.PegForest Proofs.CompileNoPanic Proofs.CompileStages
  Proofs.CompilePositions Proofs.CompileTermination Proofs.GrammarSchema Proofs.RawBlockAdjacent.
Import ListNotations.
Open Scope N_scope.

Arguments N.add : simpl never.
Arguments N.sub : simpl never.
Arguments N.mul : simpl never.
Arguments N.leb : simpl never.
Arguments N.ltb : simpl never.
Arguments N.eqb : simpl never.

#[local] Hint Rewrite flats_cons' flat_node' flats_app' flats_nil : fl.
#[local] Hint Rewrite @app_nil_r : fl.

(* ---------- templates, items, blocks (mutual, by induction on the fuel index) ---------- *)
Definition ITEM : expr rule :=
  EAlt (ERef R_raw_text) (EAlt (ERef R_expression) (EAlt (ERef R_html_expression)
  (EAlt (ERef R_helper_block) (EAlt (ERef R_raw_block) (EAlt (ERef R_hbs_comment)
  (EAlt (ERef R_hbs_comment_compact) (EAlt (ERef R_decorator_expression)
  (EAlt (ERef R_decorator_block) (EAlt (ERef R_partial_expression) (ERef R_partial_block)))))))))).
Definition CHAIN : expr rule := e_seq (ERef R_invert_chain_tag) (ERef R_template).

Lemma def_template_item : hb_defs R_template = (KNormal, e_star ITEM).
Proof. reflexivity. Qed.

Definition TPs (f : nat) : Prop := forall p p' F lo,
  hgen f (ERef R_template) ANon false p p' F -> lo <= p ->
  exists hi, tmpl lo hi (fl (flats F)) /\ lo <= hi /\ hi <= p'.
Definition ITs (f : nat) : Prop := forall p p' F lo,
  hgen f (ERepTail ITEM) ANon false p p' F -> lo <= p ->
  exists hi, items lo hi (fl (flats F)) /\ lo <= hi /\ hi <= p'.
Definition CHs (f : nat) : Prop := forall p p' F lo,
  hgen f (ERepTail CHAIN) ANon false p p' F -> lo <= p ->
  exists hi, chain_parts lo hi (fl (flats F)) /\ lo <= hi /\ hi <= p'.
Definition TAll (f : nat) : Prop := TPs f /\ ITs f /\ CHs f.

(* peel one `a ~ b` of a non-atomic sequence *)
Ltac eseq :=
  match goal with
  | H : hgen _ (ESeq _ (ESeq ESkip _)) _ _ _ _ _ |- _ =>
      inversion H; clear H; subst;
      match goal with H2 : hgen _ (ESeq ESkip _) _ _ _ _ _ |- _ =>
        inversion H2; clear H2; subst;
        match goal with H3 : hgen _ ESkip _ _ _ _ _ |- _ =>
          let L := fresh "Lsk" in apply hskip in H3; destruct H3 as [-> L] end end
  end.

Lemma fl_app a b : fl (a ++ b) = fl a ++ fl b.
Proof. apply filter_app. Qed.

Lemma fl_tag f r p p' F :
  esc_free r = true ->
  hgen f (ERef r) ANon false p p' F -> fl (flats F) = flats F.
Proof. intros Ho H. eapply no_escape_tokens; [|eassumption]. exact Ho. Qed.

Ltac fltag H E := assert (E := H); apply fl_tag in E; [|vm_compute; reflexivity].

Lemma simple_item lo f r p p' F :
  simple_tag r -> TagShape r -> esc_free r = true ->
  hgen f (ERef r) ANon false p p' F -> lo <= p ->
  item lo p' (fl (flats F)) /\ p < p'.
Proof.
  intros Hs Hsh Ho H Hlo. rewrite (fl_tag _ _ _ _ _ Ho H).
  destruct (Hsh _ _ _ _ H) as (ch & -> & Ht & Lt). tidy.
  split; [apply i_tag; [exact Hs | exact Hlo | lia | exact Ht] | exact Lt].
Qed.

Lemma comment_item lo f r p p' F :
  comment_rule r ->
  emits_k (fst (hb_defs r)) ANon false = true ->
  silent rule hb_defs 80 (snd (hb_defs r)) (body_at (fst (hb_defs r)) ANon) false = true ->
  nullable_e rule hb_nl (ERef r) = false ->
  hgen f (ERef r) ANon false p p' F -> lo <= p ->
  item lo p' (fl (flats F)) /\ p < p'.
Proof.
  intros Hc He Hs Hn H Hlo. assert (L : p < p') by (eapply hprogress; eassumption).
  apply ref_leaf in H; [subst|exact He|exact Hs]. tidy.
  cbn [filter]. replace (not_escape (r, p, p')) with true by (destruct Hc as [-> | ->]; reflexivity).
  split; [apply i_comment; [exact Hc | exact Hlo | lia] | exact L].
Qed.

Lemma fl_cons_keep t l : not_escape t = true -> fl (t :: l) = t :: fl l.
Proof. intros H. cbn [filter]. rewrite H. reflexivity. Qed.

Lemma items_one lo hi a : item lo hi a -> items lo hi a.
Proof. intros H. rewrite <- (app_nil_r a). eapply is_cons; [exact H | apply is_nil]. Qed.

Lemma TAll_step f : (forall f', (f' < f)%nat -> TAll f') -> TAll f.
Proof.
  intros IH.
  assert (IHT : forall f', (f' < f)%nat -> TPs f') by (intros f' L; apply IH; exact L).
  assert (IHI : forall f', (f' < f)%nat -> ITs f') by (intros f' L; apply IH; exact L).
  assert (IHC : forall f', (f' < f)%nat -> CHs f') by (intros f' L; apply IH; exact L).
  clear IH. unfold TPs, ITs, CHs in *.
  (* a block with a start tag, a template and an end tag (decorator / partial blocks) *)
  assert (DBLOCK : forall f' rs re p p' F lo, (f' < f)%nat -> deco_pair rs re ->
            TagShape rs -> TagShape re ->
            esc_free rs = true -> esc_free re = true ->
            hgen f' (e_seq (ERef rs) (e_seq (ERef R_template) (ERef re))) ANon false p p' F -> lo <= p ->
            item lo p' (fl (flats F)) /\ p < p').
  { intros f' rs re p p' F lo Lf Hpair Hs He Hos Hoe H Hlo. unfold e_seq in H. repeat eseq.
    match goal with H : hgen _ (ERef rs) _ _ _ _ _ |- _ =>
      pose proof (fl_tag _ _ _ _ _ Hos H) as E1; destruct (Hs _ _ _ _ H) as (ch1 & -> & Ht1 & L1); clear H end.
    match goal with H : hgen _ (ERef re) _ _ _ _ _ |- _ =>
      pose proof (fl_tag _ _ _ _ _ Hoe H) as E2; destruct (He _ _ _ _ H) as (ch2 & -> & Ht2 & L2); clear H end.
        match goal with H : hgen _ (ERef R_template) _ _ ?a _ _ |- _ =>
      eapply IHT with (lo := p1) in H; [destruct H as (m1 & Htm & La & Lb) | lia | lia] end.
    rewrite !flats_app', !fl_app, E1, E2. tidy. cbn [filter app].
    split; [|lia].
        match goal with |- item _ _ (?t :: flats ch1 ++ ?body ++ ?e :: flats ch2) =>
      change (t :: flats ch1 ++ body ++ e :: flats ch2) with ((t :: flats ch1) ++ body ++ e :: flats ch2) end.
    eapply i_dblock; try eassumption; lia. }
  (* one `else if` link: chain tag and its template *)
  assert (CHAIN1 : forall f' p p' F lo, (f' < f)%nat -> hgen f' CHAIN ANon false p p' F -> lo <= p ->
            exists mid, lo <= mid /\ mid <= p' /\ p < p' /\
              forall hi rest, chain_parts mid hi rest -> chain_parts lo hi (fl (flats F) ++ rest)).
  { intros f' p p' F lo Lf H Hlo. unfold CHAIN, e_seq in H. repeat eseq.
    match goal with H : hgen _ (ERef R_invert_chain_tag) _ _ _ _ _ |- _ =>
      fltag H E1;
      destruct (tag_chain _ _ _ _ H) as (ch & -> & L1 & tl & si & ei & l & Ech & Htl & Hsub); clear H end.
    match goal with H : hgen _ (ERef R_template) _ _ _ _ _ |- _ =>
      pose proof (hle _ _ _ _ _ _ _ H);
      eapply IHT with (lo := p1) in H; [destruct H as (m1 & Htm & La & Lb) | lia | lia] end.
    exists m1. split; [lia|]. split; [lia|]. split; [lia|].
    intros hi rest Hrest.
    rewrite !flats_app', !fl_app, E1. tidy. cbn [filter app]. rewrite Ech.
    match goal with |- chain_parts _ _ ?L =>
      replace L with (((R_invert_chain_tag, p, p1) :: tl ++ (R_invert_tag_item, si, ei) :: l)
                      ++ fl (flats F3) ++ rest)
        by (cbn [app]; rewrite <- ?app_assoc; cbn [app]; reflexivity) end.
    eapply cp_cons; try eassumption; lia. }
  assert (CHREP : forall f' p p' F lo, (f' < f)%nat -> hgen f' (ERepTail CHAIN) ANon false p p' F -> lo <= p ->
            exists hi, chain_parts lo hi (fl (flats F)) /\ lo <= hi /\ hi <= p').
  { intros f' p p' F lo Lf H Hlo. eapply IHC; eassumption. }
  assert (STARCH : forall f' p p' F lo, (f' < f)%nat -> hgen f' (e_star CHAIN) ANon false p p' F -> lo <= p ->
            exists hi, chain_parts lo hi (fl (flats F)) /\ lo <= hi /\ hi <= p').
  { intros f' p p' F lo Lf H Hlo. unfold e_star in H. inversion H; clear H; subst.
    - match goal with H : hgen _ (ESeq CHAIN _) _ _ _ _ _ |- _ => inversion H; clear H; subst end.
      match goal with H : hgen _ CHAIN _ _ _ _ _ |- _ =>
        eapply CHAIN1 with (lo := lo) in H; [destruct H as (mid & M1 & M2 & M3 & Hk) | lia | lia] end.
      match goal with H : hgen _ (ERepTail CHAIN) _ _ _ _ _ |- _ =>
        pose proof (hle _ _ _ _ _ _ _ H);
        eapply CHREP with (lo := mid) in H; [destruct H as (hi & Hc & C1 & C2) | lia | lia] end.
      exists hi. rewrite flats_app', fl_app. split; [apply Hk; exact Hc | lia].
    - exists lo. tidy. cbn [filter]. split; [constructor | lia]. }
  (* the optional `{{else}} template` part *)
  assert (OPTINV : forall f' p p' F lo, (f' < f)%nat ->
            hgen f' (EOpt (e_seq (ERef R_invert_tag) (ERef R_template))) ANon false p p' F -> lo <= p ->
            exists hi, inv_part lo hi (fl (flats F)) /\ lo <= hi /\ hi <= p').
  { intros f' p p' F lo Lf H Hlo. unfold e_seq in H. inversion H; clear H; subst.
    - repeat eseq.
      match goal with H : hgen _ (ERef R_invert_tag) _ _ _ _ _ |- _ =>
        fltag H Ei; destruct (tag_invert_tag _ _ _ _ H) as (chi & -> & Hti & Li); clear H end.
      match goal with H : hgen _ (ERef R_template) _ _ _ _ _ |- _ =>
        pose proof (hle _ _ _ _ _ _ _ H);
        eapply IHT with (lo := p1) in H; [destruct H as (m3 & Htm3 & Ia & Ib) | lia | lia] end.
      exists m3. rewrite !flats_app', !fl_app, Ei. tidy. cbn [filter app]. split; [|lia].
      match goal with |- inv_part _ _ ?L =>
        replace L with (((R_invert_tag, p, p1) :: flats chi) ++ fl (flats F3))
          by (cbn [app]; rewrite <- ?app_assoc; cbn [app]; reflexivity) end.
      eapply ip_some; try eassumption; lia.
    - exists lo. tidy. cbn [filter]. split; [constructor | lia]. }
  (* one item *)
  assert (ONE : forall f' p p' F lo, (f' < f)%nat -> hgen f' ITEM ANon false p p' F -> lo <= p ->
            item lo p' (fl (flats F)) /\ p < p').
  { intros f' p p' F lo Lf H Hlo. unfold ITEM in H. gen_inv.
    - (* raw_text *)
      match goal with H : hgen _ (ERef R_raw_text) _ _ _ _ _ |- _ =>
        pose proof (hle _ _ _ _ _ _ _ H); destruct (raw_text_shape _ _ _ _ H) as (-> & L1) end.
      split; [apply i_raw; lia | exact L1].
    - eapply simple_item; try eassumption;
        [left; reflexivity | exact tag_expression | vm_compute; reflexivity].
    - eapply simple_item; try eassumption;
        [right; left; reflexivity | exact tag_html_expression | vm_compute; reflexivity].
    - (* helper block *)
      match goal with H : hgen _ (ERef R_helper_block) _ _ _ _ _ |- _ => gen_ref H end.
      repeat eseq.
      match goal with H : hgen _ (ERef R_helper_block_start) _ _ _ _ _ |- _ =>
        fltag H E1;
        destruct (tag_helper_block_start _ _ _ _ H) as (ch1 & -> & Ht1 & L1); clear H end.
      match goal with H : hgen _ (ERef R_helper_block_end) _ _ _ _ _ |- _ =>
        fltag H E9;
        destruct (tag_helper_block_end _ _ _ _ H) as (ch9 & -> & Ht9 & L9); clear H end.
      match goal with H : hgen _ (ERef R_template) _ _ _ _ _ |- _ =>
        pose proof (hle _ _ _ _ _ _ _ H);
        eapply IHT with (lo := p1) in H; [destruct H as (m1 & Htm & Ta & Tb) | lia | lia] end.
      match goal with H : hgen _ (EOpt (ESeq (ESeq (ERef R_invert_chain_tag) _) _)) _ _ _ _ _ |- _ =>
        pose proof (hle _ _ _ _ _ _ _ H);
        eapply (STARCH _ _ _ _ m1) in H; [destruct H as (m2 & Hch & Ca & Cb) | lia | lia] end.
      match goal with H : hgen _ (EOpt (ESeq (ERef R_invert_tag) _)) _ _ _ _ _ |- _ =>
        pose proof (hle _ _ _ _ _ _ _ H);
        eapply (OPTINV _ _ _ _ m2) in H; [destruct H as (m3 & Hinv & Va & Vb) | lia | lia] end.
      rewrite !flats_app', !fl_app, E1, E9. tidy. cbn [filter app]. split; [|lia].
      match goal with |- item _ _ ?L =>
        match L with context [fl (flats ?Fb) ++ fl (flats ?Fc) ++ fl (flats ?Fi) ++ _] =>
        replace L with (((R_helper_block_start, p, p1) :: flats ch1) ++ fl (flats Fb) ++ fl (flats Fc)
                        ++ fl (flats Fi) ++ (R_helper_block_end, p8, p') :: flats ch9)
          by (cbn [app]; rewrite <- ?app_assoc; cbn [app]; reflexivity) end end.
      eapply i_hblock; try eassumption; lia.
    - (* raw block *)
      match goal with H : hgen _ (ERef R_raw_block) _ _ _ _ _ |- _ => gen_ref H end.
      match goal with HR : hb_RP R_raw_block _ _ _ |- _ =>
        specialize (HR eq_refl eq_refl eq_refl); rename HR into Hadj end.
      repeat eseq.
      match goal with H : hgen _ (ERef R_raw_block_start) _ _ _ _ _ |- _ =>
        fltag H E1;
        destruct (tag_raw_block_start _ _ _ _ H) as (ch1 & -> & Ht1 & L1); clear H end.
      match goal with H : hgen _ (ERef R_raw_block_end) _ _ _ _ _ |- _ =>
        fltag H E9;
        destruct (tag_raw_block_end _ _ _ _ H) as (ch9 & -> & Ht9 & L9); clear H end.
      match goal with H : hgen _ (ERef R_raw_block_text) _ _ _ _ _ |- _ =>
        destruct (raw_block_text_shape _ _ _ _ H) as (Et & Lt); clear H end.
      rewrite !flats_app', !fl_app, E1, E9, Et in Hadj.
      cbn [app] in Hadj; autorewrite with fl in Hadj; cbn [filter app] in Hadj.
      assert (p4 = p3) as ->.
      { apply (Hadj ((R_raw_block_start, p, p1) :: flats ch1) p2 p3 p4 p' (flats ch9)).
        cbn [app]. rewrite <- ?app_assoc. cbn [app]. reflexivity. }
      rewrite ?flats_app', ?fl_app, ?E1, ?E9, ?Et. tidy. cbn [filter app]. split; [|lia].
      match goal with |- item _ _ ?L =>
        replace L with (((R_raw_block_start, p, p1) :: flats ch1)
                        ++ (R_raw_block_text, p2, p3) :: (R_raw_block_end, p3, p') :: flats ch9)
          by (cbn [app]; rewrite <- ?app_assoc; cbn [app]; reflexivity) end.
      eapply i_rawblock; try eassumption; lia.
    - eapply comment_item; try eassumption;
        [left; reflexivity | reflexivity | vm_compute; reflexivity | vm_compute; reflexivity].
    - eapply comment_item; try eassumption;
        [right; reflexivity | reflexivity | vm_compute; reflexivity | vm_compute; reflexivity].
    - eapply simple_item; try eassumption;
        [right; right; left; reflexivity | exact tag_decorator_expression | vm_compute; reflexivity].
    - match goal with H : hgen _ (ERef R_decorator_block) _ _ _ _ _ |- _ => gen_ref H end.
      match goal with H : hgen ?g _ _ _ _ _ _ |- _ =>
        eapply (DBLOCK g R_decorator_block_start R_decorator_block_end); try exact H; try lia end;
        [left; split; reflexivity | exact tag_decorator_block_start | exact tag_decorator_block_end
        | vm_compute; reflexivity | vm_compute; reflexivity].
    - eapply simple_item; try eassumption;
        [right; right; right; reflexivity | exact tag_partial_expression | vm_compute; reflexivity].
    - match goal with H : hgen _ (ERef R_partial_block) _ _ _ _ _ |- _ => gen_ref H end.
      match goal with H : hgen ?g _ _ _ _ _ _ |- _ =>
        eapply (DBLOCK g R_partial_block_start R_partial_block_end); try exact H; try lia end;
        [right; split; reflexivity | exact tag_partial_block_start | exact tag_partial_block_end
        | vm_compute; reflexivity | vm_compute; reflexivity]. }
  (* items after the first *)
  assert (REP : forall f' p p' F lo, (f' < f)%nat -> hgen f' (ERepTail ITEM) ANon false p p' F -> lo <= p ->
            exists hi, items lo hi (fl (flats F)) /\ lo <= hi /\ hi <= p').
  { intros f' p p' F lo Lf H Hlo. eapply IHI; eassumption. }
  split; [|split].
  - (* template *)
    intros p p' F lo H Hlo. pose proof (hle _ _ _ _ _ _ _ H) as L.
    gen_ref H. fold ITEM in *. tidy. rewrite fl_cons_keep by reflexivity.
    match goal with H : hgen _ (EOpt _) _ _ _ _ _ |- _ => inversion H; clear H; subst end.
    + match goal with H : hgen _ (ESeq _ (ERepTail _)) _ _ _ _ _ |- _ => inversion H; clear H; subst end.
            match goal with H : hgen _ ITEM _ _ _ _ _ |- _ =>
        eapply ONE with (lo := lo) in H; [destruct H as (Hit & Li) | lia | lia] end.
      match goal with H : hgen _ (ERepTail ITEM) _ _ _ _ _ |- _ =>
        pose proof (hle _ _ _ _ _ _ _ H);
        eapply REP with (lo := p1) in H; [destruct H as (hi & Hits & Ra & Rb) | lia | lia] end.
      exists hi. rewrite flats_app', fl_app. split; [|lia].
      apply t_mk; [exact Hlo | lia | eapply is_cons; eassumption].
    + exists lo. tidy. cbn [filter]. split; [apply t_mk; [exact Hlo | lia | constructor] | lia].
  - (* item repetition *)
    intros p p' F lo H Hlo. inversion H; clear H; subst.
    + exists lo. tidy. cbn [filter]. split; [constructor | lia].
    + match goal with H : hgen _ (ESeq ESkip ITEM) _ _ _ _ _ |- _ => inversion H; clear H; subst end.
      match goal with H : hgen _ ESkip _ _ _ _ _ |- _ => apply hskip in H; destruct H as [-> Ls] end.
      match goal with H : hgen _ ITEM _ _ _ _ _ |- _ =>
        eapply ONE with (lo := lo) in H; [destruct H as (Hit & Li) | lia | lia] end.
      match goal with H : hgen _ (ERepTail ITEM) _ _ _ _ _ |- _ =>
        pose proof (hle _ _ _ _ _ _ _ H);
        eapply REP with (lo := p1) in H; [destruct H as (hi & Hits & Ra & Rb) | lia | lia] end.
      exists hi. tidy. rewrite fl_app. split; [eapply is_cons; eassumption | lia].
  - (* chain repetition *)
    intros p p' F lo H Hlo. inversion H; clear H; subst.
    + exists lo. tidy. cbn [filter]. split; [constructor | lia].
    + match goal with H : hgen _ (ESeq ESkip CHAIN) _ _ _ _ _ |- _ => inversion H; clear H; subst end.
      match goal with H : hgen _ ESkip _ _ _ _ _ |- _ => apply hskip in H; destruct H as [-> Ls] end.
      match goal with H : hgen _ CHAIN _ _ _ _ _ |- _ =>
        eapply CHAIN1 with (lo := lo) in H; [destruct H as (mid & M1 & M2 & M3 & Hk) | lia | lia] end.
      match goal with H : hgen _ (ERepTail CHAIN) _ _ _ _ _ |- _ =>
        pose proof (hle _ _ _ _ _ _ _ H);
        eapply CHREP with (lo := mid) in H; [destruct H as (hi & Hc & C1 & C2) | lia | lia] end.
      exists hi. tidy. rewrite fl_app. split; [apply Hk; exact Hc | lia].
Qed.

Theorem TAll_all : forall f, TAll f.
Proof. induction f as [f IH] using lt_wf_ind. apply TAll_step. exact IH. Qed.



(* ---------- the schema theorem ---------- *)
Theorem schema : forall f p' F,
  hgen f (ERef R_handlebars) ANon false 0 p' F ->
  wf_tokens (fl (flats F)) /\ escapes_sorted (flats F).
Proof.
  intros f p' F H. split; [|eapply hb_escapes_sorted; exact H].
  gen_ref H. repeat eseq.
  match goal with H : hgen _ (ERef R_template) _ _ _ _ _ |- _ =>
    pose proof (hle _ _ _ _ _ _ _ H);
    destruct (proj1 (TAll_all _) _ _ _ 0 H (N.le_refl 0)) as (hi & Htm & Ha & Hb) end.
  match goal with H : hgen _ (ERef R_EOI) _ _ _ _ _ |- _ => gen_ref H; gen_inv end.
  rewrite !flats_app', !fl_app. tidy. cbn [filter app].
  change (not_escape (R_EOI, p', p')) with true. cbn iota.
  inversion Htm as [lo hi' s e body Hs He Hit Eq]; subst.
  exists s, e, body, hi, p'. split; [reflexivity|]. split; [exact Hit | lia].
Qed.

Theorem hb_parse_wf : forall fuel src ts,
  hb_parse fuel R_handlebars src = Parsed ts ->
  wf_tokens (filter not_escape ts) /\ escapes_sorted ts.
Proof.
  intros fuel src ts H. rewrite hb_parse_unfold in H. unfold parse in H.
  destruct (eval rule hb_defs hb_ws fuel (ERef R_handlebars) ANon false src 0) as [pos rest ts0| |] eqn:E;
    try discriminate.
  inversion H; subst. destruct (eval_gen rule hb_defs hb_ws hb_RP hb_RP_holds _ _ _ _ _ _ _ _ _ E) as (F & -> & G).
  eapply schema. exact G.
Qed.

(* ---------- compile2 never panics ---------- *)
Theorem compile2_no_panic : forall src opts site, compile2 src opts <> CPanic site.
Proof.
  intros src opts. apply compile2_no_panic_wf. intros ts H. eapply hb_parse_wf. exact H.
Qed.

Theorem compile2_total : forall src opts,
  (exists t, compile2 src opts = COk t) \/ (exists e, compile2 src opts = CErr e).
Proof.
  intros src opts. pose proof (compile2_no_panic src opts) as Hp.
  pose proof (compile2_terminates src opts) as Hf.
  destruct (compile2 src opts) as [t|e|site|].
  - left. eexists. reflexivity.
  - right. eexists. reflexivity.
  - exfalso. exact (Hp site eq_refl).
  - exfalso. exact (Hf eq_refl).
Qed.
