(* Proofs/StrictOnly.v -- property C10, third clause: strict mode only ADDS
   errors, and only of two kinds.

   For registries that differ only in r_strict, the strict run of any function
   of the render fixpoint either coincides with the non-strict run (same
   value or same error or same panic, same final state), or it is an error
   whose reason is strict-only:
     RMissingVariable _            (expression on a missing value, each / with
                                    without else, lookup of an absent key,
                                    a value helper returning a missing value)
     RParamNotFoundForName _ _     (handlebars_helper! macro helpers reject a
                                    missing positional parameter in strict mode)
   Lock-step simulation in the direction opposite to Proofs/StrictMono.v. *)
From HB Require Export Proofs.StrictMono Spec.StrictOnlySpec.
Open Scope N_scope.

Lemma so_refl {A} (x : rres A) : so x x.
Proof. left; reflexivity. Qed.
Lemma so_err {A} e s (y : rres A) : strict_only_reason (e_reason e) = true -> so (RErr e s) y.
Proof. intros H. right. eauto. Qed.
Lemma so_strict_error {A} p s (y : rres A) : so (strict_error p s) y.
Proof. apply so_err. reflexivity. Qed.

Lemma so_unimpl e : strict_only_reason (e_reason e) = true -> is_unimplemented e = false.
Proof. unfold is_unimplemented. destruct (e_reason e); cbn; congruence. Qed.

Lemma so_rbind {A B} (x y : rres A) (k1 k2 : A -> rstate -> rres B) :
  so x y -> (forall a s, so (k1 a s) (k2 a s)) -> so (rbind x k1) (rbind y k2).
Proof.
  intros [->|(e & s & -> & He)] Hk.
  - destruct y; cbn [rbind]; [apply Hk|apply so_refl..].
  - cbn [rbind]. apply so_err. exact He.
Qed.

Lemma so_rmap_err {A} (x y : rres A) g :
  (forall e, e_reason (g e) = e_reason e) -> so x y -> so (rmap_err x g) (rmap_err y g).
Proof.
  intros Hg [->|(e & s & -> & He)]; [apply so_refl|].
  cbn [rmap_err]. apply so_err. rewrite Hg. exact He.
Qed.

Lemma attach_pos_reason t i e : e_reason (attach_pos t i e) = e_reason e.
Proof. unfold attach_pos. destruct (e_line e); [reflexivity|]. destruct (nth_error (t_map t) i) as [[l c]|]; reflexivity. Qed.
Lemma attach_render_reason t i e : e_reason (attach_render t i e) = e_reason e.
Proof. unfold attach_render. destruct (e_tpl (attach_pos t i e)); cbn; apply attach_pos_reason. Qed.
Lemma attach_eval_reason t i e : e_reason (attach_eval t i e) = e_reason e.
Proof. unfold attach_eval. cbn. apply attach_pos_reason. Qed.

Lemma so_fold_idx {A} (st1 st2 : A -> nat -> rstate -> rres unit) :
  (forall x i s, so (st1 x i s) (st2 x i s)) ->
  forall l i s, so (fold_idx st1 l i s) (fold_idx st2 l i s).
Proof.
  intros Hs l. induction l as [|x l IH]; intros i s; cbn [fold_idx].
  - apply so_refl.
  - apply so_rbind; [apply Hs|intros; apply IH].
Qed.

Lemma so_mapM {A B} (f1 f2 : A -> rstate -> rres B) :
  (forall x s, so (f1 x s) (f2 x s)) -> forall l s, so (mapM f1 l s) (mapM f2 l s).
Proof.
  intros Hf l. induction l as [|x l IH]; intros s; cbn [mapM].
  - apply so_refl.
  - apply so_rbind; [apply Hf|intros]. apply so_rbind; [apply IH|intros; apply so_refl].
Qed.

Lemma so_param_or {A} h i n s (k1 k2 : pj -> rres A) :
  (forall p, so (k1 p) (k2 p)) -> so (param_or h i n s k1) (param_or h i n s k2).
Proof. intros Hk. unfold param_or. destruct (nth_error (hv_params h) i); [apply Hk|apply so_refl]. Qed.

(* a match on an outcome that keeps an error's reason *)
Ltac so_scrut :=
  match goal with
  | |- so (match ?x with _ => _ end) (match ?y with _ => _ end) =>
      let H := fresh "Hso" in
      assert (H : so x y);
      [ | let e := fresh "e" in let s := fresh "s" in let He := fresh "He" in
          destruct H as [->|(e & s & -> & He)];
          [ try apply so_refl | cbv beta iota; apply so_err; exact He ] ]
  end.

(* ---------- the macro expansion ---------- *)
Lemma macro_params_so n decl : forall idx given acc,
  macro_params n true decl idx given acc = macro_params n false decl idx given acc \/
  exists p, macro_params n true decl idx given acc = inl (RParamNotFoundForName n p).
Proof.
  induction decl as [|[pn t] rest IH]; intros idx given acc; cbn [macro_params].
  - left; reflexivity.
  - destruct (nth_error given idx) as [x|]; [|left; reflexivity].
    cbn [andb]. destruct (sc_missing (pj_val x)); [right; eauto|].
    destruct (conv t (pj_value x)); [apply IH|left; reflexivity].
Qed.

Lemma macro_call_so sg body h :
  macro_call sg body true h = macro_call sg body false h \/
  exists p, macro_call sg body true h = inl (RParamNotFoundForName (ms_name sg) p).
Proof.
  unfold macro_call.
  destruct (macro_params_so (ms_name sg) (ms_params sg) 0 (hv_params h) []) as [->|(p & ->)];
    [left; reflexivity|right; eauto].
Qed.

Section Only.
  Variable reg : registry.
  Variable data : json.
  Variable ft : ftable.

  Notation rS := (set_strict_mode reg true).
  Notation rN := (set_strict_mode reg false).

  Ltac norm_reg :=
    rewrite ?find_reg_helper_strict, ?helper_exists_strict, ?do_escape_strict;
    cbn [r_strict r_decorators r_templates r_helpers set_strict_mode reg_set_flags].

  Lemma macro_inner_so sg body h s : so (macro_inner rS sg body h s) (macro_inner rN sg body h s).
  Proof.
    unfold macro_inner. norm_reg.
    destruct (macro_call_so sg body h) as [->|(p & ->)]; [apply so_refl|].
    apply so_err. reflexivity.
  Qed.

  Lemma call_inner_so hid h s : so (call_inner rS hid h s) (call_inner rN hid h s).
  Proof.
    destruct hid; cbn [call_inner]; try apply so_refl; try apply macro_inner_so.
    (* HLookup *)
    unfold param_or.
    destruct (nth_error (hv_params h) 0) as [coll|]; [|apply so_refl].
    destruct (nth_error (hv_params h) 1) as [index|]; [|apply so_refl].
    norm_reg.
    match goal with |- context [match ?v with Some _ => _ | None => strict_error _ _ end] =>
      destruct v end.
    - apply so_refl.
    - apply so_strict_error.
  Qed.

  Record only_at (f : nat) : Prop := {
    o_render_template : forall t s, so (render_template rS data ft f t s) (render_template rN data ft f t s);
    o_eval_template : forall t s, so (eval_template rS data ft f t s) (eval_template rN data ft f t s);
    o_opt_render : forall t s, so (opt_render rS data ft f t s) (opt_render rN data ft f t s);
    o_render_element : forall e s, so (render_element rS data ft f e s) (render_element rN data ft f e s);
    o_eval_element : forall e s, so (eval_element rS data ft f e s) (eval_element rN data ft f e s);
    o_render_expression : forall ht html s,
      so (render_expression rS data ft f ht html s) (render_expression rN data ft f ht html s);
    o_render_helper : forall ht s, so (render_helper rS data ft f ht s) (render_helper rN data ft f ht s);
    o_helper_from_template : forall ht s,
      so (helper_from_template rS data ft f ht s) (helper_from_template rN data ft f ht s);
    o_deco_from_template : forall dt s,
      so (deco_from_template rS data ft f dt s) (deco_from_template rN data ft f dt s);
    o_expand_as_name : forall p s, so (expand_as_name rS data ft f p s) (expand_as_name rN data ft f p s);
    o_expand_param : forall p s, so (expand_param rS data ft f p s) (expand_param rN data ft f p s);
    o_call_helper_for_value : forall hid h s,
      so (call_helper_for_value rS data ft f hid h s) (call_helper_for_value rN data ft f hid h s);
    o_call_helper : forall hid h s, so (call_helper rS data ft f hid h s) (call_helper rN data ft f hid h s);
    o_eval_decorator : forall dt s, so (eval_decorator rS data ft f dt s) (eval_decorator rN data ft f dt s);
    o_render_partial : forall dt s, so (render_partial rS data ft f dt s) (render_partial rN data ft f dt s);
    o_expand_partial : forall d s, so (expand_partial rS data ft f d s) (expand_partial rN data ft f d s)
  }.

  Lemma only_0 : only_at 0.
  Proof. constructor; intros; apply so_refl. Qed.

  Section Step.
    Variable f : nat.
    Hypothesis IH : only_at f.

    Ltac ih :=
      first [ apply (o_render_template f IH) | apply (o_eval_template f IH) | apply (o_opt_render f IH)
            | apply (o_render_element f IH) | apply (o_eval_element f IH)
            | apply (o_render_expression f IH) | apply (o_render_helper f IH)
            | apply (o_helper_from_template f IH) | apply (o_deco_from_template f IH)
            | apply (o_expand_as_name f IH) | apply (o_expand_param f IH)
            | apply (o_call_helper_for_value f IH) | apply (o_call_helper f IH)
            | apply (o_eval_decorator f IH) | apply (o_render_partial f IH)
            | apply (o_expand_partial f IH) ].

    Ltac so_step :=
      match goal with
      | |- so ?x ?x => apply so_refl
      | |- so (strict_error _ _) _ => apply so_strict_error
      | |- _ => ih
      | |- so (rbind _ _) (rbind _ _) => apply so_rbind; [|intros ? ?]
      | |- so (rmap_err _ (attach_render _ _)) (rmap_err _ _) => apply so_rmap_err; [apply attach_render_reason|]
      | |- so (rmap_err _ (attach_eval _ _)) (rmap_err _ _) => apply so_rmap_err; [apply attach_eval_reason|]
      | |- so (fold_idx _ _ _ _) (fold_idx _ _ _ _) => apply so_fold_idx; intros ? ? ?
      | |- so (mapM _ _ _) (mapM _ _ _) => apply so_mapM; intros ? ?
      | |- so (param_or _ _ _ _ _) (param_or _ _ _ _ _) => apply so_param_or; intros ?
      | |- so (match ?c with _ => _ end) (match ?c with _ => _ end) => destruct c
      | |- so (if ?c then _ else _) (if ?c then _ else _) => destruct c
      | |- so (let '(_, _) := ?c in _) (let '(_, _) := ?c in _) => destruct c
      end.
    Ltac so_auto := norm_reg; cbv zeta; repeat (so_step; norm_reg).

    Lemma t_render_template t s :
      so (render_template rS data ft (S f) t s) (render_template rN data ft (S f) t s).
    Proof. rewrite !render_template_eq. so_auto. Qed.

    Lemma t_eval_template t s :
      so (eval_template rS data ft (S f) t s) (eval_template rN data ft (S f) t s).
    Proof. rewrite !eval_template_eq. so_auto. Qed.

    Lemma t_opt_render t s : so (opt_render rS data ft (S f) t s) (opt_render rN data ft (S f) t s).
    Proof. rewrite !opt_render_eq. so_auto. Qed.

    Lemma t_render_element e s :
      so (render_element rS data ft (S f) e s) (render_element rN data ft (S f) e s).
    Proof. rewrite !render_element_eq. so_auto. Qed.

    Lemma t_eval_element e s : so (eval_element rS data ft (S f) e s) (eval_element rN data ft (S f) e s).
    Proof. rewrite !eval_element_eq. so_auto. Qed.

    Lemma t_render_expression ht html s :
      so (render_expression rS data ft (S f) ht html s) (render_expression rN data ft (S f) ht html s).
    Proof.
      rewrite !render_expression_eq. norm_reg. cbv zeta.
      so_scrut. so_auto.
    Qed.

    Lemma t_render_helper ht s : so (render_helper rS data ft (S f) ht s) (render_helper rN data ft (S f) ht s).
    Proof. rewrite !render_helper_eq. so_auto. Qed.

    Lemma t_helper_from_template ht s :
      so (helper_from_template rS data ft (S f) ht s) (helper_from_template rN data ft (S f) ht s).
    Proof. rewrite !helper_from_template_eq. so_auto. Qed.

    Lemma t_deco_from_template dt s :
      so (deco_from_template rS data ft (S f) dt s) (deco_from_template rN data ft (S f) dt s).
    Proof. rewrite !deco_from_template_eq. so_auto. Qed.

    Lemma t_expand_as_name p s : so (expand_as_name rS data ft (S f) p s) (expand_as_name rN data ft (S f) p s).
    Proof. rewrite !expand_as_name_eq. so_auto. Qed.

    Lemma t_expand_param p s : so (expand_param rS data ft (S f) p s) (expand_param rN data ft (S f) p s).
    Proof. rewrite !expand_param_eq. so_auto. Qed.

    Lemma t_call_helper_for_value hid h s :
      so (call_helper_for_value rS data ft (S f) hid h s) (call_helper_for_value rN data ft (S f) hid h s).
    Proof.
      rewrite !call_helper_for_value_eq.
      destruct (call_inner_so hid h s) as [->|(e & s1 & -> & He)].
      - destruct (call_inner rN hid h s) as [r s1|e s1|p|]; try apply so_refl.
        destruct (is_unimplemented e); [|apply so_refl]. cbv zeta.
        so_scrut. ih.
      - rewrite (so_unimpl _ He). apply so_err. exact He.
    Qed.

    Lemma t_call_helper hid h s :
      so (call_helper rS data ft (S f) hid h s) (call_helper rN data ft (S f) hid h s).
    Proof.
      rewrite !call_helper_eq.
      destruct (has_call_inner hid) eqn:Hci.
      - destruct (call_inner_so hid h s) as [->|(e & s1 & -> & He)].
        + destruct (call_inner rN hid h s) as [r s1|e s1|p|]; try apply so_refl.
          norm_reg. destruct (sc_missing r); cbn [andb]; [apply so_strict_error|apply so_refl].
        + rewrite (so_unimpl _ He). apply so_err. exact He.
      - destruct hid; try discriminate Hci; try solve [so_auto].
        (* HLocal: the capture bracket of the "c:" mode *)
        cbv zeta. destruct (starts_with _ name); [|so_auto].
        destruct (hv_tpl h) as [t|]; [|apply so_refl].
        so_scrut. ih.
    Qed.

    Lemma t_eval_decorator dt s :
      so (eval_decorator rS data ft (S f) dt s) (eval_decorator rN data ft (S f) dt s).
    Proof. rewrite !eval_decorator_eq. so_auto. Qed.

    Lemma t_render_partial dt s :
      so (render_partial rS data ft (S f) dt s) (render_partial rN data ft (S f) dt s).
    Proof. rewrite !render_partial_eq. so_auto. Qed.

    Lemma t_expand_partial d s :
      so (expand_partial rS data ft (S f) d s) (expand_partial rN data ft (S f) d s).
    Proof.
      rewrite !expand_partial_eq. norm_reg. cbv zeta.
      so_step; [so_auto|]. norm_reg.
      repeat (so_step; norm_reg).
      all: try (so_scrut; ih).
    Qed.

    Lemma only_step : only_at (S f).
    Proof.
      constructor.
      - exact t_render_template. - exact t_eval_template. - exact t_opt_render.
      - exact t_render_element. - exact t_eval_element. - exact t_render_expression.
      - exact t_render_helper. - exact t_helper_from_template. - exact t_deco_from_template.
      - exact t_expand_as_name. - exact t_expand_param. - exact t_call_helper_for_value.
      - exact t_call_helper. - exact t_eval_decorator. - exact t_render_partial.
      - exact t_expand_partial.
    Qed.
  End Step.

  Theorem only_all : forall f, only_at f.
  Proof. induction f as [|f IH]; [exact only_0|exact (only_step f IH)]. Qed.
End Only.

(* ---------- statements over two arbitrary registries ---------- *)
Lemma so_ok {A} (x y : rres A) u s' : so x y -> y = ROk u s' ->
  x = ROk u s' \/ exists e s'', x = RErr e s'' /\ strict_only_reason (e_reason e) = true.
Proof. intros [->|H] Hy; [left; exact Hy|right; exact H]. Qed.

Lemma so_finish x y : so x y -> so_obs (finish_render x) (finish_render y).
Proof.
  intros [->|(e & s & -> & He)]; [left; reflexivity|]. right. cbn [finish_render]. eauto.
Qed.

Lemma render_resolved_so reg fs ft name t data fa :
  so_obs (render_resolved (set_strict_mode reg true) fs ft name t data fa)
         (render_resolved (set_strict_mode reg false) fs ft name t data fa).
Proof.
  unfold render_resolved, render_fuel. rewrite !gather_dev_strict.
  cbn [r_dev r_sources set_strict_mode reg_set_flags].
  destruct (negb (r_dev reg)).
  - apply so_finish. apply (o_render_template _ _ _ _ (only_all reg data ft _)).
  - destruct (gather_dev reg fs (map fst (r_sources reg)) name []) as [e|dm0]; [left; reflexivity|].
    apply so_finish. apply (o_render_template _ _ _ _ (only_all reg data ft _)).
Qed.

Lemma render_entry_so reg fs ft entry target data fa :
  so_obs (render_entry (set_strict_mode reg true) fs ft entry target data fa)
         (render_entry (set_strict_mode reg false) fs ft entry target data fa).
Proof.
  unfold render_entry, render_named, render_string.
  change (get_or_load_template (set_strict_mode reg true) fs target)
    with (get_or_load_template (set_strict_mode reg false) fs target).
  change (reg_opts (set_strict_mode reg true) None) with (reg_opts (set_strict_mode reg false) None).
  destruct (N.ltb entry 4).
  - destruct (get_or_load_template (set_strict_mode reg false) fs target) as [t|e| |];
      [apply render_resolved_so|left; reflexivity..].
  - destruct (compile2 target (reg_opts (set_strict_mode reg false) None)) as [t|e|p|];
      [apply render_resolved_so|left; reflexivity..].
Qed.

Section TwoOnly.
  Variables reg_s reg_n : registry.
  Hypothesis H1 : r_templates reg_s = r_templates reg_n.
  Hypothesis H2 : r_sources reg_s = r_sources reg_n.
  Hypothesis H3 : r_helpers reg_s = r_helpers reg_n.
  Hypothesis H4 : r_decorators reg_s = r_decorators reg_n.
  Hypothesis H5 : r_escape reg_s = r_escape reg_n.
  Hypothesis H6 : r_esc_mark reg_s = r_esc_mark reg_n.
  Hypothesis H7 : r_dev reg_s = r_dev reg_n.
  Hypothesis H8 : r_prevent_indent reg_s = r_prevent_indent reg_n.
  Hypothesis HS : r_strict reg_s = true.
  Hypothesis HN : r_strict reg_n = false.
  Variable data : json.
  Variable ft : ftable.

  Theorem two_only_at fuel :
    (forall t s, so (render_template reg_s data ft fuel t s) (render_template reg_n data ft fuel t s)) /\
    (forall t s, so (eval_template reg_s data ft fuel t s) (eval_template reg_n data ft fuel t s)) /\
    (forall t s, so (opt_render reg_s data ft fuel t s) (opt_render reg_n data ft fuel t s)) /\
    (forall e s, so (render_element reg_s data ft fuel e s) (render_element reg_n data ft fuel e s)) /\
    (forall e s, so (eval_element reg_s data ft fuel e s) (eval_element reg_n data ft fuel e s)) /\
    (forall ht html s, so (render_expression reg_s data ft fuel ht html s)
                          (render_expression reg_n data ft fuel ht html s)) /\
    (forall ht s, so (render_helper reg_s data ft fuel ht s) (render_helper reg_n data ft fuel ht s)) /\
    (forall ht s, so (helper_from_template reg_s data ft fuel ht s)
                     (helper_from_template reg_n data ft fuel ht s)) /\
    (forall dt s, so (deco_from_template reg_s data ft fuel dt s) (deco_from_template reg_n data ft fuel dt s)) /\
    (forall p s, so (expand_as_name reg_s data ft fuel p s) (expand_as_name reg_n data ft fuel p s)) /\
    (forall p s, so (expand_param reg_s data ft fuel p s) (expand_param reg_n data ft fuel p s)) /\
    (forall hid h s, so (call_helper_for_value reg_s data ft fuel hid h s)
                        (call_helper_for_value reg_n data ft fuel hid h s)) /\
    (forall hid h s, so (call_helper reg_s data ft fuel hid h s) (call_helper reg_n data ft fuel hid h s)) /\
    (forall dt s, so (eval_decorator reg_s data ft fuel dt s) (eval_decorator reg_n data ft fuel dt s)) /\
    (forall dt s, so (render_partial reg_s data ft fuel dt s) (render_partial reg_n data ft fuel dt s)) /\
    (forall d s, so (expand_partial reg_s data ft fuel d s) (expand_partial reg_n data ft fuel d s)).
  Proof.
    destruct (same_but_strict_eq reg_s reg_n H1 H2 H3 H4 H5 H6 H7 H8 HS HN) as (reg & -> & ->).
    destruct (only_all reg data ft fuel) as [m1 m2 m3 m4 m5 m6 m7 m8 m9 m10 m11 m12 m13 m14 m15 m16].
    repeat split; assumption.
  Qed.

  (* the form asked for: a non-strict success is a strict success with the
     same value and state, or a strict-only error *)
  Theorem only_missing_variable fuel t s u s' :
    render_template reg_n data ft fuel t s = ROk u s' ->
    render_template reg_s data ft fuel t s = ROk u s' \/
    exists e s'', render_template reg_s data ft fuel t s = RErr e s'' /\
                  strict_only_reason (e_reason e) = true.
  Proof. intros H. eapply so_ok; [apply two_only_at|exact H]. Qed.

  Theorem only_missing_variable_element fuel e s u s' :
    render_element reg_n data ft fuel e s = ROk u s' ->
    render_element reg_s data ft fuel e s = ROk u s' \/
    exists er s'', render_element reg_s data ft fuel e s = RErr er s'' /\
                   strict_only_reason (e_reason er) = true.
  Proof. intros H. eapply so_ok; [apply two_only_at|exact H]. Qed.

  Theorem only_entry fs entry target fa :
    so_obs (render_entry reg_s fs ft entry target data fa) (render_entry reg_n fs ft entry target data fa).
  Proof.
    destruct (same_but_strict_eq reg_s reg_n H1 H2 H3 H4 H5 H6 H7 H8 HS HN) as (reg & -> & ->).
    apply render_entry_so.
  Qed.

  Theorem only_entry_ok fs entry target fa out log n :
    render_entry reg_n fs ft entry target data fa = RoOk out log n ->
    render_entry reg_s fs ft entry target data fa = RoOk out log n \/
    exists e accepted log', render_entry reg_s fs ft entry target data fa = RoErr e accepted log' /\
                            strict_only_reason (e_reason e) = true.
  Proof.
    intros H. destruct (only_entry fs entry target fa) as [E|E]; [left; rewrite E; exact H|right; exact E].
  Qed.
End TwoOnly.

(* ---------- both strict-only reasons occur ---------- *)
Definition so_reg (b : bool) : registry :=
  set_strict_mode (fst (register_template_string
                     (fst (register_template_string reg_new (`"a") (`"x{{nope}}y")))
                     (`"b") (`"x{{eq nope 1}}y"))) b.

Example strict_only_missing_ex :
  render_named (so_reg false) [] [] (`"a") JNull None = RoOk (`"xy") [] 2 /\
  exists e, render_named (so_reg true) [] [] (`"a") JNull None = RoErr e (`"x") [] /\
            e_reason e = RMissingVariable (Some (`"nope")).
Proof. split; [vm_compute; reflexivity|]. eexists. split; vm_compute; reflexivity. Qed.

Example strict_only_param_ex :
  render_named (so_reg false) [] [] (`"b") JNull None = RoOk (`"xfalsey") [] 3 /\
  exists e, render_named (so_reg true) [] [] (`"b") JNull None = RoErr e (`"x") [] /\
            e_reason e = RParamNotFoundForName (`"eq") (`"x").
Proof. split; [vm_compute; reflexivity|]. eexists. split; vm_compute; reflexivity. Qed.
