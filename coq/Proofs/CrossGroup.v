(* Proofs/CrossGroup.v — property C16, across the two groups of entry points:
   a two-run simulation over the sixteen render functions between
     run A: registry r,  any state s;
     run B: registry r' (same as r except, possibly, the template stored under
            the name n, and r_sources), state s' = s except for s_root and, at
            the top level of the root template, s_current (None vs Some n);
   under the hypothesis that no partial tag can reach the name n
   (Spec/CrossGroupSpec.v) and that the `state` probe is not registered.
   Then the corollary for render_entry. *)
From Coq Require Import List Lia NArith ZArith Bool.
From HB Require Import Rt.Render Reg.RegOps Spec.RenderAll Spec.RegistryMap Spec.CrossGroupSpec.
From HB Require Import Proofs.RenderInd Proofs.RegProofs.
Import ListNotations.
Open Scope nat_scope.

(* ====================================================================== *)
(** * Projections of the "no partial reaches n" predicate *)

Section NPProj.
  Variables (n : str) (ft : ftable).
  Notation npp := (np_param n ft).
  Notation npe := (np_element n ft).
  Notation npt := (np_template n ft).
  Notation npo := (np_opt n ft).

  Lemma np_list_Forall (l : list param) :
    (fix go (l : list param) : Prop := match l with [] => True | p :: r => npp p /\ go r end) l
    <-> Forall npp l.
  Proof.
    induction l as [|p l IH]; split; intros H.
    - constructor.
    - exact I.
    - destruct H as [Hp Hr]. constructor; [exact Hp | apply IH; exact Hr].
    - inversion H as [|? ? Hp Hr]; subst. split; [exact Hp | apply IH; exact Hr].
  Qed.

  Lemma np_hash_Forall (l : list (str * param)) :
    (fix goh (l : list (str * param)) : Prop :=
       match l with [] => True | kv :: r => (let (_, p) := kv in npp p) /\ goh r end) l
    <-> Forall (fun kv => npp (snd kv)) l.
  Proof.
    induction l as [|[k p] l IH]; split; intros H.
    - constructor.
    - exact I.
    - destruct H as [Hp Hr]. constructor; [exact Hp | apply IH; exact Hr].
    - inversion H as [|? ? Hp Hr]; subst. split; [exact Hp | apply IH; exact Hr].
  Qed.

  Lemma np_template_els t : npt t <-> Forall npe (t_els t).
  Proof.
    destruct t as [nm es m]. cbn [np_template t_els].
    induction es as [|e l IH]; split; intros H.
    - constructor.
    - exact I.
    - destruct H as [Hp Hr]. constructor; [exact Hp | apply IH; exact Hr].
    - inversion H as [|? ? Hp Hr]; subst. split; [exact Hp | apply IH; exact Hr].
  Qed.

  Lemma np_helper_proj h :
    np_helper n ft h <->
    npp (h_name h) /\ Forall npp (h_params h) /\ Forall (fun kv => npp (snd kv)) (h_hash h)
    /\ npo (h_tpl h) /\ npo (h_inv h).
  Proof.
    destruct h. cbn [np_helper h_name h_params h_hash h_tpl h_inv np_opt].
    rewrite np_list_Forall, np_hash_Forall. tauto.
  Qed.

  Lemma np_deco_proj d :
    np_deco n ft d <->
    npp (d_name d) /\ Forall npp (d_params d) /\ Forall (fun kv => npp (snd kv)) (d_hash d)
    /\ npo (d_tpl d).
  Proof.
    destruct d. cbn [np_deco d_name d_params d_hash d_tpl np_opt].
    rewrite np_list_Forall, np_hash_Forall. tauto.
  Qed.

  Lemma np_set_name t x : npt t -> npt (t_set_name t x).
  Proof. destruct t. exact (fun H => H). Qed.
End NPProj.

(* ====================================================================== *)
(** * Generic list / map facts *)

Lemma map_get_In' {A} (m : list (str * A)) k v : map_get m k = Some v -> exists k', In (k', v) m.
Proof.
  induction m as [|[k' v'] m IH]; cbn [map_get]; [discriminate|].
  destruct (str_eqb k k').
  - intros [= ->]. exists k'. left. reflexivity.
  - intros H. destruct (IH H) as [k'' Hin]. exists k''. right. exact Hin.
Qed.

Lemma map_get_Forall' {A} (P : str * A -> Prop) (m : list (str * A)) k v :
  Forall P m -> map_get m k = Some v -> exists k', P (k', v).
Proof.
  intros HF Hg. destruct (map_get_In' _ _ _ Hg) as [k' Hin]. exists k'.
  rewrite Forall_forall in HF. exact (HF _ Hin).
Qed.

Lemma map_insert_Forall' {A} (P : str * A -> Prop) (m : list (str * A)) k v :
  Forall P m -> P (k, v) -> Forall P (map_insert m k v).
Proof.
  intros Hm Hv. induction m as [|[k' v'] m IH]; cbn [map_insert].
  - constructor; [exact Hv | constructor].
  - inversion Hm as [|? ? Hh Ht]; subst. destruct (str_cmp k k').
    + constructor; assumption.
    + constructor; assumption.
    + constructor; [exact Hh | apply IH; exact Ht].
Qed.

Lemma Forall_tl' {A} (P : A -> Prop) l : Forall P l -> Forall P (tl l).
Proof. intros H. destruct l; [exact H | inversion H; assumption]. Qed.

(* ====================================================================== *)
(** * The relation between the two runs *)

Ltac su :=
  cbn [upd s_blocks s_modified s_partials s_pb_stack s_pb_depth s_local_helpers s_current s_root
       s_disable_escape s_trailing_newline s_content_produced s_indent_before_write s_indent
       s_dev s_out s_log s_esc_trace
       reg_with r_templates r_sources r_helpers r_decorators r_escape r_esc_mark r_strict r_dev
       r_prevent_indent].

Section Sim.
  Variables (n : str) (ft : ftable) (data : json) (r : registry).
  Variables (T' : list (str * template)) (S' : list (str * str)) (root : option str).
  Notation r' := (reg_with r T' S').
  Hypothesis HT : forall m, m <> n -> map_get T' m = map_get (r_templates r) m.
  Hypothesis Hreg : np_registry n ft r.
  Hypothesis Hnostate : no_state_probe r.

  Notation npp := (np_param n ft).
  Notation npe := (np_element n ft).
  Notation npt := (np_template n ft).
  Notation npo := (np_opt n ft).
  Notation nph := (np_helper n ft).
  Notation npd := (np_deco n ft).

  Notation cur_rel := (CrossGroupSpec.cur_rel n).
  Notation R := (run_rel n root).
  Notation st_np := (CrossGroupSpec.st_np n ft).
  Notation rr := (outcome_rel n ft root).

  Lemma rr_bind E {A B} (x y : rres A) (k k' : A -> rstate -> rres B) :
    rr E x y ->
    (forall a s s', x = ROk a s -> R s s' -> st_np s -> rr E (k a s) (k' a s')) ->
    rr E (rbind x k) (rbind y k').
  Proof.
    intros H Hk. destruct x as [a s|e s|p|], y as [b s'|e' s'|q|]; cbn [outcome_rel] in H; try contradiction;
      cbn [rbind outcome_rel]; auto.
    destruct H as (<- & HR & Hs). apply Hk; auto.
  Qed.

  Lemma rr_rmap_err (E E' : rerror -> rerror -> Prop) {A} (x y : rres A) g g' :
    rr E x y -> (forall e e', E e e' -> E' (g e) (g' e')) -> rr E' (rmap_err x g) (rmap_err y g').
  Proof.
    intros H Hg. destruct x as [a s|e s|p|], y as [b s'|e' s'|q|]; cbn [outcome_rel] in H; try contradiction;
      cbn [rmap_err outcome_rel]; auto.
    destruct H as (He & HR & Hs). split; auto.
  Qed.

  Lemma rr_fold_idx E {X} (step step' : X -> nat -> rstate -> rres unit) l :
    (forall x i s s', In x l -> R s s' -> st_np s -> rr E (step x i s) (step' x i s')) ->
    forall i s s', R s s' -> st_np s -> rr E (fold_idx step l i s) (fold_idx step' l i s').
  Proof.
    induction l as [|x l IH]; intros Hstep i s s' HR Hs; cbn [fold_idx].
    - cbn [outcome_rel]. auto.
    - apply rr_bind.
      + apply Hstep; auto. left. reflexivity.
      + intros _ s1 s1' _ HR1 Hs1. apply IH; auto. intros y j t t' Hin. apply Hstep. right. exact Hin.
  Qed.

  Lemma rr_mapM E {X B} (g g' : X -> rstate -> rres B) l :
    (forall x s s', In x l -> R s s' -> st_np s -> rr E (g x s) (g' x s')) ->
    forall s s', R s s' -> st_np s -> rr E (mapM g l s) (mapM g' l s').
  Proof.
    induction l as [|x l IH]; intros Hg s s' HR Hs; cbn [mapM].
    - cbn [outcome_rel]. auto.
    - apply rr_bind.
      + apply Hg; auto. left. reflexivity.
      + intros y s1 s1' _ HR1 Hs1. apply rr_bind.
        * apply IH; auto. intros z t t' Hin. apply Hg. right. exact Hin.
        * intros ys s2 s2' _ HR2 Hs2. cbn [outcome_rel]. auto.
  Qed.

  Lemma R_upd s c : cur_rel (s_current s) c -> R s (upd s root c).
  Proof. intros H. exists c. split; [reflexivity|exact H]. Qed.

  (* solve [R a b] when b is, up to computation, [upd a root ?c] *)
  Ltac Rs :=
    lazymatch goal with
    | |- R _ _ =>
        first [ assumption
              | eexists; split; [reflexivity | su; first [assumption | left; reflexivity]] ]
    end.

  Ltac leaf :=
    cbn [outcome_rel];
    lazymatch goal with
    | |- True => exact I
    | |- _ = _ /\ R _ _ /\ st_np _ =>
        split; [reflexivity | split; [Rs | first [assumption | idtac]]]
    | |- _ = _ => reflexivity
    end.

  Ltac dif := match goal with |- context [if ?c then _ else _] => destruct c end.

  (* both sides branch on convertible scrutinees: case on it once *)
  Ltac dm :=
    lazymatch goal with
    | |- rr _ (match ?c with _ => _ end) (match ?c' with _ => _ end) =>
        change c' with c; destruct c
    end.
  Ltac dme H :=
    lazymatch goal with
    | |- rr _ (match ?c with _ => _ end) (match ?c' with _ => _ end) =>
        change c' with c; destruct c eqn:H
    end.

  (* ---------------------------------------------------------------- *)
  (** ** primitives *)

  Notation rq := (rr eq).

  Lemma p_out_write chunk s c :
    cur_rel (s_current s) c -> st_np s -> rq (out_write chunk s) (out_write chunk (upd s root c)).
  Proof.
    intros Hc Hs. unfold out_write, rfail. su. destruct chunk; [leaf|].
    dif; leaf.
  Qed.

  Lemma q_out_write chunk s s' : R s s' -> st_np s -> rq (out_write chunk s) (out_write chunk s').
  Proof. intros (c & -> & Hc) Hs. apply p_out_write; assumption. Qed.

  Lemma q_write_indented fuel : forall v ind s s',
    R s s' -> st_np s -> rq (write_indented fuel v ind s) (write_indented fuel v ind s').
  Proof.
    induction fuel as [|fuel IH]; intros v ind s s' HR Hs; cbn [write_indented]; [exact I|].
    destruct (find_lf v) as [k|]; [|apply q_out_write; assumption].
    apply rr_bind; [apply q_out_write; assumption|]. intros _ s1 s1' _ HR1 Hs1.
    destruct (skipn (S k) v) eqn:Hsk; [leaf|]. rewrite <- Hsk.
    apply rr_bind; [apply q_out_write; assumption|]. intros _ s2 s2' _ HR2 Hs2.
    apply IH; assumption.
  Qed.

  Lemma q_indent_aware_write v s s' :
    R s s' -> st_np s -> rq (indent_aware_write v s) (indent_aware_write v s').
  Proof.
    intros (c & -> & Hc) Hs. unfold indent_aware_write. destruct v as [|ch v]; [leaf|]. su.
    apply rr_bind.
    - dm; [|leaf]. dm; [|leaf]. apply q_out_write; [Rs|exact Hs].
    - intros _ s1 s1' _ (c1 & -> & Hc1) Hs1. su. apply rr_bind.
      + dm; [apply q_write_indented|apply q_out_write]; first [Rs|assumption].
      + intros _ s2 s2' _ (c2 & -> & Hc2) Hs2. leaf.
  Qed.

  Lemma q_do_escape content s c :
    cur_rel (s_current s) c -> st_np s ->
    fst (do_escape r' content (upd s root c)) = fst (do_escape r content s) /\
    R (snd (do_escape r content s)) (snd (do_escape r' content (upd s root c))) /\
    st_np (snd (do_escape r content s)).
  Proof.
    intros Hc Hs. unfold do_escape. su. destruct (s_disable_escape s); cbn [fst snd].
    - repeat split; first [Rs | apply Hs].
    - destruct (r_esc_mark r); repeat split; first [Rs | apply Hs].
  Qed.

  Lemma q_evaluate2 d p s s' : R s s' -> st_np s -> rq (evaluate2 d p s) (evaluate2 d p s').
  Proof.
    intros (c & -> & Hc) Hs. unfold evaluate2, rfail. su. destruct p.
    - destruct (navigate d segs (s_blocks s)); leaf.
    - leaf.
  Qed.

  Lemma q_evaluate d raw s s' : R s s' -> st_np s -> rq (evaluate d raw s) (evaluate d raw s').
  Proof.
    intros HR Hs. unfold evaluate. destruct (path_parse raw); [apply q_evaluate2; assumption|].
    destruct HR as (c & -> & Hc). unfold rfail. leaf.
  Qed.

  Lemma q_log_write txt s s' : R s s' -> st_np s -> rq (log_write txt s) (log_write txt s').
  Proof.
    intros (c & -> & Hc) Hs. unfold log_write. apply q_out_write; [Rs|exact Hs].
  Qed.

  Lemma q_call_inner hid h s c :
    cur_rel (s_current s) c -> st_np s ->
    rq (call_inner r hid h s) (call_inner r' hid h (upd s root c)).
  Proof.
    intros Hc Hs.
    unfold call_inner, macro_inner, param_or, strict_error, rfail. su.
    repeat lazymatch goal with
    | |- rr _ ?e _ =>
        lazymatch e with
        | context [match ?y with _ => _ end] => let z := inner_scrut y in destruct z
        end
    end; leaf.
  Qed.

  (* ---------------------------------------------------------------- *)
  (** ** more tactics and small facts *)

  Ltac sx :=
    cbn [upd s_blocks s_modified s_partials s_pb_stack s_pb_depth s_local_helpers s_current s_root
         s_disable_escape s_trailing_newline s_content_produced s_indent_before_write s_indent
         s_dev s_out s_log s_esc_trace
         set_blocks set_modified set_partials set_pb_stack set_pb_depth set_local_helpers set_current
         set_disable_escape set_trailing_newline set_content_produced set_indent_before_write
         set_indent set_out set_log set_esc_trace log_entry push_block pop_block].

  Ltac Rx :=
    lazymatch goal with
    | |- R _ _ =>
        first [ assumption
              | eexists; split; [reflexivity | sx; first [assumption | left; reflexivity]] ]
    end.

  Ltac leafx :=
    cbn [outcome_rel];
    lazymatch goal with
    | |- True => exact I
    | |- _ = _ /\ R _ _ /\ st_np _ =>
        split; [reflexivity | split; [Rx | first [assumption | idtac]]]
    | |- _ = _ => reflexivity
    end.

  Lemma rr_post E {A} (x y : rres A) (g g' : rstate -> rstate) :
    rr E x y ->
    (forall s s', R s s' -> R (g s) (g' s')) ->
    (forall s, st_np s -> st_np (g s)) ->
    rr E (match x with ROk u s1 => ROk u (g s1) | RErr e s1 => RErr e (g s1) | z => z end)
         (match y with ROk u s1 => ROk u (g' s1) | RErr e s1 => RErr e (g' s1) | z => z end).
  Proof.
    intros H HR Hn. destruct x as [a s|e s|p|], y as [b s'|e' s'|q|]; cbn [outcome_rel] in H |- *;
      try contradiction; auto.
    - destruct H as (-> & H1 & H2). auto.
    - destruct H as (H1 & H2 & H3). auto.
  Qed.

  Lemma q_param_or {B} h i nm s s' (k k' : pj -> rres B) :
    R s s' -> st_np s -> (forall p, rq (k p) (k' p)) ->
    rq (param_or h i nm s k) (param_or h i nm s' k').
  Proof.
    intros HR Hs Hk. unfold param_or, rfail. destruct (nth_error (hv_params h) i); [apply Hk|].
    cbn [outcome_rel]. auto.
  Qed.

  Lemma map_front_block_upd g s c :
    map_front_block g (upd s root c) = upd (map_front_block g s) root c.
  Proof. unfold map_front_block. su. destruct (s_blocks s); reflexivity. Qed.

  Lemma map_front_block_cur g s : s_current (map_front_block g s) = s_current s.
  Proof. unfold map_front_block. destruct (s_blocks s); reflexivity. Qed.

  Lemma map_front_block_np g s : st_np s -> st_np (map_front_block g s).
  Proof. unfold map_front_block. destruct (s_blocks s); auto. Qed.

  Lemma R_each_iter h path len i key v s s' :
    R s s' -> R (each_iter_setup h path len i key v s) (each_iter_setup h path len i key v s').
  Proof.
    intros (c & -> & Hc). unfold each_iter_setup. rewrite map_front_block_upd.
    exists c. split; [reflexivity|]. rewrite map_front_block_cur. exact Hc.
  Qed.

  Lemma np_each_iter h path len i key v s : st_np s -> st_np (each_iter_setup h path len i key v s).
  Proof. apply map_front_block_np. Qed.

  Lemma local_not_state s name hid :
    st_np s -> find_local_helper s name = Some hid -> hid <> HState.
  Proof.
    intros (_ & _ & _ & Hl) Hf. unfold find_local_helper in Hf.
    destruct (map_get_Forall' _ _ _ _ Hl Hf) as [k Hk]. exact Hk.
  Qed.

  Lemma reg_not_state name hid : find_reg_helper r name = Some hid -> hid <> HState.
  Proof. intros Hf ->. exact (Hnostate _ Hf). Qed.

  (* single-run facts about the values built from a tag *)
  Lemma hft_facts rg f ht s h s1 :
    helper_from_template rg data ft f ht s = ROk h s1 ->
    hv_tpl h = h_tpl ht /\ hv_inv h = h_inv ht.
  Proof.
    destruct f as [|f]; [discriminate|]. rewrite helper_from_template_S.
    destruct (expand_as_name rg data ft f (h_name ht) s) as [nm s0| | |]; cbn [rbind]; try discriminate.
    destruct (mapM (expand_param rg data ft f) (h_params ht) s0) as [pv s2| | |]; cbn [rbind];
      try discriminate.
    destruct (mapM _ (h_hash ht) s2) as [hm s3| | |]; cbn [rbind]; try discriminate.
    intros [= <- _]. split; reflexivity.
  Qed.

  Lemma ean_static rg f p s m s1 :
    static_ne n ft p -> expand_as_name rg data ft f p s = ROk m s1 -> m <> n.
  Proof.
    destruct f as [|f]; [discriminate|]. rewrite expand_as_name_S.
    destruct p; cbn [static_ne]; intros Hne; try contradiction; intros [= <- _]; exact Hne.
  Qed.

  Lemma dft_facts rg f dt s d s1 :
    deco_from_template rg data ft f dt s = ROk d s1 ->
    dv_tpl d = d_tpl dt /\ (static_ne n ft (d_name dt) -> dv_name d <> n).
  Proof.
    destruct f as [|f]; [discriminate|]. rewrite deco_from_template_S.
    destruct (expand_as_name rg data ft f (d_name dt) s) as [nm s0| | |] eqn:Hn; cbn [rbind];
      try discriminate.
    destruct (mapM (expand_param rg data ft f) (d_params dt) s0) as [pv s2| | |]; cbn [rbind];
      try discriminate.
    destruct (mapM _ (d_hash dt) s2) as [hm s3| | |]; cbn [rbind]; try discriminate.
    intros [= <- _]. split; [reflexivity|]. cbn [dv_name]. intros Hst.
    exact (ean_static _ _ _ _ _ _ Hst Hn).
  Qed.

  (* ---------------------------------------------------------------- *)
  (** ** the simulation statement *)

  Notation sim_at := (CrossGroupSpec.sim_at n ft data r T' S' root).

  Lemma sim_0 : sim_at 0.
  Proof. constructor; intros; exact I. Qed.

  Section Step.
    Variable f : nat.
    Hypothesis IH : sim_at f.

    Lemma s_rt t s s' : npt t -> R s s' -> st_np s ->
      rq (render_template r data ft (S f) t s) (render_template r' data ft (S f) t s').
    Proof.
      intros Ht (c & -> & Hc) Hs. rewrite !render_template_S. apply rr_bind.
      - apply rr_fold_idx; [|Rx|exact Hs]. intros e i s1 s1' Hin HR1 Hs1.
        eapply rr_rmap_err; [|intros ? ? ->; reflexivity].
        apply (sim_re IH); auto. apply np_template_els in Ht. rewrite Forall_forall in Ht. auto.
      - intros _ s1 s1' _ (c1 & -> & Hc1) Hs1. leafx.
    Qed.

    Lemma s_et t s s' : npt t -> R s s' -> st_np s ->
      rq (eval_template r data ft (S f) t s) (eval_template r' data ft (S f) t s').
    Proof.
      intros Ht HR Hs. rewrite !eval_template_S.
      apply rr_fold_idx; [|exact HR|exact Hs]. intros e i s1 s1' Hin HR1 Hs1.
      eapply rr_rmap_err; [|intros ? ? ->; reflexivity].
      apply (sim_ee IH); auto. apply np_template_els in Ht. rewrite Forall_forall in Ht. auto.
    Qed.

    Lemma s_or t s s' : npo t -> R s s' -> st_np s ->
      rq (opt_render r data ft (S f) t s) (opt_render r' data ft (S f) t s').
    Proof.
      intros Ht HR Hs. rewrite !opt_render_S. destruct t as [t|]; [apply (sim_rt IH); auto|].
      cbn [outcome_rel]. auto.
    Qed.

    Lemma s_re e s s' : npe e -> R s s' -> st_np s ->
      rq (render_element r data ft (S f) e s) (render_element r' data ft (S f) e s').
    Proof.
      intros He HR Hs. rewrite !render_element_S. destruct e; cbn [np_element] in He.
      - apply q_indent_aware_write; auto.
      - apply (sim_rx IH); auto.
      - apply (sim_rx IH); auto.
      - apply (sim_rh IH); auto.
      - apply (sim_ed IH); auto.
      - apply (sim_ed IH); auto.
      - destruct He. apply (sim_rp IH); auto.
      - destruct He. apply (sim_rp IH); auto.
      - cbn [outcome_rel]. auto.
    Qed.

    Lemma s_ee e s s' : npe e -> R s s' -> st_np s ->
      rq (eval_element r data ft (S f) e s) (eval_element r' data ft (S f) e s').
    Proof.
      intros He HR Hs. rewrite !eval_element_S.
      destruct e; cbn [np_element] in He; try (cbn [outcome_rel]; auto; fail); apply (sim_ed IH); auto.
    Qed.

    Lemma s_ean p s s' : npp p -> R s s' -> st_np s ->
      rq (expand_as_name r data ft (S f) p s) (expand_as_name r' data ft (S f) p s').
    Proof.
      intros Hp HR Hs. rewrite !expand_as_name_S. destruct p; try (cbn [outcome_rel]; auto; fail).
      apply rr_bind; [apply (sim_ep IH); auto|]. intros v s1 s1' _ HR1 Hs1. cbn [outcome_rel]. auto.
    Qed.

    Lemma hash_step (l : list (str * param)) s s' :
      Forall (fun kv => npp (snd kv)) l -> R s s' -> st_np s ->
      rq (mapM (fun kv s0 => rbind (expand_param r data ft f (snd kv) s0)
                                   (fun v s1 => ROk (fst kv, v) s1)) l s)
         (mapM (fun kv s0 => rbind (expand_param r' data ft f (snd kv) s0)
                                   (fun v s1 => ROk (fst kv, v) s1)) l s').
    Proof.
      intros Hl HR Hs. apply rr_mapM; auto. intros kv t t' Hin HRt Hst.
      apply rr_bind; [apply (sim_ep IH); auto; rewrite Forall_forall in Hl; auto|].
      intros v s1 s1' _ HR1 Hs1. cbn [outcome_rel]. auto.
    Qed.

    Lemma params_step (l : list param) s s' :
      Forall npp l -> R s s' -> st_np s ->
      rq (mapM (expand_param r data ft f) l s) (mapM (expand_param r' data ft f) l s').
    Proof.
      intros Hl HR Hs. apply rr_mapM; auto. intros p t t' Hin HRt Hst.
      apply (sim_ep IH); auto. rewrite Forall_forall in Hl; auto.
    Qed.

    Lemma s_hft ht s s' : nph ht -> R s s' -> st_np s ->
      rq (helper_from_template r data ft (S f) ht s) (helper_from_template r' data ft (S f) ht s').
    Proof.
      intros Hh HR Hs. rewrite !helper_from_template_S.
      apply np_helper_proj in Hh. destruct Hh as (Hn & Hps & Hhs & _ & _).
      apply rr_bind; [apply (sim_ean IH); auto|]. intros nm s1 s1' _ HR1 Hs1.
      apply rr_bind; [apply params_step; auto|]. intros pv s2 s2' _ HR2 Hs2.
      apply rr_bind; [apply hash_step; auto|]. intros hm s3 s3' _ HR3 Hs3.
      cbn [outcome_rel]. auto.
    Qed.

    Lemma s_dft dt s s' : npd dt -> R s s' -> st_np s ->
      rq (deco_from_template r data ft (S f) dt s) (deco_from_template r' data ft (S f) dt s').
    Proof.
      intros Hd HR Hs. rewrite !deco_from_template_S.
      apply np_deco_proj in Hd. destruct Hd as (Hn & Hps & Hhs & _).
      apply rr_bind; [apply (sim_ean IH); auto|]. intros nm s1 s1' _ HR1 Hs1.
      apply rr_bind; [apply params_step; auto|]. intros pv s2 s2' _ HR2 Hs2.
      apply rr_bind; [apply hash_step; auto|]. intros hm s3 s3' _ (c3 & -> & Hc3) Hs3.
      leafx.
    Qed.

    (* the three-level lookup of a helper, followed by the same continuation *)
    Lemma dispatch_step {B} name blk s c (k k' : helper_id -> rres B) (nf nf' : rres B) :
      st_np s ->
      (forall hid, hid <> HState -> rq (k hid) (k' hid)) -> rq nf nf' ->
      rq (match find_local_helper s name with
          | Some hid => k hid
          | None => match find_reg_helper r name with
                    | Some hid => k hid
                    | None => match find_reg_helper r (if blk : bool then BLOCK_HELPER_MISSING
                                                        else HELPER_MISSING) with
                              | Some hid => k hid
                              | None => nf
                              end
                    end
          end)
         (match find_local_helper (upd s root c) name with
          | Some hid => k' hid
          | None => match find_reg_helper r' name with
                    | Some hid => k' hid
                    | None => match find_reg_helper r' (if blk then BLOCK_HELPER_MISSING
                                                         else HELPER_MISSING) with
                              | Some hid => k' hid
                              | None => nf'
                              end
                    end
          end).
    Proof.
      intros Hs Hk Hnf.
      change (find_local_helper (upd s root c) name) with (find_local_helper s name).
      change (find_reg_helper r' name) with (find_reg_helper r name).
      change (find_reg_helper r' (if blk then BLOCK_HELPER_MISSING else HELPER_MISSING))
        with (find_reg_helper r (if blk then BLOCK_HELPER_MISSING else HELPER_MISSING)).
      destruct (find_local_helper s name) as [hid|] eqn:Hl.
      { apply Hk. exact (local_not_state _ _ _ Hs Hl). }
      destruct (find_reg_helper r name) as [hid|] eqn:Hr1.
      { apply Hk. exact (reg_not_state _ _ Hr1). }
      destruct (find_reg_helper r (if blk then BLOCK_HELPER_MISSING else HELPER_MISSING)) as [hid|] eqn:Hr2.
      { apply Hk. exact (reg_not_state _ _ Hr2). }
      exact Hnf.
    Qed.

    Lemma s_ep p s s' : npp p -> R s s' -> st_np s ->
      rq (expand_param r data ft (S f) p s) (expand_param r' data ft (S f) p s').
    Proof.
      intros Hp HR Hs. rewrite !expand_param_S. destruct p as [m|pa|j|el].
      - cbn [outcome_rel]. auto.
      - destruct HR as (c & -> & Hc). dm.
        + apply rr_bind; [apply q_evaluate2; [Rx|exact Hs]|]. intros v s1 s1' _ HR1 Hs1. cbn [outcome_rel]. auto.
        + apply rr_bind; [apply q_evaluate2; [Rx|exact Hs]|]. intros v s1 s1' _ HR1 Hs1. cbn [outcome_rel]. auto.
      - cbn [outcome_rel]. auto.
      - destruct el; try (cbn [outcome_rel]; reflexivity). cbn [np_param np_element] in Hp.
        pose proof Hp as Hp'. apply np_helper_proj in Hp'. destruct Hp' as (Hn & _ & _ & Ht & Hi).
        apply rr_bind; [apply (sim_ean IH); auto|]. intros nm s1 s1' _ HR1 Hs1.
        apply rr_bind; [apply (sim_hft IH); auto|]. intros hv s2 s2' Hx (c2 & -> & Hc2) Hs2.
        destruct (hft_facts _ _ _ _ _ _ Hx) as (Etpl & Einv).
        apply dispatch_step; [exact Hs2| |unfold rfail; leafx].
        intros hid Hhid. apply (sim_chv IH); auto; try Rx; rewrite ?Etpl, ?Einv; assumption.
    Qed.

    Lemma escape_write content s c :
      cur_rel (s_current s) c -> st_np s ->
      rq (let '(output, s3) := do_escape r content s in indent_aware_write output s3)
         (let '(output, s3) := do_escape r' content (upd s root c) in indent_aware_write output s3).
    Proof.
      intros Hc Hs. destruct (q_do_escape content s c Hc Hs) as (H1 & H2 & H3).
      destruct (do_escape r content s) as [o s3], (do_escape r' content (upd s root c)) as [o' s3'].
      cbn [fst snd] in *. subst o'. apply q_indent_aware_write; assumption.
    Qed.

    Lemma s_rh ht s s' : nph ht -> R s s' -> st_np s ->
      rq (render_helper r data ft (S f) ht s) (render_helper r' data ft (S f) ht s').
    Proof.
      intros Hh HR Hs. rewrite !render_helper_S. cbv zeta.
      pose proof Hh as Hh'. apply np_helper_proj in Hh'. destruct Hh' as (_ & _ & _ & Ht & Hi).
      apply rr_bind; [apply (sim_hft IH); auto|]. intros hv s1 s1' Hx (c1 & -> & Hc1) Hs1.
      destruct (hft_facts _ _ _ _ _ _ Hx) as (Etpl & Einv).
      apply dispatch_step; [exact Hs1| |unfold rfail; leafx].
      intros hid Hhid. apply rr_bind.
      - apply (sim_ch IH); auto; try Rx; rewrite ?Etpl, ?Einv; assumption.
      - intros _ s2 s2' _ (c2 & -> & Hc2) Hs2. dm; leafx.
    Qed.

    Lemma s_rx ht html s s' : nph ht -> R s s' -> st_np s ->
      rq (render_expression r data ft (S f) ht html s) (render_expression r' data ft (S f) ht html s').
    Proof.
      intros Hh (c & -> & Hc) Hs. rewrite !render_expression_S. cbv zeta.
      pose proof Hh as Hh'. apply np_helper_proj in Hh'. destruct Hh' as (Hn & _).
      assert (H0 : R (if html then set_disable_escape s true else s)
                     (if html then set_disable_escape (upd s root c) true else upd s root c)).
      { destruct html; Rx. }
      assert (H0' : st_np (if html then set_disable_escape s true else s)).
      { destruct html; exact Hs. }
      apply rr_post.
      - destruct (is_name_only ht); [|apply (sim_rh IH); auto].
        apply rr_bind; [apply (sim_ean IH); auto|]. intros nm s1 s1' _ (c1 & -> & Hc1) Hs1.
        change (helper_exists r' (upd s1 root c1) nm) with (helper_exists r s1 nm).
        destruct (helper_exists r s1 nm); [apply (sim_rh IH); auto; Rx|].
        apply rr_bind; [apply (sim_ep IH); auto; Rx|]. intros cj s2 s2' _ (c2 & -> & Hc2) Hs2.
        destruct (sc_missing (pj_val cj)).
        + change (r_strict r') with (r_strict r). destruct (r_strict r); [unfold strict_error, rfail; leafx|].
          change (find_reg_helper r' HELPER_MISSING) with (find_reg_helper r HELPER_MISSING).
          destruct (find_reg_helper r HELPER_MISSING) as [hook|] eqn:Hhook; [|leafx].
          apply rr_bind; [apply (sim_hft IH); auto; Rx|]. intros hv s3 s3' Hx HR3 Hs3.
          destruct (hft_facts _ _ _ _ _ _ Hx) as (Etpl & Einv).
          apply np_helper_proj in Hh. destruct Hh as (_ & _ & _ & Ht & Hi).
          apply (sim_ch IH); auto; [exact (reg_not_state _ _ Hhook)| |]; rewrite ?Etpl, ?Einv; assumption.
        + apply escape_write; assumption.
      - intros t t' (ct & -> & Hct). destruct html; Rx.
      - intros t Ht. destruct html; exact Ht.
    Qed.

    Lemma s_chv hid h s s' : hid <> HState -> npo (hv_tpl h) -> npo (hv_inv h) -> R s s' -> st_np s ->
      rq (call_helper_for_value r data ft (S f) hid h s) (call_helper_for_value r' data ft (S f) hid h s').
    Proof.
      intros Hhid Ht Hi (c & -> & Hc) Hs. rewrite !call_helper_for_value_S. cbv zeta.
      pose proof (q_call_inner hid h s c Hc Hs) as Hci.
      destruct (call_inner r hid h s) as [v s1|e s1|p|],
               (call_inner r' hid h (upd s root c)) as [v' s1'|e' s1'|p'|];
        cbn [outcome_rel] in Hci; try contradiction.
      - destruct Hci as (<- & HR1 & Hs1). cbn [outcome_rel]. auto.
      - destruct Hci as (<- & (c1 & -> & Hc1) & Hs1).
        destruct (is_unimplemented e); [|leafx].
        assert (Hch : rq (call_helper r data ft f hid h
                            (set_disable_escape (set_out s1 (out_new None)) true))
                         (call_helper r' data ft f hid h
                            (set_disable_escape (set_out (upd s1 root c1) (out_new None)) true))).
        { apply (sim_ch IH); auto. Rx. }
        destruct (call_helper r data ft f hid h (set_disable_escape (set_out s1 (out_new None)) true))
          as [u s3|e3 s3|p3|],
          (call_helper r' data ft f hid h
             (set_disable_escape (set_out (upd s1 root c1) (out_new None)) true))
          as [u' s3'|e3' s3'|p3'|]; cbn [outcome_rel] in Hch; try contradiction.
        + destruct Hch as (_ & (c3 & -> & Hc3) & Hs3). leafx.
        + destruct Hch as (<- & (c3 & -> & Hc3) & Hs3). leafx.
        + exact Hch.
        + exact I.
      - exact Hci.
      - exact I.
    Qed.

    Lemma s_ch hid h s s' : hid <> HState -> npo (hv_tpl h) -> npo (hv_inv h) -> R s s' -> st_np s ->
      rq (call_helper r data ft (S f) hid h s) (call_helper r' data ft (S f) hid h s').
    Proof.
      intros Hhid Ht Hi HR Hs. rewrite !call_helper_S.
      destruct (has_call_inner hid) eqn:Hci0.
      { destruct HR as (c & -> & Hc).
        pose proof (q_call_inner hid h s c Hc Hs) as Hci.
        destruct (call_inner r hid h s) as [v s1|e s1|p|],
                 (call_inner r' hid h (upd s root c)) as [v' s1'|e' s1'|p'|];
          cbn [outcome_rel] in Hci; try contradiction.
        - destruct Hci as (<- & (c1 & -> & Hc1) & Hs1).
          change (r_strict r') with (r_strict r).
          destruct (r_strict r && sc_missing v)%bool; [unfold strict_error, rfail; leafx|].
          apply escape_write; assumption.
        - destruct Hci as (<- & (c1 & -> & Hc1) & Hs1). destruct (is_unimplemented e); leafx.
        - exact Hci.
        - exact I. }
      assert (Hor : forall o t t', npo o -> R t t' -> st_np t ->
                rq (opt_render r data ft f o t) (opt_render r' data ft f o t')).
      { intros. apply (sim_or IH); auto. }
      assert (Hrt : forall o t t', npt o -> R t t' -> st_np t ->
                rq (render_template r data ft f o t) (render_template r' data ft f o t')).
      { intros. apply (sim_rt IH); auto. }
      destruct hid; try discriminate Hci0.
      - (* if *)
        apply q_param_or; auto. intros p. apply Hor; auto. destruct (is_truthy _ _); assumption.
      - (* unless *)
        apply q_param_or; auto. intros p. apply Hor; auto. destruct (negb (is_truthy _ _)); assumption.
      - (* each *)
        apply q_param_or; auto. intros value. destruct (hv_tpl h) as [t|] eqn:Etpl; [|cbn [outcome_rel]; auto].
        cbn [np_opt] in Ht. cbv zeta.
        assert (Hother : rq (match hv_inv h with
                             | Some et => render_template r data ft f et s
                             | None => if r_strict r then strict_error (pj_rel value) s else ROk tt s
                             end)
                            (match hv_inv h with
                             | Some et => render_template r' data ft f et s'
                             | None => if r_strict r' then strict_error (pj_rel value) s' else ROk tt s'
                             end)).
        { destruct (hv_inv h) as [et|]; [apply Hrt; auto|].
          change (r_strict r') with (r_strict r). destruct (r_strict r); cbn [outcome_rel strict_error rfail]; auto. }
        destruct (pj_value value) as [| | | |l|m]; try exact Hother.
        + destruct (negb (Nat.eqb (length l) 0) || match hv_inv h with None => true | Some _ => false end)%bool;
            [|exact Hother].
          apply rr_bind.
          * apply rr_fold_idx.
            -- intros v i t1 t1' _ HR1 Hs1. apply Hrt; auto; [apply R_each_iter|apply np_each_iter]; auto.
            -- destruct HR as (c & -> & Hc). Rx.
            -- exact Hs.
          * intros _ s1 s1' _ (c1 & -> & Hc1) Hs1. leafx.
        + destruct (negb (Nat.eqb (length m) 0) || match hv_inv h with None => true | Some _ => false end)%bool;
            [|exact Hother].
          apply rr_bind.
          * apply rr_fold_idx.
            -- intros v i t1 t1' _ HR1 Hs1. apply Hrt; auto; [apply R_each_iter|apply np_each_iter]; auto.
            -- destruct HR as (c & -> & Hc). Rx.
            -- exact Hs.
          * intros _ s1 s1' _ (c1 & -> & Hc1) Hs1. leafx.
      - (* with *)
        apply q_param_or; auto. intros param. destruct (is_truthy false (pj_value param)).
        + cbv zeta. apply rr_bind.
          * apply Hor; auto. destruct HR as (c & -> & Hc). Rx.
          * intros _ s1 s1' _ (c1 & -> & Hc1) Hs1. leafx.
        + destruct (hv_inv h) as [t|]; [apply Hrt; auto|].
          change (r_strict r') with (r_strict r). destruct (r_strict r); cbn [outcome_rel strict_error rfail]; auto.
      - (* raw *) apply Hor; auto.
      - (* log *)
        cbv zeta. destruct (valid_log_level _); cbn [outcome_rel rfail]; auto.
      - (* dump *) apply q_log_write; auto.
      - (* blk *)
        apply rr_bind; [apply q_out_write; [destruct HR as (c & -> & Hc); Rx|exact Hs]|].
        intros _ s1 s1' _ HR1 Hs1. apply rr_bind; [apply Hor; auto|].
        intros _ s2 s2' _ HR2 Hs2. apply rr_bind; [apply q_out_write; auto|].
        intros _ s3 s3' _ HR3 Hs3. apply rr_bind; [apply Hor; auto|].
        intros _ s4 s4' _ HR4 Hs4. apply q_out_write; auto.
      - (* cnt *) destruct HR as (c & -> & Hc). leafx.
      - (* state *) contradiction.
      - (* evalp *)
        destruct (hv_params h) as [|p ps]; [cbn [outcome_rel rfail]; auto|].
        destruct (pj_value p); try (cbn [outcome_rel rfail]; auto; fail).
        apply rr_bind; [apply q_evaluate; auto|]. intros v s1 s1' _ HR1 Hs1. apply q_log_write; auto.
      - (* fail *) cbn [outcome_rel rfail]; auto.
      - (* helperMissing *) apply q_log_write; auto.
      - (* blockHelperMissing *)
        apply rr_bind; [apply q_log_write; auto|]. intros _ s1 s1' _ HR1 Hs1. apply Hor; auto.
      - (* local *)
        cbv zeta. destruct (starts_with (`"c:") name).
        { (* the capture bracket *)
          destruct HR as (c & -> & Hc).
          destruct (hv_tpl h) as [t|] eqn:Et; [|leafx].
          cbn [np_opt] in Ht.
          match goal with
          | |- outcome_rel _ _ _ _ (match ?x with ROk _ _ => _ | _ => _ end)
                                   (match ?y with ROk _ _ => _ | _ => _ end) =>
              assert (Hcap : rq x y) by (apply Hrt; [exact Ht|Rx|exact Hs]);
              destruct x as [u s2|e2 s2|p2|], y as [u' s2'|e2' s2'|p2'|];
                cbn [outcome_rel] in Hcap; try contradiction
          end.
          - destruct Hcap as (_ & (c2 & -> & Hc2) & Hs2).
            apply rr_bind; [apply q_out_write; [Rx|exact Hs2]|]. intros _ s3 s3' _ HR3 Hs3.
            apply rr_bind; [apply q_out_write; [exact HR3|exact Hs3]|]. intros _ s4 s4' _ HR4 Hs4.
            apply q_out_write; assumption.
          - destruct Hcap as (<- & (c2 & -> & Hc2) & Hs2). leafx.
          - exact Hcap.
          - exact I. }
        destruct (starts_with (`"f:") name).
        { apply q_out_write; [destruct HR as (c & -> & Hc); Rx|exact Hs]. }
        destruct (starts_with (`"w:") name).
        { apply q_out_write; [destruct HR as (c & -> & Hc); Rx|exact Hs]. }
        destruct (starts_with (`"e:") name); [|apply q_log_write; auto].
        destruct HR as (c & -> & Hc).
        match goal with
        | |- context [log_entry (upd s root c) ?x] =>
            change (log_entry (upd s root c) x) with (upd (log_entry s x) root c)
        end.
        match goal with
        | |- outcome_rel _ _ _ _ (let '(_, _) := do_escape r ?txt ?t in _) _ =>
            destruct (q_do_escape txt t c Hc Hs) as (H1 & H2 & H3);
            destruct (do_escape r txt t) as [o s3], (do_escape r' txt (upd t root c)) as [o' s3']
        end.
        cbn [fst snd] in *. subst o'. apply q_out_write; assumption.
    Qed.

    Lemma s_ed dt s s' : npd dt -> R s s' -> st_np s ->
      rq (eval_decorator r data ft (S f) dt s) (eval_decorator r' data ft (S f) dt s').
    Proof.
      intros Hd HR Hs. rewrite !eval_decorator_S.
      pose proof Hd as Hd'. apply np_deco_proj in Hd'. destruct Hd' as (_ & _ & _ & Ht).
      apply rr_bind; [apply (sim_dft IH); auto|]. intros d s1 s1' Hx (c1 & -> & Hc1) Hs1.
      destruct (dft_facts _ _ _ _ _ _ Hx) as (Etpl & _).
      change (r_decorators r') with (r_decorators r).
      destruct (map_get (r_decorators r) (dv_name d)) as [[| |]|]; unfold rfail.
      - destruct (dv_params d) as [|p ps]; [leafx|]. destruct (pj_value p); try leafx.
        destruct (dv_tpl d) as [t|] eqn:Et; [|leafx]. leafx.
        destruct Hs1 as (H1 & H2 & H3 & H4). repeat split; try assumption.
        cbn [s_partials set_partials]. apply map_insert_Forall'; [exact H1|]. cbn [snd].
        rewrite <- Etpl in Ht. exact Ht.
      - destruct (dv_params d) as [|p ps]; [leafx|]. destruct (pj_value p); try leafx.
        destruct Hs1 as (H1 & H2 & H3 & H4). repeat split; try assumption.
        cbn [s_local_helpers set_local_helpers]. apply map_insert_Forall'; [exact H4|]. cbn [snd].
        discriminate.
      - destruct (dv_params d) as [|p ps]; leafx.
      - leafx.
    Qed.

    Lemma s_rp dt s s' : static_ne n ft (d_name dt) -> npd dt -> R s s' -> st_np s ->
      rq (render_partial r data ft (S f) dt s) (render_partial r' data ft (S f) dt s').
    Proof.
      intros Hst Hd HR Hs. rewrite !render_partial_S. cbv zeta.
      pose proof Hd as Hd'. apply np_deco_proj in Hd'. destruct Hd' as (_ & _ & _ & Ht).
      apply rr_bind; [apply (sim_dft IH); auto|]. intros d s1 s1' Hx (c1 & -> & Hc1) Hs1.
      destruct (dft_facts _ _ _ _ _ _ Hx) as (Etpl & Hname).
      apply rr_bind.
      - apply (sim_xp IH); auto; [rewrite Etpl; exact Ht|Rx].
      - intros _ s3 s3' _ (c3 & -> & Hc3) Hs3. dm; leafx.
    Qed.

    Lemma get_partial_np s name p : st_np s -> get_partial s name = Some p -> npt p.
    Proof.
      intros (H1 & H2 & _) Hg. unfold get_partial in Hg. destruct (str_eqb name PARTIAL_BLOCK).
      - unfold current_pb in Hg.
        destruct (_ || _)%bool; [discriminate|].
        destruct (nth_error (s_pb_stack s) _) as [[t z]|] eqn:Hn; [|discriminate].
        injection Hg as <-. apply nth_error_In in Hn. rewrite Forall_forall in H2. exact (H2 _ Hn).
      - destruct (map_get_Forall' _ _ _ _ H1 Hg) as [k Hk]. exact Hk.
    Qed.

    Lemma found_np s d p :
      st_np s -> dv_name d <> n -> npo (dv_tpl d) ->
      match get_partial s (dv_name d) with
      | Some p => Some p
      | None =>
          match (match s_dev s with Some dm => map_get dm (dv_name d) | None => None end) with
          | Some p => Some p
          | None => match map_get (r_templates r) (dv_name d) with
                    | Some p => Some p
                    | None => dv_tpl d
                    end
          end
      end = Some p -> npt p.
    Proof.
      intros Hs Hne Ht. destruct (get_partial s (dv_name d)) as [q|] eqn:Hg.
      { intros [= <-]. exact (get_partial_np _ _ _ Hs Hg). }
      destruct Hs as (_ & _ & H3 & _).
      destruct (s_dev s) as [dm|].
      - destruct (map_get dm (dv_name d)) as [q|] eqn:Hd.
        { intros [= <-]. destruct (map_get_Forall' _ _ _ _ H3 Hd) as [k Hk]. exact Hk. }
        destruct (map_get (r_templates r) (dv_name d)) as [q|] eqn:Hr.
        { intros [= <-]. exact (Hreg _ _ Hne Hr). }
        intros Hd'. rewrite Hd' in Ht. exact Ht.
      - destruct (map_get (r_templates r) (dv_name d)) as [q|] eqn:Hr.
        { intros [= <-]. exact (Hreg _ _ Hne Hr). }
        intros Hd'. rewrite Hd' in Ht. exact Ht.
    Qed.

    Lemma s_xp d s s' : dv_name d <> n -> npo (dv_tpl d) -> R s s' -> st_np s ->
      rq (expand_partial r data ft (S f) d s) (expand_partial r' data ft (S f) d s').
    Proof.
      intros Hne Ht HR Hs. rewrite !expand_partial_S. cbv zeta.
      apply rr_bind.
      { destruct (dv_tpl d) as [t|]; [apply (sim_et IH); auto | cbn [outcome_rel]; auto]. }
      intros _ s1 s1' _ (c1 & -> & Hc1) Hs1.
      change (r_templates r') with T'. rewrite (HT _ Hne).
      change (s_current (upd s1 root c1)) with c1.
      assert (Hchk : match c1 with Some c => str_eqb c (dv_name d) | None => false end
                     = match s_current s1 with Some c => str_eqb c (dv_name d) | None => false end).
      { destruct Hc1 as [<- | [-> ->]]; [reflexivity|]. apply str_eqb_neq. congruence. }
      rewrite Hchk.
      destruct (match s_current s1 with Some c => str_eqb c (dv_name d) | None => false end);
        [unfold rfail; leafx|].
      dme Hfound; [|unfold rfail; leafx].
      pose proof (found_np _ _ _ Hs1 Hne Ht Hfound) as Hp.
      match goal with
      | |- rr _ (rbind (match _ with [] => _ | _ :: _ => _ end) _) _ => idtac
      end.
      match goal with
      | |- rr _ (rbind ?x _) (rbind ?y _) => assert (Hm : rq x y)
      end.
      { assert (H2 : R (if str_eqb (dv_name d) PARTIAL_BLOCK
                         then match current_pb s1 with Some (_, d0) => set_pb_depth s1 d0 | None => s1 end
                         else s1)
                        (if str_eqb (dv_name d) PARTIAL_BLOCK
                         then match current_pb (upd s1 root c1) with
                              | Some (_, d0) => set_pb_depth (upd s1 root c1) d0
                              | None => upd s1 root c1
                              end
                         else upd s1 root c1)
                     /\ st_np (if str_eqb (dv_name d) PARTIAL_BLOCK
                               then match current_pb s1 with Some (_, d0) => set_pb_depth s1 d0 | None => s1 end
                               else s1)).
        { destruct (str_eqb (dv_name d) PARTIAL_BLOCK); [|split; [Rx|exact Hs1]].
          change (current_pb (upd s1 root c1)) with (current_pb s1).
          destruct (current_pb s1) as [[t0 d0]|]; split; first [Rx|exact Hs1]. }
        destruct H2 as [HR2 Hs2].
        destruct (dv_params d) as [|p ps].
        - apply rr_bind; [apply q_evaluate2; auto|]. intros v s3 s3' _ HR3 Hs3. cbn [outcome_rel]; auto.
        - destruct (pj_rel p).
          + apply rr_bind; [apply q_evaluate; auto|]. intros v s3 s3' _ HR3 Hs3. cbn [outcome_rel]; auto.
          + cbn [outcome_rel]; auto. }
      apply rr_bind; [exact Hm|]. clear Hm.
      intros merged s3 s3' _ (c3 & -> & Hc3) Hs3.
      match goal with
      | |- rr _ (match ?x with ROk _ _ => _ | _ => _ end) (match ?y with ROk _ _ => _ | _ => _ end) =>
          assert (Hrt : rq x y)
      end.
      { apply (sim_rt IH); [exact Hp| |].
        - destruct (dv_tpl d); Rx.
        - destruct Hs3 as (H1 & H2 & H3 & H4). destruct (dv_tpl d) as [pb|]; repeat split; try assumption.
          cbn [np_opt] in Ht. sx. constructor; [exact Ht|exact H2]. }
      match goal with
      | |- rr _ (match ?x with ROk _ _ => _ | _ => _ end) (match ?y with ROk _ _ => _ | _ => _ end) =>
          destruct x as [u s7|e7 s7|p7|], y as [u' s7'|e7' s7'|p7'|]; cbn [outcome_rel] in Hrt; try contradiction
      end.
      - destruct Hrt as (<- & (c7 & -> & Hc7) & Hs7). cbn [outcome_rel]. split; [reflexivity|]. split.
        + destruct (dv_tpl d); Rx.
        + destruct Hs7 as (H1 & H2 & H3 & H4). destruct (dv_tpl d); repeat split; try assumption.
          sx. apply Forall_tl'. exact H2.
      - destruct Hrt as (<- & (c7 & -> & Hc7) & Hs7). cbn [outcome_rel]. split; [reflexivity|]. split.
        + destruct (dv_tpl d); Rx.
        + destruct Hs7 as (H1 & H2 & H3 & H4). destruct (dv_tpl d); repeat split; try assumption.
          sx. apply Forall_tl'. exact H2.
      - exact Hrt.
      - exact I.
    Qed.

    Lemma sim_step : sim_at (S f).
    Proof.
      constructor.
      - exact s_rt. - exact s_et. - exact s_or. - exact s_re. - exact s_ee. - exact s_rx.
      - exact s_rh. - exact s_hft. - exact s_dft. - exact s_ean. - exact s_ep. - exact s_chv.
      - exact s_ch. - exact s_ed. - exact s_rp. - exact s_xp.
    Qed.
  End Step.

  Theorem sim_all : forall f, sim_at f.
  Proof. induction f as [|f IH]; [exact sim_0 | exact (sim_step f IH)]. Qed.
End Sim.

(* ====================================================================== *)
(** * The root template: unnamed against named n *)

Lemma attach_render_root n t idx e :
  t_name t = None ->
  attach_render (t_set_name t (Some n)) idx e = root_named n (attach_render t idx e).
Proof.
  intros Hn. unfold attach_render, attach_pos, root_named. rewrite Hn.
  replace (t_map (t_set_name t (Some n))) with (t_map t) by (destruct t; reflexivity).
  replace (t_name (t_set_name t (Some n))) with (Some n) by (destruct t; reflexivity).
  destruct e as [rs tp ln cl]. cbn [e_line e_tpl e_reason e_col].
  destruct ln as [l|].
  - destruct tp; reflexivity.
  - destruct (nth_error (t_map t) idx) as [[l c]|]; cbn [e_line e_tpl e_reason e_col];
      destruct tp; reflexivity.
Qed.

Section Root.
  Variables (n : str) (ft : ftable) (data : json) (r : registry).
  Variables (T' : list (str * template)) (S' : list (str * str)) (root : option str).
  Hypothesis HT : forall m, m <> n -> map_get T' m = map_get (r_templates r) m.
  Hypothesis Hreg : np_registry n ft r.
  Hypothesis Hnostate : no_state_probe r.

  (* the two renders of the root: same outcome kind, related final states
     (same writer, log, everything but s_root / s_current), and an error of the
     named run is the error of the unnamed run with the root's name filled in *)
  Theorem root_simulation : forall fuel t s c,
    t_name t = None -> np_template n ft t -> st_np n ft s ->
    cur_rel n (s_current s) c ->
    outcome_rel n ft root (fun e e' => e' = root_named n e)
       (render_template r data ft fuel t s)
       (render_template (reg_with r T' S') data ft fuel (t_set_name t (Some n)) (upd s root c)).
  Proof.
    intros fuel t s c Hn Ht Hs Hc. destruct fuel as [|f]; [exact I|].
    rewrite !render_template_S.
    replace (t_els (t_set_name t (Some n))) with (t_els t) by (destruct t; reflexivity).
    replace (t_name (t_set_name t (Some n))) with (Some n) by (destruct t; reflexivity).
    rewrite Hn. apply rr_bind.
    - apply rr_fold_idx.
      + intros e i s1 s1' Hin HR1 Hs1.
        eapply rr_rmap_err.
        * pose proof (sim_all n ft data r T' S' root HT Hreg Hnostate f) as IHf.
          eapply sim_re; [exact IHf| |exact HR1|exact Hs1].
          apply np_template_els in Ht. rewrite Forall_forall in Ht. auto.
        * intros e0 e0' <-. apply attach_render_root. exact Hn.
      + exists (Some n). split; [reflexivity|]. right. split; reflexivity.
      + exact Hs.
    - intros _ s1 s1' _ (c1 & -> & Hc1) Hs1. cbn [outcome_rel]. split; [reflexivity|]. split; [|exact Hs1].
      exists c. split; [reflexivity|exact Hc].
  Qed.

  Theorem root_observation : forall fuel t s c,
    t_name t = None -> np_template n ft t -> st_np n ft s ->
    cur_rel n (s_current s) c ->
    finish_render (render_template (reg_with r T' S') data ft fuel (t_set_name t (Some n)) (upd s root c))
    = name_root n (finish_render (render_template r data ft fuel t s)).
  Proof.
    intros fuel t s c Hn Ht Hs Hc.
    pose proof (root_simulation fuel t s c Hn Ht Hs Hc) as H.
    destruct (render_template r data ft fuel t s) as [u s1|e s1|p|],
             (render_template (reg_with r T' S') data ft fuel (t_set_name t (Some n)) (upd s root c))
             as [u' s1'|e' s1'|p'|]; cbn [outcome_rel] in H; try contradiction; cbn [finish_render name_root].
    - destruct H as (_ & (c1 & -> & _) & _). reflexivity.
    - destruct H as (-> & (c1 & -> & _) & _). reflexivity.
    - reflexivity.
    - reflexivity.
  Qed.
End Root.

(* ====================================================================== *)
(** * The entry points *)

Lemma st_np_init n ft rt dev fa :
  match dev with Some dm => Forall (fun kv : str * template => np_template n ft (snd kv)) dm | None => True end ->
  st_np n ft (st_init rt dev fa).
Proof. intros H. unfold st_np, st_init. cbn. repeat split; auto. Qed.

Theorem cross_named_string : forall r fs ft n src data fa t,
  r_dev r = false ->
  compile2 src (reg_opts r None) = COk t ->
  np_template n ft t -> np_registry n ft r -> no_state_probe r ->
  render_named (register_template r n (t_set_name t (Some n))) fs ft n data fa
  = name_root n (render_string r fs ft src data fa).
Proof.
  intros r fs ft n src data fa t Hd Hc Ht Hreg Hst.
  assert (Hn : t_name t = None) by (apply (compile2_root_name _ _ _ Hc)).
  unfold render_named, get_or_load_template, get_or_load_template_optional, render_string.
  rewrite Hc.
  change (r_dev (register_template r n (t_set_name t (Some n)))) with (r_dev r). rewrite Hd.
  unfold register_template at 1. cbn [reg_with r_templates]. rewrite map_get_insert_eq.
  cbn [option_map]. unfold render_resolved.
  change (r_dev (register_template r n (t_set_name t (Some n)))) with (r_dev r). rewrite Hd.
  cbn [negb]. rewrite t_name_set, Hn.
  change (render_fuel _ (t_set_name t (Some n))) with (render_fuel r t).
  change (st_init (Some n) None fa) with (upd (st_init None None fa) (Some n) None).
  unfold register_template.
  apply root_observation; auto.
  - intros m Hm. apply map_get_insert_neq. exact Hm.
  - apply st_np_init. exact I.
  - left. reflexivity.
Qed.

(* the entry points by name (0-3) on the registered text against the entry
   points by text (4-7), with the same use of the caller's writer *)
Theorem cross_group_entries : forall r fs ft n src data fa t (e1 e2 : N),
  r_dev r = false ->
  compile2 src (reg_opts r None) = COk t ->
  np_template n ft t -> np_registry n ft r -> no_state_probe r ->
  (e1 < 4)%N -> (4 <= e2)%N ->
  ((e1 =? 2) || (e1 =? 3) = (e2 =? 6) || (e2 =? 7))%N%bool ->
  render_entry (register_template r n (t_set_name t (Some n))) fs ft e1 n data fa
  = name_root n (render_entry r fs ft e2 src data fa).
Proof.
  intros r fs ft n src data fa t e1 e2 Hd Hc Ht Hreg Hst H1 H2 Hw.
  rewrite render_entry_named by exact H1. rewrite render_entry_string by exact H2.
  rewrite Hw. apply (cross_named_string r fs ft n src data _ t); assumption.
Qed.

Theorem cross_group : forall r fs ft n src data fa t,
  r_dev r = false ->
  compile2 src (reg_opts r None) = COk t ->
  np_template n ft t -> np_registry n ft r -> no_state_probe r ->
  register_template_string r n src = (register_template r n (t_set_name t (Some n)), COk tt)
  /\ render_entry (register_template r n (t_set_name t (Some n))) fs ft 0 n data fa
     = name_root n (render_entry r fs ft 4 src data fa).
Proof.
  intros r fs ft n src data fa t Hd Hc Ht Hreg Hst. split.
  - exact (proj1 (cross_group_partial r fs ft n src data fa t Hd Hc)).
  - apply (cross_group_entries r fs ft n src data fa t 0 4); auto; try reflexivity; lia.
Qed.

(* ====================================================================== *)
(** * Checking the hypotheses on concrete registries *)

Lemma np_registry_Forall n ft r :
  Forall (fun kv : str * template => np_template n ft (snd kv)) (r_templates r) -> np_registry n ft r.
Proof.
  intros HF m p _ Hg. destruct (map_get_Forall' _ _ _ _ HF Hg) as [k Hk]. exact Hk.
Qed.

Lemma no_state_probe_Forall r :
  Forall (fun kv : str * helper_id => snd kv <> HState) (r_helpers r) -> no_state_probe r.
Proof.
  intros HF k Hg. destruct (map_get_Forall' _ _ _ _ HF Hg) as [k' Hk]. apply Hk. reflexivity.
Qed.

(* registering templates does not touch the helpers *)
Lemma no_state_probe_new : no_state_probe reg_new.
Proof. apply no_state_probe_Forall. vm_compute. repeat constructor; discriminate. Qed.

Lemma no_state_probe_register r m t : no_state_probe r -> no_state_probe (register_template r m t).
Proof. exact (fun H => H). Qed.

(* ====================================================================== *)
(** * The hypotheses are satisfiable; what depends on the root's name *)

Definition reg_str (r : registry) (m src : string) : registry :=
  fst (register_template_string r (`m) (`src)).

(* a registry with a partial `p`; the text calls it at top level and inside a
   block, defines and calls an inline partial, and ends in a render error *)
Definition rP : registry := reg_str reg_new "p" "[{{x}}]".
Definition srcP : str := `"a{{> p}}{{#if x}}{{> p}}{{/if}}{{#*inline ""q""}}Q{{/inline}}{{> q}}{{nope 1}}".

Example ex_cross_group_hyps : exists t,
  r_dev rP = false /\
  compile2 srcP (reg_opts rP None) = COk t /\
  np_template (`"n") [] t /\ np_registry (`"n") [] rP /\ no_state_probe rP.
Proof.
  eexists. split; [reflexivity|]. split; [vm_compute; reflexivity|]. split; [|split].
  - cbn. repeat split; try exact I; intros H; discriminate H.
  - apply np_registry_Forall. vm_compute. repeat constructor.
  - apply no_state_probe_Forall. vm_compute. repeat constructor; discriminate.
Qed.

Definition err_view (o : render_obs) :=
  match o with
  | RoOk a _ _ => (0%N, a, None, None)
  | RoErr e a _ => (1%N, a, Some (e_reason e), Some (e_tpl e, e_line e, e_col e))
  | RoPanic => (2%N, [], None, None)
  | RoFuel => (3%N, [], None, None)
  end.

(* the two runs of that text: same bytes accepted, same reason, same position;
   the template name is None in the unnamed run and the root's in the named *)
Example ex_cross_group_runs :
  err_view (render_entry rP [] [] 4 srcP (JObj [(`"x", JStr (`"v"))]) None)
  = (1%N, `"a[v][v]Q", Some (RHelperNotFound (`"nope")), Some (None, Some 1%N, Some 67%N)) /\
  err_view (render_entry (reg_str rP "n" "a{{> p}}{{#if x}}{{> p}}{{/if}}{{#*inline ""q""}}Q{{/inline}}{{> q}}{{nope 1}}")
                         [] [] 0 (`"n") (JObj [(`"x", JStr (`"v"))]) None)
  = (1%N, `"a[v][v]Q", Some (RHelperNotFound (`"nope")), Some (Some (`"n"), Some 1%N, Some 67%N)).
Proof. split; vm_compute; reflexivity. Qed.

(* WHAT DEPENDS ON THE ROOT'S NAME when the hypothesis fails.
   1. a partial tag naming the root: the named run refuses it at the top level
      of the root (CannotIncludeSelf), the unnamed run looks the name up. *)
Example dep_self_include :
  err_view (render_entry (reg_str reg_new "n" "{{> n}}") [] [] 0 (`"n") JNull None)
  = (1%N, [], Some RCannotIncludeSelf, Some (Some (`"n"), Some 1%N, Some 1%N)) /\
  err_view (render_entry reg_new [] [] 4 (`"{{> n}}") JNull None)
  = (1%N, [], Some (RPartialNotFound (`"n")), Some (None, Some 1%N, Some 1%N)).
Proof. split; vm_compute; reflexivity. Qed.

(* 2. the same tag INSIDE A BLOCK of the root: block bodies are unnamed
      templates, current_template is None there in both runs, so the
      self-inclusion is not detected and the named run recurses until the fuel
      (in the crate: the stack) is exhausted; the unnamed run fails cleanly. *)
Example dep_self_include_in_block :
  render_entry (reg_str reg_new "n" "{{#if true}}{{> n}}{{/if}}") [] [] 0 (`"n") JNull None = RoFuel /\
  err_view (render_entry reg_new [] [] 4 (`"{{#if true}}{{> n}}{{/if}}") JNull None)
  = (1%N, [], Some (RPartialNotFound (`"n")), Some (None, Some 1%N, Some 13%N)).
Proof. split; vm_compute; reflexivity. Qed.

(* 3. a dynamic partial name that evaluates to the root's name *)
Example dep_dynamic_name :
  err_view (render_entry (reg_str reg_new "n" "{{> (lookup this ""k"")}}") [] [] 0 (`"n")
                         (JObj [(`"k", JStr (`"n"))]) None)
  = (1%N, [], Some RCannotIncludeSelf, Some (Some (`"n"), Some 1%N, Some 1%N)) /\
  err_view (render_entry reg_new [] [] 4 (`"{{> (lookup this ""k"")}}") (JObj [(`"k", JStr (`"n"))]) None)
  = (1%N, [], Some (RPartialNotFound (`"n")), Some (None, Some 1%N, Some 1%N)).
Proof. split; vm_compute; reflexivity. Qed.

(* 4. the `state` probe of the test protocol prints current_template and
      root_template *)
Definition log_view (o : render_obs) : str :=
  match o with RoOk _ l _ => l | RoErr _ _ l => l | _ => [] end.
Example dep_state_probe :
  log_view (render_entry (reg_str (add_helpers reg_new probe_helpers) "n" "{{state}}") [] [] 0 (`"n") JNull None)
  <> log_view (render_entry (add_helpers reg_new probe_helpers) [] [] 4 (`"{{state}}") JNull None).
Proof. vm_compute. discriminate. Qed.
