(* Proofs/IndentSim.v — C12, render level: lock-step simulation of a plain run
   (no indent string) and the same run with an indent string W in force, over
   the fragment of Spec/IndentSpec.v; and the standalone-partial corollary. *)
From HB Require Import Rt.Render Reg.RegOps Spec.WriterSpec Spec.IndentSpec.
From HB Require Import Proofs.RenderInd Proofs.LeafWriter Proofs.IndentLaw.
Open Scope N_scope.

Notation tn := s_trailing_newline.
Notation ibw := s_indent_before_write.
Notation cp := s_content_produced.

(* ====================================================================== *)
(** * Generic facts *)

Lemma set_indent_id s i : s_indent s = i -> set_indent s i = s.
Proof. destruct s; cbn. intros <-. reflexivity. Qed.

Lemma map_get_In {A} (m : list (str * A)) k v : map_get m k = Some v -> exists k', In (k', v) m.
Proof.
  induction m as [|[k' v'] m IH]; cbn [map_get]; [discriminate|].
  destruct (str_eqb k k').
  - intros [= ->]. exists k'. left. reflexivity.
  - intros H. destruct (IH H) as [k'' Hin]. exists k''. right. exact Hin.
Qed.

Lemma map_insert_Forall {A} (P : str * A -> Prop) (m : list (str * A)) k v :
  Forall P m -> P (k, v) -> Forall P (map_insert m k v).
Proof.
  intros Hm Hv. induction m as [|[k' v'] m IH]; cbn [map_insert].
  - constructor; [exact Hv | constructor].
  - inversion Hm as [|? ? Hh Ht]; subst. destruct (str_cmp k k').
    + constructor; assumption.
    + constructor; assumption.
    + constructor; [exact Hh | apply IH; exact Ht].
Qed.

Lemma fr_template_els t : fr_template t <-> Forall fr_element (t_els t).
Proof.
  destruct t as [n es m]. cbn [fr_template t_els].
  induction es as [|e r IH]; split; intros H.
  - constructor.
  - exact I.
  - destruct H as [He Hr]. constructor; [exact He | apply IH; exact Hr].
  - inversion H as [|? ? He Hr]; subst. split; [exact He | apply IH; exact Hr].
Qed.

Lemma fr_helper_proj h :
  fr_helper h <->
  simple_param (h_name h) /\ Forall simple_param (h_params h) /\
  Forall (fun kv => simple_param (snd kv)) (h_hash h) /\ fr_opt (h_tpl h) /\ fr_opt (h_inv h).
Proof. destruct h. cbn. tauto. Qed.

Lemma fr_deco_proj d :
  fr_deco d <->
  simple_param (d_name d) /\ Forall simple_param (d_params d) /\
  Forall (fun kv => simple_param (snd kv)) (d_hash d) /\ fr_opt (d_tpl d).
Proof. destruct d. cbn. tauto. Qed.

(* ====================================================================== *)
Section Sim.
Variables (reg : registry) (data : json) (ft : ftable) (W : str).
Hypothesis Hreg : fr_registry reg.

Notation lift := (with_indent W).

(* ---------- the effect of a stretch of the two runs ---------- *)
Definition eff (s0 : rstate) (o0 : outbuf) (s' : rstate) (o' : outbuf) : Prop :=
  plain_state s' /\ o_fail_at o' = None /\
  exists cs, written W s0 o0 s' o' cs /\
    tn s' = snd (indent_chunks W cs (tn s0)) /\
    cp s' = match cs with [] => cp s0 | _ :: _ => true end.

Definition eff_err (s0 : rstate) (o0 : outbuf) (s' : rstate) (o' : outbuf) : Prop :=
  exists cs, written W s0 o0 s' o' cs.

Definition sim {A} (VR : A -> A -> Prop) (s0 : rstate) (o0 : outbuf) (x y : rres A) : Prop :=
  match x, y with
  | ROk a s', ROk b t' => VR a b /\ exists o', t' = lift s' o' /\ eff s0 o0 s' o'
  | RErr e s', RErr e' t' => e = e' /\ exists o', t' = lift s' o' /\ eff_err s0 o0 s' o'
  | RPanic p, RPanic q => p = q
  | RFuel, RFuel => True
  | _, _ => False
  end.

Lemma sim_is_indent_related {A} s0 o0 (x y : rres A) :
  sim eq s0 o0 x y <-> indent_related W s0 o0 x y.
Proof. reflexivity. Qed.

Lemma eff_refl s o : plain_state s -> o_fail_at o = None -> eff s o s o.
Proof.
  intros Hs Ho. split; [exact Hs|]. split; [exact Ho|]. exists [].
  split; [|split; reflexivity]. split; [constructor|].
  cbn [concat indent_chunks fst]. rewrite !app_nil_r. split; reflexivity.
Qed.

Lemma eff_is_err s0 o0 s1 o1 : eff s0 o0 s1 o1 -> eff_err s0 o0 s1 o1.
Proof. intros (_ & _ & cs & Hw & _). exists cs. exact Hw. Qed.

Lemma written_trans s0 o0 s1 o1 s2 o2 cs1 cs2 :
  written W s0 o0 s1 o1 cs1 -> tn s1 = snd (indent_chunks W cs1 (tn s0)) ->
  written W s1 o1 s2 o2 cs2 -> written W s0 o0 s2 o2 (cs1 ++ cs2).
Proof.
  intros (N1 & P1 & I1) Ht (N2 & P2 & I2). split; [apply Forall_app; split; assumption|]. split.
  - rewrite P2, P1, concat_app, app_assoc. reflexivity.
  - rewrite I2, I1, indent_chunks_app. cbn [fst]. rewrite <- Ht, app_assoc. reflexivity.
Qed.

Lemma eff_trans s0 o0 s1 o1 s2 o2 : eff s0 o0 s1 o1 -> eff s1 o1 s2 o2 -> eff s0 o0 s2 o2.
Proof.
  intros (_ & _ & cs1 & W1 & T1 & C1) (P2 & F2 & cs2 & W2 & T2 & C2).
  split; [exact P2|]. split; [exact F2|]. exists (cs1 ++ cs2).
  split; [exact (written_trans _ _ _ _ _ _ _ _ W1 T1 W2)|]. split.
  - rewrite T2, indent_chunks_app. cbn [snd]. rewrite <- T1. reflexivity.
  - rewrite C2. destruct cs2 as [|v2 r2].
    + rewrite app_nil_r. exact C1.
    + destruct cs1; reflexivity.
Qed.

Lemma eff_err_trans s0 o0 s1 o1 s2 o2 : eff s0 o0 s1 o1 -> eff_err s1 o1 s2 o2 -> eff_err s0 o0 s2 o2.
Proof.
  intros (_ & _ & cs1 & W1 & T1 & _) (cs2 & W2). exists (cs1 ++ cs2).
  exact (written_trans _ _ _ _ _ _ _ _ W1 T1 W2).
Qed.

(* changing fields other than the writer and the three flags *)
Lemma eff_frame s0 o0 s1 o1 s1' :
  eff s0 o0 s1 o1 -> plain_state s1' -> s_out s1' = s_out s1 -> tn s1' = tn s1 -> cp s1' = cp s1 ->
  eff s0 o0 s1' o1.
Proof.
  intros (_ & F & cs & (N & P & I) & T & C) Hp Ho Ht Hc.
  split; [exact Hp|]. split; [exact F|]. exists cs. unfold written. rewrite Ho, Ht, Hc. repeat split; assumption.
Qed.

Lemma eff_err_frame s0 o0 s1 o1 s1' :
  eff_err s0 o0 s1 o1 -> s_out s1' = s_out s1 -> eff_err s0 o0 s1' o1.
Proof. intros (cs & (N & P & I)) Ho. exists cs. unfold written. rewrite Ho. repeat split; assumption. Qed.

(* re-rooting a simulation *)
Lemma sim_from {A} (VR : A -> A -> Prop) s0 o0 s1 o1 (x y : rres A) :
  eff s0 o0 s1 o1 -> sim VR s1 o1 x y -> sim VR s0 o0 x y.
Proof.
  intros He. destruct x as [a s'|e s'|p|], y as [b t'|e' t'|q|]; cbn [sim]; try tauto.
  - intros (Hv & o' & -> & H). split; [exact Hv|]. exists o'. split; [reflexivity|].
    exact (eff_trans _ _ _ _ _ _ He H).
  - intros (-> & o' & -> & H). split; [reflexivity|]. exists o'. split; [reflexivity|].
    exact (eff_err_trans _ _ _ _ _ _ He H).
Qed.

Lemma sim_bind {A B} (VR : A -> A -> Prop) (VR' : B -> B -> Prop) s0 o0
      (x y : rres A) (k k' : A -> rstate -> rres B) :
  sim VR s0 o0 x y ->
  (forall a b s1 o1, VR a b -> eff s0 o0 s1 o1 -> sim VR' s0 o0 (k a s1) (k' b (lift s1 o1))) ->
  sim VR' s0 o0 (rbind x k) (rbind y k').
Proof.
  intros Hx Hk. destruct x as [a s'|e s'|p|], y as [b t'|e' t'|q|]; cbn [sim rbind] in *; try tauto.
  destruct Hx as (Hv & o' & -> & H). exact (Hk _ _ _ _ Hv H).
Qed.

Lemma sim_rmap_err {A} (VR : A -> A -> Prop) s0 o0 (x y : rres A) g :
  sim VR s0 o0 x y -> sim VR s0 o0 (rmap_err x g) (rmap_err y g).
Proof.
  destruct x as [a s'|e s'|p|], y as [b t'|e' t'|q|]; cbn [sim rmap_err]; try tauto.
  intros (-> & H). split; [reflexivity | exact H].
Qed.

(* post-processing of the Ok and Err outcomes by a state update that commutes
   with the indent/writer overlay and touches neither output nor flags *)
Lemma sim_post {A} s0 o0 (x y : rres A) (g g' : rstate -> rstate) :
  (forall s1 o1, g' (lift s1 o1) = lift (g s1) o1) ->
  (forall s1, plain_state s1 -> plain_state (g s1)) ->
  (forall s1, s_out (g s1) = s_out s1 /\ tn (g s1) = tn s1 /\ cp (g s1) = cp s1) ->
  sim eq s0 o0 x y ->
  sim eq s0 o0 (match x with ROk u s' => ROk u (g s') | RErr e s' => RErr e (g s') | z => z end)
               (match y with ROk u s' => ROk u (g' s') | RErr e s' => RErr e (g' s') | z => z end).
Proof.
  intros Hc Hp Hf. destruct x as [a s'|e s'|p|], y as [b t'|e' t'|q|]; cbn [sim]; try tauto.
  - intros (-> & o' & -> & H). split; [reflexivity|]. exists o'. split; [apply Hc|].
    destruct (Hf s') as (F1 & F2 & F3). destruct H as (Hps & Hrest).
    eapply eff_frame; [split; [exact Hps | exact Hrest] | apply Hp; exact Hps | exact F1 | exact F2 | exact F3].
  - intros (-> & o' & -> & H). split; [reflexivity|]. exists o'. split; [apply Hc|].
    eapply eff_err_frame; [exact H | apply Hf].
Qed.

(* the same with the remaining outcomes spelled out *)
Lemma sim_post_x {A} s0 o0 (x y : rres A) (g g' : rstate -> rstate) :
  (forall s1 o1, g' (lift s1 o1) = lift (g s1) o1) ->
  (forall s1, plain_state s1 -> plain_state (g s1)) ->
  (forall s1, s_out (g s1) = s_out s1 /\ tn (g s1) = tn s1 /\ cp (g s1) = cp s1) ->
  sim eq s0 o0 x y ->
  sim eq s0 o0 (match x with ROk u s' => ROk u (g s') | RErr e s' => RErr e (g s')
                | RPanic p => RPanic p | RFuel => RFuel end)
               (match y with ROk u s' => ROk u (g' s') | RErr e s' => RErr e (g' s')
                | RPanic p => RPanic p | RFuel => RFuel end).
Proof.
  intros Hc Hp Hf H. pose proof (sim_post s0 o0 x y g g' Hc Hp Hf H) as K.
  destruct x, y; exact K.
Qed.

(* ---------- steps that leave the state alone ---------- *)
Definition pure2 {A} (VR : A -> A -> Prop) (s t : rstate) (x y : rres A) : Prop :=
  match x, y with
  | ROk a s', ROk b t' => VR a b /\ s' = s /\ t' = t
  | RErr e s', RErr e' t' => e = e' /\ s' = s /\ t' = t
  | RPanic p, RPanic q => p = q
  | RFuel, RFuel => True
  | _, _ => False
  end.

Lemma pure2_bind {A B} (VR : A -> A -> Prop) (VR' : B -> B -> Prop) s t
      (x y : rres A) (k k' : A -> rstate -> rres B) :
  pure2 VR s t x y -> (forall a b, VR a b -> pure2 VR' s t (k a s) (k' b t)) ->
  pure2 VR' s t (rbind x k) (rbind y k').
Proof.
  intros Hx Hk. destruct x as [a s'|e s'|p|], y as [b t'|e' t'|q|]; cbn [pure2 rbind] in *; try tauto.
  destruct Hx as (Hv & -> & ->). exact (Hk _ _ Hv).
Qed.

Lemma pure2_mono {A} (VR VR' : A -> A -> Prop) s t (x y : rres A) :
  (forall a b, VR a b -> VR' a b) -> pure2 VR s t x y -> pure2 VR' s t x y.
Proof.
  intros Hm. destruct x as [a s'|e s'|p|], y as [b t'|e' t'|q|]; cbn [pure2]; try tauto.
  intros (Hv & H). split; [apply Hm; exact Hv | exact H].
Qed.

Lemma sim_bind_pure {A B} (VR : A -> A -> Prop) (VR' : B -> B -> Prop) s0 o0 s1 o1
      (x y : rres A) (k k' : A -> rstate -> rres B) :
  eff s0 o0 s1 o1 ->
  pure2 VR s1 (lift s1 o1) x y ->
  (forall a b, VR a b -> sim VR' s0 o0 (k a s1) (k' b (lift s1 o1))) ->
  sim VR' s0 o0 (rbind x k) (rbind y k').
Proof.
  intros He Hx Hk. destruct x as [a s'|e s'|p|], y as [b t'|e' t'|q|]; cbn [pure2 sim rbind] in *; try tauto.
  - destruct Hx as (Hv & -> & ->). exact (Hk _ _ Hv).
  - destruct Hx as (-> & -> & ->). split; [reflexivity|]. exists o1. split; [reflexivity|].
    apply eff_is_err. exact He.
Qed.

Lemma mapM_pure {X B} (g : X -> rstate -> rres B) l s t :
  (forall x, In x l -> pure2 eq s t (g x s) (g x t)) -> pure2 eq s t (mapM g l s) (mapM g l t).
Proof.
  induction l as [|x r IH]; intros H; cbn [mapM].
  - repeat split.
  - apply (pure2_bind eq); [apply H; left; reflexivity|]. intros a b <-.
    apply (pure2_bind eq); [apply IH; intros; apply H; right; assumption|].
    intros ys ys' <-. repeat split.
Qed.

(* ---------- plain_state under updates of other fields ---------- *)
Lemma ps_frame s s' :
  plain_state s -> s_indent s' = s_indent s -> s_out s' = s_out s -> ibw s' = ibw s -> tn s' = tn s ->
  s_partials s' = s_partials s -> s_pb_stack s' = s_pb_stack s -> s_dev s' = s_dev s ->
  s_local_helpers s' = s_local_helpers s -> plain_state s'.
Proof.
  intros (H1 & H2 & H3 & H4) E1 E2 E3 E4 E5 E6 E7 E8.
  unfold plain_state, fr_state. rewrite E1, E2, E3, E4, E5, E6, E7, E8. auto.
Qed.

Ltac psf H := apply (ps_frame _ _ H); reflexivity.

Lemma plain_lift_fail s o : o_fail_at (s_out (lift s o)) = o_fail_at o.
Proof. reflexivity. Qed.

(* ---------- the writer ---------- *)
Lemma iaw_sim v s o :
  plain_state s -> o_fail_at o = None ->
  sim eq s o (indent_aware_write v s) (indent_aware_write v (lift s o)).
Proof.
  intros Hs Ho. destruct v as [|c v'].
  - cbn [indent_aware_write sim]. split; [reflexivity|]. exists o. split; [reflexivity|].
    apply eff_refl; assumption.
  - pose proof Hs as (Hi & Hf & Hb & Hfr).
    destruct (indent_aware_write_spec (c :: v') s Hf ltac:(discriminate)) as (o1 & E1 & F1 & T1).
    destruct (indent_aware_write_spec (c :: v') (lift s o) Ho ltac:(discriminate)) as (o2 & E2 & F2 & T2).
    rewrite E1, E2. rewrite Hi in T1.
    change (s_indent (lift s o)) with (Some W) in T2.
    change (s_indent_before_write (lift s o)) with (ibw s) in T2.
    change (s_out (lift s o)) with o in T2.
    cbn [sim]. split; [reflexivity|]. exists o2. split; [reflexivity|].
    set (b := last_is is_newline (c :: v')).
    split; [|split; [exact F2|]].
    + unfold plain_state. cbn. repeat split; try assumption. apply Hfr. apply Hfr. apply Hfr. apply Hfr.
    + exists [c :: v']. split; [|split].
      * split; [constructor; [discriminate | constructor]|]. split.
        -- cbn [s_out set_indent_before_write set_trailing_newline set_content_produced set_out concat].
           rewrite T1, app_nil_r. reflexivity.
        -- rewrite T2. cbn [indent_chunks fst]. rewrite app_nil_r. unfold indent_chunk. rewrite Hb. reflexivity.
      * reflexivity.
      * reflexivity.
Qed.

(* ---------- do_escape ---------- *)
Lemma do_escape_lift c s o :
  do_escape reg c (lift s o) = (fst (do_escape reg c s), lift (snd (do_escape reg c s)) o).
Proof.
  unfold do_escape. change (s_disable_escape (lift s o)) with (s_disable_escape s).
  destruct (s_disable_escape s); [reflexivity|]. destruct (r_esc_mark reg); reflexivity.
Qed.

Lemma do_escape_frame c s :
  (plain_state s -> plain_state (snd (do_escape reg c s))) /\
  s_out (snd (do_escape reg c s)) = s_out s /\ tn (snd (do_escape reg c s)) = tn s /\
  cp (snd (do_escape reg c s)) = cp s.
Proof.
  unfold do_escape. destruct (s_disable_escape s); [cbn [snd]; auto|].
  destruct (r_esc_mark reg); cbn [snd]; (split; [intros H; psf H | repeat split]).
Qed.

(* ---------- path evaluation ---------- *)
Lemma evaluate2_pure d p s t :
  s_blocks t = s_blocks s -> pure2 eq s t (evaluate2 d p s) (evaluate2 d p t).
Proof.
  intros Hb. unfold evaluate2. destruct p as [segs raw|lv name raw].
  - rewrite Hb. destruct (navigate d segs (s_blocks s)); cbn [pure2 rfail]; repeat split.
  - rewrite Hb. cbn [pure2]. repeat split.
Qed.

Lemma evaluate_pure d raw s t :
  s_blocks t = s_blocks s -> pure2 eq s t (evaluate d raw s) (evaluate d raw t).
Proof.
  intros Hb. unfold evaluate. destruct (path_parse raw).
  - apply evaluate2_pure. exact Hb.
  - cbn [pure2 rfail]. repeat split.
Qed.

(* ---------- parameters without subexpressions ---------- *)
Lemma expand_param_pure f p s t :
  simple_param p -> s_blocks t = s_blocks s -> s_modified t = s_modified s ->
  pure2 eq s t (expand_param reg data ft f p s) (expand_param reg data ft f p t).
Proof.
  intros Hp Hb Hm. destruct f as [|f]; [rewrite !expand_param_0; exact I|].
  rewrite !expand_param_S. destruct p as [n|pa|j|e]; [| | |destruct Hp].
  - repeat split.
  - rewrite Hm. destruct (s_modified s).
    + apply (pure2_bind eq); [apply evaluate2_pure; exact Hb|]. intros a b <-. repeat split.
    + apply (pure2_bind eq); [apply evaluate2_pure; exact Hb|]. intros a b <-. repeat split.
  - repeat split.
Qed.

Lemma expand_as_name_pure f p s t :
  simple_param p -> pure2 eq s t (expand_as_name reg data ft f p s) (expand_as_name reg data ft f p t).
Proof.
  intros Hp. destruct f as [|f]; [rewrite !expand_as_name_0; exact I|].
  rewrite !expand_as_name_S. destruct p as [n|pa|j|e]; [| | |destruct Hp]; repeat split.
Qed.

Lemma helper_from_template_pure f ht s t :
  fr_helper ht -> s_blocks t = s_blocks s -> s_modified t = s_modified s ->
  pure2 (fun h h' => h' = h /\ hv_tpl h = h_tpl ht /\ hv_inv h = h_inv ht) s t
        (helper_from_template reg data ft f ht s) (helper_from_template reg data ft f ht t).
Proof.
  intros Hh Hb Hm. apply fr_helper_proj in Hh. destruct Hh as (Hn & Hps & Hhs & _ & _).
  destruct f as [|f]; [rewrite !helper_from_template_0; exact I|].
  rewrite !helper_from_template_S.
  apply (pure2_bind eq); [apply expand_as_name_pure; exact Hn|]. intros name ? <-.
  apply (pure2_bind eq).
  { apply mapM_pure. intros x Hx. apply expand_param_pure; [|exact Hb|exact Hm].
    rewrite Forall_forall in Hps. apply Hps. exact Hx. }
  intros pv ? <-.
  apply (pure2_bind eq).
  { apply mapM_pure. intros x Hx.
    apply (pure2_bind eq); [apply expand_param_pure; [|exact Hb|exact Hm]|].
    - rewrite Forall_forall in Hhs. apply Hhs. exact Hx.
    - intros v ? <-. repeat split. }
  intros hm ? <-. cbn [pure2 hv_tpl hv_inv]. repeat split.
Qed.

(* deco values of the two runs: equal but for the indent string *)
Definition dv_rel (dt : deco_t) (d d' : deco_v) : Prop :=
  dv_name d' = dv_name d /\ dv_params d' = dv_params d /\ dv_hash d' = dv_hash d /\
  dv_tpl d' = dv_tpl d /\ dv_tpl d = d_tpl dt /\
  dv_indent d = d_indent dt /\ dv_indent d' = combine_indent (Some W) (d_indent dt).

Lemma deco_from_template_pure f dt s o :
  fr_deco dt -> s_indent s = None ->
  pure2 (dv_rel dt) s (lift s o)
        (deco_from_template reg data ft f dt s) (deco_from_template reg data ft f dt (lift s o)).
Proof.
  intros Hd Hi. apply fr_deco_proj in Hd. destruct Hd as (Hn & Hps & Hhs & _).
  destruct f as [|f]; [rewrite !deco_from_template_0; exact I|].
  rewrite !deco_from_template_S.
  apply (pure2_bind eq); [apply expand_as_name_pure; exact Hn|]. intros name ? <-.
  apply (pure2_bind eq).
  { apply mapM_pure. intros x Hx. apply expand_param_pure; [|reflexivity|reflexivity].
    rewrite Forall_forall in Hps. apply Hps. exact Hx. }
  intros pv ? <-.
  apply (pure2_bind eq).
  { apply mapM_pure. intros x Hx.
    apply (pure2_bind eq); [apply expand_param_pure; [|reflexivity|reflexivity]|].
    - rewrite Forall_forall in Hhs. apply Hhs. exact Hx.
    - intros v ? <-. repeat split. }
  intros hm ? <-. cbn [pure2]. split; [|split; reflexivity].
  unfold dv_rel. cbn [dv_name dv_params dv_hash dv_tpl dv_indent].
  change (s_indent (lift s o)) with (Some W). rewrite Hi.
  repeat split. destruct (d_indent dt); reflexivity.
Qed.

(* ---------- call_inner ---------- *)
Lemma call_inner_lift hid h s o :
  call_inner reg hid h (lift s o) =
  match call_inner reg hid h s with
  | ROk v s1 => ROk v (lift s1 o)
  | RErr e s1 => RErr e (lift s1 o)
  | RPanic p => RPanic p
  | RFuel => RFuel
  end.
Proof.
  unfold call_inner, macro_inner, param_or, strict_error, rfail.
  repeat lazymatch goal with
  | |- _ = ?e =>
      lazymatch e with
      | context [match ?y with _ => _ end] => let z := inner_scrut y in destruct z
      end
  end; reflexivity.
Qed.

Lemma call_inner_quiet hid h s :
  match call_inner reg hid h s with
  | ROk _ s1 | RErr _ s1 =>
      (plain_state s -> plain_state s1) /\ s_out s1 = s_out s /\ tn s1 = tn s /\ cp s1 = cp s
  | _ => True
  end.
Proof.
  unfold call_inner, macro_inner, param_or, strict_error, rfail.
  repeat lazymatch goal with
  | |- ?e =>
      lazymatch e with
      | context [match ?y with _ => _ end] => let z := inner_scrut y in destruct z
      end
  end; try exact I; (split; [intros H; first [exact H | psf H] | repeat split]).
Qed.

(* ---------- iteration ---------- *)
Lemma sim_fold_idx {X} (step : X -> nat -> rstate -> rres unit) l :
  (forall x i s1 o1, In x l -> plain_state s1 -> o_fail_at o1 = None ->
     sim eq s1 o1 (step x i s1) (step x i (lift s1 o1))) ->
  forall i s o, plain_state s -> o_fail_at o = None ->
    sim eq s o (fold_idx step l i s) (fold_idx step l i (lift s o)).
Proof.
  induction l as [|x r IH]; intros Hstep i s o Hs Ho; cbn [fold_idx].
  - cbn [sim]. split; [reflexivity|]. exists o. split; [reflexivity | apply eff_refl; assumption].
  - apply (sim_bind eq); [apply Hstep; [left; reflexivity | exact Hs | exact Ho]|].
    intros a b s1 o1 _ He. apply (sim_from eq _ _ _ _ _ _ He).
    destruct He as (Hs1 & Ho1 & _).
    apply IH; [|exact Hs1|exact Ho1]. intros; apply Hstep; [right|..]; assumption.
Qed.

(* ---------- the content_produced bracket of render_helper / render_partial ---------- *)
Lemma bracket_sim s o s' (x y : rres unit) cpb ibwb :
  plain_state s -> o_fail_at o = None ->
  plain_state s' -> s_out s' = s_out s -> tn s' = tn s -> cp s' = false ->
  s_partials s' = s_partials s -> s_pb_stack s' = s_pb_stack s -> s_dev s' = s_dev s ->
  s_local_helpers s' = s_local_helpers s ->
  cpb = cp s -> ibwb = ibw s ->
  sim eq s' o x y ->
  sim eq s o
    (rbind x (fun _ s2 => if cp s2 then ROk tt (set_indent_before_write s2 (tn s2))
                          else ROk tt (set_indent_before_write (set_content_produced s2 cpb) ibwb)))
    (rbind y (fun _ s2 => if cp s2 then ROk tt (set_indent_before_write s2 (tn s2))
                          else ROk tt (set_indent_before_write (set_content_produced s2 cpb) ibwb))).
Proof.
  intros Hs Ho Hs' Eo Et Ec _ _ _ _ -> -> H.
  destruct x as [[] s2|e s2|p|], y as [[] t2|e' t2|q|]; cbn [sim rbind] in *; try tauto.
  - destruct H as (_ & o2 & -> & (Hp2 & Hf2 & cs & (Nn & Pp & Ii) & Tt & Cc)).
    change (cp (lift s2 o2)) with (cp s2). change (tn (lift s2 o2)) with (tn s2).
    rewrite Cc. destruct cs as [|v r].
    + rewrite Ec. cbn [sim]. split; [reflexivity|]. exists o2. split; [reflexivity|].
      cbn [indent_chunks snd fst concat] in *. rewrite app_nil_r in *.
      split; [|split; [exact Hf2|]].
      * destruct Hs as (_ & _ & Hb & _). destruct Hp2 as (Hi2 & Hf2' & Hb2 & Hfr2).
        unfold plain_state, fr_state. cbn. repeat split; try assumption; try apply Hfr2. congruence.
      * exists []. split; [|split].
        -- split; [constructor|]. cbn [concat indent_chunks fst]. rewrite !app_nil_r.
           cbn [s_out set_indent_before_write set_content_produced]. split; congruence.
        -- cbn [indent_chunks snd]. cbn [tn set_indent_before_write set_content_produced]. congruence.
        -- reflexivity.
    + cbn [sim]. split; [reflexivity|]. exists o2. split; [reflexivity|].
      split; [|split; [exact Hf2|]].
      * destruct Hp2 as (Hi2 & Hf2' & Hb2 & Hfr2).
        unfold plain_state, fr_state. cbn. repeat split; try assumption; try apply Hfr2.
      * exists (v :: r). split; [|split].
        -- split; [exact Nn|]. cbn [s_out set_indent_before_write]. rewrite <- Eo, <- Et. split; assumption.
        -- cbn [tn set_indent_before_write]. rewrite <- Et. exact Tt.
        -- cbn [cp set_indent_before_write]. exact Cc.
  - destruct H as (-> & o2 & -> & (cs & (Nn & Pp & Ii))). split; [reflexivity|].
    exists o2. split; [reflexivity|]. exists cs. split; [exact Nn|]. rewrite <- Eo, <- Et. split; assumption.
Qed.

(* ---------- trivial outcomes ---------- *)
Lemma sim_ok_eff s0 o0 s1 o1 : eff s0 o0 s1 o1 -> sim eq s0 o0 (ROk tt s1) (ROk tt (lift s1 o1)).
Proof. intros H. cbn [sim]. split; [reflexivity|]. exists o1. split; [reflexivity | exact H]. Qed.

Lemma sim_err_eff {A} s0 o0 s1 o1 e :
  eff s0 o0 s1 o1 -> sim (A := A) eq s0 o0 (RErr e s1) (RErr e (lift s1 o1)).
Proof.
  intros H. cbn [sim]. split; [reflexivity|]. exists o1. split; [reflexivity | apply eff_is_err; exact H].
Qed.

Lemma eff_upd s o s1 :
  plain_state s -> o_fail_at o = None -> plain_state s1 ->
  s_out s1 = s_out s -> tn s1 = tn s -> cp s1 = cp s -> eff s o s1 o.
Proof. intros Hs Ho H1 E1 E2 E3. eapply eff_frame; [apply eff_refl; eassumption | exact H1 | assumption..]. Qed.

Lemma sim_param_or {B} (VR : B -> B -> Prop) h i n s0 o0 s o (k k' : pj -> rres B) :
  eff s0 o0 s o -> (forall p, sim VR s0 o0 (k p) (k' p)) ->
  sim VR s0 o0 (param_or h i n s k) (param_or h i n (lift s o) k').
Proof.
  intros He Hk. unfold param_or. destruct (nth_error (hv_params h) i); [apply Hk|].
  cbn [rfail sim]. split; [reflexivity|]. exists o. split; [reflexivity | apply eff_is_err; exact He].
Qed.

Lemma each_iter_setup_lift h path n i key v s o :
  each_iter_setup h path n i key v (lift s o) = lift (each_iter_setup h path n i key v s) o.
Proof.
  unfold each_iter_setup, map_front_block. change (s_blocks (lift s o)) with (s_blocks s).
  destruct (s_blocks s); reflexivity.
Qed.

Lemma each_iter_setup_frame h path n i key v s :
  (plain_state s -> plain_state (each_iter_setup h path n i key v s)) /\
  s_out (each_iter_setup h path n i key v s) = s_out s /\
  tn (each_iter_setup h path n i key v s) = tn s /\ cp (each_iter_setup h path n i key v s) = cp s.
Proof.
  unfold each_iter_setup, map_front_block. destruct (s_blocks s); [auto|].
  split; [intros H; psf H | repeat split].
Qed.

Definition dv_set_indent (d : deco_v) (i : option str) : deco_v :=
  {| dv_name := dv_name d; dv_params := dv_params d; dv_hash := dv_hash d; dv_tpl := dv_tpl d;
     dv_indent := i |}.

(* ====================================================================== *)
(** * The induction on fuel *)

Record sim_at (f : nat) : Prop := {
  i_rt : forall t s o, fr_template t -> plain_state s -> o_fail_at o = None ->
    sim eq s o (render_template reg data ft f t s) (render_template reg data ft f t (lift s o));
  i_et : forall t s o, fr_template t -> plain_state s -> o_fail_at o = None ->
    sim eq s o (eval_template reg data ft f t s) (eval_template reg data ft f t (lift s o));
  i_or : forall t s o, fr_opt t -> plain_state s -> o_fail_at o = None ->
    sim eq s o (opt_render reg data ft f t s) (opt_render reg data ft f t (lift s o));
  i_re : forall e s o, fr_element e -> plain_state s -> o_fail_at o = None ->
    sim eq s o (render_element reg data ft f e s) (render_element reg data ft f e (lift s o));
  i_ee : forall e s o, fr_element e -> plain_state s -> o_fail_at o = None ->
    sim eq s o (eval_element reg data ft f e s) (eval_element reg data ft f e (lift s o));
  i_rx : forall ht html s o, fr_helper ht -> plain_state s -> o_fail_at o = None ->
    sim eq s o (render_expression reg data ft f ht html s) (render_expression reg data ft f ht html (lift s o));
  i_rh : forall ht s o, fr_helper ht -> plain_state s -> o_fail_at o = None ->
    sim eq s o (render_helper reg data ft f ht s) (render_helper reg data ft f ht (lift s o));
  i_ch : forall hid h s o, std_helper hid = true -> fr_opt (hv_tpl h) -> fr_opt (hv_inv h) ->
    plain_state s -> o_fail_at o = None ->
    sim eq s o (call_helper reg data ft f hid h s) (call_helper reg data ft f hid h (lift s o));
  i_ed : forall dt s o, fr_deco dt -> plain_state s -> o_fail_at o = None ->
    sim eq s o (eval_decorator reg data ft f dt s) (eval_decorator reg data ft f dt (lift s o));
  i_rp : forall dt s o, fr_deco dt -> d_indent dt = None -> d_ibw dt = true ->
    plain_state s -> o_fail_at o = None ->
    sim eq s o (render_partial reg data ft f dt s) (render_partial reg data ft f dt (lift s o));
  i_xp : forall d s o, fr_opt (dv_tpl d) -> dv_indent d = None -> plain_state s -> o_fail_at o = None ->
    sim eq s o (expand_partial reg data ft f d s)
               (expand_partial reg data ft f (dv_set_indent d (Some W)) (lift s o))
}.

Lemma sim_0 : sim_at 0.
Proof. constructor; intros; exact I. Qed.

Section Step.
Variable f : nat.
Hypothesis IH : sim_at f.

Lemma s_rt t s o : fr_template t -> plain_state s -> o_fail_at o = None ->
  sim eq s o (render_template reg data ft (S f) t s) (render_template reg data ft (S f) t (lift s o)).
Proof.
  intros Ht Hs Ho. rewrite !render_template_S.
  change (set_current (lift s o) (t_name t)) with (lift (set_current s (t_name t)) o).
  change (s_current (lift s o)) with (s_current s).
  assert (Hs1 : plain_state (set_current s (t_name t))) by psf Hs.
  assert (He : eff s o (set_current s (t_name t)) o) by (apply eff_upd; try assumption; reflexivity).
  apply (sim_bind eq).
  - apply (sim_from eq _ _ _ _ _ _ He). apply sim_fold_idx; [|exact Hs1|exact Ho].
    intros e i s1 o1 Hin Hp1 Hf1. apply sim_rmap_err. apply (i_re f IH); [|exact Hp1|exact Hf1].
    apply fr_template_els in Ht. rewrite Forall_forall in Ht. apply Ht. exact Hin.
  - intros a b s1 o1 _ He1.
    change (set_current (lift s1 o1) (s_current s)) with (lift (set_current s1 (s_current s)) o1).
    apply sim_ok_eff. eapply eff_frame; [exact He1 | psf (proj1 He1) | reflexivity..].
Qed.

Lemma s_et t s o : fr_template t -> plain_state s -> o_fail_at o = None ->
  sim eq s o (eval_template reg data ft (S f) t s) (eval_template reg data ft (S f) t (lift s o)).
Proof.
  intros Ht Hs Ho. rewrite !eval_template_S.
  apply sim_fold_idx; [|exact Hs|exact Ho].
  intros e i s1 o1 Hin Hp1 Hf1. apply sim_rmap_err. apply (i_ee f IH); [|exact Hp1|exact Hf1].
  apply fr_template_els in Ht. rewrite Forall_forall in Ht. apply Ht. exact Hin.
Qed.

Lemma s_or t s o : fr_opt t -> plain_state s -> o_fail_at o = None ->
  sim eq s o (opt_render reg data ft (S f) t s) (opt_render reg data ft (S f) t (lift s o)).
Proof.
  intros Ht Hs Ho. rewrite !opt_render_S. destruct t as [t|].
  - apply (i_rt f IH); assumption.
  - apply sim_ok_eff. apply eff_refl; assumption.
Qed.

Lemma s_re e s o : fr_element e -> plain_state s -> o_fail_at o = None ->
  sim eq s o (render_element reg data ft (S f) e s) (render_element reg data ft (S f) e (lift s o)).
Proof.
  intros He Hs Ho. rewrite !render_element_S. destruct e; cbn [fr_element] in He.
  - apply iaw_sim; assumption.
  - apply (i_rx f IH); assumption.
  - apply (i_rx f IH); assumption.
  - apply (i_rh f IH); assumption.
  - apply (i_ed f IH); assumption.
  - apply (i_ed f IH); assumption.
  - destruct He as (H1 & H2 & H3). apply (i_rp f IH); assumption.
  - destruct He as (H1 & H2 & H3). apply (i_rp f IH); assumption.
  - apply sim_ok_eff. apply eff_refl; assumption.
Qed.

Lemma s_ee e s o : fr_element e -> plain_state s -> o_fail_at o = None ->
  sim eq s o (eval_element reg data ft (S f) e s) (eval_element reg data ft (S f) e (lift s o)).
Proof.
  intros He Hs Ho. rewrite !eval_element_S.
  destruct e; cbn [fr_element] in He;
    try (apply sim_ok_eff; apply eff_refl; assumption); apply (i_ed f IH); assumption.
Qed.

(* value written through the escape function and the indenting writer *)
Lemma escape_write_sim c s0 o0 s1 o1 :
  eff s0 o0 s1 o1 ->
  sim eq s0 o0
    (let '(output, s3) := do_escape reg c s1 in indent_aware_write output s3)
    (let '(output, s3) := do_escape reg c (lift s1 o1) in indent_aware_write output s3).
Proof.
  intros He. rewrite do_escape_lift.
  destruct (do_escape_frame c s1) as (F1 & F2 & F3 & F4).
  destruct (do_escape reg c s1) as [output s3]. cbn [fst snd] in *.
  pose proof He as (Hs1 & Ho1 & _).
  apply (sim_from eq _ _ s3 o1).
  - eapply eff_frame; [exact He | apply F1; exact Hs1 | assumption..].
  - apply iaw_sim; [apply F1; exact Hs1 | exact Ho1].
Qed.

Lemma s_rx ht html s o : fr_helper ht -> plain_state s -> o_fail_at o = None ->
  sim eq s o (render_expression reg data ft (S f) ht html s)
             (render_expression reg data ft (S f) ht html (lift s o)).
Proof.
  intros Hh Hs Ho. rewrite !render_expression_S. cbv zeta.
  set (s0 := if html then set_disable_escape s true else s).
  assert (E0 : (if html then set_disable_escape (lift s o) true else lift s o) = lift s0 o)
    by (unfold s0; destruct html; reflexivity).
  rewrite E0.
  assert (Hs0 : plain_state s0) by (unfold s0; destruct html; [psf Hs | exact Hs]).
  assert (He0 : eff s o s0 o)
    by (apply eff_upd; try assumption; unfold s0; destruct html; reflexivity).
  pose proof (proj1 (fr_helper_proj ht) Hh) as (Hn & _ & _ & Htp & Hiv).
  apply (sim_post s o _ _ (fun s' => if html then set_disable_escape s' false else s')
                          (fun s' => if html then set_disable_escape s' false else s')).
  - intros; destruct html; reflexivity.
  - intros s1 H1; destruct html; [psf H1 | exact H1].
  - intros s1; destruct html; repeat split.
  - destruct (is_name_only ht).
    + eapply (sim_bind_pure eq); [exact He0 | apply expand_as_name_pure; exact Hn |].
      intros name ? <-.
      change (helper_exists reg (lift s0 o) name) with (helper_exists reg s0 name).
      destruct (helper_exists reg s0 name).
      * apply (sim_from eq _ _ _ _ _ _ He0). apply (i_rh f IH); assumption.
      * eapply (sim_bind_pure eq);
          [exact He0 | apply expand_param_pure; [exact Hn | reflexivity | reflexivity] |].
        intros cj ? <-. destruct (sc_missing (pj_val cj)).
        -- destruct (r_strict reg).
           ++ apply sim_err_eff. exact He0.
           ++ destruct (find_reg_helper reg HELPER_MISSING) as [hook|] eqn:Eh.
              ** eapply (sim_bind_pure _ eq);
                   [exact He0 | apply helper_from_template_pure; [exact Hh | reflexivity | reflexivity] |].
                 intros h ? (-> & Et & Ei). apply (sim_from eq _ _ _ _ _ _ He0).
                 apply (i_ch f IH); try assumption.
                 --- exact (proj1 (proj2 Hreg) _ _ Eh).
                 --- rewrite Et. exact Htp.
                 --- rewrite Ei. exact Hiv.
              ** apply sim_ok_eff. exact He0.
        -- apply escape_write_sim. exact He0.
    + apply (sim_from eq _ _ _ _ _ _ He0). apply (i_rh f IH); assumption.
Qed.

Lemma cia_sim ht hid h s o :
  std_helper hid = true -> fr_opt (hv_tpl h) -> fr_opt (hv_inv h) ->
  plain_state s -> o_fail_at o = None ->
  let body := fun st : rstate =>
    rbind (call_helper reg data ft f hid h
             (set_indent_before_write (set_content_produced st false)
                (ibw st || (h_ibw ht && tn st))))
          (fun _ s2 => if cp s2 then ROk tt (set_indent_before_write s2 (tn s2))
                       else ROk tt (set_indent_before_write (set_content_produced s2 (cp st)) (ibw st))) in
  sim eq s o (body s) (body (lift s o)).
Proof.
  intros Hstd Ht Hi Hs Ho. cbv zeta beta.
  set (s' := set_indent_before_write (set_content_produced s false) (ibw s || (h_ibw ht && tn s))).
  assert (Hs' : plain_state s').
  { destruct Hs as (H1 & H2 & H3 & H4). unfold plain_state, fr_state. cbn. repeat split; try assumption; try apply H4.
    rewrite H3. destruct (tn s), (h_ibw ht); reflexivity. }
  apply (bracket_sim s o s'); try assumption; try reflexivity.
  change (set_indent_before_write (set_content_produced (lift s o) false)
            (ibw (lift s o) || (h_ibw ht && tn (lift s o)))) with (lift s' o).
  apply (i_ch f IH); assumption.
Qed.

Lemma s_rh ht s o : fr_helper ht -> plain_state s -> o_fail_at o = None ->
  sim eq s o (render_helper reg data ft (S f) ht s) (render_helper reg data ft (S f) ht (lift s o)).
Proof.
  intros Hh Hs Ho. rewrite !render_helper_S.
  pose proof (proj1 (fr_helper_proj ht) Hh) as (_ & _ & _ & Htp & Hiv).
  eapply (sim_bind_pure _ eq);
    [apply eff_refl; assumption | apply helper_from_template_pure; [exact Hh | reflexivity | reflexivity] |].
  intros h ? (-> & Et & Ei). cbv zeta.
  assert (Htp' : fr_opt (hv_tpl h)) by (rewrite Et; exact Htp).
  assert (Hiv' : fr_opt (hv_inv h)) by (rewrite Ei; exact Hiv).
  change (find_local_helper (lift s o) (hv_name h)) with (find_local_helper s (hv_name h)).
  destruct (find_local_helper s (hv_name h)) as [hid|] eqn:El.
  { assert (Hstd : std_helper hid = true) by (destruct Hs as (_ & _ & _ & (_ & _ & _ & Hl)); exact (Hl _ _ El)).
    exact (cia_sim ht hid h s o Hstd Htp' Hiv' Hs Ho). }
  destruct (find_reg_helper reg (hv_name h)) as [hid|] eqn:Er.
  { exact (cia_sim ht hid h s o (proj1 (proj2 Hreg) _ _ Er) Htp' Hiv' Hs Ho). }
  destruct (find_reg_helper reg (if h_block ht then BLOCK_HELPER_MISSING else HELPER_MISSING)) as [hid|] eqn:Em.
  { exact (cia_sim ht hid h s o (proj1 (proj2 Hreg) _ _ Em) Htp' Hiv' Hs Ho). }
  apply sim_err_eff. apply eff_refl; assumption.
Qed.

Lemma s_ch hid h s o : std_helper hid = true -> fr_opt (hv_tpl h) -> fr_opt (hv_inv h) ->
  plain_state s -> o_fail_at o = None ->
  sim eq s o (call_helper reg data ft (S f) hid h s) (call_helper reg data ft (S f) hid h (lift s o)).
Proof.
  intros Hstd Ht Hi Hs Ho. rewrite !call_helper_S.
  assert (He : eff s o s o) by (apply eff_refl; assumption).
  destruct (has_call_inner hid) eqn:Hci.
  - rewrite call_inner_lift. pose proof (call_inner_quiet hid h s) as Q.
    destruct (call_inner reg hid h s) as [result s1|e s1|p|]; [| |reflexivity|exact I].
    + destruct Q as (Q1 & Q2 & Q3 & Q4).
      assert (He1 : eff s o s1 o) by (apply eff_upd; try assumption; apply Q1; exact Hs).
      destruct (r_strict reg && sc_missing result).
      * apply sim_err_eff. exact He1.
      * apply escape_write_sim. exact He1.
    + destruct Q as (Q1 & Q2 & Q3 & Q4).
      assert (He1 : eff s o s1 o) by (apply eff_upd; try assumption; apply Q1; exact Hs).
      destruct (is_unimplemented e); [apply sim_ok_eff | apply sim_err_eff]; exact He1.
  - destruct hid; try discriminate Hci; try discriminate Hstd.
    + (* if *) apply sim_param_or; [exact He|]. intros param. cbv zeta.
      apply (i_or f IH); try assumption.
      match goal with |- fr_opt (if ?c then _ else _) => destruct c end; assumption.
    + (* unless *) apply sim_param_or; [exact He|]. intros param. cbv zeta.
      apply (i_or f IH); try assumption.
      match goal with |- fr_opt (if ?c then _ else _) => destruct c end; assumption.
    + (* each *) apply sim_param_or; [exact He|]. intros value.
      destruct (hv_tpl h) as [t|] eqn:Etpl; [|apply sim_ok_eff; exact He].
      cbv zeta.
      assert (Hoth : sim eq s o
                (match hv_inv h with
                 | Some et => render_template reg data ft f et s
                 | None => if r_strict reg then strict_error (pj_rel value) s else ROk tt s
                 end)
                (match hv_inv h with
                 | Some et => render_template reg data ft f et (lift s o)
                 | None => if r_strict reg then strict_error (pj_rel value) (lift s o) else ROk tt (lift s o)
                 end)).
      { destruct (hv_inv h) as [et|].
        - apply (i_rt f IH); assumption.
        - destruct (r_strict reg); [apply sim_err_eff | apply sim_ok_eff]; exact He. }
      set (b0 := create_block value).
      assert (Hpb : plain_state (push_block b0 s)) by psf Hs.
      assert (Hepb : eff s o (push_block b0 s) o) by (apply eff_upd; try assumption; reflexivity).
      assert (Hloop : forall X (l : list X) (key : X -> option str) (val : X -> json) n,
                sim eq s o
                  (rbind (fold_idx (fun x i s' => render_template reg data ft f t
                                        (each_iter_setup h (sc_context_path (pj_val value)) n i (key x) (val x) s'))
                                   l O (push_block b0 s))
                         (fun _ s1 => ROk tt (pop_block s1)))
                  (rbind (fold_idx (fun x i s' => render_template reg data ft f t
                                        (each_iter_setup h (sc_context_path (pj_val value)) n i (key x) (val x) s'))
                                   l O (push_block b0 (lift s o)))
                         (fun _ s1 => ROk tt (pop_block s1)))).
      { intros X l key val n.
        change (push_block b0 (lift s o)) with (lift (push_block b0 s) o).
        apply (sim_bind eq).
        - apply (sim_from eq _ _ _ _ _ _ Hepb). apply sim_fold_idx; [|exact Hpb|exact Ho].
          intros x i s1 o1 _ Hp1 Hf1. rewrite each_iter_setup_lift.
          destruct (each_iter_setup_frame h (sc_context_path (pj_val value)) n i (key x) (val x) s1)
            as (G1 & G2 & G3 & G4).
          apply (sim_from eq _ _ (each_iter_setup h (sc_context_path (pj_val value)) n i (key x) (val x) s1) o1).
          + apply eff_upd; try assumption. apply G1; exact Hp1.
          + apply (i_rt f IH); [exact Ht | apply G1; exact Hp1 | exact Hf1].
        - intros a b s1 o1 _ He1.
          change (pop_block (lift s1 o1)) with (lift (pop_block s1) o1).
          apply sim_ok_eff. eapply eff_frame; [exact He1 | psf (proj1 He1) | reflexivity..]. }
      destruct (pj_value value); try exact Hoth.
      * match goal with |- sim _ _ _ (if ?c then _ else _) _ => destruct c end; [|exact Hoth].
        exact (Hloop json l (fun _ => None) (fun v => v) (length l)).
      * match goal with |- sim _ _ _ (if ?c then _ else _) _ => destruct c end; [|exact Hoth].
        exact (Hloop (str * json)%type m (fun kv => Some (fst kv)) (fun kv => snd kv) (length m)).
    + (* with *) apply sim_param_or; [exact He|]. intros param.
      destruct (is_truthy false (pj_value param)).
      * cbv zeta.
        match goal with |- context [push_block ?b s] => set (b1 := b) end.
        change (push_block b1 (lift s o)) with (lift (push_block b1 s) o).
        assert (Hpb : plain_state (push_block b1 s)) by psf Hs.
        apply (sim_bind eq).
        -- apply (sim_from eq _ _ (push_block b1 s) o); [apply eff_upd; try assumption; reflexivity|].
           apply (i_or f IH); assumption.
        -- intros a b s1 o1 _ He1.
           change (pop_block (lift s1 o1)) with (lift (pop_block s1) o1).
           apply sim_ok_eff. eapply eff_frame; [exact He1 | psf (proj1 He1) | reflexivity..].
      * destruct (hv_inv h) as [t|].
        -- apply (i_rt f IH); assumption.
        -- destruct (r_strict reg); [apply sim_err_eff | apply sim_ok_eff]; exact He.
    + (* raw *) apply (i_or f IH); assumption.
    + (* log *) cbv zeta.
      match goal with |- sim _ _ _ (if ?c then _ else _) _ => destruct c end;
        [apply sim_ok_eff | apply sim_err_eff]; exact He.
    + (* cnt *)
      match goal with |- sim _ _ _ (ROk tt (log_entry s ?x)) _ =>
        change (log_entry (lift s o) x) with (lift (log_entry s x) o); apply sim_ok_eff;
        apply eff_upd; try assumption; try reflexivity; psf Hs end.
    + (* fail *) apply sim_err_eff. exact He.
Qed.

Lemma s_ed dt s o : fr_deco dt -> plain_state s -> o_fail_at o = None ->
  sim eq s o (eval_decorator reg data ft (S f) dt s) (eval_decorator reg data ft (S f) dt (lift s o)).
Proof.
  intros Hd Hs Ho. rewrite !eval_decorator_S.
  assert (He : eff s o s o) by (apply eff_refl; assumption).
  pose proof (proj1 (fr_deco_proj dt) Hd) as (_ & _ & _ & Htp).
  eapply (sim_bind_pure _ eq); [exact He | apply deco_from_template_pure; [exact Hd | apply Hs] |].
  intros d d' (En & Ep & Eh & Et & Et2 & _ & _). rewrite En, Ep, Et.
  destruct (map_get (r_decorators reg) (dv_name d)) as [did|] eqn:Ed; [|apply sim_err_eff; exact He].
  destruct did.
  - destruct (dv_params d) as [|p ps]; [apply sim_err_eff; exact He|].
    destruct (pj_value p) as [| | |name| |]; try (apply sim_err_eff; exact He).
    destruct (dv_tpl d) as [t|] eqn:Etp; [|apply sim_err_eff; exact He].
    change (set_partials (lift s o) (map_insert (s_partials (lift s o)) name t))
      with (lift (set_partials s (map_insert (s_partials s) name t)) o).
    apply sim_ok_eff. apply eff_upd; try assumption; try reflexivity.
    destruct Hs as (H1 & H2 & H3 & (F1 & F2 & F3 & F4)).
    unfold plain_state, fr_state. cbn. repeat split; try assumption.
    apply map_insert_Forall; [exact F1|]. cbn [snd]. rewrite <- Et2 in Htp. exact Htp.
  - exfalso. exact (proj2 (proj2 Hreg) _ _ Ed eq_refl).
  - destruct (dv_params d) as [|p ps]; [apply sim_err_eff; exact He|].
    change (set_modified (lift s o) (Some (pj_value p))) with (lift (set_modified s (Some (pj_value p))) o).
    apply sim_ok_eff. apply eff_upd; try assumption; try reflexivity.
Qed.

Lemma dv_rel_set dt d d' : dv_rel dt d d' -> d_indent dt = None -> d' = dv_set_indent d (Some W).
Proof.
  intros (En & Ep & Eh & Et & _ & _ & Ei) Hn. rewrite Hn in Ei.
  destruct d'. cbn in *. subst. reflexivity.
Qed.

Lemma s_rp dt s o : fr_deco dt -> d_indent dt = None -> d_ibw dt = true ->
  plain_state s -> o_fail_at o = None ->
  sim eq s o (render_partial reg data ft (S f) dt s) (render_partial reg data ft (S f) dt (lift s o)).
Proof.
  intros Hd Hind Hibw Hs Ho. rewrite !render_partial_S.
  assert (He : eff s o s o) by (apply eff_refl; assumption).
  pose proof (proj1 (fr_deco_proj dt) Hd) as (_ & _ & _ & Htp).
  eapply (sim_bind_pure _ eq); [exact He | apply deco_from_template_pure; [exact Hd | apply Hs] |].
  intros d d' R. cbv zeta. rewrite Hind, Hibw. cbn [andb]. rewrite !orb_false_r.
  rewrite (dv_rel_set _ _ _ R Hind).
  destruct R as (_ & _ & _ & _ & Et2 & Ei & _).
  set (s2 := set_content_produced (set_indent_before_write s (tn s)) false).
  assert (Hs2 : plain_state s2).
  { destruct Hs as (H1 & H2 & H3 & H4). unfold plain_state, fr_state. cbn. repeat split; try assumption; apply H4. }
  apply (bracket_sim s o s2); try assumption; try reflexivity.
  change (set_content_produced (set_indent_before_write (lift s o) (tn (lift s o))) false) with (lift s2 o).
  apply (i_xp f IH); try assumption.
  - rewrite Et2. exact Htp.
  - rewrite Ei. exact Hind.
Qed.

Lemma get_partial_fr s n p : fr_state s -> get_partial s n = Some p -> fr_template p.
Proof.
  intros (F1 & F2 & _ & _). unfold fr_named in F1. unfold get_partial. destruct (str_eqb n PARTIAL_BLOCK).
  - unfold current_pb. destruct (_ || _); [discriminate|].
    destruct (nth_error (s_pb_stack s) _) as [[t z]|] eqn:E; [|discriminate].
    cbn [option_map fst]. intros [= <-]. apply nth_error_In in E.
    rewrite Forall_forall in F2. exact (F2 _ E).
  - intros H. destruct (map_get_In _ _ _ H) as [k' Hin]. rewrite Forall_forall in F1. exact (F1 _ Hin).
Qed.

Lemma found_fr s n dtpl p :
  fr_state s -> fr_opt dtpl ->
  match get_partial s n with
  | Some p => Some p
  | None =>
      match (match s_dev s with Some dm => map_get dm n | None => None end) with
      | Some p => Some p
      | None => match map_get (r_templates reg) n with Some p => Some p | None => dtpl end
      end
  end = Some p -> fr_template p.
Proof.
  intros Hs Hd. destruct (get_partial s n) as [q|] eqn:E1.
  - intros [= <-]. exact (get_partial_fr _ _ _ Hs E1).
  - destruct Hs as (_ & _ & F3 & _). pose proof (proj1 Hreg) as R1. unfold fr_named in *. destruct (s_dev s) as [dm|].
    + destruct (map_get dm n) as [q|] eqn:E2.
      * intros [= <-]. destruct (map_get_In _ _ _ E2) as [k' Hin]. rewrite Forall_forall in F3. exact (F3 _ Hin).
      * destruct (map_get (r_templates reg) n) as [q|] eqn:E3.
        -- intros [= <-]. destruct (map_get_In _ _ _ E3) as [k' Hin].
           rewrite Forall_forall in R1. exact (R1 _ Hin).
        -- intros ->. exact Hd.
    + destruct (map_get (r_templates reg) n) as [q|] eqn:E3.
      * intros [= <-]. destruct (map_get_In _ _ _ E3) as [k' Hin].
        rewrite Forall_forall in R1. exact (R1 _ Hin).
      * intros ->. exact Hd.
Qed.

Lemma Forall_tl {A} (P : A -> Prop) l : Forall P l -> Forall P (tl l).
Proof. intros H. destruct l; [exact H | inversion H; assumption]. Qed.

Lemma s_xp d s o : fr_opt (dv_tpl d) -> dv_indent d = None -> plain_state s -> o_fail_at o = None ->
  sim eq s o (expand_partial reg data ft (S f) d s)
             (expand_partial reg data ft (S f) (dv_set_indent d (Some W)) (lift s o)).
Proof.
  intros Ht Hi Hs Ho. rewrite !expand_partial_S.
  cbn [dv_set_indent dv_tpl dv_name dv_params dv_hash dv_indent].
  rewrite Hi.
  pose proof Ht as Ht0.
  apply (sim_bind eq).
  { destruct (dv_tpl d) as [t|]; [apply (i_et f IH); assumption | apply sim_ok_eff; apply eff_refl; assumption]. }
  intros [] [] s1 o1 _ He1. cbv zeta.
  pose proof He1 as (Hs1 & Ho1 & _).
  set (n := dv_name d).
  change (s_current (lift s1 o1)) with (s_current s1).
  change (get_partial (lift s1 o1) n) with (get_partial s1 n).
  change (s_dev (lift s1 o1)) with (s_dev s1).
  change (current_pb (lift s1 o1)) with (current_pb s1).
  change (s_pb_depth (lift s1 o1)) with (s_pb_depth s1).
  change (s_indent (lift s1 o1)) with (Some W).
  destruct (match s_current s1 with Some c => str_eqb c n | None => false end);
    [apply sim_err_eff; exact He1|].
  match goal with |- sim _ _ _ (match ?F with _ => _ end) _ => destruct F as [partial|] eqn:Efound end;
    [|apply sim_err_eff; exact He1].
  assert (Hpartial : fr_template partial) by (eapply found_fr; [apply Hs1 | exact Ht0 | exact Efound]).
  set (s2 := if str_eqb n PARTIAL_BLOCK
             then match current_pb s1 with Some (_, d0) => set_pb_depth s1 d0 | None => s1 end
             else s1).
  assert (E2 : (if str_eqb n PARTIAL_BLOCK
                then match current_pb s1 with
                     | Some (_, d0) => set_pb_depth (lift s1 o1) d0
                     | None => lift s1 o1
                     end
                else lift s1 o1) = lift s2 o1).
  { unfold s2. destruct (str_eqb n PARTIAL_BLOCK); [destruct (current_pb s1) as [[? ?]|]|]; reflexivity. }
  rewrite E2.
  assert (Hs2 : plain_state s2).
  { unfold s2. destruct (str_eqb n PARTIAL_BLOCK); [destruct (current_pb s1) as [[? ?]|]|];
      first [exact Hs1 | psf Hs1]. }
  assert (He2 : eff s o s2 o1).
  { eapply eff_frame; [exact He1 | exact Hs2 | ..];
      unfold s2; (destruct (str_eqb n PARTIAL_BLOCK); [destruct (current_pb s1) as [[? ?]|]|]); reflexivity. }
  assert (Hs12 : s_indent s1 = None) by apply Hs1.
  eapply (sim_bind_pure eq); [exact He2 | |].
  { destruct (dv_params d) as [|p ps].
    - apply (pure2_bind eq); [apply evaluate2_pure; reflexivity|]. intros r ? <-. cbn [pure2]. repeat split.
    - destruct (pj_rel p) as [rel|].
      + apply (pure2_bind eq); [apply evaluate_pure; reflexivity|]. intros r ? <-. cbn [pure2]. repeat split.
      + cbn [pure2]. repeat split. }
  intros merged ? <-.
  rewrite Hs12.
  destruct (dv_tpl d) as [pb|] eqn:Etp.
  - match goal with |- context [render_template _ _ _ _ _ (set_indent ?X None)] => set (S5 := X) end.
    assert (Hs5 : plain_state S5).
    { destruct Hs2 as (H1 & H2 & H3 & (F1 & F2 & F3 & F4)). unfold plain_state, fr_state, S5. cbn.
      repeat split; try assumption. constructor; [exact Ht0 | exact F2]. }
    rewrite (set_indent_id S5 None) by apply Hs5.
    match goal with |- context [render_template _ _ _ _ _ (set_indent ?Y (Some W))] =>
      change (set_indent Y (Some W)) with (lift S5 o1) end.
    match goal with
    | |- sim _ _ _ (match _ with ROk u s7 => ROk u (@?G s7) | RErr _ _ => _ | RPanic _ => _ | RFuel => _ end)
                   (match _ with ROk u' s8 => ROk u' (@?G' s8) | RErr _ _ => _ | RPanic _ => _ | RFuel => _ end) =>
        apply (sim_post_x s o _ _ G G')
    end.
    + intros; reflexivity.
    + intros s7 (H1 & H2 & H3 & (F1 & F2 & F3 & F4)). unfold plain_state, fr_state. cbn.
      repeat split; try assumption. apply Forall_tl. exact F2.
    + intros s7. repeat split.
    + apply (sim_from eq _ _ S5 o1).
      * eapply eff_frame; [exact He2 | exact Hs5 | reflexivity..].
      * apply (i_rt f IH); [exact Hpartial | exact Hs5 | exact Ho1].
  - match goal with |- context [render_template _ _ _ _ _ (set_indent ?X None)] => set (S5 := X) end.
    assert (Hs5 : plain_state S5) by (unfold S5; psf Hs2).
    rewrite (set_indent_id S5 None) by apply Hs5.
    match goal with |- context [render_template _ _ _ _ _ (set_indent ?Y (Some W))] =>
      change (set_indent Y (Some W)) with (lift S5 o1) end.
    match goal with
    | |- sim _ _ _ (match _ with ROk u s7 => ROk u (@?G s7) | RErr _ _ => _ | RPanic _ => _ | RFuel => _ end)
                   (match _ with ROk u' s8 => ROk u' (@?G' s8) | RErr _ _ => _ | RPanic _ => _ | RFuel => _ end) =>
        apply (sim_post_x s o _ _ G G')
    end.
    + intros; reflexivity.
    + intros s7 (H1 & H2 & H3 & (F1 & F2 & F3 & F4)). unfold plain_state, fr_state. cbn.
      repeat split; assumption.
    + intros s7. repeat split.
    + apply (sim_from eq _ _ S5 o1).
      * eapply eff_frame; [exact He2 | exact Hs5 | reflexivity..].
      * apply (i_rt f IH); [exact Hpartial | exact Hs5 | exact Ho1].
Qed.

Lemma sim_step : sim_at (S f).
Proof.
  constructor.
  - exact s_rt. - exact s_et. - exact s_or. - exact s_re. - exact s_ee. - exact s_rx.
  - exact s_rh. - exact s_ch. - exact s_ed. - exact s_rp. - exact s_xp.
Qed.

End Step.

Theorem sim_all : forall f, sim_at f.
Proof. induction f as [|f IH]; [exact sim_0 | exact (sim_step f IH)]. Qed.

(* ====================================================================== *)
(** * The standalone call against the call without indentation *)

(* decorators write nothing and leave the flags alone *)
Definition Q (s s' : rstate) : Prop :=
  s_out s' = s_out s /\ tn s' = tn s /\ cp s' = cp s /\ ibw s' = ibw s /\ s_indent s' = s_indent s /\
  (fr_state s -> fr_state s').
Definition quiet {A} (s : rstate) (r : rres A) : Prop :=
  match r with ROk _ s' | RErr _ s' => Q s s' | _ => True end.

Lemma Q_refl s : Q s s.
Proof. unfold Q. split; [|split; [|split; [|split; [|split]]]]; auto. Qed.
Lemma Q_trans s1 s2 s3 : Q s1 s2 -> Q s2 s3 -> Q s1 s3.
Proof.
  intros (A1 & A2 & A3 & A4 & A5 & A6) (B1 & B2 & B3 & B4 & B5 & B6). unfold Q.
  split; [|split; [|split; [|split; [|split]]]]; try congruence. auto.
Qed.

Lemma dft_pure1 f dt s :
  fr_deco dt ->
  pure2 (fun d d' => d' = d /\ dv_tpl d = d_tpl dt) s s
        (deco_from_template reg data ft f dt s) (deco_from_template reg data ft f dt s).
Proof.
  intros Hd. apply fr_deco_proj in Hd. destruct Hd as (Hn & Hps & Hhs & _).
  destruct f as [|f]; [rewrite !deco_from_template_0; exact I|].
  rewrite !deco_from_template_S.
  apply (pure2_bind eq); [apply expand_as_name_pure; exact Hn|]. intros name ? <-.
  apply (pure2_bind eq).
  { apply mapM_pure. intros x Hx. apply expand_param_pure; [|reflexivity|reflexivity].
    rewrite Forall_forall in Hps. apply Hps. exact Hx. }
  intros pv ? <-.
  apply (pure2_bind eq).
  { apply mapM_pure. intros x Hx.
    apply (pure2_bind eq); [apply expand_param_pure; [|reflexivity|reflexivity]|].
    - rewrite Forall_forall in Hhs. apply Hhs. exact Hx.
    - intros v ? <-. repeat split. }
  intros hm ? <-. cbn [pure2 dv_tpl]. repeat split.
Qed.

Lemma eval_decorator_q f dt s : fr_deco dt -> quiet s (eval_decorator reg data ft f dt s).
Proof.
  intros Hd. destruct f as [|f]; [exact I|]. rewrite eval_decorator_S.
  pose proof (proj1 (fr_deco_proj dt) Hd) as (_ & _ & _ & Htp).
  pose proof (dft_pure1 f dt s Hd) as P.
  destruct (deco_from_template reg data ft f dt s) as [d s1|e s1|p|]; cbn [pure2] in P; cbn [rbind quiet];
    try exact I.
  - destruct P as ((_ & Et) & -> & _).
    destruct (map_get (r_decorators reg) (dv_name d)) as [did|] eqn:Ed; [|apply Q_refl].
    destruct did.
    + destruct (dv_params d) as [|p ps]; [apply Q_refl|].
      destruct (pj_value p) as [| | |name| |]; try apply Q_refl.
      destruct (dv_tpl d) as [t|] eqn:Etp; [|apply Q_refl].
      cbn [quiet]. unfold Q. split; [|split; [|split; [|split; [|split]]]]; try reflexivity.
      intros (F1 & F2 & F3 & F4). unfold fr_state. cbn. repeat split; try assumption.
      apply map_insert_Forall; [exact F1|]. cbn [snd]. rewrite <- Et in Htp. exact Htp.
    + exfalso. exact (proj2 (proj2 Hreg) _ _ Ed eq_refl).
    + destruct (dv_params d) as [|p ps]; [apply Q_refl|].
      cbn [quiet]. unfold Q. split; [|split; [|split; [|split; [|split]]]]; try reflexivity. auto.
  - destruct P as (_ & -> & _). apply Q_refl.
Qed.

Lemma eval_template_q f t s : fr_template t -> quiet s (eval_template reg data ft f t s).
Proof.
  intros Ht. destruct f as [|f]; [exact I|]. rewrite eval_template_S.
  apply fr_template_els in Ht. revert Ht. generalize 0%nat. generalize s.
  induction (t_els t) as [|e r IHr]; intros s0 i Hf; cbn [fold_idx]; [apply Q_refl|].
  inversion Hf as [|? ? He Hr]; subst.
  assert (Hq : quiet s0 (rmap_err (eval_element reg data ft f e s0) (attach_eval t i))).
  { destruct f as [|f']; [exact I|]. rewrite eval_element_S.
    destruct e; cbn [fr_element] in He; cbn [rmap_err quiet]; try apply Q_refl.
    - pose proof (eval_decorator_q f' d s0 He) as K. destruct (eval_decorator reg data ft f' d s0); exact K.
    - pose proof (eval_decorator_q f' d s0 He) as K. destruct (eval_decorator reg data ft f' d s0); exact K. }
  destruct (rmap_err (eval_element reg data ft f e s0) (attach_eval t i)) as [[] s1|e1 s1|p|];
    cbn [rbind quiet] in *; try exact I; try exact Hq.
  specialize (IHr s1 (S i) Hr).
  destruct (fold_idx _ r (S i) s1); cbn [quiet] in *; try exact I; exact (Q_trans _ _ _ Hq IHr).
Qed.

Definition top_rel {A} (s0 : rstate) (x y : rres A) : Prop :=
  match x, y with
  | ROk a s', ROk b t' => a = b /\ exists o', t' = set_out s' o' /\ eff s0 (s_out s0) s' o'
  | RErr e s', RErr e' t' => e = e' /\ exists o', t' = set_out s' o' /\ eff_err s0 (s_out s0) s' o'
  | RPanic p, RPanic q => p = q
  | RFuel, RFuel => True
  | _, _ => False
  end.

Lemma top_err_same {A} s0 s1 e :
  s_out s1 = s_out s0 -> top_rel (A := A) s0 (RErr e s1) (RErr e s1).
Proof.
  intros Eo. cbn [top_rel]. split; [reflexivity|]. exists (s_out s1). split; [symmetry; apply set_out_id|].
  exists []. split; [constructor|]. cbn [concat indent_chunks fst]. rewrite !app_nil_r, Eo. split; reflexivity.
Qed.

Lemma eff_reroot s0 s5 s' o' :
  s_out s5 = s_out s0 -> tn s5 = tn s0 -> cp s5 = cp s0 ->
  eff s5 (s_out s5) s' o' -> eff s0 (s_out s0) s' o'.
Proof. intros E1 E2 E3 H. unfold eff, written in *. rewrite E1, E2, E3 in H. exact H. Qed.

Lemma eff_err_reroot s0 s5 s' o' :
  s_out s5 = s_out s0 -> tn s5 = tn s0 ->
  eff_err s5 (s_out s5) s' o' -> eff_err s0 (s_out s0) s' o'.
Proof. intros E1 E2 H. unfold eff_err, written in *. rewrite E1, E2 in H. exact H. Qed.

Lemma xp_top f d s :
  fr_opt (dv_tpl d) -> dv_indent d = None -> plain_state s ->
  top_rel s (expand_partial reg data ft f d s)
            (expand_partial reg data ft f (dv_set_indent d (Some W)) s).
Proof.
  intros Ht Hi Hs. destruct f as [|f]; [exact I|]. rewrite !expand_partial_S.
  cbn [dv_set_indent dv_tpl dv_name dv_params dv_hash dv_indent]. rewrite Hi.
  assert (Hq : quiet s (match dv_tpl d with Some t => eval_template reg data ft f t s | None => ROk tt s end)).
  { destruct (dv_tpl d) as [t|]; [apply eval_template_q; exact Ht | apply Q_refl]. }
  destruct (match dv_tpl d with Some t => eval_template reg data ft f t s | None => ROk tt s end)
    as [[] s1|e s1|p|]; cbn [rbind quiet] in *; [| |reflexivity|exact I].
  2:{ apply top_err_same. apply Hq. }
  destruct Hq as (Q1 & Q2 & Q3 & Q4 & Q5 & Q6).
  assert (Hs1 : plain_state s1).
  { destruct Hs as (H1 & H2 & H3 & H4). unfold plain_state. rewrite Q5, Q1, Q4, Q2. auto. }
  cbv zeta. set (n := dv_name d).
  destruct (match s_current s1 with Some c => str_eqb c n | None => false end);
    [apply top_err_same; exact Q1|].
  match goal with |- top_rel _ (match ?F with _ => _ end) _ => destruct F as [partial|] eqn:Efound end;
    [|apply top_err_same; exact Q1].
  assert (Hpartial : fr_template partial) by (eapply found_fr; [apply Hs1 | exact Ht | exact Efound]).
  set (s2 := if str_eqb n PARTIAL_BLOCK
             then match current_pb s1 with Some (_, d0) => set_pb_depth s1 d0 | None => s1 end
             else s1).
  assert (Hs2 : plain_state s2).
  { unfold s2. destruct (str_eqb n PARTIAL_BLOCK); [destruct (current_pb s1) as [[? ?]|]|];
      first [exact Hs1 | psf Hs1]. }
  assert (F2 : s_out s2 = s_out s /\ tn s2 = tn s /\ cp s2 = cp s).
  { unfold s2. destruct (str_eqb n PARTIAL_BLOCK); [destruct (current_pb s1) as [[? ?]|]|]; cbn; auto. }
  destruct F2 as (F21 & F22 & F23).
  assert (Hs12 : s_indent s1 = None) by apply Hs1.
  match goal with |- top_rel _ (rbind ?X _) (rbind ?X _) =>
    assert (Hp : pure2 eq s2 s2 X X); [|destruct X as [merged s3|e s3|p|]] end.
  { destruct (dv_params d) as [|p ps].
    - apply (pure2_bind eq); [apply evaluate2_pure; reflexivity|]. intros r ? <-. cbn [pure2]. repeat split.
    - destruct (pj_rel p) as [rel|].
      + apply (pure2_bind eq); [apply evaluate_pure; reflexivity|]. intros r ? <-. cbn [pure2]. repeat split.
      + cbn [pure2]. repeat split. }
  2:{ cbn [pure2] in Hp. destruct Hp as (_ & -> & _). cbn [rbind]. apply top_err_same. exact F21. }
  2:{ reflexivity. }
  2:{ exact I. }
  cbn [pure2] in Hp. destruct Hp as (_ & -> & _). cbn [rbind]. rewrite Hs12.
  destruct (dv_tpl d) as [pb|] eqn:Etp.
  - match goal with |- context [render_template _ _ _ _ _ (set_indent ?X None)] => set (S5 := X) end.
    assert (Hs5 : plain_state S5).
    { destruct Hs2 as (H1 & H2 & H3 & (G1 & G2 & G3 & G4)). unfold plain_state, fr_state, S5. cbn.
      repeat split; try assumption. constructor; [exact Ht | exact G2]. }
    rewrite (set_indent_id S5 None) by apply Hs5.
    match goal with |- context [render_template _ _ _ _ _ (set_indent ?Y (Some W))] =>
      replace (set_indent Y (Some W)) with (lift S5 (s_out S5))
        by (unfold with_indent; rewrite set_out_id; reflexivity) end.
    pose proof (i_rt f (sim_all f) partial S5 (s_out S5) Hpartial Hs5 ltac:(apply Hs5)) as R.
    destruct (render_template reg data ft f partial S5) as [u s7|e s7|p|],
             (render_template reg data ft f partial (lift S5 (s_out S5))) as [u' t7|e' t7|p'|];
      cbn [sim] in R; try contradiction; cbn [top_rel].
    + destruct R as (-> & o7 & -> & R). split; [reflexivity|]. exists o7. split; [reflexivity|].
      apply (eff_reroot s S5); [exact F21 | exact F22 | exact F23 |].
      eapply eff_frame; [exact R | | reflexivity..].
      destruct R as ((H1 & H2 & H3 & (G1 & G2 & G3 & G4)) & _). unfold plain_state, fr_state. cbn.
      repeat split; try assumption. apply Forall_tl. exact G2.
    + destruct R as (-> & o7 & -> & R). split; [reflexivity|]. exists o7. split; [reflexivity|].
      apply (eff_err_reroot s S5); [exact F21 | exact F22 |].
      eapply eff_err_frame; [exact R | reflexivity].
    + exact R.
    + exact I.
  - match goal with |- context [render_template _ _ _ _ _ (set_indent ?X None)] => set (S5 := X) end.
    assert (Hs5 : plain_state S5) by (unfold S5; psf Hs2).
    rewrite (set_indent_id S5 None) by apply Hs5.
    match goal with |- context [render_template _ _ _ _ _ (set_indent ?Y (Some W))] =>
      replace (set_indent Y (Some W)) with (lift S5 (s_out S5))
        by (unfold with_indent; rewrite set_out_id; reflexivity) end.
    pose proof (i_rt f (sim_all f) partial S5 (s_out S5) Hpartial Hs5 ltac:(apply Hs5)) as R.
    destruct (render_template reg data ft f partial S5) as [u s7|e s7|p|],
             (render_template reg data ft f partial (lift S5 (s_out S5))) as [u' t7|e' t7|p'|];
      cbn [sim] in R; try contradiction; cbn [top_rel].
    + destruct R as (-> & o7 & -> & R). split; [reflexivity|]. exists o7. split; [reflexivity|].
      apply (eff_reroot s S5); [exact F21 | exact F22 | exact F23 |].
      eapply eff_frame; [exact R | | reflexivity..].
      destruct R as ((H1 & H2 & H3 & (G1 & G2 & G3 & G4)) & _). unfold plain_state, fr_state. cbn.
      repeat split; assumption.
    + destruct R as (-> & o7 & -> & R). split; [reflexivity|]. exists o7. split; [reflexivity|].
      apply (eff_err_reroot s S5); [exact F21 | exact F22 |].
      eapply eff_err_frame; [exact R | reflexivity].
    + exact R.
    + exact I.
Qed.

Lemma d_set_indent_proj dt i :
  d_name (d_set_indent dt i) = d_name dt /\ d_params (d_set_indent dt i) = d_params dt /\
  d_hash (d_set_indent dt i) = d_hash dt /\ d_tpl (d_set_indent dt i) = d_tpl dt /\
  d_indent (d_set_indent dt i) = i /\ d_ibw (d_set_indent dt i) = d_ibw dt.
Proof. destruct dt. cbn. repeat split. Qed.

(* deco values for dt and for dt without its indentation, from a state without
   indent string *)
Lemma dft_top f dt s :
  fr_deco dt -> s_indent s = None -> d_indent dt = Some W ->
  pure2 (fun d0 d => d = dv_set_indent d0 (Some W) /\ dv_indent d0 = None /\ dv_tpl d0 = d_tpl dt) s s
        (deco_from_template reg data ft f (d_set_indent dt None) s)
        (deco_from_template reg data ft f dt s).
Proof.
  intros Hd Hi Hw. apply fr_deco_proj in Hd. destruct Hd as (Hn & Hps & Hhs & _).
  destruct (d_set_indent_proj dt None) as (P1 & P2 & P3 & P4 & P5 & P6).
  destruct f as [|f]; [rewrite !deco_from_template_0; exact I|].
  rewrite !deco_from_template_S. rewrite P1, P2, P3, P4, P5.
  apply (pure2_bind eq); [apply expand_as_name_pure; exact Hn|]. intros name ? <-.
  apply (pure2_bind eq).
  { apply mapM_pure. intros x Hx. apply expand_param_pure; [|reflexivity|reflexivity].
    rewrite Forall_forall in Hps. apply Hps. exact Hx. }
  intros pv ? <-.
  apply (pure2_bind eq).
  { apply mapM_pure. intros x Hx.
    apply (pure2_bind eq); [apply expand_param_pure; [|reflexivity|reflexivity]|].
    - rewrite Forall_forall in Hhs. apply Hhs. exact Hx.
    - intros v ? <-. repeat split. }
  intros hm ? <-. cbn [pure2]. rewrite Hi, Hw. cbn [combine_indent]. repeat split.
Qed.

Theorem rp_top fuel dt s :
  fr_deco dt -> d_indent dt = Some W -> d_ibw dt = true -> call_state s ->
  standalone_related W s (render_partial reg data ft fuel (d_set_indent dt None) s)
                         (render_partial reg data ft fuel dt s).
Proof.
  intros Hd Hw Hb (Hi & Hf & Ht & Hfr). destruct fuel as [|f]; [exact I|].
  rewrite !render_partial_S.
  destruct (d_set_indent_proj dt None) as (_ & _ & _ & _ & P5 & P6).
  pose proof (proj1 (fr_deco_proj dt) Hd) as (_ & _ & _ & Htp).
  pose proof (dft_top f dt s Hd Hi Hw) as P.
  destruct (deco_from_template reg data ft f (d_set_indent dt None) s) as [d0 s1|e s1|p|],
           (deco_from_template reg data ft f dt s) as [d s1'|e' s1'|p'|];
    cbn [pure2] in P; try contradiction; cbn [rbind standalone_related]; try exact P.
  2:{ destruct P as (-> & -> & ->). split; [reflexivity|]. exists (s_out s). split; [symmetry; apply set_out_id|].
      exists []. split; [constructor|]. cbn [concat indent_chunks fst]. rewrite !app_nil_r. split; reflexivity. }
  destruct P as ((-> & Hi0 & Et0) & -> & ->). cbv zeta.
  rewrite P5, P6, Hw, Hb, Ht. cbn [andb orb].
  set (s2 := set_content_produced (set_indent_before_write s true) false).
  assert (Hs2 : plain_state s2).
  { unfold plain_state, fr_state. cbn. repeat split; try assumption; try apply Hfr.
    symmetry; exact Ht. }
  pose proof (xp_top f d0 s2 ltac:(rewrite Et0; exact Htp) Hi0 Hs2) as R.
  destruct (expand_partial reg data ft f d0 s2) as [[] s3|e s3|p|],
           (expand_partial reg data ft f (dv_set_indent d0 (Some W)) s2) as [[] t3|e' t3|p'|];
    cbn [top_rel] in R; try contradiction; cbn [rbind standalone_related]; try exact R.
  - destruct R as (_ & o3 & -> & (Hp3 & Hf3 & cs & (Nn & Pp & Ii) & Tt & Cc)).
    change (cp (set_out s3 o3)) with (cp s3). change (tn (set_out s3 o3)) with (tn s3).
    change (s_out s2) with (s_out s) in *. change (tn s2) with (tn s) in *.
    destruct (cp s3); cbn [standalone_related]; (split; [reflexivity|]); exists o3;
      (split; [reflexivity|]); (split; [exact Hf3|]); exists cs; (split; [exact Nn|]); split; assumption.
Qed.


End Sim.

(* ====================================================================== *)
(** * Statements *)

Theorem indent_simulation_template reg data ft W fuel t s o :
  fr_registry reg -> fr_template t -> plain_state s -> o_fail_at o = None ->
  indent_related W s o (render_template reg data ft fuel t s)
                       (render_template reg data ft fuel t (with_indent W s o)).
Proof. intros Hr Ht Hs Ho. exact (i_rt _ _ _ _ _ (sim_all reg data ft W Hr fuel) t s o Ht Hs Ho). Qed.

Theorem indent_simulation_element reg data ft W fuel e s o :
  fr_registry reg -> fr_element e -> plain_state s -> o_fail_at o = None ->
  indent_related W s o (render_element reg data ft fuel e s)
                       (render_element reg data ft fuel e (with_indent W s o)).
Proof. intros Hr He Hs Ho. exact (i_re _ _ _ _ _ (sim_all reg data ft W Hr fuel) e s o He Hs Ho). Qed.

Theorem standalone_partial_expr reg data ft W fuel dt s :
  fr_registry reg -> fr_deco dt -> d_indent dt = Some W -> d_ibw dt = true ->
  call_state s ->
  standalone_related W s
    (render_element reg data ft fuel (ElPartExpr (d_set_indent dt None)) s)
    (render_element reg data ft fuel (ElPartExpr dt) s).
Proof.
  intros Hr Hd Hw Hb Hs. destruct fuel as [|f]; [exact I|]. rewrite !render_element_S.
  apply rp_top; assumption.
Qed.

Theorem standalone_partial_block reg data ft W fuel dt s :
  fr_registry reg -> fr_deco dt -> d_indent dt = Some W -> d_ibw dt = true ->
  call_state s ->
  standalone_related W s
    (render_element reg data ft fuel (ElPartBlock (d_set_indent dt None)) s)
    (render_element reg data ft fuel (ElPartBlock dt) s).
Proof.
  intros Hr Hd Hw Hb Hs. destruct fuel as [|f]; [exact I|]. rewrite !render_element_S.
  apply rp_top; assumption.
Qed.

(* when what the partial writes has no CR and no blank line, the relation is
   the function indent_lines of the text *)
Theorem standalone_partial_text reg data ft W fuel dt s s' t' text :
  fr_registry reg -> fr_deco dt -> d_indent dt = Some W -> d_ibw dt = true ->
  call_state s ->
  render_element reg data ft fuel (ElPartExpr (d_set_indent dt None)) s = ROk tt s' ->
  render_element reg data ft fuel (ElPartExpr dt) s = ROk tt t' ->
  out_text (s_out s') = out_text (s_out s) ++ text -> no_blank_line text ->
  t' = set_out s' (s_out t') /\
  out_text (s_out t') = out_text (s_out s) ++ indent_lines W text true.
Proof.
  intros Hr Hd Hw Hb Hs E1 E2 Etx Hnb. pose proof Hs as (_ & _ & Ht & _).
  pose proof (standalone_partial_expr reg data ft W fuel dt s Hr Hd Hw Hb Hs) as R.
  rewrite E1, E2 in R. cbn [standalone_related] in R.
  destruct R as (_ & o' & -> & _ & cs & (Nn & Pp & Ii)).
  split; [reflexivity|]. cbn [s_out set_out]. rewrite Ii, Ht.
  rewrite Pp in Etx. apply app_inv_head in Etx. subst text.
  rewrite chunking_irrelevant_text by exact Hnb. reflexivity.
Qed.

(* the same for the simulation: a fragment template rendered with W in force *)
Theorem indent_simulation_text reg data ft W fuel t s o s' t' text :
  fr_registry reg -> fr_template t -> plain_state s -> o_fail_at o = None ->
  render_template reg data ft fuel t s = ROk tt s' ->
  render_template reg data ft fuel t (with_indent W s o) = ROk tt t' ->
  out_text (s_out s') = out_text (s_out s) ++ text -> no_blank_line text ->
  t' = with_indent W s' (s_out t') /\
  out_text (s_out t') = out_text o ++ indent_lines W text (s_trailing_newline s).
Proof.
  intros Hr Ht Hs Ho E1 E2 Etx Hnb.
  pose proof (indent_simulation_template reg data ft W fuel t s o Hr Ht Hs Ho) as R.
  rewrite E1, E2 in R. cbn [indent_related] in R.
  destruct R as (_ & o' & -> & _ & _ & cs & (Nn & Pp & Ii) & _).
  split; [reflexivity|]. change (s_out (with_indent W s' o')) with o'. rewrite Ii.
  rewrite Pp in Etx. apply app_inv_head in Etx. subst text.
  rewrite chunking_irrelevant_text by exact Hnb. reflexivity.
Qed.

(* registries built on the built-in helpers are in the fragment *)
Lemma map_get_Forall {A} (P : A -> Prop) (m : list (str * A)) :
  Forall (fun kv => P (snd kv)) m -> forall n v, map_get m n = Some v -> P v.
Proof.
  intros H n v E. destruct (map_get_In _ _ _ E) as [k Hin]. rewrite Forall_forall in H. exact (H _ Hin).
Qed.

Theorem builtin_registry_in_fragment reg :
  r_helpers reg = builtin_helpers -> r_decorators reg = [(`"inline", DInline)] ->
  fr_named (r_templates reg) -> fr_registry reg.
Proof.
  intros Hh Hd Ht. split; [exact Ht|]. split.
  - rewrite Hh. apply (map_get_Forall (fun h => std_helper h = true)).
    vm_compute. repeat constructor.
  - rewrite Hd. intros n d. cbn [map_get]. destruct (str_eqb n _); [intros [= <-]; discriminate | discriminate].
Qed.
