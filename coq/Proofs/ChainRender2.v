(* Proofs/ChainRender2.v — property C06, render half, with `with` and `each`
   as chain links next to `if` / `unless`. *)
From Coq Require Import List Lia NArith Bool.
From HB Require Import Rt.Render Reg.RegOps Spec.ChainSpec Spec.DispatchSpec.
From HB Require Import Spec.ChainRenderSpec Spec.ChainRenderSpec2.
From HB Require Import Proofs.DispatchProofs Proofs.ChainRender.
Import ListNotations.
Open Scope nat_scope.

Section CR2.
  Variables (reg : registry) (data : json) (ft : ftable) (st : rstate).
  Notation RT := (render_template reg data ft).
  Notation RH := (render_helper reg data ft).
  Hypothesis Hvis : builtins_visible2 reg st.

  Lemma block_step2 lk d c rest fe g cp ibw cur :
    link_evals2 reg data ft st lk d ->
    RH (S (S (S g))) (block c lk rest fe) (frame st cp ibw cur) =
    rbind (link_run reg data ft g lk d (nest rest fe)
                    (frame st false (ibw || (link_ibw lk && s_trailing_newline st)) cur))
          (fun _ s2 =>
             if s_content_produced s2
             then ROk tt (set_indent_before_write s2 (s_trailing_newline s2))
             else ROk tt (set_indent_before_write (set_content_produced s2 cp) ibw)).
  Proof.
    destruct lk as [[e b] w]. destruct d as [k pv hm p0].
    cbn [link_evals2 link_ibw block ld_kind ld_pv ld_hm ld_p0].
    intros (Hname & Hps & Hhs & Hp0).
    set (ht := MkH (es_name e) (es_params e) (es_hash e) (es_bp e) (Some b) (nest rest fe) true c w).
    assert (Hhft : helper_from_template reg data ft (S (S g)) ht (frame st cp ibw cur)
                   = ROk {| hv_name := lkind_name k; hv_params := pv; hv_hash := hm; hv_tpl := Some b;
                            hv_inv := nest rest fe; hv_bp := es_bp e; hv_block := true |}
                         (frame st cp ibw cur)).
    { rewrite helper_from_template_S. subst ht. cbn [h_name h_params h_hash h_tpl h_inv h_bp h_block].
      rewrite Hname, expand_as_name_S. cbn [rbind]. rewrite Hps. cbn [rbind]. rewrite Hhs. reflexivity. }
    destruct (Hvis k) as (Hreg & Hloc).
    rewrite (dispatch_registry reg data ft (S (S g)) ht _ _ _ (lkind_hid k) Hhft Hloc Hreg).
    unfold call_indent_aware. subst ht. cbn [h_ibw].
    apply (f_equal2 (@rbind unit unit)); [|reflexivity].
    set (s' := set_indent_before_write (set_content_produced (frame st cp ibw cur) false)
                 (s_indent_before_write (frame st cp ibw cur)
                  || w && s_trailing_newline (frame st cp ibw cur))).
    change (frame st false (ibw || w && s_trailing_newline st) cur) with s'. clearbody s'.
    unfold link_run, selects2, sel_run, none_run, inv_fuel.
    cbn [ld_kind ld_pv ld_hm ld_p0].
    destruct k; cbn [lkind_hid call_helper]; unfold param_or; cbn [hv_params hv_hash hv_tpl hv_inv hv_bp];
      rewrite Hp0.
    - (* if *) fold (include_zero hm).
      destruct (is_truthy (include_zero hm) (pj_value p0)); [reflexivity|].
      destruct (nest rest fe); reflexivity.
    - (* unless *) fold (include_zero hm).
      destruct (is_truthy (include_zero hm) (pj_value p0)); cbn [negb]; [|reflexivity].
      destruct (nest rest fe); reflexivity.
    - (* with *)
      destruct (is_truthy false (pj_value p0)); [reflexivity|].
      destruct (nest rest fe); reflexivity.
    - (* each *)
      unfold each_run. destruct (nest rest fe) as [inv|]; cbn [is_some negb];
        destruct (pj_value p0) as [| | | |l|m]; try reflexivity.
  Qed.

  (* after links that pass: the link lk, whatever it then does (link_run) *)
  Lemma level2 lk d rest fe g : link_evals2 reg data ft st lk d ->
    forall pre ds, Forall2 (link_passes2 reg data ft st) pre ds ->
    forall c cp ibw cur,
    RH (g + 3 + chain_cost ds) (chain_block c (pre ++ lk :: rest) fe) (frame st cp ibw cur) =
    rbind (link_run reg data ft g lk d (nest rest fe)
             (frame st false (ibw || (any_ibw (pre ++ [lk]) && s_trailing_newline st))
                    (if is_deep pre then None else cur)))
          (fun _ s2 => ROk tt (gexit cp ibw cur (is_deep pre) s2)).
  Proof.
    intros Hev pre ds Hpre. induction Hpre as [|l0 d0 pre ds [Hev0 Hsel0] Hpre IH]; intros c cp ibw cur.
    - cbn [app chain_cost fold_right chain_block is_deep any_ibw existsb]. rewrite Nat.add_0_r.
      replace (g + 3) with (S (S (S g))) by lia.
      rewrite (block_step2 _ _ _ _ _ _ _ _ _ Hev). rewrite orb_false_r.
      apply rbind_ext. intros _ s2. unfold gexit. destruct (s_content_produced s2); reflexivity.
    - cbn [app chain_block is_deep]. 
      assert (Hn : nest (pre ++ lk :: rest) fe = Some (wrap (chain_block true (pre ++ lk :: rest) fe)))
        by (destruct pre; apply nest_nonempty).
      assert (Hstep : RH (g + 3 + chain_cost (d0 :: ds)) (block c l0 (pre ++ lk :: rest) fe)
                         (frame st cp ibw cur)
                      = rbind (RT (S (S (g + 3 + chain_cost ds)))
                                  (wrap (chain_block true (pre ++ lk :: rest) fe))
                                  (frame st false (ibw || (link_ibw l0 && s_trailing_newline st)) cur))
                              (fun _ s2 =>
                                 if s_content_produced s2
                                 then ROk tt (set_indent_before_write s2 (s_trailing_newline s2))
                                 else ROk tt (set_indent_before_write (set_content_produced s2 cp) ibw))).
      { cbn [chain_cost fold_right]. fold (chain_cost ds).
        destruct (ld_kind d0) eqn:Hk; cbn [pass_cost].
        - replace (g + 3 + (5 + chain_cost ds)) with (S (S (S (S (S (g + 3 + chain_cost ds)))))) by lia.
          rewrite (block_step2 _ _ _ _ _ _ _ _ _ Hev0). unfold link_run. rewrite Hn. cbn [is_some].
          rewrite Hsel0, Hk. reflexivity.
        - replace (g + 3 + (5 + chain_cost ds)) with (S (S (S (S (S (g + 3 + chain_cost ds)))))) by lia.
          rewrite (block_step2 _ _ _ _ _ _ _ _ _ Hev0). unfold link_run. rewrite Hn. cbn [is_some].
          rewrite Hsel0, Hk. reflexivity.
        - replace (g + 3 + (4 + chain_cost ds)) with (S (S (S (S (g + 3 + chain_cost ds))))) by lia.
          rewrite (block_step2 _ _ _ _ _ _ _ _ _ Hev0). unfold link_run. rewrite Hn. cbn [is_some].
          rewrite Hsel0, Hk. reflexivity.
        - replace (g + 3 + (4 + chain_cost ds)) with (S (S (S (S (g + 3 + chain_cost ds))))) by lia.
          rewrite (block_step2 _ _ _ _ _ _ _ _ _ Hev0). unfold link_run. rewrite Hn. cbn [is_some].
          rewrite Hsel0, Hk. reflexivity. }
      rewrite Hstep, wrap_render.
      change (set_current (frame st false (ibw || (link_ibw l0 && s_trailing_newline st)) cur) None)
        with (frame st false (ibw || (link_ibw l0 && s_trailing_newline st)) None).
      rewrite (IH true false (ibw || (link_ibw l0 && s_trailing_newline st)) None).
      rewrite !rbind_assoc.
      replace (if is_deep pre then None else @None str) with (@None str) by (destruct pre; reflexivity).
      cbn [any_ibw app existsb]. fold (any_ibw (pre ++ [lk])).
      replace (ibw || (link_ibw l0 && s_trailing_newline st) || (any_ibw (pre ++ [lk]) && s_trailing_newline st))%bool
        with (ibw || ((link_ibw l0 || any_ibw (pre ++ [lk])) && s_trailing_newline st))%bool
        by (destruct ibw, (link_ibw l0), (any_ibw (pre ++ [lk])), (s_trailing_newline st); reflexivity).
      apply rbind_ext. intros _ s2. cbn [rbind]. unfold gexit.
      destruct (s_content_produced s2) eqn:E; destruct (is_deep pre); sx; rewrite ?E; sx; reflexivity.
  Qed.
End CR2.

(* ====================================================================== *)
(** * The theorems *)

(* the general form: links that pass, then a link that evaluates — whatever it
   does then (select, hand over to the rest, or end the chain) *)
Theorem chain_render_links_general : forall reg data ft st pre ds lk d rest fe c g,
  builtins_visible2 reg st ->
  Forall2 (link_passes2 reg data ft st) pre ds ->
  link_evals2 reg data ft st lk d ->
  render_element reg data ft (g + 4 + chain_cost ds)
                 (ElBlock (chain_block c (pre ++ lk :: rest) fe)) st
  = chain_result st (length pre) (existsb link_ibw (pre ++ [lk]))
                 (link_run reg data ft g lk d (nest rest fe)).
Proof.
  intros reg data ft st pre ds lk d rest fe c g Hvis Hpre Hev.
  replace (g + 4 + chain_cost ds) with (S (g + 3 + chain_cost ds)) by lia.
  rewrite render_element_S.
  pose proof (level2 reg data ft st Hvis lk d rest fe g Hev pre ds Hpre c
                (s_content_produced st) (s_indent_before_write st) (s_current st)) as H.
  rewrite frame_id in H. rewrite H. unfold chain_result, chain_entry, chain_exit, gexit, any_ibw.
  destruct pre; reflexivity.
Qed.

Lemma selects2_mono d : selects2 d true = true -> forall b, selects2 d b = true.
Proof.
  intros H b. destruct b; [exact H|]. unfold selects2 in *.
  destruct (ld_kind d); try exact H. destruct (pj_value (ld_p0 d)); try exact H; rewrite orb_true_r;
    reflexivity.
Qed.

(* (2) the first selecting link renders exactly its body, in its frame *)
Theorem chain_render_links : forall reg data ft st pre ds lk d rest fe c g,
  builtins_visible2 reg st ->
  Forall2 (link_passes2 reg data ft st) pre ds ->
  link_selects2 reg data ft st lk d ->
  render_element reg data ft (g + 4 + chain_cost ds)
                 (ElBlock (chain_block c (pre ++ lk :: rest) fe)) st
  = chain_result st (length pre) (existsb link_ibw (pre ++ [lk])) (sel_run reg data ft g lk d).
Proof.
  intros reg data ft st pre ds lk d rest fe c g Hvis Hpre [Hev Hsel].
  rewrite (chain_render_links_general reg data ft st pre ds lk d rest fe c g Hvis Hpre Hev).
  unfold link_run. rewrite (selects2_mono d Hsel). reflexivity.
Qed.

(* no link selects: the final else (at the fuel of the last link's inverse
   path), else nothing — MissingVariable for with / each in strict mode *)
Theorem chain_render_links_else : forall reg data ft st pre ds lk d fe c g,
  builtins_visible2 reg st ->
  Forall2 (link_passes2 reg data ft st) pre ds ->
  link_evals2 reg data ft st lk d -> selects2 d (is_some fe) = false ->
  render_element reg data ft (g + 4 + chain_cost ds)
                 (ElBlock (chain_block c (pre ++ [lk]) fe)) st
  = chain_result st (length pre) (existsb link_ibw (pre ++ [lk]))
      (match fe with
       | Some t => render_template reg data ft (inv_fuel (ld_kind d) g) t
       | None => none_run reg d
       end).
Proof.
  intros reg data ft st pre ds lk d fe c g Hvis Hpre Hev Hsel.
  rewrite (chain_render_links_general reg data ft st pre ds lk d [] fe c g Hvis Hpre Hev).
  unfold link_run. cbn [nest]. rewrite Hsel. destruct fe; reflexivity.
Qed.

(* (3) nothing after the selecting link is evaluated *)
Theorem no_later_evaluated_links : forall reg data ft st pre ds lk d rest rest' fe fe' c g,
  builtins_visible2 reg st ->
  Forall2 (link_passes2 reg data ft st) pre ds ->
  link_selects2 reg data ft st lk d ->
  render_element reg data ft (g + 4 + chain_cost ds)
                 (ElBlock (chain_block c (pre ++ lk :: rest) fe)) st
  = render_element reg data ft (g + 4 + chain_cost ds)
                   (ElBlock (chain_block c (pre ++ lk :: rest') fe')) st.
Proof.
  intros. rewrite !(chain_render_links reg data ft st pre ds lk d) by assumption. reflexivity.
Qed.

(* rendering nothing in the chain's frame is rendering nothing *)
Lemma chain_result_nothing st k w : chain_result st k w (fun s => ROk tt s) = ROk tt st.
Proof.
  unfold chain_result, chain_entry, chain_exit. cbn [rbind]. sx.
  destruct k; f_equal; destruct st; reflexivity.
Qed.

(* an error raised by the last link comes out as it is, in the entry state *)
Lemma chain_result_error st k w r :
  chain_result st k w (fun s => rfail r s) = RErr (mk_err r) (chain_entry st k w).
Proof. reflexivity. Qed.

(* nothing selected, no final else *)
Theorem chain_render_links_nothing : forall reg data ft st pre ds lk d c g,
  builtins_visible2 reg st ->
  Forall2 (link_passes2 reg data ft st) pre ds ->
  link_evals2 reg data ft st lk d -> selects2 d false = false ->
  render_element reg data ft (g + 4 + chain_cost ds)
                 (ElBlock (chain_block c (pre ++ [lk]) None)) st
  = match ld_kind d with
    | LIf | LUnless => ROk tt st
    | LWith | LEach =>
        if r_strict reg
        then RErr (mk_err (RMissingVariable (pj_rel (ld_p0 d))))
                  (chain_entry st (length pre) (existsb link_ibw (pre ++ [lk])))
        else ROk tt st
    end.
Proof.
  intros reg data ft st pre ds lk d c g Hvis Hpre Hev Hsel.
  rewrite (chain_render_links_else reg data ft st pre ds lk d None c g Hvis Hpre Hev Hsel).
  unfold none_run. destruct (ld_kind d); try apply chain_result_nothing;
    destruct (r_strict reg); first [apply chain_result_nothing | apply chain_result_error].
Qed.

(* `each` over an EMPTY array / object as the last link without final else:
   helper_each.rs iterates it; nothing is rendered, the state is unchanged *)
Lemma each_run_empty reg data ft f bp t value s :
  pj_value value = JArr [] \/ pj_value value = JObj [] ->
  each_run reg data ft f bp t value s = ROk tt s.
Proof.
  intros [H|H]; unfold each_run; rewrite H; cbn [fold_idx rbind]; unfold pop_block, push_block; sx;
    f_equal; destruct s; reflexivity.
Qed.

(* ====================================================================== *)
(** * Building the hypotheses; the single blocks *)

Definition tag2 (k : lkind) (p : param) (iz : option bool) (bp : option blockparam) : espec :=
  {| es_name := PName (lkind_name k); es_params := [p];
     es_hash := match iz with Some z => [(`"includeZero", PLit (JBool z))] | None => [] end;
     es_bp := bp; es_pre := false; es_pro := false |}.

Definition data2 (k : lkind) (v : pj) (iz : option bool) : ldata :=
  {| ld_kind := k; ld_pv := [v];
     ld_hm := match iz with
              | Some z => [(`"includeZero", {| pj_rel := None; pj_val := SConstant (JBool z) |})]
              | None => [] end;
     ld_p0 := v |}.

Lemma link_evals2_simple reg data ft st k p v iz bp b w :
  quiet_param reg data ft st p v ->
  link_evals2 reg data ft st (tag2 k p iz bp, b, w) (data2 k v iz).
Proof.
  intros Hp. cbn [link_evals2 tag2 data2 es_name es_params es_hash ld_kind ld_pv ld_hm ld_p0].
  split; [reflexivity|]. split; [apply quiet_params_of; repeat constructor; exact Hp|]. split.
  - apply quiet_hash_of. destruct iz; repeat constructor; try apply quiet_lit.
  - reflexivity.
Qed.

(* the single each block without inverse: the iteration, in the frame of a
   single block (this is the block Props/C07_full.v is about) *)
Theorem each_single_render : forall reg data ft st p v bp b c w g,
  builtins_visible2 reg st ->
  quiet_param reg data ft st p v ->
  (exists l, pj_value v = JArr l) \/ (exists m, pj_value v = JObj m) ->
  render_element reg data ft (g + 4)
    (ElBlock (MkH (PName (`"each")) [p] [] bp (Some b) None true c w)) st
  = chain_result st 0 w (each_run reg data ft (S g) bp b v).
Proof.
  intros reg data ft st p v bp b c w g Hvis Hp Hv.
  pose proof (chain_render_links_general reg data ft st [] [] (tag2 LEach p None bp, b, w)
                (data2 LEach v None) [] None c g Hvis (Forall2_nil _)
                (link_evals2_simple reg data ft st LEach p v None bp b w Hp)) as H.
  cbn [app chain_cost fold_right length existsb link_ibw] in H. rewrite Nat.add_0_r, orb_false_r in H.
  cbn [chain_block block tag2 es_name es_params es_hash es_bp nest lkind_name] in H. rewrite H.
  unfold link_run, selects2. cbn [data2 ld_kind ld_p0 is_some nest negb].
  destruct Hv as [[l Hl]|[m Hm]].
  - rewrite Hl, orb_true_r. unfold sel_run. cbn [data2 ld_kind ld_p0 tag2 es_bp]. reflexivity.
  - rewrite Hm, orb_true_r. unfold sel_run. cbn [data2 ld_kind ld_p0 tag2 es_bp]. reflexivity.
Qed.

(* the single with block (the statement of C06_with_render_partial, derived
   from the general theorem) *)
Theorem with_single_render : forall reg data ft st p v bp A fe c w g,
  builtins_visible2 reg st ->
  quiet_param reg data ft st p v ->
  render_element reg data ft (g + 4)
    (ElBlock (MkH (PName (`"with")) [p] [] bp (Some A) fe true c w)) st
  = if is_truthy false (pj_value v)
    then chain_result st 0 w (fun s =>
           rbind (render_template reg data ft g A (push_block (with_block2 bp v) s))
                 (fun _ s1 => ROk tt (pop_block s1)))
    else match fe with
         | Some B => chain_result st 0 w (render_template reg data ft (S g) B)
         | None =>
             if r_strict reg
             then RErr (mk_err (RMissingVariable (pj_rel v))) (chain_entry st 0 w)
             else ROk tt st
         end.
Proof.
  intros reg data ft st p v bp A fe c w g Hvis Hp.
  pose proof (chain_render_links_general reg data ft st [] [] (tag2 LWith p None bp, A, w)
                (data2 LWith v None) [] fe c g Hvis (Forall2_nil _)
                (link_evals2_simple reg data ft st LWith p v None bp A w Hp)) as H.
  cbn [app chain_cost fold_right length existsb link_ibw] in H. rewrite Nat.add_0_r, orb_false_r in H.
  cbn [chain_block block tag2 es_name es_params es_hash es_bp nest lkind_name] in H. rewrite H.
  unfold link_run, selects2, sel_run, none_run, inv_fuel.
  cbn [data2 ld_kind ld_p0 tag2 es_bp].
  destruct (is_truthy false (pj_value v)); [reflexivity|].
  destruct fe as [B|]; [reflexivity|].
  destruct (r_strict reg); [apply chain_result_error|apply chain_result_nothing].
Qed.

(* ====================================================================== *)
(** * Examples *)

Example ex_builtins_visible2 : builtins_visible2 reg_new st0.
Proof. intros k. destruct k; split; vm_compute; reflexivity. Qed.

(* a chain mixing the four kinds, through compile2 *)
Definition src4 : str :=
  `"{{#if a}}A{{else with o as |w|}}B{{else each l}}<{{this}}>{{else unless u}}U{{else}}D{{/if}}".
Definition body_each : template :=
  MkT None [ElRaw (`"<"); ElExpr (MkH (PPath (PathRelative [] (`"this"))) [] [] None None None false false false);
            ElRaw (`">")] [(1, 49); (1, 50); (1, 58)]%N.
Definition k_a : link := (tag2 LIf (pth "a") None None, raw_t "A" 10, false).
Definition k_o : link := (tag2 LWith (pth "o") None (Some (BP1 (`"w"))), raw_t "B" 33, false).
Definition k_l : link := (tag2 LEach (pth "l") None None, body_each, false).
Definition k_u : link := (tag2 LUnless (pth "u") None None, raw_t "U" 76, false).
Definition data4 : json :=
  JObj [(`"a", JBool false); (`"l", JArr [JNum (PosInt 1); JNum (PosInt 2)]); (`"u", JBool true)].

Example ex_mixed_compiles :
  compile2 src4 copts0
  = COk (MkT None [ElBlock (chain_block true [k_a; k_o; k_l; k_u] (Some (raw_t "D" 85)))] [(1, 1)%N]).
Proof. vm_compute. reflexivity. Qed.

Definition v_a : pj := {| pj_rel := Some (`"a"); pj_val := SContext (JBool false) [`"a"] |}.
Definition v_o : pj := {| pj_rel := Some (`"o"); pj_val := SMissing |}.
Definition v_l : pj := {| pj_rel := Some (`"l");
                          pj_val := SContext (JArr [JNum (PosInt 1); JNum (PosInt 2)]) [`"l"] |}.

Example ex_k_a_passes : link_passes2 reg_new data4 [] st0 k_a (data2 LIf v_a None).
Proof.
  split; [|reflexivity]. apply link_evals2_simple.
  apply (quiet_path reg_new data4 [] st0). vm_compute. reflexivity.
Qed.

(* `o` is missing: `with` passes (no error: something follows) *)
Example ex_k_o_passes : link_passes2 reg_new data4 [] st0 k_o (data2 LWith v_o None).
Proof.
  split; [|reflexivity]. apply link_evals2_simple.
  apply (quiet_path reg_new data4 [] st0). vm_compute. reflexivity.
Qed.

Example ex_k_l_selects : link_selects2 reg_new data4 [] st0 k_l (data2 LEach v_l None).
Proof.
  split; [|reflexivity]. apply link_evals2_simple.
  apply (quiet_path reg_new data4 [] st0). vm_compute. reflexivity.
Qed.

(* the theorem applied: `a` false, `o` missing, `l` = [1,2]: the each iteration,
   whatever follows; fuel 4 + 5 (if) + 4 (with) *)
Example ex_mixed_theorem_applies : forall g,
  render_element reg_new data4 [] (g + 4 + (5 + (4 + 0)))
    (ElBlock (chain_block true [k_a; k_o; k_l; k_u] (Some (raw_t "D" 85)))) st0
  = chain_result st0 2 false (each_run reg_new data4 [] (S g) None body_each v_l).
Proof.
  intros g.
  exact (chain_render_links reg_new data4 [] st0 [k_a; k_o] [data2 LIf v_a None; data2 LWith v_o None]
           k_l (data2 LEach v_l None) [k_u] (Some (raw_t "D" 85)) true g
           ex_builtins_visible2
           (Forall2_cons _ _ ex_k_a_passes (Forall2_cons _ _ ex_k_o_passes (Forall2_nil _)))
           ex_k_l_selects).
Qed.

Example ex_mixed_computed :
  (match compile2 src4 copts0 with
   | COk t => finish_render (render_template reg_new data4 [] 40 t st0)
   | _ => RoPanic
   end) = RoOk (`"<1><2>") [] 6
  /\ finish_render (chain_result st0 2 false (each_run reg_new data4 [] (S 6) None body_each v_l))
     = RoOk (`"<1><2>") [] 6
  /\ finish_render (render_element reg_new data4 [] (6 + 4 + (5 + (4 + 0)))
                      (ElBlock (chain_block true [k_a; k_o; k_l; k_u] (Some (raw_t "D" 85)))) st0)
     = RoOk (`"<1><2>") [] 6.
Proof. repeat split; vm_compute; reflexivity. Qed.

(* a chain whose HEAD is `with`: {{#with o}}A{{else if b}}B{{/with}} *)
Definition h_o : link := (tag2 LWith (pth "o") None None, raw_t "A" 12, false).
Definition h_b : link := (tag2 LIf (pth "b") None None, raw_t "B" 26, false).
Example ex_with_head_compiles :
  compile2 (`"{{#with o}}A{{else if b}}B{{/with}}") copts0
  = COk (MkT None [ElBlock (chain_block true [h_o; h_b] None)] [(1, 1)%N]).
Proof. vm_compute. reflexivity. Qed.

Example ex_with_head_computed :
  (match compile2 (`"{{#with o}}A{{else if b}}B{{/with}}") copts0 with
   | COk t => finish_render (render_template reg_new (JObj [(`"b", JBool true)]) [] 40 t st0)
   | _ => RoPanic
   end) = RoOk (`"B") [] 1
  /\ (match compile2 (`"{{#with o}}A{{else if b}}B{{/with}}") copts0 with
      | COk t => finish_render (render_template reg_new (JObj [(`"o", JStr (`"x"))]) [] 40 t st0)
      | _ => RoPanic
      end) = RoOk (`"A") [] 1.
Proof. split; vm_compute; reflexivity. Qed.

(* the strict-mode error of `with` / `each` as last link without final else *)
Example ex_strict_with_last :
  (match compile2 (`"{{#if a}}A{{else with o}}B{{/if}}") copts0 with
   | COk t => finish_render (render_template (set_strict_mode reg_new true) data4 [] 40 t st0)
   | _ => RoPanic
   end) = RoErr {| e_reason := RMissingVariable (Some (`"o")); e_tpl := None;
                   e_line := Some 1%N; e_col := Some 1%N |} [] []
  /\ (match compile2 (`"{{#if a}}A{{else with o}}B{{/if}}") copts0 with
      | COk t => finish_render (render_template reg_new data4 [] 40 t st0)
      | _ => RoPanic
      end) = RoOk [] [] 0.
Proof. split; vm_compute; reflexivity. Qed.
