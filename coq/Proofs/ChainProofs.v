(* Proofs/ChainProofs.v — chain_compile (C06, compiler half): the in-place
   list reversal of HelperTemplate::{set_chain_template, insert_inverse_node,
   revert_chain_and_set} builds the properly nested else-chain, for chains of
   every length; and `step` performs exactly these operations. *)
From HB Require Import Tpl.Compile Proofs.CompileBase Spec.ChainSpec.
Open Scope N_scope.

(* ---------- the "reversed prefix" invariant ---------- *)
(* links already closed, most recent first, every one with its own body *)
Fixpoint rtail (done : list link) : option template :=
  match done with
  | [] => None
  | (e, b, w) :: r =>
      Some (wrap (MkH (es_name e) (es_params e) (es_hash e) (es_bp e)
                      (Some b) (rtail r) true true w))
  end.

(* h_inv during construction: the most recent link still has no template *)
Definition rhead (done : list link) : option template :=
  match done with
  | [] => None
  | (e, b, w) :: r =>
      Some (wrap (MkH (es_name e) (es_params e) (es_hash e) (es_bp e)
                      None (rtail r) true true w))
  end.

Definition nonempty {A} (l : list A) : bool := match l with [] => false | _ => true end.

Definition cstate_h (e0 : espec) (w0 : bool) (b0 : template) (done : list link) : helper_t :=
  MkH (es_name e0) (es_params e0) (es_hash e0) (es_bp e0)
      (match done with [] => None | _ => Some b0 end) (rhead done) true (nonempty done) w0.

Definition pending_of (b0 : template) (done : list link) : template :=
  match done with [] => b0 | (_, b, _) :: _ => b end.

Lemma link_op_inv e0 w0 b0 done e b w :
  link_op (cstate_h e0 w0 b0 done) (pending_of b0 done) e w
  = COk (cstate_h e0 w0 b0 ((e, b, w) :: done)).
Proof.
  unfold link_op. destruct done as [|[[e1 b1] w1] r]; reflexivity.
Qed.

Lemma chain_links_inv e0 w0 b0 : forall links done,
  chain_links (cstate_h e0 w0 b0 done) (pending_of b0 done) links
  = COk (cstate_h e0 w0 b0 (rev links ++ done), pending_of b0 (rev links ++ done)).
Proof.
  induction links as [|[[e b] w] r IH]; intro done.
  - reflexivity.
  - cbn [chain_links]. rewrite (link_op_inv e0 w0 b0 done e b w). cbn [cbind].
    change b with (pending_of b0 ((e, b, w) :: done)) at 1.
    rewrite IH. cbn [rev]. rewrite <- app_assoc. reflexivity.
Qed.

Lemma nest_app xs ys fe : nest (xs ++ ys) fe = nest xs (nest ys fe).
Proof. induction xs as [|[[e b] w] r IH]; cbn [nest app]; [reflexivity|rewrite IH; reflexivity]. Qed.

(* the reversal loop turns the reversed list back, appending `prev` *)
Lemma revert_loop_rtail : forall done fuel prev,
  (length done < fuel)%nat ->
  revert_loop fuel (rtail done) prev = COk (nest (rev done) prev).
Proof.
  induction done as [|[[e b] w] r IH]; intros fuel prev Hf.
  - destruct fuel; [inversion Hf|]. reflexivity.
  - destruct fuel as [|f]; [inversion Hf|]. cbn [length] in Hf.
    cbn [rtail revert_loop wrap h_inv h_set_inv]. rewrite IH by lia.
    cbn [rev]. rewrite nest_app. reflexivity.
Qed.

Lemma nonempty_rev {A} (l : list A) : nonempty (rev l) = nonempty l.
Proof. destruct l as [|x r]; [reflexivity|]. cbn [rev]. destruct (rev r); reflexivity. Qed.

Lemma chain_compile_rev : forall fuel e0 ibw0 b0 done final_else,
  (length done < fuel)%nat ->
  chain_ops fuel e0 ibw0 b0 (rev done) final_else
  = COk (MkH (es_name e0) (es_params e0) (es_hash e0) (es_bp e0)
             (Some b0) (nest (rev done) final_else) true (nonempty done) ibw0).
Proof.
  intros fuel e0 w0 b0 done fe Hf. unfold chain_ops.
  change (mk_helper e0 true false w0) with (cstate_h e0 w0 b0 []).
  change b0 with (pending_of b0 []) at 2.
  rewrite chain_links_inv. rewrite app_nil_r, rev_involutive. cbn [cbind].
  destruct done as [|[[e b] w] r]; cbn [length] in Hf.
  - (* no chain links *)
    destruct fe as [be|]; reflexivity.
  - destruct fe as [be|].
    + cbn [cstate_h pending_of rhead set_chain_template ref_chain_head h_chain nonempty h_inv wrap
           cbind set_chain_head h_set_tpl h_set_inv].
      unfold revert_chain_and_set.
      cbn [h_chain ref_chain_head h_inv h_tpl cbind].
      change (Some (MkT None [ElBlock (MkH (es_name e) (es_params e) (es_hash e) (es_bp e)
                (Some b) (rtail r) true true w)] [])) with (rtail ((e, b, w) :: r)).
      rewrite revert_loop_rtail by (cbn [length]; lia). reflexivity.
    + unfold revert_chain_and_set.
      cbn [cstate_h pending_of rhead ref_chain_head h_chain nonempty h_inv wrap h_tpl
           cbind set_chain_head h_set_tpl h_set_inv].
      change (Some (MkT None [ElBlock (MkH (es_name e) (es_params e) (es_hash e) (es_bp e)
                (Some b) (rtail r) true true w)] [])) with (rtail ((e, b, w) :: r)).
      rewrite revert_loop_rtail by (cbn [length]; lia). reflexivity.
Qed.

Theorem chain_compile : forall fuel e0 ibw0 b0 links final_else,
  (length links < fuel)%nat ->
  chain_ops fuel e0 ibw0 b0 links final_else
  = COk (MkH (es_name e0) (es_params e0) (es_hash e0) (es_bp e0)
             (Some b0) (nest links final_else) true (nonempty links) ibw0).
Proof.
  intros fuel e0 w0 b0 links fe Hf.
  rewrite <- (rev_involutive links). rewrite nonempty_rev.
  apply chain_compile_rev. rewrite rev_length. exact Hf.
Qed.

(* the two non-chain shapes *)
Corollary if_else_compile fuel e0 ibw0 b0 b1 :
  chain_ops fuel e0 ibw0 b0 [] (Some b1)
  = COk (MkH (es_name e0) (es_params e0) (es_hash e0) (es_bp e0) (Some b0) (Some b1) true false ibw0).
Proof. reflexivity. Qed.

Corollary if_compile fuel e0 ibw0 b0 :
  chain_ops fuel e0 ibw0 b0 [] None
  = COk (MkH (es_name e0) (es_params e0) (es_hash e0) (es_bp e0) (Some b0) None true false ibw0).
Proof. reflexivity. Qed.

(* the fuel bound of chain_compile is the exact one: one unit less runs out *)
Lemma revert_loop_rtail_short : forall done fuel prev,
  (fuel <= length done)%nat -> revert_loop fuel (rtail done) prev = CFuel.
Proof.
  induction done as [|[[e b] w] r IH]; intros fuel prev Hf.
  - inversion Hf. reflexivity.
  - destruct fuel as [|f]; [reflexivity|]. cbn [length] in Hf.
    cbn [rtail revert_loop wrap h_inv h_set_inv]. apply IH. lia.
Qed.

(* ---------- `step` performs exactly these operations ---------- *)
Section StepChain.
  Variable src : str.
  Variable all_tokens : list tok.
  Variable opts : copts.

  Lemma trailing_string_stacks c pr lc c1 :
    trailing_string src c pr lc = COk c1 ->
    c_hs c1 = c_hs c /\ c_ds c1 = c_ds c /\ c_end c1 = c_end c.
  Proof.
    unfold trailing_string. intro H.
    match type of H with (if ?b then _ else _) = _ => destruct b end;
      [|injection H as <-; repeat split].
    destruct (slice src _ _) as [txt|]; [|discriminate].
    cinv H. destruct (rule_eqb (tk_rule pr) R_raw_block_end).
    - injection H as <-. repeat split.
    - cinv H. injection H as <-. repeat split.
  Qed.

  (* block start: a fresh helper (no template, no inverse, not chained) is pushed *)
  Lemma step_helper_block_start fuel c pr it c1 e ts1 it1 trim t r :
    tk_rule pr = R_helper_block_start ->
    trailing_string src c pr (line_col src (tk_start pr)) = COk c1 ->
    tag_prologue src fuel c1 pr it = COk (e, ts1, it1) ->
    process_standalone_statement src ts1 pr true (o_is_partial opts) = COk (trim, t :: r) ->
    step src all_tokens opts fuel c pr it
    = COk ({| c_ts := t_push_map t (line_col src (tk_start pr)) :: r;
              c_hs := mk_helper e true false (trim && negb (es_pre e)) :: c_hs c;
              c_ds := c_ds c; c_omit := es_pro e; c_trim := trim;
              c_end := Some (tk_end pr) |}, it1).
  Proof.
    intros Hr Ht Hp Hs. destruct (trailing_string_stacks _ _ _ _ Ht) as (Hhs & Hds & _).
    unfold step. rewrite Hr. cbn [tag_classify]. rewrite Ht. cbn [cbind].
    rewrite Hp. cbn [cbind]. rewrite Hs. cbn [cbind c_ts with_ts c_hs c_ds c_omit c_trim c_end].
    rewrite Hhs, Hds. reflexivity.
  Qed.

  Lemma es_or_pre_false e : es_or_pre e false = e.
  Proof. destruct e. unfold es_or_pre. cbn. rewrite orb_false_r. reflexivity. Qed.

  Lemma tag_prologue_inv fuel c1 pr it e ts1 it1 :
    tag_prologue src fuel c1 pr it = COk (e, ts1, it1) ->
    parse_expression src fuel it (tk_end pr) = COk (e, it1)
    /\ (if es_pre e then remove_previous_whitespace (c_ts c1) else COk (c_ts c1)) = COk ts1.
  Proof.
    unfold tag_prologue. intro H. cinv H. destruct a as [e' it']. cinv H.
    injection H as <- <- <-. split; [reflexivity|exact E0].
  Qed.

  (* a successful parse_name does not start at a `~` token *)
  Lemma parse_name_not_tilde fuel t0 it' r :
    parse_name src fuel (t0 :: it') = COk r ->
    is_rule R_leading_tilde_to_omit_whitespace t0 = false.
  Proof.
    destruct fuel as [|f]; [discriminate|]. rewrite parse_name_S. unfold is_rule.
    destruct (tk_rule t0); cbn [name_classify]; try discriminate; intros _; reflexivity.
  Qed.

  (* `{{else <e>}}` and `{{~else <e>}}`: the general form.  `chain_pre` tells
     whether a `~` token precedes the `else` item; it is or-ed into es_pre *)
  Lemma step_invert_chain_tag_gen fuel c pr it c1 chain_pre ita nm it0 e0 it1 ts1 trim t ts3 h hs :
    tk_rule pr = R_invert_chain_tag ->
    trailing_string src c pr (line_col src (tk_start pr)) = COk c1 ->
    match it with
    | t0 :: it' => if is_rule R_leading_tilde_to_omit_whitespace t0 then (true, it') else (false, it)
    | [] => (false, it)
    end = (chain_pre, ita) ->
    parse_name src fuel ita = COk (nm, it0) ->
    parse_expression src fuel it0 (tk_end pr) = COk (e0, it1) ->
    (if es_pre (es_or_pre e0 chain_pre) then remove_previous_whitespace (c_ts c1) else COk (c_ts c1))
      = COk ts1 ->
    process_standalone_statement src ts1 pr true (o_is_partial opts) = COk (trim, t :: ts3) ->
    c_hs c = h :: hs ->
    step src all_tokens opts fuel c pr it
    = do h' <- link_op h t (es_or_pre e0 chain_pre) (trim && negb (es_pre (es_or_pre e0 chain_pre)));
      COk ({| c_ts := ts3; c_hs := h' :: hs; c_ds := c_ds c; c_omit := es_pro e0;
              c_trim := trim; c_end := Some (tk_end pr) |}, it1).
  Proof.
    intros Hr Ht Hpre Hn Hp Hw Hs Hh. destruct (trailing_string_stacks _ _ _ _ Ht) as (Hhs & Hds & _).
    unfold step. rewrite Hr. cbn [tag_classify]. rewrite Ht. cbn [cbind].
    rewrite Hpre. rewrite Hn. cbn [cbind]. rewrite Hp. cbn [cbind]. rewrite Hw. cbn [cbind].
    rewrite Hs. cbn [cbind].
    rewrite Hhs, Hh, Hds. unfold link_op.
    destruct (set_chain_template (h_set_chain h true) (Some t)); reflexivity.
  Qed.

  (* `{{else <e>}}` *)
  Lemma step_invert_chain_tag fuel c pr it c1 nm it0 e ts1 it1 trim t ts3 h hs :
    tk_rule pr = R_invert_chain_tag ->
    trailing_string src c pr (line_col src (tk_start pr)) = COk c1 ->
    parse_name src fuel it = COk (nm, it0) ->
    tag_prologue src fuel c1 pr it0 = COk (e, ts1, it1) ->
    process_standalone_statement src ts1 pr true (o_is_partial opts) = COk (trim, t :: ts3) ->
    c_hs c = h :: hs ->
    step src all_tokens opts fuel c pr it
    = do h' <- link_op h t e (trim && negb (es_pre e));
      COk ({| c_ts := ts3; c_hs := h' :: hs; c_ds := c_ds c; c_omit := es_pro e;
              c_trim := trim; c_end := Some (tk_end pr) |}, it1).
  Proof.
    intros Hr Ht Hn Hp Hs Hh. destruct (tag_prologue_inv _ _ _ _ _ _ _ Hp) as [Hpe Hw].
    rewrite <- (es_or_pre_false e) at 1 2. 
    eapply (step_invert_chain_tag_gen fuel c pr it c1 false it); try eassumption.
    - destruct it as [|t0 it']; [reflexivity|].
      rewrite (parse_name_not_tilde _ _ _ _ Hn). reflexivity.
    - rewrite es_or_pre_false. exact Hw.
  Qed.

  (* `{{~else <e>}}`: compiled like `{{else <e>}}` with omit_pre_ws set, i.e. the
     whitespace in front of the tag is always trimmed and the link never indents *)
  Lemma step_invert_chain_tag_tilde fuel c pr t0 it c1 nm it0 e0 it1 ts1 trim t ts3 h hs :
    tk_rule pr = R_invert_chain_tag ->
    trailing_string src c pr (line_col src (tk_start pr)) = COk c1 ->
    is_rule R_leading_tilde_to_omit_whitespace t0 = true ->
    parse_name src fuel it = COk (nm, it0) ->
    parse_expression src fuel it0 (tk_end pr) = COk (e0, it1) ->
    remove_previous_whitespace (c_ts c1) = COk ts1 ->
    process_standalone_statement src ts1 pr true (o_is_partial opts) = COk (trim, t :: ts3) ->
    c_hs c = h :: hs ->
    step src all_tokens opts fuel c pr (t0 :: it)
    = do h' <- link_op h t (es_or_pre e0 true) false;
      COk ({| c_ts := ts3; c_hs := h' :: hs; c_ds := c_ds c; c_omit := es_pro e0;
              c_trim := trim; c_end := Some (tk_end pr) |}, it1).
  Proof.
    intros Hr Ht Ht0 Hn Hp Hw Hs Hh.
    rewrite (step_invert_chain_tag_gen fuel c pr (t0 :: it) c1 true it nm it0 e0 it1 ts1 trim t ts3 h hs);
      try assumption.
    - cbn [es_pre es_or_pre]. rewrite orb_true_r. cbn [negb]. rewrite andb_false_r. reflexivity.
    - rewrite Ht0. reflexivity.
    - cbn [es_pre es_or_pre]. rewrite orb_true_r. exact Hw.
  Qed.

  (* link_op only reads name, params, hash and block params of the tag: the
     helper built for `{{~else <e>}}` is the one built for `{{else <e>}}` *)
  Lemma link_op_es_or_pre h t e b w : link_op h t (es_or_pre e b) w = link_op h t e w.
  Proof. reflexivity. Qed.

  (* `{{else}}` / `{{^}}` *)
  Lemma step_invert_tag fuel c pr it c1 e ts1 it1 trim t ts3 h hs :
    tk_rule pr = R_invert_tag ->
    trailing_string src c pr (line_col src (tk_start pr)) = COk c1 ->
    tag_prologue src fuel c1 pr it = COk (e, ts1, it1) ->
    process_standalone_statement src ts1 pr true (o_is_partial opts) = COk (trim, t :: ts3) ->
    c_hs c = h :: hs ->
    step src all_tokens opts fuel c pr it
    = do h' <- set_chain_template h (Some t);
      COk ({| c_ts := ts3; c_hs := h' :: hs; c_ds := c_ds c; c_omit := es_pro e;
              c_trim := trim; c_end := Some (tk_end pr) |}, it1).
  Proof.
    intros Hr Ht Hp Hs Hh. destruct (trailing_string_stacks _ _ _ _ Ht) as (Hhs & Hds & _).
    destruct (tag_prologue_inv _ _ _ _ _ _ _ Hp) as [Hpe Hw].
    unfold step. rewrite Hr. cbn [tag_classify]. rewrite Ht. cbn [cbind].
    rewrite Hpe. cbn [cbind]. rewrite es_or_pre_false. rewrite Hw. cbn [cbind].
    rewrite Hs. cbn [cbind].
    rewrite Hhs, Hh, Hds.
    destruct (set_chain_template h (Some t)); reflexivity.
  Qed.

  (* `{{/name}}` with the matching name *)
  Lemma step_helper_block_end fuel c pr it c1 e ts1 it1 trim prev_t t r h hs :
    tk_rule pr = R_helper_block_end ->
    trailing_string src c pr (line_col src (tk_start pr)) = COk c1 ->
    tag_prologue src fuel c1 pr it = COk (e, ts1, it1) ->
    process_standalone_statement src ts1 pr true (o_is_partial opts) = COk (trim, prev_t :: t :: r) ->
    c_hs c = h :: hs ->
    opt_str_eqb (as_name (h_name h)) (as_name (es_name e)) = true ->
    step src all_tokens opts fuel c pr it
    = do h' <- revert_chain_and_set fuel h (Some prev_t);
      COk ({| c_ts := t_push_el t (ElBlock h') :: r; c_hs := hs; c_ds := c_ds c;
              c_omit := es_pro e; c_trim := trim; c_end := Some (tk_end pr) |}, it1).
  Proof.
    intros Hr Ht Hp Hs Hh Hnm. destruct (trailing_string_stacks _ _ _ _ Ht) as (Hhs & Hds & _).
    unfold step. rewrite Hr. cbn [tag_classify]. rewrite Ht. cbn [cbind].
    rewrite Hp. cbn [cbind]. rewrite Hs. cbn [cbind].
    rewrite Hhs, Hh, Hnm, Hds.
    destruct (revert_chain_and_set fuel h (Some prev_t)); reflexivity.
  Qed.
End StepChain.

(* chain_compile's hypothesis and the step lemmas on a concrete template:
   three links and a final else, through the whole compiler *)
Example chain_compile_example :
  exists e0 e1 e2 b0 b1 b2 be,
    compile2 (`"{{#if a}}0{{else if b}}1{{else with c}}2{{else}}3{{/if}}") default_opts
    = COk (MkT None
             [ElBlock (MkH (es_name e0) (es_params e0) (es_hash e0) (es_bp e0) (Some b0)
                           (nest [(e1, b1, false); (e2, b2, false)] (Some be)) true true false)]
             [(1, 1)])
    /\ chain_ops 3 e0 false b0 [(e1, b1, false); (e2, b2, false)] (Some be)
       = COk (MkH (es_name e0) (es_params e0) (es_hash e0) (es_bp e0) (Some b0)
                  (nest [(e1, b1, false); (e2, b2, false)] (Some be)) true true false).
Proof.
  exists {| es_name := PName (`"if"); es_params := [PPath (PathRelative [SegNamed (`"a")] (`"a"))];
            es_hash := []; es_bp := None; es_pre := false; es_pro := false |}.
  exists {| es_name := PName (`"if"); es_params := [PPath (PathRelative [SegNamed (`"b")] (`"b"))];
            es_hash := []; es_bp := None; es_pre := false; es_pro := false |}.
  exists {| es_name := PName (`"with"); es_params := [PPath (PathRelative [SegNamed (`"c")] (`"c"))];
            es_hash := []; es_bp := None; es_pre := false; es_pro := false |}.
  exists (MkT None [ElRaw (`"0")] [(1, 10)]), (MkT None [ElRaw (`"1")] [(1, 24)]),
         (MkT None [ElRaw (`"2")] [(1, 40)]), (MkT None [ElRaw (`"3")] [(1, 49)]).
  split; [vm_compute; reflexivity|]. apply chain_compile. cbn. lia.
Qed.

(* ---------- the hypotheses of the step lemmas are satisfiable ---------- *)
Fixpoint run_steps (src : str) (all : list tok) (opts : copts) (n fuel : nat)
         (c : cstate) (it : list tok) : option (cstate * list tok) :=
  match n with
  | O => Some (c, it)
  | S n' =>
      match it with
      | [] => None
      | pr :: it' =>
          match step src all opts fuel c pr it' with
          | COk (c', it'') => run_steps src all opts n' fuel c' it''
          | _ => None
          end
      end
  end.

Definition ex_src : str := `"{{#if a}}0{{else if b}}1{{else}}2{{/if}}".
Definition ex_tokens : list tok :=
  match hb_parse (peg_fuel ex_src) R_handlebars ex_src with Parsed ts => ts | _ => [] end.

(* the state reached after n steps of the compile loop on ex_src *)
Definition ex_state (n : nat) : option (cstate * list tok) :=
  run_steps ex_src ex_tokens default_opts n 100 init_cstate
            (filter (fun t => negb (is_rule R_escape t)) ex_tokens).

Ltac ex_at n :=
  lazymatch eval vm_compute in (ex_state n) with
  | Some (?c, ?pr :: ?it) => exists c, pr, it
  end.
Ltac ex_val t :=
  lazymatch eval vm_compute in t with
  | COk ?v => v
  end.

Example step_invert_chain_tag_example :
  exists c pr it c1 nm it0 e ts1 it1 trim t ts3 h hs,
    tk_rule pr = R_invert_chain_tag /\
    trailing_string ex_src c pr (line_col ex_src (tk_start pr)) = COk c1 /\
    parse_name ex_src 100 it = COk (nm, it0) /\
    tag_prologue ex_src 100 c1 pr it0 = COk (e, ts1, it1) /\
    process_standalone_statement ex_src ts1 pr true (o_is_partial default_opts) = COk (trim, t :: ts3) /\
    c_hs c = h :: hs.
Proof.
  ex_at 4%nat.
  match goal with |- exists c1 nm it0 e ts1 it1 trim t ts3 h hs,
      tk_rule ?pr = _ /\ trailing_string _ ?c _ _ = _ /\ parse_name _ _ ?it = _ /\ _ =>
    let c1 := ex_val (trailing_string ex_src c pr (line_col ex_src (tk_start pr))) in
    exists c1;
    lazymatch eval vm_compute in (parse_name ex_src 100 it) with
    | COk (?nm, ?it0) =>
        exists nm, it0;
        lazymatch eval vm_compute in (tag_prologue ex_src 100 c1 pr it0) with
        | COk (?e, ?ts1, ?it1) =>
            exists e, ts1, it1;
            lazymatch eval vm_compute in
                (process_standalone_statement ex_src ts1 pr true (o_is_partial default_opts)) with
            | COk (?trim, ?t :: ?ts3) =>
                exists trim, t, ts3;
                lazymatch eval vm_compute in (c_hs c) with
                | ?h :: ?hs => exists h, hs
                end
            end
        end
    end
  end.
  repeat split; vm_compute; reflexivity.
Qed.

Example step_invert_tag_example :
  exists c pr it c1 e ts1 it1 trim t ts3 h hs,
    tk_rule pr = R_invert_tag /\
    trailing_string ex_src c pr (line_col ex_src (tk_start pr)) = COk c1 /\
    tag_prologue ex_src 100 c1 pr it = COk (e, ts1, it1) /\
    process_standalone_statement ex_src ts1 pr true (o_is_partial default_opts) = COk (trim, t :: ts3) /\
    c_hs c = h :: hs.
Proof.
  ex_at 7%nat.
  match goal with |- exists c1 e ts1 it1 trim t ts3 h hs,
      tk_rule ?pr = _ /\ trailing_string _ ?c _ _ = _ /\ tag_prologue _ _ _ _ ?it = _ /\ _ =>
    let c1 := ex_val (trailing_string ex_src c pr (line_col ex_src (tk_start pr))) in
    exists c1;
    lazymatch eval vm_compute in (tag_prologue ex_src 100 c1 pr it) with
    | COk (?e, ?ts1, ?it1) =>
        exists e, ts1, it1;
        lazymatch eval vm_compute in
            (process_standalone_statement ex_src ts1 pr true (o_is_partial default_opts)) with
        | COk (?trim, ?t :: ?ts3) =>
            exists trim, t, ts3;
            lazymatch eval vm_compute in (c_hs c) with
            | ?h :: ?hs => exists h, hs
            end
        end
    end
  end.
  repeat split; vm_compute; reflexivity.
Qed.

Example step_helper_block_end_example :
  exists c pr it c1 e ts1 it1 trim prev_t t r h hs,
    tk_rule pr = R_helper_block_end /\
    trailing_string ex_src c pr (line_col ex_src (tk_start pr)) = COk c1 /\
    tag_prologue ex_src 100 c1 pr it = COk (e, ts1, it1) /\
    process_standalone_statement ex_src ts1 pr true (o_is_partial default_opts)
      = COk (trim, prev_t :: t :: r) /\
    c_hs c = h :: hs /\
    opt_str_eqb (as_name (h_name h)) (as_name (es_name e)) = true.
Proof.
  ex_at 10%nat.
  match goal with |- exists c1 e ts1 it1 trim prev_t t r h hs,
      tk_rule ?pr = _ /\ trailing_string _ ?c _ _ = _ /\ tag_prologue _ _ _ _ ?it = _ /\ _ =>
    let c1 := ex_val (trailing_string ex_src c pr (line_col ex_src (tk_start pr))) in
    exists c1;
    lazymatch eval vm_compute in (tag_prologue ex_src 100 c1 pr it) with
    | COk (?e, ?ts1, ?it1) =>
        exists e, ts1, it1;
        lazymatch eval vm_compute in
            (process_standalone_statement ex_src ts1 pr true (o_is_partial default_opts)) with
        | COk (?trim, ?p :: ?t :: ?r) =>
            exists trim, p, t, r;
            lazymatch eval vm_compute in (c_hs c) with
            | ?h :: ?hs => exists h, hs
            end
        end
    end
  end.
  repeat split; vm_compute; reflexivity.
Qed.

(* ---------- `{{~else if b}}`: a chain tag with a leading tilde ---------- *)
Definition ex_tilde_src : str := `"{{#if a}}0  {{~else if b}}1{{/if}}".
Definition ex_tilde_tokens : list tok :=
  match hb_parse (peg_fuel ex_tilde_src) R_handlebars ex_tilde_src with Parsed ts => ts | _ => [] end.

(* through the whole compiler: same nest as without the tilde, and the
   whitespace in front of the tag is trimmed from the first body *)
Example chain_tilde_compile_example :
  exists e0 e1 b0 b1,
    compile2 ex_tilde_src default_opts
    = COk (MkT None
             [ElBlock (MkH (es_name e0) (es_params e0) (es_hash e0) (es_bp e0) (Some b0)
                           (nest [(e1, b1, false)] None) true true false)]
             [(1, 1)])
    /\ b0 = MkT None [ElRaw (`"0")] [(1, 10)]
    /\ chain_ops 2 e0 false b0 [(e1, b1, false)] None
       = COk (MkH (es_name e0) (es_params e0) (es_hash e0) (es_bp e0) (Some b0)
                  (nest [(e1, b1, false)] None) true true false).
Proof.
  exists {| es_name := PName (`"if"); es_params := [PPath (PathRelative [SegNamed (`"a")] (`"a"))];
            es_hash := []; es_bp := None; es_pre := false; es_pro := false |}.
  exists {| es_name := PName (`"if"); es_params := [PPath (PathRelative [SegNamed (`"b")] (`"b"))];
            es_hash := []; es_bp := None; es_pre := true; es_pro := false |}.
  exists (MkT None [ElRaw (`"0")] [(1, 10)]), (MkT None [ElRaw (`"1")] [(1, 27)]).
  split; [vm_compute; reflexivity|]. split; [reflexivity|]. apply chain_compile. cbn. lia.
Qed.

(* the hypotheses of step_invert_chain_tag_tilde on pest's tokens *)
Example step_invert_chain_tag_tilde_example :
  exists c pr t0 it c1 nm it0 e0 it1 ts1 trim t ts3 h hs,
    tk_rule pr = R_invert_chain_tag /\
    trailing_string ex_tilde_src c pr (line_col ex_tilde_src (tk_start pr)) = COk c1 /\
    is_rule R_leading_tilde_to_omit_whitespace t0 = true /\
    parse_name ex_tilde_src 100 it = COk (nm, it0) /\
    parse_expression ex_tilde_src 100 it0 (tk_end pr) = COk (e0, it1) /\
    remove_previous_whitespace (c_ts c1) = COk ts1 /\
    process_standalone_statement ex_tilde_src ts1 pr true (o_is_partial default_opts)
      = COk (trim, t :: ts3) /\
    c_hs c = h :: hs /\
    exists r, step ex_tilde_src ex_tilde_tokens default_opts 100 c pr (t0 :: it) = COk r.
Proof.
  lazymatch eval vm_compute in
      (run_steps ex_tilde_src ex_tilde_tokens default_opts 4 100 init_cstate
                 (filter (fun t => negb (is_rule R_escape t)) ex_tilde_tokens)) with
  | Some (?c, ?pr :: ?t0 :: ?it) =>
      exists c, pr, t0, it;
      let c1 := ex_val (trailing_string ex_tilde_src c pr (line_col ex_tilde_src (tk_start pr))) in
      exists c1;
      lazymatch eval vm_compute in (parse_name ex_tilde_src 100 it) with
      | COk (?nm, ?it0) =>
          exists nm, it0;
          lazymatch eval vm_compute in (parse_expression ex_tilde_src 100 it0 (tk_end pr)) with
          | COk (?e0, ?it1) =>
              exists e0, it1;
              let ts1 := ex_val (remove_previous_whitespace (c_ts c1)) in
              exists ts1;
              lazymatch eval vm_compute in
                  (process_standalone_statement ex_tilde_src ts1 pr true (o_is_partial default_opts)) with
              | COk (?trim, ?t :: ?ts3) =>
                  exists trim, t, ts3;
                  lazymatch eval vm_compute in (c_hs c) with
                  | ?h :: ?hs => exists h, hs
                  end
              end
          end
      end
  end.
  repeat split; try (vm_compute; reflexivity). eexists. vm_compute. reflexivity.
Qed.
