(* Proofs/OrderLaws.v — order laws of the comparison helpers beyond the flips of NumProofs.v:
   characterisation of gt/gte/lt/lte on numbers by the rational order, transitivity and
   trichotomy on numbers, transitivity on strings, and eq as an equivalence compatible
   with the order (eq excludes gt and lt). *)
From Coq Require Import QArith List Bool Lia.
From HB Require Import Base.Str Base.Num Base.Json Proofs.NumProofs Proofs.RegProofs Proofs.LiteralProofs.
Import ListNotations.

Lemma cmpj_nums a b : compare_json (JNum a) (JNum b) = Some (Qcompare (num_q a) (num_q b)).
Proof. cbn [compare_json]. apply cmp_nums_exact. Qed.

Theorem gt_nums_iff a b : h_gt (JNum a) (JNum b) = true <-> (num_q b < num_q a)%Q.
Proof.
  unfold h_gt. rewrite cmpj_nums. rewrite Qgt_alt.
  destruct (Qcompare (num_q a) (num_q b)); split; intros H; try discriminate; reflexivity.
Qed.

Theorem lt_nums_iff a b : h_lt (JNum a) (JNum b) = true <-> (num_q a < num_q b)%Q.
Proof. rewrite lt_gt_flip. apply gt_nums_iff. Qed.

Theorem gte_nums_iff a b : h_gte (JNum a) (JNum b) = true <-> (num_q b <= num_q a)%Q.
Proof.
  unfold h_gte. rewrite cmpj_nums. rewrite Qle_alt, <- (Qcompare_opp_flip (num_q a) (num_q b)).
  destruct (Qcompare (num_q a) (num_q b)); cbn [CompOpp]; split; intros H; try discriminate; try reflexivity.
  exfalso. apply H. reflexivity.
Qed.

Theorem lte_nums_iff a b : h_lte (JNum a) (JNum b) = true <-> (num_q a <= num_q b)%Q.
Proof. rewrite <- gte_lte_flip. apply gte_nums_iff. Qed.

Theorem gt_trans_nums a b c :
  h_gt (JNum a) (JNum b) = true -> h_gt (JNum b) (JNum c) = true -> h_gt (JNum a) (JNum c) = true.
Proof. rewrite !gt_nums_iff. intros H1 H2. eapply Qlt_trans; eassumption. Qed.

Theorem gte_trans_nums a b c :
  h_gte (JNum a) (JNum b) = true -> h_gte (JNum b) (JNum c) = true -> h_gte (JNum a) (JNum c) = true.
Proof. rewrite !gte_nums_iff. intros H1 H2. eapply Qle_trans; eassumption. Qed.

(* exactly one of lt, gt, (gte and lte) holds for two numbers *)
Theorem nums_trichotomy a b :
  let x := JNum a in let y := JNum b in
  (h_lt x y = true /\ h_gt x y = false /\ (h_gte x y && h_lte x y) = false) \/
  (h_lt x y = false /\ h_gt x y = true /\ (h_gte x y && h_lte x y) = false) \/
  (h_lt x y = false /\ h_gt x y = false /\ (h_gte x y && h_lte x y) = true /\ (num_q a == num_q b)%Q).
Proof.
  cbn zeta. unfold h_lt, h_gt, h_gte, h_lte. rewrite cmpj_nums.
  destruct (Qcompare (num_q a) (num_q b)) eqn:E.
  - right. right. repeat split; try reflexivity. apply Qeq_alt. exact E.
  - left. repeat split; reflexivity.
  - right. left. repeat split; reflexivity.
Qed.

Theorem gte_lte_both_nums a b :
  h_gte (JNum a) (JNum b) = true /\ h_lte (JNum a) (JNum b) = true <-> (num_q a == num_q b)%Q.
Proof.
  rewrite gte_nums_iff, lte_nums_iff. split.
  - intros [H1 H2]. apply Qle_antisym; assumption.
  - intros H. split; rewrite H; apply Qle_refl.
Qed.

(* strings: lt is transitive and irreflexive *)
Theorem lt_trans_strs a b c :
  h_lt (JStr a) (JStr b) = true -> h_lt (JStr b) (JStr c) = true -> h_lt (JStr a) (JStr c) = true.
Proof.
  unfold h_lt. cbn [compare_json].
  destruct (str_cmp a b) eqn:E1; try discriminate.
  destruct (str_cmp b c) eqn:E2; try discriminate.
  intros _ _. rewrite (RegProofs.str_cmp_lt_trans a b c E1 E2). reflexivity.
Qed.

Theorem lt_irrefl x : h_lt x x = false.
Proof.
  destruct (h_lt x x) eqn:E; [|reflexivity].
  pose proof (gt_implies x x) as H. rewrite <- lt_gt_flip in H. destruct (H E) as [_ H2]. congruence.
Qed.

Theorem gt_asym x y : h_gt x y = true -> h_gt y x = false.
Proof. intros H. rewrite <- lt_gt_flip. apply (gt_implies x y H). Qed.

(* ---------- eq is an equivalence relation ---------- *)
Lemma num_eqb_refl n : num_eqb n n = true.
Proof.
  destruct n as [x|x|x]; cbn [num_eqb].
  - apply N.eqb_refl.
  - apply Z.eqb_refl.
  - rewrite dy_cmp_exact. assert (E : Qcompare (dy_q (f_dyadic x)) (dy_q (f_dyadic x)) = Eq) by (apply Qeq_alt; reflexivity).
    rewrite E. reflexivity.
Qed.

Lemma num_eqb_sym a b : num_eqb a b = num_eqb b a.
Proof.
  destruct a as [x|x|x], b as [y|y|y]; cbn [num_eqb]; try reflexivity.
  - apply N.eqb_sym.
  - apply Z.eqb_sym.
  - rewrite !dy_cmp_exact. rewrite <- (Qcompare_opp_flip (dy_q (f_dyadic x)) (dy_q (f_dyadic y))).
    destruct (Qcompare (dy_q (f_dyadic x)) (dy_q (f_dyadic y))); reflexivity.
Qed.

Lemma str_eqb_refl s : str_eqb s s = true.
Proof. apply RegProofs.str_eqb_eq. reflexivity. Qed.

Lemma str_eqb_sym a b : str_eqb a b = str_eqb b a.
Proof.
  destruct (str_eqb a b) eqn:E1, (str_eqb b a) eqn:E2; try reflexivity.
  - apply RegProofs.str_eqb_eq in E1. subst. rewrite str_eqb_refl in E2. discriminate.
  - apply RegProofs.str_eqb_eq in E2. subst. rewrite str_eqb_refl in E1. discriminate.
Qed.

Theorem eq_refl_json : forall x, h_eq x x = true.
Proof.
  unfold h_eq. induction x as [|b|n|s|l IH|m IH] using json_ind'; cbn [json_eqb].
  - reflexivity.
  - apply eqb_reflx.
  - apply num_eqb_refl.
  - apply str_eqb_refl.
  - induction IH as [|x l Hx _ IHl]; [reflexivity|]. rewrite Hx. exact IHl.
  - induction IH as [|[k x] m Hx _ IHm]; [reflexivity|]. cbn [snd] in Hx. rewrite str_eqb_refl, Hx. exact IHm.
Qed.

Theorem eq_sym_json : forall x y, h_eq x y = h_eq y x.
Proof.
  unfold h_eq. induction x as [|b|n|s|l IH|m IH] using json_ind'; intros [|b'|n'|s'|l'|m']; cbn [json_eqb]; try reflexivity.
  - destruct b, b'; reflexivity.
  - apply num_eqb_sym.
  - apply str_eqb_sym.
  - revert l'. induction IH as [|x l Hx _ IHl]; intros [|y l']; try reflexivity.
    rewrite Hx. f_equal. apply IHl.
  - revert m'. induction IH as [|[k x] m Hx _ IHm]; intros [|[k' y] m']; try reflexivity.
    cbn [snd] in Hx. rewrite Hx, (str_eqb_sym k k'). f_equal. apply IHm.
Qed.

(* eq is compatible with the order: equal values are never strictly ordered *)
Theorem eq_excludes_strict x y : h_eq x y = true -> h_gt x y = false /\ h_lt x y = false.
Proof.
  unfold h_eq, h_gt, h_lt.
  destruct x as [|b|n|s|l|m], y as [|b'|n'|s'|l'|m']; cbn [json_eqb compare_json]; try discriminate; intros H; try (split; reflexivity).
  - destruct b, b'; try discriminate; split; reflexivity.
  - rewrite cmp_nums_exact.
    assert (E : Qcompare (num_q n) (num_q n') = Eq).
    { destruct n as [u|u|u], n' as [v|v|v]; cbn [num_eqb] in H; try discriminate.
      - apply N.eqb_eq in H. subst. apply Qeq_alt. reflexivity.
      - apply Z.eqb_eq in H. subst. apply Qeq_alt. reflexivity.
      - unfold num_q. cbn [dyadic]. rewrite <- dy_cmp_exact.
        destruct (dy_cmp (f_dyadic u) (f_dyadic v)); try discriminate. reflexivity. }
    rewrite E. split; reflexivity.
  - apply RegProofs.str_eqb_eq in H. subst.
    assert (E : str_cmp s' s' = Eq) by (apply NumProofs.str_cmp_eq; reflexivity).
    rewrite E. split; reflexivity.
Qed.
