(* Proofs/WsWhole.v — the whole-template closed form of C11. *)
From Coq Require Import List NArith Lia Bool.
From HB Require Import Base.Str Peg.Peg Peg.Grammar Tpl.Ast Tpl.Compile Spec.WfTokens
  Spec.AlignedSpec Spec.WsSpec Spec.StripTags Spec.StripTagsBlocks Spec.ChainSpec Spec.NonWs Spec.WsWhole
  Proofs.PegFacts Proofs.PegTermination Proofs.PegForest Proofs.CompileBase Proofs.CompileNoPanic Proofs.CompileStages Proofs.CompilePositions Proofs.CompileTermination Proofs.RawBlockAdjacent
  Proofs.GrammarSchema Proofs.GrammarTemplates Proofs.WsProofs Proofs.ChainProofs Proofs.LeafStr
  Proofs.Conservation Proofs.ConservationBlocks Proofs.ConservationBlocksWs.
Import ListNotations.
Open Scope N_scope.

Arguments N.add : simpl never.
Arguments N.sub : simpl never.
Arguments N.mul : simpl never.
Arguments N.leb : simpl never.
Arguments N.ltb : simpl never.
Arguments N.eqb : simpl never.

(* ================= fuel: a successful parse does not depend on the fuel ================= *)
Section Mono.
  Variable src : str.

  Lemma parsers_mono : forall f,
    (forall it limit r, parse_expression src f it limit = COk r -> parse_expression src (S f) it limit = COk r) /\
    (forall it limit nm ps hs bp pre pro r, expr_loop src f it limit nm ps hs bp pre pro = COk r ->
        expr_loop src (S f) it limit nm ps hs bp pre pro = COk r) /\
    (forall it r, parse_name src f it = COk r -> parse_name src (S f) it = COk r) /\
    (forall it r, parse_param src f it = COk r -> parse_param src (S f) it = COk r).
  Proof.
    induction f as [|f IH].
    - repeat split; intros; discriminate.
    - destruct IH as (IHe & IHl & IHn & IHp). split; [|split; [|split]].
      + intros it limit r H. rewrite parse_expression_S in *.
        destruct it as [|t0 it0]; [exact H|].
        destruct (if is_rule R_leading_tilde_to_omit_whitespace t0 then (true, it0) else (false, t0 :: it0))
          as [pre it1].
        destruct (parse_name src f it1) as [[nm it2]| | |] eqn:En; cbn [cbind] in H; try discriminate.
        rewrite (IHn _ _ En). cbn [cbind]. apply IHl. exact H.
      + intros it limit nm ps hs bp pre pro r H. rewrite expr_loop_S in *. cbv zeta in *.
        destruct it as [|p it1]; [exact H|].
        destruct (tk_end p <? limit); [|exact H].
        destruct (arg_classify (tk_rule p)).
        * destruct (parse_param src f it1) as [[v it2]| | |] eqn:Ep; cbn [cbind] in H; try discriminate.
          rewrite (IHp _ _ Ep). cbn [cbind]. apply IHl. exact H.
        * destruct it1 as [|k it2]; [exact H|].
          destruct (span_str src k _) as [key| | |]; cbn [cbind] in *; try discriminate.
          destruct (parse_param src f it2) as [[v it3]| | |] eqn:Ep; cbn [cbind] in H; try discriminate.
          rewrite (IHp _ _ Ep). cbn [cbind]. apply IHl. exact H.
        * destruct (parse_block_param src it1 (tk_end p)) as [[b it2]| | |]; cbn [cbind] in *; try discriminate.
          apply IHl. exact H.
        * apply IHl. exact H.
        * apply IHl. exact H.
      + intros it r H. rewrite parse_name_S in *.
        destruct it as [|n it1]; [exact H|].
        destruct (name_classify (tk_rule n)); try exact H.
        destruct (parse_expression src f it1 (tk_end n)) as [[e it2]| | |] eqn:Ee; cbn [cbind] in H; try discriminate.
        rewrite (IHe _ _ _ Ee). exact H.
      + intros it r H. rewrite parse_param_S in *. cbv zeta in *.
        destruct it as [|p0 it0]; [exact H|].
        match type of H with cbind ?x _ = _ => destruct x as [[p it1]| | |]; cbn [cbind] in *; try discriminate end.
        destruct (span_str src p _) as [ptxt| | |]; cbn [cbind] in *; try discriminate.
        destruct (name_classify (tk_rule p)); try exact H.
        destruct (parse_expression src f it1 (tk_end p)) as [[e it2]| | |] eqn:Ee; cbn [cbind] in H; try discriminate.
        rewrite (IHe _ _ _ Ee). exact H.
  Qed.
End Mono.

Lemma tag_expr_mono src pr it r : forall f F, (f <= F)%nat ->
  tag_expr src f pr it = COk r -> tag_expr src F pr it = COk r.
Proof.
  intros f F Hle. induction Hle as [|F Hle IH]; [auto|]. intros H. specialize (IH H). clear H.
  destruct (parsers_mono src F) as (Me & _ & Mn & _).
  unfold tag_expr in *. destruct (tag_classify (tk_rule pr)); try (apply Me; exact IH).
  destruct chain; [|apply Me; exact IH].
  destruct (match it with
            | [] => (false, it)
            | t0 :: it0 => if is_rule R_leading_tilde_to_omit_whitespace t0 then (true, it0) else (false, it)
            end) as [cp ita].
  destruct (parse_name src F ita) as [[nm it0]| | |] eqn:En; cbn [cbind] in IH; try discriminate.
  rewrite (Mn _ _ En). cbn [cbind].
  destruct (parse_expression src F it0 (tk_end pr)) as [[e0 it1]| | |] eqn:Ee; cbn [cbind] in IH; try discriminate.
  rewrite (Me _ _ _ Ee). exact IH.
Qed.

(* ================= the front template and its pending piece ================= *)
Definition Fr (T : template) (acc : str) (pend : option str) : Prop :=
  match pend with
  | Some p => exists es, t_els T = es ++ [ElRaw p] /\ all_raw_text es = acc
  | None => all_raw_text (t_els T) = acc /\ (forall es s, t_els T <> es ++ [ElRaw s])
  end.

Lemma Fr_txt T acc pend : Fr T acc pend -> all_raw_text (t_els T) = acc ++ oflush pend.
Proof.
  destruct pend as [p|]; cbn [Fr oflush].
  - intros (es & -> & <-). rewrite all_raw_text_app, all_raw_text_one. reflexivity.
  - intros [<- _]. rewrite app_nil_r. reflexivity.
Qed.

Lemma Fr_push_raw T acc pend s lc : Fr T acc pend -> Fr (t_push T (ElRaw s) lc) (acc ++ oflush pend) (Some s).
Proof.
  intros H. cbn [Fr]. exists (t_els T). split; [apply t_els_push|]. apply Fr_txt. exact H.
Qed.

Lemma Fr_push_other T acc pend el lc : Fr T acc pend -> (forall s, el <> ElRaw s) -> art_e el = [] ->
  Fr (t_push T el lc) (acc ++ oflush pend) None.
Proof.
  intros H Hn He. cbn [Fr]. rewrite t_els_push. split.
  - rewrite all_raw_text_app, all_raw_text_one, He, app_nil_r. apply Fr_txt. exact H.
  - intros es s E. apply app_inj_tail in E. destruct E as [_ E]. exact (Hn s E).
Qed.

Lemma Fr_map f T acc pend : Fr T acc pend -> Fr (map_last_raw f T) acc (option_map f pend).
Proof.
  destruct T as [n els m]. destruct pend as [p|]; cbn [Fr option_map t_els].
  - intros (es & -> & E). rewrite map_last_raw_raw. cbn [t_els]. exists es. split; [reflexivity | exact E].
  - intros [E Hn]. unfold map_last_raw. destruct (rev els) as [|e r] eqn:Er; [split; assumption|].
    destruct e; try (split; assumption). exfalso. apply (Hn (rev r) s).
    rewrite <- (rev_involutive els), Er. reflexivity.
Qed.

Lemma tag_ws_stack_Fr src opts cls pr pre T acc pend :
  Fr T acc pend ->
  exists T2, tag_ws_stack src opts cls pr pre [T] = [T2] /\
    Fr T2 acc (option_map (end_trim pre (match standalone_capable opts cls with
                                         | Some pi => line_end_after src pr (o_is_partial opts)
                                                      && (pi && line_start_before src pr)
                                         | None => false end)) pend).
Proof.
  intros H. unfold tag_ws_stack, lead_trim, sa_trim, end_trim.
  assert (H1 : exists T1, (if pre then front_map trim_end [T] else [T]) = [T1]
                          /\ Fr T1 acc (option_map (fun s => if pre then trim_end s else s) pend)).
  { destruct pre; cbn [front_map]; eexists; (split; [reflexivity|]).
    - apply Fr_map. exact H.
    - destruct pend; exact H. }
  destruct H1 as (T1 & -> & H1).
  destruct (standalone_capable opts cls) as [pi|].
  - destruct (line_end_after src pr (o_is_partial opts) && (pi && line_start_before src pr)).
    + cbn [front_map]. eexists. split; [reflexivity|].
      apply (Fr_map trim_end_blank) in H1. destruct pend; exact H1.
    + exists T1. split; [reflexivity|]. destruct pend; exact H1.
  - exists T1. split; [reflexivity|]. destruct pend; exact H1.
Qed.

Lemma walk_kids src all opts F l rest pe po pt pend : Forall kid_tok l -> rest <> [] ->
  ws_walk src all opts F (l ++ rest) pe po pt pend = ws_walk src all opts F rest pe po pt pend.
Proof.
  intros Hk Hr. induction Hk as [|t l Ht _ IH]; [reflexivity|].
  cbn [app ws_walk]. unfold kid_tok in Ht. rewrite Ht.
  destruct (l ++ rest) eqn:E; [|exact IH].
  apply app_eq_nil in E. destruct E as [_ E]. contradiction.
Qed.

(* ================= single steps on a flat stream ================= *)
Section FlatWs.
  Variable src : str.
  Variable all : list tok.
  Variable opts : copts.
  Hypothesis Hesc : escapes_sorted all.
  Variable F : nat.

  Notation SP := (Forall (span_ok src)).
  Notation walk := (ws_walk src all opts F).

  Definition Invw (c : cstate) (acc : str) (pend : option str) (lo : N) : Prop :=
    St 1 0 0 lo c /\ exists T, c_ts c = [T] /\ Fr T acc pend.

  Definition KKw (rest : list tok) (hi : N) : Prop :=
    forall fuel c t acc pend, (fuel <= F)%nat -> main_loop src all opts fuel c rest = COk t ->
      Invw c acc pend hi ->
      all_raw_text (t_els t) = acc ++ walk rest hi (c_omit c) (c_trim c) pend.

  Lemma fires_eq c pr :
    rule_eqb (tk_rule pr) R_template = false -> rule_eqb (tk_rule pr) R_raw_text = false ->
    rule_eqb (tk_rule pr) R_raw_block_text = false ->
    trailing_fires c pr = negb (N.eqb (tk_start pr) (prev_end c)) && negb (c_omit c).
  Proof.
    intros R1 R2 R3. unfold trailing_fires. fold (prev_end c). rewrite R1, R2, R3. cbn [negb andb].
    rewrite !andb_true_r. reflexivity.
  Qed.

  (* the pre-step, with the pending piece *)
  Lemma tr_Fr c pr lc c1 T acc pend :
    trailing_string src c pr lc = COk c1 -> c_ts c = [T] -> Fr T acc pend ->
    rule_eqb (tk_rule pr) R_template = false -> rule_eqb (tk_rule pr) R_raw_text = false ->
    rule_eqb (tk_rule pr) R_raw_block_text = false -> rule_eqb (tk_rule pr) R_raw_block_end = false ->
    let fires := negb (N.eqb (tk_start pr) (prev_end c)) && negb (c_omit c) in
    exists T1, c_ts c1 = [T1] /\
      Fr T1 (if fires then acc ++ oflush pend else acc)
            (if fires then Some (ws_text false (c_trim c) (gap src (prev_end c) (tk_start pr))) else pend) /\
      c_omit c1 = c_omit c /\ c_trim c1 = (if fires then false else c_trim c).
  Proof.
    intros H ET HF R1 R2 R3 R4. cbv zeta. rewrite <- (fires_eq c pr R1 R2 R3).
    destruct (trailing_string_spec src c pr lc c1 H) as (Ao & _ & _ & _ & Hf).
    destruct (trailing_fires c pr).
    - destruct Hf as (_ & Et1 & tx & Es & Hp). unfold trailing_push in Hp. rewrite R4 in Hp.
      destruct Hp as (t0 & r0 & E0 & E1). rewrite ET in E0. injection E0 as <- <-.
      eexists. split; [exact E1|]. rewrite (gap_slice _ _ _ _ Es).
      split; [apply Fr_push_raw; exact HF|]. split; assumption.
    - subst c1. exists T. repeat split; assumption.
  Qed.

  (* a tag that pushes an element without text: {{x}}, {{{x}}}, {{> p}}, {{* d}}, comments *)
  Lemma tagstep_w f c pr it c' it' acc pend lo :
    step src all opts f c pr it = COk (c', it') -> (f <= F)%nat ->
    Invw c acc pend lo ->
    match tag_classify (tk_rule pr) with KValueExpr _ | KDecoExpr _ | KComment _ => True | _ => False end ->
    St 1 0 0 (tk_end pr) c' ->
    let fires := negb (N.eqb (tk_start pr) lo) && negb (c_omit c) in
    let pend1 := if fires then Some (ws_text false (c_trim c) (gap src lo (tk_start pr))) else pend in
    let '(npre, npro) := tag_fl src F pr it in
    Invw c' (acc ++ (if fires then oflush pend else [])
                 ++ oflush (option_map (end_trim npre (sa_fires src opts pr)) pend1)) None (tk_end pr)
    /\ c_omit c' = npro /\ c_trim c' = trim_after src opts pr.
  Proof.
    intros Es Hf (HSt & T & ET & HF) Hcls HSt'. cbv zeta.
    pose proof (St_pe _ _ _ _ _ HSt) as Epe.
    destruct (step_ws src all opts _ _ _ _ _ _ Es) as (c1 & Htr & Hw). cbv zeta in Hw.
    destruct (step_blk src all opts _ _ _ _ _ _ Es) as (c1' & Htr' & Hb). cbv zeta in Hb.
    rewrite Htr in Htr'. apply cok_inj in Htr'. subst c1'.
    assert (R : rule_eqb (tk_rule pr) R_template = false /\ rule_eqb (tk_rule pr) R_raw_text = false /\
                rule_eqb (tk_rule pr) R_raw_block_text = false /\ rule_eqb (tk_rule pr) R_raw_block_end = false).
    { destruct (tk_rule pr); cbn in Hcls; try contradiction; repeat split; reflexivity. }
    destruct R as (R1 & R2 & R3 & R4).
    destruct (tr_Fr c pr _ c1 T acc pend Htr ET HF R1 R2 R3 R4) as (T1 & ET1 & HF1 & Eo1 & Et1).
    rewrite Epe in HF1, Et1.
    set (fires := negb (N.eqb (tk_start pr) lo) && negb (c_omit c)) in *.
    set (pend1 := if fires then Some (ws_text false (c_trim c) (gap src lo (tk_start pr))) else pend) in *.
    set (acc1 := if fires then acc ++ oflush pend else acc) in *.
    assert (Eacc : acc ++ (if fires then oflush pend else []) = acc1)
      by (unfold acc1; destruct fires; [reflexivity | apply app_nil_r]).
    unfold tag_fl, sa_fires, trim_after.
    destruct (tag_classify (tk_rule pr)) eqn:Ec; try contradiction; cbn [expr_class].
    - (* value expression *)
      destruct Hw as (e & Hex & Eo' & Et' & _).
      destruct Hb as (e2 & t0 & r1 & Hex2 & Hst & Ets' & _).
      rewrite Hex in Hex2. apply cok_inj in Hex2. injection Hex2 as <-.
      rewrite (tag_expr_mono src pr it _ f F Hf Hex).
      destruct (tag_ws_stack_Fr src opts (KValueExpr html) pr (es_pre e) T1 acc1 pend1 HF1) as (T2 & E2 & HF2).
      rewrite ET1, E2 in Hst. injection Hst as <- <-.
      split; [|split; assumption].
      split; [exact HSt'|]. eexists. split; [exact Ets'|].
      rewrite app_assoc, Eacc. apply Fr_push_other; [exact HF2 | destruct html; discriminate | destruct html; reflexivity].
    - (* decorator / partial expression *)
      destruct Hw as (e & Hex & Eo' & Et' & _).
      destruct Hb as (e2 & t0 & r1 & w & ind & Hex2 & Hst & Ets' & _).
      rewrite Hex in Hex2. apply cok_inj in Hex2. injection Hex2 as <-.
      rewrite (tag_expr_mono src pr it _ f F Hf Hex).
      destruct (tag_ws_stack_Fr src opts (KDecoExpr partial) pr (es_pre e) T1 acc1 pend1 HF1) as (T2 & E2 & HF2).
      rewrite ET1, E2 in Hst. injection Hst as <- <-.
      split; [|split; assumption].
      split; [exact HSt'|]. eexists. split; [exact Ets'|].
      rewrite app_assoc, Eacc. apply Fr_push_other; [exact HF2 | destruct partial; discriminate | destruct partial; reflexivity].
    - (* comment *)
      destruct Hw as (Eo' & Et' & Hown & _).
      destruct (tag_ws_stack_Fr src opts (KComment compact) pr false T1 acc1 pend1 HF1) as (T2 & E2 & HF2).
      rewrite ET1, E2 in Hown. destruct Hown as (t0 & r1 & s0 & Hst & Ets'). injection Hst as <- <-.
      split; [|split; assumption].
      split; [exact HSt'|]. eexists. split; [exact Ets'|].
      rewrite app_assoc, Eacc. apply Fr_push_other; [exact HF2 | discriminate | reflexivity].
  Qed.

  (* ---------- items ---------- *)
  Lemma item_raw_w lo s e rest : lo <= s -> span_ok src (R_raw_text, s, e) -> rest <> [] ->
    KKw rest e -> KKw ((R_raw_text, s, e) :: rest) lo.
  Proof.
    intros Hlo Hsp Hne HK fuel c t acc pend Hfu H (HSt & T & ET & HF).
    destruct (loop_inv src all opts _ _ _ _ _ H) as (f & c' & it' & -> & Es & Hl).
    pose proof (St_pe _ _ _ _ _ HSt) as Epe.
    pose proof (okres_ok _ _ _ (step_raw_text src all opts Hesc f c s e rest 1 0 0 lo HSt (le_n _) Hlo Hsp) Es)
      as [E1 E2].
    cbn [fst snd] in E1, E2. subst it'.
    destruct (text_element src all opts _ _ _ _ _ _ Es eq_refl)
      as (tx & s0 & t0 & r1 & Esl & Eun & Ets & Ets' & Eo' & Et' & _).
    rewrite ET in Ets. injection Ets as <- <-. rewrite Epe in Esl. cbn [tk_end snd] in Esl.
    cbn [ws_walk]. destruct rest as [|t1 r1]; [contradiction Hne; reflexivity|].
    cbn [tk_rule tk_end fst snd tag_classify]. rewrite app_assoc.
    rewrite (gap_slice _ _ _ _ Esl). unfold unesc. rewrite Eun.
    rewrite (HK f c' t (acc ++ oflush pend) (Some (ws_text (c_omit c) (c_trim c) s0))); [|lia|exact Hl|].
    - rewrite Eo', Et'. reflexivity.
    - split; [exact E2|]. eexists. split; [exact Ets'|]. apply Fr_push_raw. exact HF.
  Qed.

  Lemma item_tag_w lo r s e l rest :
    simple_tag r -> lo <= s -> span_ok src (r, s, e) -> tag_toks e l -> SP l -> Forall kid_tok l ->
    next_ge e rest -> rest <> [] ->
    KKw rest e -> KKw ((r, s, e) :: l ++ rest) lo.
  Proof.
    intros Hr Hlo Hsp Ht Hsl Hk Hnx Hne HK fuel c t acc pend Hfu H HI.
    destruct (loop_inv src all opts _ _ _ _ _ H) as (f & c' & it' & -> & Es & Hl).
    pose proof HI as (HSt & _).
    assert (Hres : it' = rest /\ St 1 0 0 e c').
    { destruct (simple_tag_class r Hr) as (b & [Hc | Hc]).
      - exact (okres_ok _ _ _ (step_value src all opts f c r s e l rest 1 0 0 lo b Hc HSt (le_n _) Hlo Hsp Ht Hsl Hnx) Es).
      - exact (okres_ok _ _ _ (step_deco_expr src all opts f c r s e l rest 1 0 0 lo b Hc HSt (le_n _) Hlo Hsp Ht Hsl Hnx) Es). }
    destruct Hres as [-> HSt'].
    assert (Hcls : match tag_classify (tk_rule (r, s, e)) with KValueExpr _ | KDecoExpr _ | KComment _ => True | _ => False end)
      by (destruct Hr as [E | [E | [E | E]]]; subst r; exact I).
    pose proof (tagstep_w f c (r, s, e) (l ++ rest) c' rest acc pend lo Es ltac:(lia) HI Hcls HSt') as Hstep.
    cbv zeta in Hstep. cbn [tk_start tk_end fst snd] in Hstep.
    cbn [ws_walk]. destruct (l ++ rest) as [|t1 r1] eqn:Elr;
      [apply app_eq_nil in Elr; destruct Elr as [_ Elr]; contradiction|]. rewrite <- Elr in *. clear Elr t1 r1.
    assert (Hmain : exists cls, tag_classify (tk_rule (r, s, e)) = cls /\
              match cls with KValueExpr _ | KDecoExpr _ => True | _ => False end).
    { eexists. split; [reflexivity|]. destruct Hr as [E | [E | [E | E]]]; subst r; exact I. }
    destruct Hmain as (cls & Ecls & Hm). rewrite Ecls.
    pose proof (St_pe _ _ _ _ _ HSt) as Epe.
    destruct cls; try contradiction;
      cbn [tk_start tk_end fst snd];
      destruct (tag_fl src F (r, s, e) (l ++ rest)) as [npre npro];
      destruct Hstep as (HI' & Eo' & Et');
      rewrite (HK f c' t _ None ltac:(lia) Hl HI'), Eo', Et';
      rewrite (walk_kids src all opts F l rest _ _ _ _ Hk Hne);
      rewrite <- !app_assoc; reflexivity.
  Qed.

  Lemma item_comment_w lo r s e rest :
    comment_rule r -> lo <= s -> span_ok src (r, s, e) -> rest <> [] ->
    KKw rest e -> KKw ((r, s, e) :: rest) lo.
  Proof.
    intros Hr Hlo Hsp Hne HK fuel c t acc pend Hfu H HI.
    destruct (loop_inv src all opts _ _ _ _ _ H) as (f & c' & it' & -> & Es & Hl).
    pose proof HI as (HSt & _).
    assert (exists compact, tag_classify r = KComment compact) as (compact & Hc)
      by (destruct Hr as [-> | ->]; eexists; reflexivity).
    pose proof (okres_ok _ _ _ (step_comment src all opts f c r s e rest 1 0 0 lo compact Hc
                  HSt (le_n _) Hlo Hsp) Es) as [E1 HSt'].
    cbn [fst snd] in E1, HSt'. subst it'.
    assert (Hcls : match tag_classify (tk_rule (r, s, e)) with KValueExpr _ | KDecoExpr _ | KComment _ => True | _ => False end)
      by (cbn [tk_rule fst]; rewrite Hc; exact I).
    pose proof (tagstep_w f c (r, s, e) rest c' rest acc pend lo Es ltac:(lia) HI Hcls HSt') as Hstep.
    cbv zeta in Hstep. cbn [tk_start tk_end fst snd] in Hstep.
    cbn [ws_walk]. destruct rest as [|t1 r1]; [contradiction Hne; reflexivity|].
    cbn [tk_rule fst]. rewrite Hc. cbn [tk_start tk_end fst snd].
    destruct (tag_fl src F (r, s, e) (t1 :: r1)) as [npre npro].
    destruct Hstep as (HI' & Eo' & Et').
    rewrite (HK f c' t _ None ltac:(lia) Hl HI'), Eo', Et'.
    rewrite <- !app_assoc. reflexivity.
  Qed.

  Lemma floop_w lo hi l : fitems lo hi l -> forall rest,
    SP l -> rest <> [] -> first_ge hi rest -> KKw rest hi -> KKw (l ++ rest) lo.
  Proof.
    induction 1 as [lo|lo mid hi a rest0 Ha Hr IH]; intros rest Hs Hne Hf HK; [exact HK|].
    apply Forall_app in Hs. destruct Hs as [Hsa Hsr].
    rewrite <- app_assoc.
    assert (HK' : KKw (rest0 ++ rest) mid) by (apply IH; assumption).
    assert (Hf' : first_ge mid (rest0 ++ rest)) by (apply (ffirst _ _ _ Hr); exact Hf).
    assert (Hne' : rest0 ++ rest <> []).
    { intro E. apply app_eq_nil in E. destruct E as [_ E]. contradiction. }
    inversion Ha; subst.
    - cbn [app]. inversion Hsa; subst. apply item_raw_w; try assumption.
    - rewrite <- app_comm_cons. inversion Hsa; subst.
      apply item_tag_w; try assumption. apply first_ge_next; exact Hf'.
    - cbn [app]. inversion Hsa; subst. apply item_comment_w; try assumption.
  Qed.

  Lemma KK_eoi_w hi p : hi <= p -> p <= len src -> KKw [(R_EOI, p, p)] hi.
  Proof.
    intros Hhi Hp fuel c t acc pend Hfu H (HSt & T & ET & HF).
    pose proof (St_pe _ _ _ _ _ HSt) as Epe.
    destruct (loop_inv src all opts _ _ _ _ _ H) as (f & c' & it' & -> & Es & Hl).
    destruct (step_ws src all opts _ _ _ _ _ _ Es) as (c1 & Htr & Hw). cbv zeta in Hw.
    cbn [tk_rule tk_start fst snd tag_classify] in Hw, Htr.
    destruct Hw as (_ & _ & Ets' & ->).
    destruct (tr_Fr c (R_EOI, p, p) _ c1 T acc pend Htr ET HF eq_refl eq_refl eq_refl eq_refl)
      as (T1 & ET1 & HF1 & _ & _).
    cbn [tk_start fst snd] in HF1. rewrite Epe in HF1.
    assert (Hce : c_end c' = Some p).
    { assert (Hne : tag_classify (tk_rule (R_EOI, p, p)) <> KTemplate) by (cbn; discriminate).
      exact (step_c_end src all opts _ _ _ _ _ _ Hne Es). }
    destruct f as [|f]; [discriminate|]. cbn [main_loop] in Hl. rewrite Hce in Hl.
    rewrite Ets', ET1 in Hl.
    cbn [ws_walk tk_rule tk_start fst snd]. change (rule_eqb R_EOI R_EOI) with true. cbn iota.
    pose proof (Fr_txt _ _ _ HF1) as Htx.
    assert (Hfin : all_raw_text (t_els t) = all_raw_text (t_els T1) ++ gap src p (len src)).
    { destruct (p <? len src) eqn:Elt.
      - destruct (slice_some src p (len src)) as (tx & Esl & _); [lia|lia|].
        rewrite Esl in Hl. cbn [push_front_el cbind] in Hl. injection Hl as <-.
        rewrite t_els_set_name, t_els_push, all_raw_text_app, all_raw_text_one. cbn [art_e].
        rewrite (gap_slice _ _ _ _ Esl). reflexivity.
      - cbn [cbind] in Hl. injection Hl as <-. apply N.ltb_ge in Elt.
        assert (p = len src) by lia. subst p.
        rewrite t_els_set_name, gap_same, app_nil_r by lia. reflexivity. }
    rewrite Hfin, Htx.
    destruct (negb (p =? hi) && negb (c_omit c)); cbn [oflush]; rewrite <- !app_assoc; reflexivity.
  Qed.

  Theorem main_loop_flat_w s e body hi p t fuel :
    fitems 0 hi body -> hi <= p -> p <= len src -> (fuel <= F)%nat ->
    SP ((R_template, s, e) :: body ++ [(R_EOI, p, p)]) ->
    main_loop src all opts fuel init_cstate ((R_template, s, e) :: body ++ [(R_EOI, p, p)]) = COk t ->
    all_raw_text (t_els t) = walk ((R_template, s, e) :: body ++ [(R_EOI, p, p)]) 0 false false None.
  Proof.
    intros Hit Hhi Hp Hfu Hs H.
    destruct (loop_inv src all opts _ _ _ _ _ H) as (f & c' & it' & -> & Es & Hl).
    assert (St0 : St 0 0 0 0 init_cstate) by (split; [repeat split; constructor | reflexivity]).
    pose proof (okres_ok _ _ _ (step_template src all opts f init_cstate s e _ 0 0 0 0 St0) Es) as [E1 E2].
    cbn [fst snd] in E1, E2. subst it'.
    destruct (step_ws src all opts _ _ _ _ _ _ Es) as (c1 & Htr & Hw). cbv zeta in Hw.
    cbn [tk_rule tk_start fst snd tag_classify] in Hw, Htr.
    destruct Hw as (Eo' & Et' & Ets' & _).
    pose proof (trailing_string_text src init_cstate _ _ c1 Htr) as Hc1.
    cbn [tk_rule fst snd tag_classify] in Hc1. subst c1.
    cbn [init_cstate c_ts c_omit c_trim] in Eo', Et', Ets'.
    inversion Hs as [|x y _ Hs']; subst. apply Forall_app in Hs'. destruct Hs' as [Hsb _].
    assert (Hne : body ++ [(R_EOI, p, p)] <> []).
    { intro E. apply app_eq_nil in E. destruct E as [_ E]. discriminate. }
    cbn [ws_walk tk_rule fst snd tag_classify].
    destruct (body ++ [(R_EOI, p, p)]) as [|t1 r1] eqn:Eb; [contradiction Hne; reflexivity|].
    rewrite <- Eb in *. clear Eb t1 r1.
    pose proof (floop_w 0 hi body Hit [(R_EOI, p, p)] Hsb ltac:(discriminate)
                  ltac:(cbn [first_ge tk_start tk_end fst snd]; lia) (KK_eoi_w hi p Hhi Hp)) as HK.
    rewrite (HK f c' t [] None ltac:(lia) Hl).
    - rewrite Eo', Et'. reflexivity.
    - split; [exact E2|]. exists t_empty. split; [exact Ets'|]. split; [reflexivity|].
      intros es s0 E. destruct es; discriminate.
  Qed.
End FlatWs.

(* ================= compile2, flat sources ================= *)
Definition block_free (ts : list tok) : bool := forallb block_free_token ts.

Theorem whole_template_flat : forall src opts ts t,
  hb_parse (peg_fuel src) R_handlebars src = Parsed ts ->
  block_free ts = true ->
  compile2 src opts = COk t ->
  all_raw_text (t_els t) = ws_expected src opts ts.
Proof.
  intros src opts ts t Hp Hfl Hc.
  rewrite compile2_unfold in Hc.
  pose proof (hb_parse_spans _ _ _ _ Hp) as Hsp.
  pose proof (hb_parse_wf _ _ _ Hp) as [_ Hesc].
  revert Hp Hc. generalize (peg_fuel src). intros pf Hp Hc. rewrite Hp in Hc.
  unfold compile_tokens in Hc. unfold ws_expected.
  change (fun t0 : tok => negb (is_rule R_escape t0)) with not_escape in *.
  rewrite hb_parse_unfold in Hp. unfold parse in Hp.
  destruct (eval rule hb_defs hb_ws pf (ERef R_handlebars) ANon false src 0) as [pos rest ts0| |] eqn:E;
    try discriminate.
  inversion Hp; subst ts0.
  destruct (eval_gen rule hb_defs hb_ws hb_RP hb_RP_holds _ _ _ _ _ _ _ _ _ E) as (F & -> & G).
  assert (Hft : Forall (fun x => block_free_token x = true) (fl (flats F))).
  { apply Forall_filter. apply Forall_forall. apply forallb_forall. exact Hfl. }
  destruct (flat_schema _ _ _ G Hft) as (s & e & body & hi & Efl & Hit & Hhi).
  rewrite Efl in *.
  assert (Hsp' : Forall (span_ok src) ((R_template, s, e) :: body ++ [(R_EOI, pos, pos)])).
  { rewrite <- Efl. apply Forall_filter. exact Hsp. }
  assert (Hpos : pos <= len src).
  { inversion Hsp' as [|x y _ Hy]; subst. apply Forall_app in Hy. destruct Hy as [_ Hy].
    inversion Hy as [|x' y' [_ Hx'] _]; subst. exact Hx'. }
  eapply main_loop_flat_w; try eassumption. lia.
Qed.

(* (a) without `~` and without standalone tags nothing is trimmed: the closed form
   is the source with its tags deleted *)
Lemma flat_plain_block_free src opts ts : flat_plain src opts ts = true -> block_free ts = true.
Proof.
  unfold flat_plain, block_free. intro H. apply forallb_forall. intros x Hx.
  rewrite forallb_forall in H. specialize (H x Hx). unfold plain_token in H.
  apply andb_true_iff in H. destruct H as [H _]. apply andb_true_iff in H. destruct H as [_ H]. exact H.
Qed.

Lemma flat_plain_blocks_plain src opts ts : flat_plain src opts ts = true -> blocks_plain src opts ts = true.
Proof.
  unfold flat_plain, blocks_plain. intro H. apply forallb_forall. intros x Hx.
  rewrite forallb_forall in H. specialize (H x Hx). unfold plain_token in H. unfold blocks_plain_token.
  apply andb_true_iff in H. destruct H as [H H2]. apply andb_true_iff in H. destruct H as [H0 H1].
  rewrite H0. cbn [andb]. unfold block_free_token in H1.
  destruct (tag_classify (tk_rule x)); try reflexivity; try discriminate H1; exact H2.
Qed.

Corollary whole_template_flat_plain : forall src opts ts t,
  hb_parse (peg_fuel src) R_handlebars src = Parsed ts ->
  flat_plain src opts ts = true ->
  compile2 src opts = COk t ->
  ws_expected src opts ts = strip_tags src ts (filter not_escape ts) 0.
Proof.
  intros src opts ts t Hp Hfl Hc.
  rewrite <- (whole_template_flat src opts ts t Hp (flat_plain_block_free _ _ _ Hfl) Hc).
  exact (conservation_blocks src opts ts t Hp (flat_plain_blocks_plain _ _ _ Hfl) Hc).
Qed.

(* (c) a multi-line flat source: a comment and an indented partial alone on their
   lines, `~` on both sides of a value expression, an escape *)
Definition wf_src : str :=
  `"a" ++ [10] ++ `"  {{!-- c --}}  " ++ [13; 10] ++ `"b  {{~x~}}  " ++ [10] ++ `"  {{> p}}" ++ [10]
  ++ `"c \{{d}} {{y}}  " ++ [10] ++ `"e  ".

Example whole_template_flat_example :
  exists ts t,
    hb_parse (peg_fuel wf_src) R_handlebars wf_src = Parsed ts /\
    block_free ts = true /\
    compile2 wf_src default_opts = COk t /\
    all_raw_text (t_els t) = ws_expected wf_src default_opts ts /\
    ws_expected wf_src default_opts ts = `"a" ++ [10] ++ `"bc {{d}}   " ++ [10] ++ `"e  ".
Proof.
  destruct (hb_parse (peg_fuel wf_src) R_handlebars wf_src) as [ts| |] eqn:Ep;
    [|vm_compute in Ep; discriminate Ep..].
  destruct (compile2 wf_src default_opts) as [t| | |] eqn:Ec; [|vm_compute in Ec; discriminate Ec..].
  exists ts, t. split; [reflexivity|].
  assert (Hb : block_free ts = true) by (vm_compute in Ep; injection Ep as <-; vm_compute; reflexivity).
  split; [exact Hb|]. split; [reflexivity|].
  split; [exact (whole_template_flat _ _ _ _ Ep Hb Ec)|].
  vm_compute in Ep. injection Ep as <-. vm_compute. reflexivity.
Qed.

(* with blocks (not covered by whole_template_flat): the closed form still
   agrees with the compiled template, by computation, on a source with standalone
   block lines, an indented standalone partial, tildes, a comment, a raw block
   and an else chain with a leading tilde *)
Definition wb_src : str :=
  `"  {{#if x}}  " ++ [10] ++ `"  {{> p}}  " ++ [13; 10] ++ `" t {{~y~}} " ++ [10] ++ `"{{!c}}" ++ [10]
  ++ `"  {{~else if z}} u {{else}}" ++ [10] ++ `" v" ++ [10] ++ `"  {{/if}}" ++ [10]
  ++ `"{{{{raw}}}} {{r}} {{{{/raw}}}} e ".

Example whole_template_blocks_computed :
  exists ts t,
    hb_parse (peg_fuel wb_src) R_handlebars wb_src = Parsed ts /\
    compile2 wb_src default_opts = COk t /\
    all_raw_text (t_els t) = ws_expected wb_src default_opts ts.
Proof.
  destruct (hb_parse (peg_fuel wb_src) R_handlebars wb_src) as [ts| |] eqn:Ep;
    [|vm_compute in Ep; discriminate Ep..].
  destruct (compile2 wb_src default_opts) as [t| | |] eqn:Ec; [|vm_compute in Ec; discriminate Ec..].
  exists ts, t. split; [reflexivity|]. split; [reflexivity|].
  vm_compute in Ep. injection Ep as <-. vm_compute in Ec. injection Ec as <-. vm_compute. reflexivity.
Qed.

(* ================= with blocks ================= *)
Section BlkWs.
  Variable src : str.
  Variable all : list tok.
  Variable opts : copts.
  Hypothesis Hesc : escapes_sorted all.
  Variable F : nat.

  Notation SP := (Forall (span_ok src)).
  Notation walk := (ws_walk src all opts F).
  Notation txt T := (all_raw_text (t_els T)).

  Lemma tr_Fr2 c pr lc c1 T r acc pend :
    trailing_string src c pr lc = COk c1 -> c_ts c = T :: r -> Fr T acc pend ->
    rule_eqb (tk_rule pr) R_template = false -> rule_eqb (tk_rule pr) R_raw_text = false ->
    rule_eqb (tk_rule pr) R_raw_block_text = false ->
    (rule_eqb (tk_rule pr) R_raw_block_end = false \/ tk_start pr = prev_end c) ->
    let fires := negb (N.eqb (tk_start pr) (prev_end c)) && negb (c_omit c) in
    exists T1, c_ts c1 = T1 :: r /\
      Fr T1 (if fires then acc ++ oflush pend else acc)
            (if fires then Some (ws_text false (c_trim c) (gap src (prev_end c) (tk_start pr))) else pend) /\
      c_hs c1 = c_hs c /\ c_ds c1 = c_ds c.
  Proof.
    intros H ET HF R1 R2 R3 R4. cbv zeta. rewrite <- (fires_eq c pr R1 R2 R3).
    destruct (trailing_string_spec src c pr lc c1 H) as (Ao & Ah & Ad & _ & Hf).
    destruct (trailing_fires c pr) eqn:Ef.
    - destruct Hf as (_ & Et1 & tx & Es & Hp). unfold trailing_push in Hp.
      destruct R4 as [R4 | R4].
      + rewrite R4 in Hp. destruct Hp as (t0 & r0 & E0 & E1). rewrite ET in E0. injection E0 as <- <-.
        eexists. split; [exact E1|]. rewrite (gap_slice _ _ _ _ Es).
        split; [apply Fr_push_raw; exact HF|]. split; assumption.
      + exfalso. rewrite (fires_eq c pr R1 R2 R3), R4, N.eqb_refl in Ef. discriminate.
    - subst c1. exists T. repeat split; assumption.
  Qed.

  Lemma tag_ws_stack_Fr2 cls pr pre T r acc pend :
    Fr T acc pend ->
    exists T2, tag_ws_stack src opts cls pr pre (T :: r) = T2 :: r /\
      Fr T2 acc (option_map (end_trim pre (match standalone_capable opts cls with
                                           | Some pi => line_end_after src pr (o_is_partial opts)
                                                        && (pi && line_start_before src pr)
                                           | None => false end)) pend).
  Proof.
    intros H. unfold tag_ws_stack, lead_trim, sa_trim, end_trim.
    assert (H1 : exists T1, (if pre then front_map trim_end (T :: r) else T :: r) = T1 :: r
                            /\ Fr T1 acc (option_map (fun s => if pre then trim_end s else s) pend)).
    { destruct pre; cbn [front_map]; eexists; (split; [reflexivity|]).
      - apply Fr_map. exact H.
      - destruct pend; exact H. }
    destruct H1 as (T1 & -> & H1).
    destruct (standalone_capable opts cls) as [pi|].
    - destruct (line_end_after src pr (o_is_partial opts) && (pi && line_start_before src pr)).
      + cbn [front_map]. eexists. split; [reflexivity|].
        apply (Fr_map trim_end_blank) in H1. destruct pend; exact H1.
      + exists T1. split; [reflexivity|]. destruct pend; exact H1.
    - exists T1. split; [reflexivity|]. destruct pend; exact H1.
  Qed.

  Definition is_tag_class (cls : tag_class) : Prop :=
    match cls with KTemplate | KOtherRule | KRawText | KRawBlockText => False | _ => True end.

  (* the walker at a tag token followed by its kid tokens *)
  Lemma walk_tag pr l rest lo po pt pend : Forall kid_tok l -> rest <> [] ->
    is_tag_class (tag_classify (tk_rule pr)) ->
    walk (pr :: l ++ rest) lo po pt pend
    = let fires := negb (N.eqb (tk_start pr) lo) && negb po in
      let pend1 := if fires then Some (ws_text false pt (gap src lo (tk_start pr))) else pend in
      (if fires then oflush pend else []) ++
      oflush (option_map (end_trim (fst (tag_fl src F pr (l ++ rest))) (sa_fires src opts pr)) pend1) ++
      walk rest (tk_end pr) (snd (tag_fl src F pr (l ++ rest))) (trim_after src opts pr) None.
  Proof.
    intros Hk Hne Hc. cbn [ws_walk].
    destruct (l ++ rest) as [|t1 r1] eqn:Elr;
      [apply app_eq_nil in Elr; destruct Elr as [_ Elr]; contradiction|]. rewrite <- Elr. clear Elr t1 r1.
    destruct (tag_classify (tk_rule pr)); try contradiction; cbv zeta;
      destruct (tag_fl src F pr (l ++ rest)) as [npre npro]; cbn [fst snd];
      rewrite (walk_kids src all opts F l rest _ _ _ _ Hk Hne); reflexivity.
  Qed.

  (* the common part of every tag: pre-step, flags, look-back, and the walker *)
  Lemma core2 f c pr l rest c' it' T r acc pend lo :
    step src all opts f c pr (l ++ rest) = COk (c', it') -> (f <= F)%nat ->
    is_tag_class (tag_classify (tk_rule pr)) ->
    prev_end c = lo -> c_ts c = T :: r -> Fr T acc pend ->
    (rule_eqb (tk_rule pr) R_raw_block_end = false \/ tk_start pr = lo) ->
    Forall kid_tok l -> rest <> [] ->
    exists c1 T2 pre,
      trailing_string src c pr (line_col src (tk_start pr)) = COk c1 /\
      c_hs c1 = c_hs c /\ c_ds c1 = c_ds c /\
      tag_ws_stack src opts (tag_classify (tk_rule pr)) pr pre (c_ts c1) = T2 :: r /\
      (expr_class (tag_classify (tk_rule pr)) = true ->
         exists e, tag_expr src f pr (l ++ rest) = COk (e, it') /\ pre = es_pre e) /\
      (expr_class (tag_classify (tk_rule pr)) = false -> pre = false) /\
      txt T2 ++ walk rest (tk_end pr) (c_omit c') (c_trim c') None
      = acc ++ walk (pr :: l ++ rest) lo (c_omit c) (c_trim c) pend.
  Proof.
    intros Es Hf Hcls Epe ET HF R4 Hk Hne.
    destruct (step_ws src all opts _ _ _ _ _ _ Es) as (c1 & Htr & Hw). cbv zeta in Hw.
    assert (R : rule_eqb (tk_rule pr) R_template = false /\ rule_eqb (tk_rule pr) R_raw_text = false /\
                rule_eqb (tk_rule pr) R_raw_block_text = false).
    { destruct (tk_rule pr); cbn in Hcls; try contradiction; repeat split; reflexivity. }
    destruct R as (R1 & R2 & R3).
    assert (R4' : rule_eqb (tk_rule pr) R_raw_block_end = false \/ tk_start pr = prev_end c)
      by (rewrite Epe; exact R4).
    destruct (tr_Fr2 c pr _ c1 T r acc pend Htr ET HF R1 R2 R3 R4') as (T1 & ET1 & HF1 & Eh1 & Ed1).
    rewrite Epe in HF1.
    rewrite (walk_tag pr l rest lo _ _ _ Hk Hne Hcls). cbv zeta.
    set (fires := negb (N.eqb (tk_start pr) lo) && negb (c_omit c)) in *.
    set (pend1 := if fires then Some (ws_text false (c_trim c) (gap src lo (tk_start pr))) else pend) in *.
    set (acc1 := if fires then acc ++ oflush pend else acc) in *.
    assert (Eacc : acc ++ (if fires then oflush pend else []) = acc1)
      by (unfold acc1; destruct fires; [reflexivity | apply app_nil_r]).
    assert (Hflags : exists pre, (expr_class (tag_classify (tk_rule pr)) = true ->
                        exists e, tag_expr src f pr (l ++ rest) = COk (e, it') /\ pre = es_pre e) /\
                     (expr_class (tag_classify (tk_rule pr)) = false -> pre = false) /\
                     tag_fl src F pr (l ++ rest) = (pre, c_omit c') /\
                     c_trim c' = trim_after src opts pr).
    { unfold tag_fl, trim_after.
      destruct (tag_classify (tk_rule pr)); try contradiction; cbn [expr_class];
        try (destruct Hw as (e & Hex & Eo' & Et' & _); exists (es_pre e);
             rewrite (tag_expr_mono src pr (l ++ rest) _ f F Hf Hex), Eo';
             split; [intros _; exists e; split; [exact Hex | reflexivity]|];
             split; [discriminate|]; split; [reflexivity | exact Et']).
      destruct Hw as (Eo' & Et' & _). exists false. rewrite Eo'.
      split; [discriminate|]. split; [reflexivity|]. split; [reflexivity | exact Et']. }
    destruct Hflags as (pre & Hp1 & Hp2 & Hfl & Etr).
    destruct (tag_ws_stack_Fr2 (tag_classify (tk_rule pr)) pr pre T1 r acc1 pend1 HF1) as (T2 & E2 & HF2).
    exists c1, T2, pre. rewrite ET1.
    split; [exact Htr|]. split; [exact Eh1|]. split; [exact Ed1|]. split; [exact E2|].
    split; [exact Hp1|]. split; [exact Hp2|].
    rewrite Hfl. cbn [fst snd]. rewrite Etr. rewrite (Fr_txt _ _ _ HF2).
    unfold sa_fires. rewrite <- Eacc, <- !app_assoc. reflexivity.
  Qed.

  Notation Wk rest hi c pend := (walk rest hi (c_omit c) (c_trim c) pend).

  Lemma Fr_push_any T el lc : (forall s, el <> ElRaw s) -> Fr (t_push T el lc) (txt T ++ art_e el) None.
  Proof.
    intros Hn. cbn [Fr]. rewrite t_els_push. split.
    - rewrite all_raw_text_app, all_raw_text_one. reflexivity.
    - intros es s E. apply app_inj_tail in E. destruct E as [_ E]. exact (Hn s E).
  Qed.
  Lemma Fr_push_el_any T el : (forall s, el <> ElRaw s) -> Fr (t_push_el T el) (txt T ++ art_e el) None.
  Proof.
    intros Hn. destruct T as [n es m]. cbn [Fr t_push_el t_els]. split.
    - rewrite all_raw_text_app, all_raw_text_one. reflexivity.
    - intros es' s E. apply app_inj_tail in E. destruct E as [_ E]. exact (Hn s E).
  Qed.
  Lemma txt_push_map2 T lc : txt (t_push_map T lc) = txt T.
  Proof. destruct T; reflexivity. Qed.

  (* raw text *)
  Lemma B_raw f c s e rest c' it' n k d lo T r0 acc pend :
    step src all opts f c (R_raw_text, s, e) rest = COk (c', it') ->
    St n k d lo c -> (1 <= n)%nat -> c_ts c = T :: r0 -> Fr T acc pend -> lo <= s ->
    span_ok src (R_raw_text, s, e) -> rest <> [] ->
    it' = rest /\ St n k d e c' /\ c_hs c' = c_hs c /\ c_ds c' = c_ds c /\
    exists T' acc' pend', c_ts c' = T' :: r0 /\ Fr T' acc' pend' /\
      acc' ++ Wk rest e c' pend' = acc ++ Wk ((R_raw_text, s, e) :: rest) lo c pend.
  Proof.
    intros Es HSt Hn ET HF Hlo Hsp Hne. pose proof (St_pe _ _ _ _ _ HSt) as Epe.
    pose proof (okres_ok _ _ _ (step_raw_text src all opts Hesc f c s e rest n k d lo HSt Hn Hlo Hsp) Es) as [E1 E2].
    cbn [fst snd] in E1, E2.
    destruct (text_element src all opts _ _ _ _ _ _ Es eq_refl)
      as (tx & s0 & t0 & r1 & Esl & Eun & Ets & Ets' & Eo' & Et' & _).
    destruct (step_blk src all opts _ _ _ _ _ _ Es) as (c1 & Htr & Hb). cbv zeta in Hb.
    cbn [tk_rule fst snd tag_classify] in Hb. destruct Hb as [Hh Hd].
    pose proof (trailing_string_text src c _ _ c1 Htr) as Hc1. cbn [tk_rule fst snd tag_classify] in Hc1. subst c1.
    rewrite ET in Ets. injection Ets as <- <-. rewrite Epe in Esl. cbn [tk_end snd] in Esl.
    split; [exact E1|]. split; [exact E2|]. split; [exact Hh|]. split; [exact Hd|].
    eexists. exists (acc ++ oflush pend). eexists. split; [exact Ets'|]. split; [apply Fr_push_raw; exact HF|].
    cbn [ws_walk]. destruct rest as [|t1 r1]; [contradiction Hne; reflexivity|].
    cbn [tk_rule tk_end fst snd tag_classify]. rewrite (gap_slice _ _ _ _ Esl). unfold unesc. rewrite Eun.
    rewrite Eo', Et', <- app_assoc. reflexivity.
  Qed.

  (* {{x}} {{{x}}} {{> p}} {{* d}} and comments *)
  Lemma B_tagc f c r s e l rest c' it' n k d lo T r0 acc pend :
    step src all opts f c (r, s, e) (l ++ rest) = COk (c', it') -> (f <= F)%nat ->
    match tag_classify r with KValueExpr _ | KDecoExpr _ | KComment _ => True | _ => False end ->
    St n k d lo c -> c_ts c = T :: r0 -> Fr T acc pend ->
    Forall kid_tok l -> rest <> [] ->
    exists T', c_ts c' = T' :: r0 /\ c_hs c' = c_hs c /\ c_ds c' = c_ds c /\ Fr T' (txt T') None /\
      txt T' ++ Wk rest e c' None = acc ++ Wk ((r, s, e) :: l ++ rest) lo c pend.
  Proof.
    intros Es Hf Hcls HSt ET HF Hk Hne. pose proof (St_pe _ _ _ _ _ HSt) as Epe.
    assert (Htc : is_tag_class (tag_classify (tk_rule (r, s, e))))
      by (cbn [tk_rule fst]; destruct (tag_classify r); try contradiction; exact I).
    assert (R4 : rule_eqb r R_raw_block_end = false) by (destruct r; cbn in Hcls; try contradiction; reflexivity).
    destruct (core2 f c (r, s, e) l rest c' it' T r0 acc pend lo Es Hf Htc Epe ET HF (or_introl R4) Hk Hne)
      as (c1 & T2 & pre & Htr & Eh1 & Ed1 & Hws & Hp1 & Hp2 & Eq).
    cbn [tk_start tk_end tk_rule fst snd] in *.
    destruct (step_blk src all opts _ _ _ _ _ _ Es) as (c1' & Htr' & Hb). cbv zeta in Hb.
    cbn [tk_start tk_rule fst snd] in Htr', Hb. rewrite Htr in Htr'. apply cok_inj in Htr'. subst c1'.
    destruct (tag_classify r) eqn:Ec; try contradiction.
    - destruct Hb as (e2 & t0 & r1 & Hex2 & Hst & Ets' & Hh & Hd).
      destruct (Hp1 eq_refl) as (ex & Hex & ->). rewrite Hex in Hex2. apply cok_inj in Hex2. injection Hex2 as <-.
      rewrite Hws in Hst. injection Hst as <- <-.
      eexists. split; [exact Ets'|]. split; [congruence|]. split; [congruence|].
      assert (Hel : art_e (if html then ElHtml (mk_helper ex false false false) else ElExpr (mk_helper ex false false false)) = [])
        by (destruct html; reflexivity).
      match goal with |- Fr ?TT _ _ /\ _ => assert (Etx : txt TT = txt T2)
        by (rewrite t_els_push, all_raw_text_app, all_raw_text_one, Hel, app_nil_r; reflexivity) end.
      rewrite Etx. split; [|exact Eq].
      match goal with |- Fr (t_push _ ?el ?lc) _ _ => pose proof (Fr_push_any T2 el lc) as HFr end.
      rewrite Hel, app_nil_r in HFr. apply HFr. destruct html; discriminate.
    - destruct Hb as (e2 & t0 & r1 & w & ind & Hex2 & Hst & Ets' & Hh & Hd).
      destruct (Hp1 eq_refl) as (ex & Hex & ->). rewrite Hex in Hex2. apply cok_inj in Hex2. injection Hex2 as <-.
      rewrite Hws in Hst. injection Hst as <- <-.
      eexists. split; [exact Ets'|]. split; [congruence|]. split; [congruence|].
      assert (Hel : art_e (if partial then ElPartExpr (d_set_indent (mk_deco ex w) ind) else ElDecoExpr (d_set_indent (mk_deco ex w) ind)) = [])
        by (destruct partial; reflexivity).
      match goal with |- Fr ?TT _ _ /\ _ => assert (Etx : txt TT = txt T2)
        by (rewrite t_els_push, all_raw_text_app, all_raw_text_one, Hel, app_nil_r; reflexivity) end.
      rewrite Etx. split; [|exact Eq].
      match goal with |- Fr (t_push _ ?el ?lc) _ _ => pose proof (Fr_push_any T2 el lc) as HFr end.
      rewrite Hel, app_nil_r in HFr. apply HFr. destruct partial; discriminate.
    - destruct Hb as [Hh Hd]. rewrite (Hp2 eq_refl) in Hws.
      destruct (step_ws src all opts _ _ _ _ _ _ Es) as (c1' & Htr' & Hw). cbv zeta in Hw.
      cbn [tk_start tk_rule fst snd] in Htr', Hw. rewrite Htr in Htr'. apply cok_inj in Htr'. subst c1'.
      rewrite Ec in Hw. destruct Hw as (_ & _ & Hown & _). rewrite Hws in Hown.
      destruct Hown as (t0 & r1 & s0 & Hst & Ets'). injection Hst as <- <-.
      eexists. split; [exact Ets'|]. split; [congruence|]. split; [congruence|].
      match goal with |- Fr ?TT _ _ /\ _ => assert (Etx : txt TT = txt T2)
        by (rewrite t_els_push, all_raw_text_app, all_raw_text_one; cbn [art_e]; rewrite app_nil_r; reflexivity) end.
      rewrite Etx. split; [|exact Eq].
      match goal with |- Fr (t_push _ ?el ?lc) _ _ => pose proof (Fr_push_any T2 el lc) as HFr end.
      cbn [art_e] in HFr. rewrite app_nil_r in HFr. apply HFr. discriminate.
  Qed.

  Lemma B_template f c s e rest c' it' n k d lo pend :
    step src all opts f c (R_template, s, e) rest = COk (c', it') -> St n k d lo c ->
    it' = rest /\ St (S n) k d lo c' /\ c_hs c' = c_hs c /\ c_ds c' = c_ds c /\
    c_ts c' = t_empty :: c_ts c /\
    Wk rest lo c' pend = Wk ((R_template, s, e) :: rest) lo c pend.
  Proof.
    intros Es HSt.
    pose proof (okres_ok _ _ _ (step_template src all opts f c s e rest n k d lo HSt) Es) as [E1 E2].
    cbn [fst snd] in E1, E2.
    destruct (step_ws src all opts _ _ _ _ _ _ Es) as (c1 & Htr & Hw). cbv zeta in Hw.
    cbn [tk_rule fst snd tag_classify] in Hw. destruct Hw as (Eo' & Et' & Ets' & _).
    destruct (step_blk src all opts _ _ _ _ _ _ Es) as (c1' & Htr' & Hb). cbv zeta in Hb.
    cbn [tk_rule fst snd tag_classify] in Hb. rewrite Htr in Htr'. apply cok_inj in Htr'. subst c1'.
    pose proof (trailing_string_text src c _ _ c1 Htr) as Hc1. cbn [tk_rule fst snd tag_classify] in Hc1. subst c1.
    destruct Hb as [Hh Hd].
    split; [exact E1|]. split; [exact E2|]. split; [exact Hh|]. split; [exact Hd|]. split; [exact Ets'|].
    rewrite Eo', Et'. cbn [ws_walk tk_rule fst snd tag_classify]. destruct rest; reflexivity.
  Qed.

  Lemma B_bstart f c r s e l rest c' it' n k d lo T r0 acc pend deco :
    step src all opts f c (r, s, e) (l ++ rest) = COk (c', it') -> (f <= F)%nat ->
    tag_classify r = KBlockStart deco -> St n k d lo c -> (1 <= n)%nat -> c_ts c = T :: r0 -> Fr T acc pend ->
    lo <= s -> span_ok src (r, s, e) -> tag_toks e l -> SP l -> Forall kid_tok l -> next_ge e rest -> rest <> [] ->
    it' = rest /\ St n (if deco then k else S k) (if deco then S d else d) e c' /\
    exists T1 ex w,
      c_ts c' = T1 :: r0 /\
      c_hs c' = (if deco then c_hs c else hstate ex w CS0 :: c_hs c) /\
      c_ds c' = (if deco then mk_deco ex w :: c_ds c else c_ds c) /\
      txt T1 ++ Wk rest e c' None = acc ++ Wk ((r, s, e) :: l ++ rest) lo c pend.
  Proof.
    intros Es Hf Hc HSt Hn ET HF Hlo Hsp Ht Hsl Hk Hnx Hne. pose proof (St_pe _ _ _ _ _ HSt) as Epe.
    assert (Htc : is_tag_class (tag_classify (tk_rule (r, s, e)))) by (cbn [tk_rule fst]; rewrite Hc; exact I).
    assert (R4 : rule_eqb r R_raw_block_end = false) by (destruct r; cbn in Hc; try discriminate Hc; reflexivity).
    destruct (core2 f c (r, s, e) l rest c' it' T r0 acc pend lo Es Hf Htc Epe ET HF (or_introl R4) Hk Hne)
      as (c1 & T2 & pre & Htr & Eh1 & Ed1 & Hws & Hp1 & _ & Eq).
    cbn [tk_start tk_end tk_rule fst snd] in *.
    destruct (step_blk src all opts _ _ _ _ _ _ Es) as (c1' & Htr' & Hb). cbv zeta in Hb.
    cbn [tk_start tk_rule fst snd] in Htr', Hb. rewrite Htr in Htr'. apply cok_inj in Htr'. subst c1'.
    pose proof (okres_ok _ _ _ (step_block_start src all opts f c r s e l rest n k d lo deco Hc
                  HSt Hn Hlo Hsp Ht Hsl Hnx) Es) as [E1 E2].
    cbn [fst snd] in E1, E2.
    rewrite Hc in Hb, Hws, Hp1. destruct Hb as (e2 & t0 & r1 & w & Hex2 & Hst & Ets' & Hh & Hd).
    destruct (Hp1 eq_refl) as (ex & Hex & ->). rewrite Hex in Hex2. apply cok_inj in Hex2. injection Hex2 as <-.
    rewrite Hws in Hst. injection Hst as <- <-.
    split; [exact E1|]. split; [exact E2|].
    exists (t_push_map T2 (line_col src s)), ex, w.
    split; [exact Ets'|]. split; [rewrite Hh, Eh1; destruct deco; reflexivity|].
    split; [rewrite Hd, Ed1; reflexivity|]. rewrite txt_push_map2. exact Eq.
  Qed.

  Lemma B_rawbody f c s e rest c' it' n k d lo :
    step src all opts f c (R_raw_block_text, s, e) rest = COk (c', it') ->
    St n k d lo c -> (1 <= n)%nat -> lo <= s -> span_ok src (R_raw_block_text, s, e) -> rest <> [] ->
    it' = rest /\ St (S n) k d e c' /\ c_hs c' = c_hs c /\ c_ds c' = c_ds c /\
    exists Tb accb pendb, c_ts c' = Tb :: c_ts c /\ Fr Tb accb pendb /\
      accb ++ Wk rest e c' pendb = Wk ((R_raw_block_text, s, e) :: rest) lo c None.
  Proof.
    intros Es HSt Hn Hlo Hsp Hne. pose proof (St_pe _ _ _ _ _ HSt) as Epe.
    pose proof (okres_ok _ _ _ (step_raw_block_text src all opts Hesc f c s e rest n k d lo HSt Hn Hlo Hsp) Es)
      as [E1 E2].
    cbn [fst snd] in E1, E2.
    destruct (raw_block_text_element src all opts _ _ _ _ _ _ Es eq_refl)
      as (tx & s0 & Esl & Eun & Ets' & Eo' & Et' & _).
    destruct (step_blk src all opts _ _ _ _ _ _ Es) as (c1 & Htr & Hb). cbv zeta in Hb.
    cbn [tk_rule fst snd tag_classify] in Hb. destruct Hb as [Hh Hd].
    rewrite Epe in Esl. cbn [tk_end snd] in Esl.
    pose proof (trailing_string_text src c _ _ c1 Htr) as Hc1. cbn [tk_rule fst snd tag_classify] in Hc1. subst c1.
    split; [exact E1|]. split; [exact E2|]. split; [exact Hh|]. split; [exact Hd|].
    eexists. exists []. exists (Some (ws_text (c_omit c) (c_trim c) s0)). split; [exact Ets'|]. split.
    - cbn [Fr]. exists []. split; [rewrite t_els_push; reflexivity | reflexivity].
    - cbn [ws_walk]. destruct rest as [|t1 r1]; [contradiction Hne; reflexivity|].
      cbn [tk_rule tk_end fst snd tag_classify oflush app]. rewrite (gap_slice _ _ _ _ Esl). unfold unesc. rewrite Eun.
      rewrite Eo', Et'. reflexivity.
  Qed.

  Lemma B_chain f c s e tl si ei l rest c' it' n k d lo Tb r0 accb pendb e0 w0 cs hs :
    step src all opts f c (R_invert_chain_tag, s, e) (tl ++ (R_invert_tag_item, si, ei) :: l ++ rest)
      = COk (c', it') -> (f <= F)%nat ->
    St (S n) (S k) d lo c -> c_ts c = Tb :: r0 -> Fr Tb accb pendb ->
    c_hs c = hstate e0 w0 cs :: hs -> chainable cs ->
    lo <= s -> span_ok src (R_invert_chain_tag, s, e) -> opt_tilde tl ->
    span_ok src (R_invert_tag_item, si, ei) -> tag_toks e l -> SP l ->
    Forall kid_tok (tl ++ (R_invert_tag_item, si, ei) :: l) -> next_ge e rest -> rest <> [] ->
    it' = rest /\ St n (S k) d e c' /\ c_ts c' = r0 /\ c_ds c' = c_ds c /\
    exists cs', c_hs c' = hstate e0 w0 cs' :: hs /\ chainable cs' /\
      closed_text cs' ++ Wk rest e c' None
      = closed_text cs ++ accb
        ++ Wk ((R_invert_chain_tag, s, e) :: (tl ++ (R_invert_tag_item, si, ei) :: l) ++ rest) lo c pendb.
  Proof.
    intros Es Hf HSt ET HF EH Hch Hlo Hsp Htl Hspi Ht Hsl Hk Hnx Hne.
    pose proof (St_pe _ _ _ _ _ HSt) as Epe.
    assert (Es' : step src all opts f c (R_invert_chain_tag, s, e)
                    ((tl ++ (R_invert_tag_item, si, ei) :: l) ++ rest) = COk (c', it'))
      by (rewrite <- app_assoc, <- app_comm_cons; exact Es).
    destruct (core2 f c (R_invert_chain_tag, s, e) _ rest c' it' Tb r0 accb pendb lo Es' Hf I Epe ET HF
                (or_introl eq_refl) Hk Hne)
      as (c1 & T2 & pre & Htr & Eh1 & Ed1 & Hws & Hp1 & _ & Eq).
    cbn [tk_start tk_end tk_rule fst snd tag_classify] in *.
    destruct (step_blk src all opts _ _ _ _ _ _ Es') as (c1' & Htr' & Hb). cbv zeta in Hb.
    cbn [tk_start tk_rule fst snd tag_classify] in Htr', Hb. rewrite Htr in Htr'. apply cok_inj in Htr'. subst c1'.
    pose proof (okres_ok _ _ _ (step_invert_chain src all opts f c s e tl si ei l rest n k d lo
                  HSt Hlo Hsp Htl Hspi Ht Hsl Hnx) Es) as [E1 E2].
    cbn [fst snd] in E1, E2.
    destruct Hb as (e2 & t0 & h & hs' & h3 & Hex2 & Hst & Eh & Eh' & Ed' & (w & Hlink)).
    destruct (Hp1 eq_refl) as (ex & Hex & ->). assert (He2 : COk (ex, it') = COk (e2, it')) by (rewrite <- Hex; exact Hex2). apply cok_inj in He2. injection He2 as <-.
    rewrite Hws in Hst. injection Hst as <- Er0.
    rewrite Eh1, EH in Eh. injection Eh as <- <-.
    rewrite (link_op_hstate e0 w0 cs T2 ex w Hch) in Hlink. apply cok_inj in Hlink. subst h3.
    destruct (cs_link_text cs T2 ex w Hch) as [Etx Hch'].
    split; [exact E1|]. split; [exact E2|]. split; [symmetry; exact Er0|]. split; [congruence|].
    exists (cs_link cs T2 ex w). split; [exact Eh'|]. split; [exact Hch'|].
    rewrite Etx, art_t_t_els, <- app_assoc. apply (f_equal (app (closed_text cs))). exact Eq.
  Qed.

  Lemma B_else f c s e l rest c' it' n k d lo Tb r0 accb pendb e0 w0 cs hs :
    step src all opts f c (R_invert_tag, s, e) (l ++ rest) = COk (c', it') -> (f <= F)%nat ->
    St (S n) (S k) d lo c -> c_ts c = Tb :: r0 -> Fr Tb accb pendb ->
    c_hs c = hstate e0 w0 cs :: hs -> chainable cs ->
    lo <= s -> span_ok src (R_invert_tag, s, e) -> tag_toks e l -> SP l -> Forall kid_tok l ->
    next_ge e rest -> rest <> [] ->
    it' = rest /\ St n (S k) d e c' /\ c_ts c' = r0 /\ c_ds c' = c_ds c /\
    exists cs', c_hs c' = hstate e0 w0 cs' :: hs /\ cs_ok cs' /\
      closed_text cs' ++ Wk rest e c' None
      = closed_text cs ++ accb ++ Wk ((R_invert_tag, s, e) :: l ++ rest) lo c pendb.
  Proof.
    intros Es Hf HSt ET HF EH Hch Hlo Hsp Ht Hsl Hk Hnx Hne.
    pose proof (St_pe _ _ _ _ _ HSt) as Epe.
    destruct (core2 f c (R_invert_tag, s, e) l rest c' it' Tb r0 accb pendb lo Es Hf I Epe ET HF
                (or_introl eq_refl) Hk Hne)
      as (c1 & T2 & pre & Htr & Eh1 & Ed1 & Hws & Hp1 & _ & Eq).
    cbn [tk_start tk_end tk_rule fst snd tag_classify] in *.
    destruct (step_blk src all opts _ _ _ _ _ _ Es) as (c1' & Htr' & Hb). cbv zeta in Hb.
    cbn [tk_start tk_rule fst snd tag_classify] in Htr', Hb. rewrite Htr in Htr'. apply cok_inj in Htr'. subst c1'.
    pose proof (okres_ok _ _ _ (step_invert_plain src all opts f c s e l rest n k d lo
                  HSt Hlo Hsp Ht Hsl Hnx) Es) as [E1 E2].
    cbn [fst snd] in E1, E2.
    destruct Hb as (e2 & t0 & h & hs' & h3 & Hex2 & Hst & Eh & Eh' & Ed' & Hset).
    destruct (Hp1 eq_refl) as (ex & Hex & ->). assert (He2 : COk (ex, it') = COk (e2, it')) by (rewrite <- Hex; exact Hex2). apply cok_inj in He2. injection He2 as <-.
    rewrite Hws in Hst. injection Hst as <- Er0.
    rewrite Eh1, EH in Eh. injection Eh as <- <-.
    rewrite (set_chain_template_hstate e0 w0 cs T2 Hch) in Hset. apply cok_inj in Hset. subst h3.
    split; [exact E1|]. split; [exact E2|]. split; [symmetry; exact Er0|]. split; [congruence|].
    exists (cs_else cs T2). split; [exact Eh'|]. split; [apply cs_else_ok|].
    rewrite (cs_else_text cs T2 Hch), art_t_t_els, <- app_assoc. apply (f_equal (app (closed_text cs))). exact Eq.
  Qed.

  Lemma B_hend f c r s e l rest c' it' n k d lo Tb P r0 accb pendb e0 w0 cs hs :
    step src all opts f c (r, s, e) (l ++ rest) = COk (c', it') -> (f <= F)%nat ->
    tag_classify r = KHelperEnd ->
    St (S (S n)) (S k) d lo c -> c_ts c = Tb :: P :: r0 -> Fr Tb accb pendb ->
    c_hs c = hstate e0 w0 cs :: hs -> cs_ok cs ->
    lo <= s -> (rule_eqb r R_raw_block_end = false \/ s = lo) ->
    span_ok src (r, s, e) -> tag_toks e l -> SP l -> Forall kid_tok l -> next_ge e rest -> rest <> [] ->
    it' = rest /\ St (S n) k d e c' /\ c_hs c' = hs /\ c_ds c' = c_ds c /\
    exists P', c_ts c' = P' :: r0 /\ Fr P' (txt P') None /\
      txt P' ++ Wk rest e c' None
      = txt P ++ closed_text cs ++ accb ++ Wk ((r, s, e) :: l ++ rest) lo c pendb.
  Proof.
    intros Es Hf Hc HSt ET HF EH Hok Hlo R4 Hsp Ht Hsl Hk Hnx Hne.
    pose proof (St_pe _ _ _ _ _ HSt) as Epe.
    assert (Htc : is_tag_class (tag_classify (tk_rule (r, s, e)))) by (cbn [tk_rule fst]; rewrite Hc; exact I).
    destruct (core2 f c (r, s, e) l rest c' it' Tb (P :: r0) accb pendb lo Es Hf Htc Epe ET HF R4 Hk Hne)
      as (c1 & T2 & pre & Htr & Eh1 & Ed1 & Hws & Hp1 & _ & Eq).
    cbn [tk_start tk_end tk_rule fst snd] in *.
    destruct (step_blk src all opts _ _ _ _ _ _ Es) as (c1' & Htr' & Hb). cbv zeta in Hb.
    cbn [tk_start tk_rule fst snd] in Htr', Hb. rewrite Htr in Htr'. apply cok_inj in Htr'. subst c1'.
    pose proof (okres_ok _ _ _ (step_helper_end src all opts f c r s e l rest n k d lo Hc
                  HSt Hlo Hsp Ht Hsl Hnx) Es) as [E1 E2].
    cbn [fst snd] in E1, E2.
    rewrite Hc in Hb, Hws, Hp1.
    destruct Hb as (e2 & prev & t0 & r1 & h & hs' & h' & Hex2 & Hst & Eh & Hrev & Ets' & Eh' & Ed').
    destruct (Hp1 eq_refl) as (ex & Hex & ->). assert (He2 : COk (ex, it') = COk (e2, it')) by (rewrite <- Hex; exact Hex2). apply cok_inj in He2. injection He2 as <-.
    rewrite Hws in Hst. injection Hst as <- <- <-.
    rewrite Eh1, EH in Eh. injection Eh as <- <-.
    pose proof (revert_hstate _ _ _ _ _ _ Hok Hrev) as Htxt.
    split; [exact E1|]. split; [exact E2|]. split; [exact Eh'|]. split; [congruence|].
    eexists. split; [exact Ets'|].
    assert (Etx : txt (t_push_el P (ElBlock h')) = txt P ++ closed_text cs ++ txt T2).
    { destruct P as [pn pes pm]. cbn [t_push_el t_els]. rewrite all_raw_text_app, all_raw_text_one.
      cbn [art_e]. rewrite Htxt, art_t_t_els. reflexivity. }
    split.
    - pose proof (Fr_push_el_any P (ElBlock h')) as HFr. cbn [art_e] in HFr.
      rewrite Htxt, art_t_t_els in HFr. rewrite Etx. apply HFr. discriminate.
    - rewrite Etx, <- !app_assoc. apply (f_equal (app (txt P))). apply (f_equal (app (closed_text cs))). exact Eq.
  Qed.

  Lemma B_dend f c r s e l rest c' it' n k d lo Tb P r0 accb pendb d0 ds part :
    step src all opts f c (r, s, e) (l ++ rest) = COk (c', it') -> (f <= F)%nat ->
    tag_classify r = KDecoEnd part ->
    St (S (S n)) k (S d) lo c -> c_ts c = Tb :: P :: r0 -> Fr Tb accb pendb -> c_ds c = d0 :: ds ->
    lo <= s -> span_ok src (r, s, e) -> tag_toks e l -> SP l -> Forall kid_tok l -> next_ge e rest -> rest <> [] ->
    it' = rest /\ St (S n) k d e c' /\ c_hs c' = c_hs c /\ c_ds c' = ds /\
    exists P', c_ts c' = P' :: r0 /\ Fr P' (txt P') None /\
      txt P' ++ Wk rest e c' None = txt P ++ accb ++ Wk ((r, s, e) :: l ++ rest) lo c pendb.
  Proof.
    intros Es Hf Hc HSt ET HF ED Hlo Hsp Ht Hsl Hk Hnx Hne.
    pose proof (St_pe _ _ _ _ _ HSt) as Epe.
    assert (Htc : is_tag_class (tag_classify (tk_rule (r, s, e)))) by (cbn [tk_rule fst]; rewrite Hc; exact I).
    assert (R4 : rule_eqb r R_raw_block_end = false) by (destruct r; cbn in Hc; try discriminate Hc; reflexivity).
    destruct (core2 f c (r, s, e) l rest c' it' Tb (P :: r0) accb pendb lo Es Hf Htc Epe ET HF (or_introl R4) Hk Hne)
      as (c1 & T2 & pre & Htr & Eh1 & Ed1 & Hws & Hp1 & _ & Eq).
    cbn [tk_start tk_end tk_rule fst snd] in *.
    destruct (step_blk src all opts _ _ _ _ _ _ Es) as (c1' & Htr' & Hb). cbv zeta in Hb.
    cbn [tk_start tk_rule fst snd] in Htr', Hb. rewrite Htr in Htr'. apply cok_inj in Htr'. subst c1'.
    pose proof (okres_ok _ _ _ (step_deco_end src all opts f c r s e l rest n k d lo part Hc
                  HSt Hlo Hsp Ht Hsl Hnx) Es) as [E1 E2].
    cbn [fst snd] in E1, E2.
    rewrite Hc in Hb, Hws, Hp1.
    destruct Hb as (e2 & prev & t0 & r1 & dd & ds' & Hex2 & Hst & Edd & Ets' & Eh' & Ed').
    destruct (Hp1 eq_refl) as (ex & Hex & ->). assert (He2 : COk (ex, it') = COk (e2, it')) by (rewrite <- Hex; exact Hex2). apply cok_inj in He2. injection He2 as <-.
    rewrite Hws in Hst. injection Hst as <- <- <-.
    rewrite Ed1, ED in Edd. injection Edd as <- <-.
    split; [exact E1|]. split; [exact E2|]. split; [congruence|]. split; [exact Ed'|].
    eexists. split; [exact Ets'|].
    assert (Hd : forall dx, art_d (d_set_tpl dx (Some T2)) = txt T2)
      by (intros [? ? ? ? ? ?]; cbn [d_set_tpl art_d]; apply art_t_t_els).
    assert (Hel : art_e (if part then ElPartBlock (d_set_tpl d0 (Some T2)) else ElDecoBlock (d_set_tpl d0 (Some T2))) = txt T2)
      by (destruct part; cbn [art_e]; apply Hd).
    match goal with |- Fr (t_push_el P ?el) _ _ /\ _ => assert (Etx : txt (t_push_el P el) = txt P ++ txt T2)
      by (destruct P as [pn pes pm]; cbn [t_push_el t_els]; rewrite all_raw_text_app, all_raw_text_one, Hel; reflexivity);
      pose proof (Fr_push_el_any P el) as HFr end.
    rewrite Hel in HFr. rewrite Etx. split; [apply HFr; destruct part; discriminate|].
    rewrite <- !app_assoc. apply (f_equal (app (txt P))). exact Eq.
  Qed.

  (* ---------- the fold ---------- *)
  Definition K0b (rest : list tok) (n k d : nat) (hi : N) (r0 : list template)
             (hs : list helper_t) (ds : list deco_t) (target : str) (Q : template -> Prop) : Prop :=
    forall fuel c' t T' acc' pend', (fuel <= F)%nat -> main_loop src all opts fuel c' rest = COk t ->
      St n k d hi c' -> c_ts c' = T' :: r0 -> Fr T' acc' pend' -> c_hs c' = hs -> c_ds c' = ds ->
      acc' ++ Wk rest hi c' pend' = target -> Q t.

  Definition Ktmb (rest : list tok) (n k d : nat) (hi : N) (ts0 : list template)
             (hs : list helper_t) (ds : list deco_t) (target : str) (Q : template -> Prop) : Prop :=
    forall fuel c' t Tb accb pendb, (fuel <= F)%nat -> main_loop src all opts fuel c' rest = COk t ->
      St (S n) k d hi c' -> c_ts c' = Tb :: ts0 -> Fr Tb accb pendb -> c_hs c' = hs -> c_ds c' = ds ->
      accb ++ Wk rest hi c' pendb = target -> Q t.

  Definition Kchb (okp : chain_st -> Prop) (rest : list tok) (n k d : nat) (hi : N) (r0 : list template)
             (e0 : espec) (w0 : bool) (hs : list helper_t) (ds : list deco_t) (target : str)
             (Q : template -> Prop) : Prop :=
    forall fuel c' t Tb' accb' pendb' cs', (fuel <= F)%nat -> main_loop src all opts fuel c' rest = COk t ->
      St (S n) (S k) d hi c' -> c_ts c' = Tb' :: r0 -> Fr Tb' accb' pendb' ->
      c_hs c' = hstate e0 w0 cs' :: hs -> okp cs' -> c_ds c' = ds ->
      closed_text cs' ++ accb' ++ Wk rest hi c' pendb' = target -> Q t.

  Definition A0b (lo hi : N) (l : list tok) : Prop :=
    forall rest n k d Q, (1 <= n)%nat -> SP l -> rest <> [] -> first_ge hi rest ->
    forall c0 T0 r0 acc pend, St n k d lo c0 -> c_ts c0 = T0 :: r0 -> Fr T0 acc pend ->
      K0b rest n k d hi r0 (c_hs c0) (c_ds c0) (acc ++ Wk (l ++ rest) lo c0 pend) Q ->
    forall fuel t, (fuel <= F)%nat -> main_loop src all opts fuel c0 (l ++ rest) = COk t -> Q t.

  Definition Atmb (lo hi : N) (l : list tok) : Prop :=
    forall rest n k d Q, (1 <= n)%nat -> SP l -> rest <> [] -> first_ge hi rest ->
    forall c0, St n k d lo c0 ->
      Ktmb rest n k d hi (c_ts c0) (c_hs c0) (c_ds c0) (Wk (l ++ rest) lo c0 None) Q ->
    forall fuel t, (fuel <= F)%nat -> main_loop src all opts fuel c0 (l ++ rest) = COk t -> Q t.

  Definition Achb (okp : chain_st -> Prop) (lo hi : N) (l : list tok) : Prop :=
    forall rest n k d Q, (1 <= n)%nat -> SP l -> rest <> [] -> first_ge hi rest ->
    forall c0 Tb r0 accb pendb e0 w0 cs hs, St (S n) (S k) d lo c0 -> c_ts c0 = Tb :: r0 -> Fr Tb accb pendb ->
      c_hs c0 = hstate e0 w0 cs :: hs -> chainable cs ->
      Kchb okp rest n k d hi r0 e0 w0 hs (c_ds c0)
           (closed_text cs ++ accb ++ Wk (l ++ rest) lo c0 pendb) Q ->
    forall fuel t, (fuel <= F)%nat -> main_loop src all opts fuel c0 (l ++ rest) = COk t -> Q t.

  Lemma SP_consb t l : SP (t :: l) <-> span_ok src t /\ SP l.
  Proof. split; [intros H; inversion H; auto | intros [A B]; constructor; auto]. Qed.

  Ltac split_sp :=
    repeat match goal with
    | H : SP (_ ++ _) |- _ => apply Forall_app in H; destruct H
    | H : SP (_ :: _) |- _ => apply SP_consb in H; destruct H
    end.

  Lemma app_ne {A} (l rest : list A) : rest <> [] -> l ++ rest <> [].
  Proof. intros H E. apply app_eq_nil in E. destruct E as [_ E]. contradiction. Qed.
  Lemma cons_ne {A} (x : A) l : x :: l <> [].
  Proof. discriminate. Qed.

  Ltac fs H f c' it' Es Hl :=
    destruct (loop_inv src all opts _ _ _ _ _ H) as (f & c' & it' & -> & Es & Hl).

  Theorem bwloop :
    (forall lo hi l, kitems lo hi l -> A0b lo hi l) /\
    (forall lo hi l, kitem lo hi l -> A0b lo hi l) /\
    (forall lo hi l, ktmpl lo hi l -> Atmb lo hi l) /\
    (forall lo hi l, kchain lo hi l -> Achb chainable lo hi l) /\
    (forall lo hi l, kinv lo hi l -> Achb cs_ok lo hi l).
  Proof.
    destruct kwf_first as (F1 & F2 & F3 & F4 & F5).
    apply kwf_mutind; unfold A0b, Atmb, Achb.
    - (* kis_nil *)
      intros lo rest n k d Q Hn Hs Hne Hf c0 T0 r0 acc pend HG ET HF HK fuel t Hfu H. cbn [app] in *.
      eapply HK; try eassumption; reflexivity.
    - (* kis_cons *)
      intros lo mid hi a rest' Ha IHa Hr IHr rest n k d Q Hn Hs Hne Hf c0 T0 r0 acc pend HG ET HF HK fuel t Hfu H.
      split_sp. rewrite <- app_assoc in H. rewrite <- app_assoc in HK.
      destruct (F1 _ _ _ Hr) as [_ Fr'].
      eapply (IHa (rest' ++ rest) n k d Q); try eassumption.
      + apply app_ne; exact Hne.
      + apply Fr'; assumption.
      + intros fuel' c' t' T' acc' pend' Hfu' Hl HG' ET' HF' Eh' Ed' Eq.
        eapply (IHr rest n k d Q); try eassumption.
        rewrite Eh', Ed', Eq. exact HK.
    - (* ki_raw *)
      intros lo s e Hlo Hse rest n k d Q Hn Hs Hne Hf c0 T0 r0 acc pend HG ET HF HK fuel t Hfu H.
      cbn [app] in *. split_sp. fs H f c' it' Es Hl.
      destruct (B_raw _ _ _ _ _ _ _ _ _ _ _ _ _ _ _ Es HG Hn ET HF Hlo)
        as (-> & HG' & Eh & Ed & T' & acc' & pend' & ET' & HF' & Eq); [assumption | assumption |].
      eapply (HK f); try eassumption. lia.
    - (* ki_tag *)
      intros lo r s e l Hr Hlo Hse Ht Hk rest n k d Q Hn Hs Hne Hf c0 T0 r0 acc pend HG ET HF HK fuel t Hfu H.
      split_sp. rewrite <- app_comm_cons in *. fs H f c' it' Es Hl.
      assert (Hres : it' = rest /\ St n k d e c').
      { destruct (simple_tag_class r Hr) as (b & [Hc | Hc]).
        - exact (okres_ok _ _ _ (step_value src all opts f c0 r s e l rest n k d lo b Hc HG Hn Hlo ltac:(assumption) Ht ltac:(assumption) (first_ge_next _ _ Hf)) Es).
        - exact (okres_ok _ _ _ (step_deco_expr src all opts f c0 r s e l rest n k d lo b Hc HG Hn Hlo ltac:(assumption) Ht ltac:(assumption) (first_ge_next _ _ Hf)) Es). }
      destruct Hres as [-> HG'].
      assert (Hcls : match tag_classify r with KValueExpr _ | KDecoExpr _ | KComment _ => True | _ => False end)
        by (destruct Hr as [E | [E | [E | E]]]; subst r; exact I).
      destruct (B_tagc f c0 r s e l rest c' rest n k d lo T0 r0 acc pend Es ltac:(lia) Hcls HG ET HF Hk Hne)
        as (T' & ET' & Eh & Ed & HF' & Eq).
      eapply (HK f); try eassumption. lia.
    - (* ki_comment *)
      intros lo r s e Hr Hlo Hse rest n k d Q Hn Hs Hne Hf c0 T0 r0 acc pend HG ET HF HK fuel t Hfu H.
      cbn [app] in *. split_sp. fs H f c' it' Es Hl.
      assert (exists compact, tag_classify r = KComment compact) as (compact & Hc)
        by (destruct Hr as [-> | ->]; eexists; reflexivity).
      pose proof (okres_ok _ _ _ (step_comment src all opts f c0 r s e rest n k d lo compact Hc
                    HG Hn Hlo ltac:(assumption)) Es) as [E1 HG'].
      cbn [fst snd] in E1, HG'. subst it'.
      assert (Hcls : match tag_classify r with KValueExpr _ | KDecoExpr _ | KComment _ => True | _ => False end)
        by (rewrite Hc; exact I).
      destruct (B_tagc f c0 r s e [] rest c' rest n k d lo T0 r0 acc pend Es ltac:(lia) Hcls HG ET HF (Forall_nil _) Hne)
        as (T' & ET' & Eh & Ed & HF' & Eq).
      eapply (HK f); try eassumption. lia.
    - (* ki_hblock *)
      intros lo s0 e0 l0 body m1 chains m2 inv m3 s9 e9 l9 Hlo Hse0 Ht0 Hk0 Hb IHb Hc IHc Hi IHi Hm3 Hse9 Ht9 Hk9
             rest n k d Q Hn Hs Hne Hf c0 T0 r0 acc pend HG ET HF HK fuel t Hfu H.
      split_sp.
      destruct (F3 _ _ _ Hb) as [Lb Fb]. destruct (F4 _ _ _ Hc) as [Lc Fc]. destruct (F5 _ _ _ Hi) as [Li Fi].
      assert (Fend : first_ge m3 (((R_helper_block_end, s9, e9) :: l9) ++ rest))
        by (cbn [app first_ge tk_start tk_end fst snd]; lia).
      rewrite <- ?app_assoc, <- ?app_comm_cons in H, HK.
      destruct n as [|n']; [lia|].
      fs H f c1 it' Es Hl.
      destruct (B_bstart _ _ _ _ _ _ _ _ _ _ _ _ _ _ _ _ _ false Es ltac:(lia) eq_refl HG Hn ET HF Hlo)
        as (-> & HG1 & T1 & ex & w & ET1 & EH1 & ED1 & Eq1); try assumption;
        [apply first_ge_next; apply Fb; apply Fc; apply Fi; exact Fend
        | apply app_ne; apply app_ne; apply app_ne; apply cons_ne |].
      cbn iota in HG1, EH1, ED1.
      refine (IHb _ (S n') (S k) d Q _ _ _ _ c1 HG1 _ f t _ Hl); [lia | assumption
        | apply app_ne; apply app_ne; apply cons_ne | apply Fc; apply Fi; exact Fend | | lia].
      intros fuel2 c2 t2 Tb accb pendb Hfu2 Hl2 HG2 ET2 HF2 EH2 ED2 Eq2.
      refine (IHc _ (S n') k d Q _ _ _ _ c2 Tb (T1 :: r0) accb pendb ex w CS0 (c_hs c0) HG2 _ HF2 _ I _ fuel2 t2 Hfu2 Hl2);
        [lia | assumption | apply app_ne; apply cons_ne | apply Fi; exact Fend
        | rewrite ET2, ET1; reflexivity | rewrite EH2, EH1; reflexivity |].
      intros fuel3 c3 t3 Tb3 accb3 pendb3 cs3 Hfu3 Hl3 HG3 ET3 HF3 EH3 Hch3 ED3 Eq3.
      refine (IHi _ (S n') k d Q _ _ _ Fend c3 Tb3 (T1 :: r0) accb3 pendb3 ex w cs3 (c_hs c0) HG3 ET3 HF3 EH3 Hch3 _ fuel3 t3 Hfu3 Hl3);
        [lia | assumption | apply cons_ne |].
      intros fuel4 c4 t4 Tb4 accb4 pendb4 cs4 Hfu4 Hl4 HG4 ET4 HF4 EH4 Hok4 ED4 Eq4.
      rewrite <- app_comm_cons in Hl4. fs Hl4 f5 c5 it5 Es5 Hl5.
      destruct (B_hend _ _ _ _ _ _ _ _ _ _ _ _ _ _ _ _ _ _ _ _ _ _ Es5 ltac:(lia) eq_refl HG4 ET4 HF4 EH4 Hok4 Hm3)
        as (-> & HG5 & EH5 & ED5 & P' & ET5 & HF5 & Eq5); try assumption;
        [left; reflexivity | apply first_ge_next; assumption |].
      eapply (HK f5 c5 t4 P' _ None); try eassumption; [lia | congruence |].
      etransitivity; [exact Eq5|].
      etransitivity; [apply (f_equal (app (txt T1))); exact Eq4|].
      etransitivity; [apply (f_equal (app (txt T1))); exact Eq3|].
      cbn [closed_text app].
      etransitivity; [apply (f_equal (app (txt T1))); exact Eq2|]. exact Eq1.
    - (* ki_rawblock *)
      intros lo s0 e0 l0 s1 e1 e2 l2 Hlo Hse0 Ht0 Hk0 He0 Hse1 He12 Ht2 Hk2
             rest n k d Q Hn Hs Hne Hf c0 T0 r0 acc pend HG ET HF HK fuel t Hfu H.
      split_sp.
      rewrite <- ?app_assoc, <- ?app_comm_cons in H, HK.
      destruct n as [|n']; [lia|].
      fs H f c1 it' Es Hl.
      destruct (B_bstart _ _ _ _ _ _ _ _ _ _ _ _ _ _ _ _ _ false Es ltac:(lia) eq_refl HG Hn ET HF Hlo)
        as (-> & HG1 & T1 & ex & w & ET1 & EH1 & ED1 & Eq1); try assumption;
        [cbn [next_ge tk_end snd]; lia | apply cons_ne |].
      cbn iota in HG1, EH1, ED1.
      fs Hl f2 c2 it2 Es2 Hl2.
      destruct (B_rawbody _ _ _ _ _ _ _ _ _ _ _ Es2 HG1)
        as (-> & HG2 & EH2 & ED2 & Tb & accb & pendb & ET2 & HF2 & Eq2);
        [lia | assumption | assumption | apply cons_ne |].
      fs Hl2 f3 c3 it3 Es3 Hl3.
      destruct (B_hend _ _ _ _ _ _ _ _ _ _ _ _ _ Tb T1 r0 accb pendb ex w CS0 (c_hs c0) Es3 ltac:(lia) eq_refl HG2)
        as (-> & HG3 & EH3 & ED3 & P' & ET3 & HF3 & Eq3); try assumption;
        [rewrite ET2, ET1; reflexivity | rewrite EH2, EH1; reflexivity | exact I | lia
        | right; reflexivity | apply first_ge_next; assumption |].
      eapply (HK f3 c3 t P' _ None); try eassumption; [lia | congruence |].
      etransitivity; [exact Eq3|]. cbn [closed_text app].
      etransitivity; [apply (f_equal (app (txt T1))); exact Eq2|]. exact Eq1.
    - (* ki_dblock *)
      intros lo rs re s0 e0 l0 body m1 s9 e9 l9 Hp Hlo Hse0 Ht0 Hk0 Hb IHb Hm1 Hse9 Ht9 Hk9
             rest n k d Q Hn Hs Hne Hf c0 T0 r0 acc pend HG ET HF HK fuel t Hfu H.
      split_sp.
      destruct (F3 _ _ _ Hb) as [Lb Fb].
      assert (Fend : first_ge m1 (((re, s9, e9) :: l9) ++ rest))
        by (cbn [app first_ge tk_start tk_end fst snd]; lia).
      assert (Hcs : tag_classify rs = KBlockStart true /\ exists b, tag_classify re = KDecoEnd b).
      { destruct Hp as [[-> ->]|[-> ->]]; (split; [reflexivity | eexists; reflexivity]). }
      destruct Hcs as [Hcs (b & Hce)].
      rewrite <- ?app_assoc, <- ?app_comm_cons in H, HK.
      destruct n as [|n']; [lia|].
      fs H f c1 it' Es Hl.
      destruct (B_bstart _ _ _ _ _ _ _ _ _ _ _ _ _ _ _ _ _ true Es ltac:(lia) Hcs HG Hn ET HF Hlo)
        as (-> & HG1 & T1 & ex & w & ET1 & EH1 & ED1 & Eq1); try assumption;
        [apply first_ge_next; apply Fb; exact Fend | apply app_ne; apply cons_ne |].
      cbn iota in HG1, EH1, ED1.
      refine (IHb _ (S n') k (S d) Q _ _ _ Fend c1 HG1 _ f t _ Hl); [lia | assumption | apply cons_ne | | lia].
      intros fuel2 c2 t2 Tb accb pendb Hfu2 Hl2 HG2 ET2 HF2 EH2 ED2 Eq2.
      rewrite <- app_comm_cons in Hl2. fs Hl2 f3 c3 it3 Es3 Hl3.
      destruct (B_dend _ _ _ _ _ _ _ _ _ _ _ _ _ Tb T1 r0 accb pendb (mk_deco ex w) (c_ds c0) b Es3 ltac:(lia) Hce HG2)
        as (-> & HG3 & EH3 & ED3 & P' & ET3 & HF3 & Eq3); try assumption;
        [rewrite ET2, ET1; reflexivity | rewrite ED2, ED1; reflexivity
        | apply first_ge_next; assumption |].
      eapply (HK f3 c3 t2 P' _ None); try eassumption; [lia | congruence |].
      etransitivity; [exact Eq3|].
      etransitivity; [apply (f_equal (app (txt T1))); exact Eq2|]. exact Eq1.
    - (* kt_mk *)
      intros lo hi s e body Hlo Hse Hb IHb rest n k d Q Hn Hs Hne Hf c0 HG HK fuel t Hfu H.
      split_sp. rewrite <- app_comm_cons in H, HK. fs H f c1 it' Es Hl.
      destruct (B_template _ _ _ _ _ _ _ _ _ _ _ None Es HG) as (-> & HG1 & EH1 & ED1 & ET1 & Eq1).
      refine (IHb rest (S n) k d Q _ _ Hne Hf c1 t_empty (c_ts c0) [] None HG1 ET1 _ _ f t _ Hl);
        [lia | assumption | split; [reflexivity | intros es s0 E; destruct es; discriminate] | | lia].
      intros fuel2 c2 t2 T' acc' pend' Hfu2 Hl2 HG2 ET2 HF2 EH2 ED2 Eq2.
      eapply (HK fuel2 c2 t2 T' acc' pend'); try eassumption; try congruence.
      etransitivity; [exact Eq2|]. exact Eq1.
    - (* kcp_nil *)
      intros lo rest n k d Q Hn Hs Hne Hf c0 Tb r0 accb pendb e0 w0 cs hs HG ET HF EH Hch HK fuel t Hfu H.
      cbn [app] in *. eapply HK; try eassumption; reflexivity.
    - (* kcp_cons *)
      intros lo s e tl si ei l body mid hi rest' Hlo Hse Htl Hsub Hkid Hb IHb Hc IHc
             rest n k d Q Hn Hs Hne Hf c0 Tb r0 accb pendb e0 w0 cs hs HG ET HF EH Hch HK fuel t Hfu H.
      split_sp.
      destruct (F3 _ _ _ Hb) as [Lb Fb]. destruct (F4 _ _ _ Hc) as [Lc Fc].
      rewrite <- ?app_assoc, <- ?app_comm_cons in H, HK. rewrite <- ?app_assoc, <- ?app_comm_cons in H, HK.
      fs H f c1 it' Es Hl.
      destruct (B_chain _ _ _ _ _ _ _ _ _ _ _ _ _ _ _ _ _ _ _ _ _ _ _ Es ltac:(lia) HG ET HF EH Hch Hlo)
        as (-> & HG1 & ET1 & ED1 & cs1 & EH1 & Hch1 & Eq1); try assumption;
        [apply tg_plain; assumption | apply first_ge_next; apply Fb; apply Fc; assumption
        | apply app_ne; apply app_ne; exact Hne |].
      refine (IHb _ n (S k) d Q Hn _ _ _ c1 HG1 _ f t _ Hl); [assumption | apply app_ne; exact Hne
        | apply Fc; assumption | | lia].
      intros fuel2 c2 t2 Tb2 accb2 pendb2 Hfu2 Hl2 HG2 ET2 HF2 EH2 ED2 Eq2.
      refine (IHc rest n k d Q Hn _ Hne Hf c2 Tb2 r0 accb2 pendb2 e0 w0 cs1 hs HG2 _ HF2 _ Hch1 _ fuel2 t2 Hfu2 Hl2);
        [assumption | rewrite ET2, ET1; reflexivity | rewrite EH2, EH1; reflexivity |].
      intros fuel3 c3 t3 Tb3 accb3 pendb3 cs3 Hfu3 Hl3 HG3 ET3 HF3 EH3 Hch3 ED3 Eq3.
      eapply (HK fuel3 c3 t3 Tb3 accb3 pendb3 cs3); try eassumption; [congruence|].
      etransitivity; [exact Eq3|].
      etransitivity; [apply (f_equal (app (closed_text cs1))); exact Eq2|].
      rewrite <- app_assoc, <- app_comm_cons in Eq1. exact Eq1.
    - (* kip_none *)
      intros lo rest n k d Q Hn Hs Hne Hf c0 Tb r0 accb pendb e0 w0 cs hs HG ET HF EH Hch HK fuel t Hfu H.
      cbn [app] in *. eapply HK; try eassumption; try reflexivity. apply chainable_ok; exact Hch.
    - (* kip_some *)
      intros lo s e l body hi Hlo Hse Htg Hkid Hb IHb
             rest n k d Q Hn Hs Hne Hf c0 Tb r0 accb pendb e0 w0 cs hs HG ET HF EH Hch HK fuel t Hfu H.
      split_sp.
      destruct (F3 _ _ _ Hb) as [Lb Fb].
      rewrite <- ?app_assoc, <- ?app_comm_cons in H, HK.
      fs H f c1 it' Es Hl.
      destruct (B_else _ _ _ _ _ _ _ _ _ _ _ _ _ _ _ _ _ _ _ _ Es ltac:(lia) HG ET HF EH Hch Hlo)
        as (-> & HG1 & ET1 & ED1 & cs1 & EH1 & Hok1 & Eq1); try assumption;
        [apply first_ge_next; apply Fb; assumption | apply app_ne; exact Hne |].
      refine (IHb rest n (S k) d Q Hn _ Hne Hf c1 HG1 _ f t _ Hl); [assumption | | lia].
      intros fuel2 c2 t2 Tb2 accb2 pendb2 Hfu2 Hl2 HG2 ET2 HF2 EH2 ED2 Eq2.
      eapply (HK fuel2 c2 t2 Tb2 accb2 pendb2 cs1); try eassumption;
        [rewrite ET2, ET1; reflexivity | rewrite EH2, EH1; reflexivity | congruence |].
      etransitivity; [apply (f_equal (app (closed_text cs1))); exact Eq2|]. exact Eq1.
  Qed.
End BlkWs.

Theorem main_loop_blocks_w src all opts (Hesc : escapes_sorted all) F s e body hi p t fuel :
  kitems 0 hi body -> hi <= p -> p <= len src -> (fuel <= F)%nat ->
  Forall (span_ok src) ((R_template, s, e) :: body ++ [(R_EOI, p, p)]) ->
  main_loop src all opts fuel init_cstate ((R_template, s, e) :: body ++ [(R_EOI, p, p)]) = COk t ->
  all_raw_text (t_els t)
  = ws_walk src all opts F ((R_template, s, e) :: body ++ [(R_EOI, p, p)]) 0 false false None.
Proof.
  intros Hit Hhi Hp Hfu Hs H.
  destruct (loop_inv src all opts _ _ _ _ _ H) as (f & c1 & it' & -> & Es & Hl).
  assert (St0 : St 0 0 0 0 init_cstate) by (split; [repeat split; constructor | reflexivity]).
  destruct (B_template src all opts F _ _ _ _ _ _ _ _ _ _ _ None Es St0) as (-> & HG1 & EH1 & ED1 & ET1 & Eq1).
  cbn [init_cstate c_ts c_omit c_trim] in ET1, Eq1.
  inversion Hs as [|x y _ Hs']; subst. apply Forall_app in Hs'. destruct Hs' as [Hsb _].
  rewrite <- Eq1.
  refine (proj1 (bwloop src all opts Hesc F) 0 hi body Hit [(R_EOI, p, p)] 1%nat 0%nat 0%nat
            (fun t => all_raw_text (t_els t)
                      = ws_walk src all opts F (body ++ [(R_EOI, p, p)]) 0 (c_omit c1) (c_trim c1) None)
            (le_n _) Hsb ltac:(discriminate) _ c1 t_empty [] [] None HG1 ET1 _ _ f t ltac:(lia) Hl).
  - cbn [first_ge tk_start tk_end fst snd]. lia.
  - split; [reflexivity|]. intros es s0 E. destruct es; discriminate.
  - intros fuel' c' t' T' acc' pend' Hfu' Hl' HG' ET' HF' _ _ Eq.
    rewrite (KK_eoi_w src all opts F hi p Hhi Hp fuel' c' t' acc' pend' Hfu' Hl'); [exact Eq|].
    split; [exact HG'|]. exists T'. split; assumption.
Qed.

(* C11, whole template, blocks included *)
Theorem whole_template : forall src opts ts t,
  hb_parse (peg_fuel src) R_handlebars src = Parsed ts ->
  compile2 src opts = COk t ->
  all_raw_text (t_els t) = ws_expected src opts ts.
Proof.
  intros src opts ts t Hp Hc.
  rewrite compile2_unfold in Hc.
  pose proof (hb_parse_spans _ _ _ _ Hp) as Hsp.
  destruct (hb_parse_kwf _ _ _ Hp) as [(s & e & body & hi & p & Efl & Hit & Hhi) Hesc].
  rewrite Hp in Hc. unfold compile_tokens in Hc. unfold ws_expected.
  change (fun t0 : tok => negb (is_rule R_escape t0)) with not_escape in *.
  rewrite Efl in *.
  assert (Hsp' : Forall (span_ok src) ((R_template, s, e) :: body ++ [(R_EOI, p, p)])).
  { rewrite <- Efl. apply Forall_filter. exact Hsp. }
  assert (Hpos : p <= len src).
  { inversion Hsp' as [|x y _ Hy]; subst. apply Forall_app in Hy. destruct Hy as [_ Hy].
    inversion Hy as [|x' y' [_ Hx'] _]; subst. exact Hx'. }
  eapply main_loop_blocks_w; try eassumption. lia.
Qed.

(* (a) again, now with blocks *)
Corollary whole_template_plain : forall src opts ts t,
  hb_parse (peg_fuel src) R_handlebars src = Parsed ts ->
  blocks_plain src opts ts = true ->
  compile2 src opts = COk t ->
  ws_expected src opts ts = strip_tags src ts (filter not_escape ts) 0.
Proof.
  intros src opts ts t Hp Hbl Hc.
  rewrite <- (whole_template src opts ts t Hp Hc).
  exact (conservation_blocks src opts ts t Hp Hbl Hc).
Qed.

Example whole_template_blocks_example :
  exists ts t,
    hb_parse (peg_fuel wb_src) R_handlebars wb_src = Parsed ts /\
    compile2 wb_src default_opts = COk t /\
    all_raw_text (t_els t) = ws_expected wb_src default_opts ts /\
    ws_expected wb_src default_opts ts = `" t u " ++ [10] ++ `" v" ++ [10] ++ `" {{r}}  e ".
Proof.
  destruct (hb_parse (peg_fuel wb_src) R_handlebars wb_src) as [ts| |] eqn:Ep;
    [|vm_compute in Ep; discriminate Ep..].
  destruct (compile2 wb_src default_opts) as [t| | |] eqn:Ec; [|vm_compute in Ec; discriminate Ec..].
  exists ts, t. split; [reflexivity|]. split; [reflexivity|].
  split; [exact (whole_template _ _ _ _ Ep Ec)|].
  vm_compute in Ep. injection Ep as <-. vm_compute. reflexivity.
Qed.
