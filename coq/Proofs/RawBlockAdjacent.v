(* Proofs/RawBlockAdjacent.v — the rule postcondition hb_RP of GrammarSchema.v,
   proved on the interpreter: in `raw_block = start ~ raw_block_text ~ end` the
   raw_block_end token starts exactly where the raw_block_text token ends
   (raw_block_text runs up to "{{{{" or the end of input, so the implicit skip
   in front of the closing tag consumes nothing). *)
From Coq Require Import List NArith Lia Bool.
From HB Require Import Peg.Peg Peg.Grammar Tpl.Compile Spec.WfTokens
  Proofs.PegFacts Proofs.PegTermination Proofs.PegForest Proofs.GrammarSchema.
Import ListNotations.
Open Scope N_scope.

Arguments N.add : simpl never.
Arguments N.eqb : simpl never.

Notation hev := (eval rule hb_defs hb_ws).
Definition RPtriv : rule -> atomicity -> bool -> list tok -> Prop := fun _ _ _ _ => True.
Notation tgen := (gen rule hb_defs hb_ws RPtriv).

Lemma hev_tgen f e at_ q inp pos pos' rest ts :
  hev f e at_ q inp pos = Ok pos' rest ts -> exists F, ts = flats F /\ tgen f e at_ q pos pos' F.
Proof. apply eval_gen. intros; exact I. Qed.

(* ---------- inversion of successful evaluations ---------- *)
Lemma ev_seq_inv f a b at_ q inp pos p2 r2 ts :
  hev f (ESeq a b) at_ q inp pos = Ok p2 r2 ts ->
  exists f' p1 r1 t1 t2, f = S f' /\ hev f' a at_ q inp pos = Ok p1 r1 t1 /\
    hev f' b at_ q r1 p1 = Ok p2 r2 t2 /\ ts = t1 ++ t2.
Proof.
  destruct f as [|f]; [discriminate|]. cbn [eval]. intros H.
  destruct (hev f a at_ q inp pos) as [p1 r1 t1| |] eqn:E1; try discriminate.
  destruct (hev f b at_ q r1 p1) as [p2' r2' t2| |] eqn:E2; try discriminate.
  inversion H; subst. eexists f, p1, r1, t1, t2. auto.
Qed.

Definition X4 : str := [123; 123; 123; 123].
Definition RBY : expr rule := EAlt (ERef R_escape) (e_seq (ENot (EStr X4)) EAny).
Definition stopc (r : str) : Prop := r = [] \/ starts_with X4 r = true.

Lemma def_raw_block_text : hb_defs R_raw_block_text = (KCompound, e_star RBY).
Proof. reflexivity. Qed.
Lemma def_raw_block : hb_defs R_raw_block =
  (KSilent, e_seq (ERef R_raw_block_start) (e_seq (ERef R_raw_block_text) (ERef R_raw_block_end))).
Proof. reflexivity. Qed.

Lemma rby_fail f at_ q inp pos : hev f RBY at_ q inp pos = Fail -> at_ <> ANon -> stopc inp.
Proof.
  intros H Hat. unfold RBY, e_seq in H.
  destruct f as [|f]; [discriminate|]. cbn [eval] in H.
  destruct (hev f (ERef R_escape) at_ q inp pos); try discriminate.
  destruct f as [|f]; [discriminate|]. cbn [eval] in H.
  destruct f as [|f]; [discriminate|]. cbn [eval] in H.
  destruct f as [|f]; [discriminate|]. cbn [eval] in H.
  destruct (starts_with X4 inp) eqn:Es; [right; exact Es|].
  destruct at_; [contradiction| |]; destruct inp; try discriminate; left; reflexivity.
Qed.

Lemma rby_rep_stop : forall f at_ q inp pos p' r' ts,
  hev f (ERepTail RBY) at_ q inp pos = Ok p' r' ts -> at_ <> ANon -> stopc r'.
Proof.
  induction f as [|f IH]; intros at_ q inp pos p' r' ts H Hat; [discriminate|].
  cbn [eval] in H.
  destruct (hev f (ESeq ESkip RBY) at_ q inp pos) as [p1 r1 t1| |] eqn:E1; try discriminate.
  - destruct (hev f (ERepTail RBY) at_ q r1 p1) as [p2 r2 t2| |] eqn:E2; try discriminate.
    inversion H; subst. eapply IH; eassumption.
  - inversion H; subst.
    destruct f as [|f]; [discriminate|]. cbn [eval] in E1.
    destruct (hev f ESkip at_ q r' p') as [p1 r1 t1| |] eqn:Es; try discriminate.
    + destruct f as [|f]; [discriminate|]. destruct at_; [contradiction| |];
        cbn [eval] in Es; inversion Es; subst;
        (destruct (hev (S f) RBY _ q r1 p1) eqn:Er; try discriminate; eapply rby_fail; [exact Er|assumption]).
    + destruct f as [|f]; [discriminate|]. destruct at_; [contradiction| |]; cbn [eval] in Es; discriminate.
Qed.

Lemma reptail_not_fail : forall f a at_ q inp pos, hev f (ERepTail a) at_ q inp pos <> Fail.
Proof.
  induction f as [|f IH]; intros a at_ q inp pos; [discriminate|]. cbn [eval].
  destruct (hev f (ESeq ESkip a) at_ q inp pos) as [p1 r1 t1| |]; try discriminate.
  specialize (IH a at_ q r1 p1). destruct (hev f (ERepTail a) at_ q r1 p1); try discriminate. congruence.
Qed.

Lemma rby_star_stop f at_ q inp pos p' r' ts :
  hev f (e_star RBY) at_ q inp pos = Ok p' r' ts -> at_ <> ANon -> stopc r'.
Proof.
  unfold e_star. intros H Hat. destruct f as [|f]; [discriminate|]. cbn [eval] in H.
  destruct (hev f (ESeq RBY (ERepTail RBY)) at_ q inp pos) as [p1 r1 t1| |] eqn:E1; try discriminate.
  - inversion H; subst. destruct (ev_seq_inv _ _ _ _ _ _ _ _ _ _ E1) as (f' & pa & ra & ta & tb & -> & Ea & Eb & ->).
    eapply rby_rep_stop; eassumption.
  - inversion H; subst.
    destruct f as [|f]; [discriminate|]. cbn [eval] in E1.
    destruct (hev f RBY at_ q r' p') eqn:Er; try discriminate.
    + exfalso. match type of E1 with match ?X with _ => _ end = Fail =>
        destruct X eqn:Ex; try discriminate; exact (reptail_not_fail _ _ _ _ _ _ Ex) end.
    + eapply rby_fail; eassumption.
Qed.

(* the implicit skip consumes nothing in front of "{{{{" or at the end of input *)
Lemma skip_at_stop f q r p p' r' ts : stopc r ->
  hev f ESkip ANon q r p = Ok p' r' ts -> p' = p /\ r' = r /\ ts = [].
Proof.
  intros Hs H. destruct f as [|f]; [discriminate|]. cbn [eval] in H.
  destruct f as [|f]; [discriminate|]. cbn [eval] in H. unfold hb_ws in H.
  destruct f as [|f]; [discriminate|]. cbn [eval] in H.
  set (W := hb_defs R_WHITESPACE) in H. vm_compute in W. subst W. cbn iota in H.
  assert (Hw : forall c, c <> 123 -> starts_with [c] r = false).
  { intros c Hc. destruct Hs as [-> | Hs]; [reflexivity|].
    destruct r as [|x r0]; [discriminate|]. cbn [starts_with X4] in Hs.
    apply andb_true_iff in Hs. destruct Hs as [Hx _]. apply N.eqb_eq in Hx. subst x.
    cbn [starts_with]. replace (c =? 123) with false by (symmetry; apply N.eqb_neq; exact Hc). reflexivity. }
  do 4 (destruct f as [|f]; [discriminate|]; cbn [eval] in H;
        rewrite ?(Hw 32), ?(Hw 9), ?(Hw 10), ?(Hw 13) in H by discriminate).
  inversion H; subst. auto.
Qed.

(* ---------- rules that cannot emit a raw_block_text token ---------- *)
Fixpoint bad_tab2 (n : nat) : list bool :=
  match n with
  | O => map (rule_eqb R_raw_block_text) all_rules
  | S n' =>
      let t := bad_tab2 n' in
      map (fun r => nth (tab_index r) t false
                    || negb (refs_ok rule (fun x => negb (nth (tab_index x) t false)) (snd (hb_defs r))))
          all_rules
  end.
Definition rbt_free_tab : list bool := Eval vm_compute in map negb (bad_tab2 70).
Definition rbt_free (r : rule) : bool := nth (tab_index r) rbt_free_tab false.

Lemma rbt_free_closed : forall r, rbt_free r = true -> refs_ok rule rbt_free (snd (hb_defs r)) = true.
Proof. intros r. destruct r; vm_compute; intros H; first [reflexivity | discriminate H]. Qed.
Lemma rbt_free_not_text r : rbt_free r = true -> rule_eqb R_raw_block_text r = false.
Proof. destruct r; vm_compute; intros H; first [reflexivity | discriminate H]. Qed.

Definition is_text (t : tok) : bool := rule_eqb R_raw_block_text (tk_rule t).

Lemma no_text_tokens f r at_ q inp pos pos' rest ts : rbt_free r = true ->
  hev f (ERef r) at_ q inp pos = Ok pos' rest ts -> Forall (fun t => is_text t = false) ts.
Proof.
  intros Hr H. destruct (hev_tgen _ _ _ _ _ _ _ _ _ H) as (F & -> & G).
  pose proof (closed_sound rule hb_defs hb_ws RPtriv rbt_free rbt_free_closed _ (ERef r) _ _ _ _ _ Hr G) as HF.
  eapply Forall_impl; [|exact HF]. intros t Ht. apply rbt_free_not_text. exact Ht.
Qed.

Lemma Forall_filter {A} (P : A -> Prop) (f : A -> bool) l : Forall P l -> Forall P (filter f l).
Proof.
  induction 1 as [|x l Hx Hl IH]; cbn [filter]; [constructor|]. destruct (f x); [constructor|]; assumption.
Qed.

(* the position of the unique raw_block_text token of a list *)
Lemma split_unique : forall (x a : list tok) T T' y b,
  Forall (fun t => is_text t = false) x -> is_text T = true -> is_text T' = true ->
  x ++ T :: y = a ++ T' :: b -> Forall (fun t => is_text t = false) y ->
  a = x /\ T' = T /\ b = y.
Proof.
  induction x as [|t x IH]; intros a T T' y b Hx HT HT' E Hy.
  - destruct a as [|t' a]; cbn [app] in E.
    + inversion E; subst. auto.
    + inversion E; subst. exfalso. rewrite Forall_forall in Hy.
      assert (Hin : In T' (a ++ T' :: b)) by (apply in_or_app; right; left; reflexivity).
      rewrite (Hy _ Hin) in HT'. discriminate.
  - inversion Hx; subst. destruct a as [|t' a]; cbn [app] in E.
    + inversion E; subst. congruence.
    + inversion E; subst. destruct (IH a T T' y b) as (-> & -> & ->); auto.
Qed.

Lemma all_escape_filter (l : list tok) :
  Forall (fun t => is_esc_rule (tk_rule t) = true) l -> filter not_escape l = [].
Proof.
  induction 1 as [|t l Ht Hl IH]; [reflexivity|]. cbn [filter].
  unfold not_escape at 1, is_rule. unfold is_esc_rule in Ht. rewrite Ht. cbn [negb]. exact IH.
Qed.

Lemma only_rby : only rule hb_defs is_esc_rule 80 (e_star RBY) ACompound false = true.
Proof. vm_compute. reflexivity. Qed.

(* ---------- the postcondition ---------- *)
Lemma ref_tokens_nonquiet f r at_ inp pos pos' rest ts :
  fst (hb_defs r) <> KSilent ->
  (fst (hb_defs r) = KNormal \/ fst (hb_defs r) = KAtomic -> at_ <> AAtomic) ->
  hev f (ERef r) at_ false inp pos = Ok pos' rest ts ->
  exists f' tb, hev f' (snd (hb_defs r)) (body_at (fst (hb_defs r)) at_) false inp pos = Ok pos' rest tb
                /\ ts = (r, pos, pos') :: tb.
Proof.
  intros Hk Hat H. destruct f as [|f]; [discriminate|]. cbn [eval] in H.
  destruct (hb_defs r) as [k body]. cbn [fst snd] in *.
  destruct k; try congruence; cbn [body_at];
    match type of H with match ?X with _ => _ end = _ => destruct X as [p1 r1 t1| |] eqn:E; try discriminate end;
    inversion H; subst; exists f, t1; (split; [exact E|]); cbn [emit]; try reflexivity;
    destruct at_; try reflexivity; exfalso; apply Hat; auto.
Qed.

Theorem hb_RP_holds : forall f r k body at' q inp pos pos' rest ts,
  hb_defs r = (k, body) -> hev f body at' q inp pos = Ok pos' rest ts -> hb_RP r at' q ts.
Proof.
  intros f r k body at' q inp pos pos' rest ts Hd H -> -> ->.
  rewrite def_raw_block in Hd. inversion Hd; subst; clear Hd. unfold e_seq in H.
  destruct (ev_seq_inv _ _ _ _ _ _ _ _ _ _ H) as (f1 & p1 & r1 & t1 & tr1 & -> & E1 & H1 & ->). clear H.
  destruct (ev_seq_inv _ _ _ _ _ _ _ _ _ _ H1) as (f2 & p1' & r1' & ts1 & tr2 & -> & Es1 & H2 & ->). clear H1.
  destruct (ev_seq_inv _ _ _ _ _ _ _ _ _ _ H2) as (f3 & p2 & r2 & t2 & tr3 & -> & E2 & H3 & ->). clear H2.
  destruct (ev_seq_inv _ _ _ _ _ _ _ _ _ _ H3) as (f4 & p3 & r3 & ts2 & t3 & -> & Es2 & E3 & ->). clear H3.
  (* the raw text: its token, escapes below, and where it stops *)
  destruct (ref_tokens_nonquiet _ R_raw_block_text ANon _ _ _ _ _ ltac:(cbn; discriminate)
              ltac:(cbn; intros [X|X]; discriminate X) E2) as (g2 & tb2 & Eb2 & ->).
  change (hev g2 (e_star RBY) ACompound false r1' p1' = Ok p2 r2 tb2) in Eb2.
  assert (Hstop : stopc r2) by (eapply rby_star_stop; [exact Eb2 | discriminate]).
  destruct (skip_at_stop _ _ _ _ _ _ _ Hstop Es2) as (-> & -> & ->).
  assert (Hesc : filter not_escape tb2 = []).
  { destruct (hev_tgen _ _ _ _ _ _ _ _ _ Eb2) as (F & -> & G).
    apply all_escape_filter.
    exact (only_sound rule hb_defs hb_ws RPtriv is_esc_rule _ 80 _ _ _ _ _ _ only_rby G). }
  (* the closing tag *)
  destruct (ref_tokens_nonquiet _ R_raw_block_end ANon _ _ _ _ _ ltac:(cbn; discriminate)
              ltac:(intros _; discriminate) E3) as (g3 & tb3 & Eb3 & ->).
  pose proof (no_text_tokens _ R_raw_block_start _ _ _ _ _ _ _ eq_refl E1) as N1.
  pose proof (no_text_tokens _ R_raw_block_end _ _ _ _ _ _ _ eq_refl E3) as N3.
  pose proof (quiet_no_tokens rule hb_defs hb_ws) as Q.
  assert (ts1 = []) as ->.
  { rewrite (ev_skip_non rule hb_defs hb_ws) in Es1. eapply Q. exact Es1. }
  (* the filtered list and the unique split *)
  intros a s1 e1 s2 e2 b E.
  rewrite !filter_app in E. cbn [filter app] in E.
  change (not_escape (R_raw_block_text, p1', p2)) with true in E.
  change (not_escape (R_raw_block_end, p2, pos')) with true in E. cbn iota in E.
  match type of E with context [?X ++ (R_raw_block_end, p2, pos') :: _] =>
    match X with _ :: ?Y => replace Y with (@nil (token rule)) in E by (symmetry; exact Hesc) end end.
  cbn [app] in E.
  destruct (split_unique (filter not_escape t1) a (R_raw_block_text, p1', p2) (R_raw_block_text, s1, e1)
              ((R_raw_block_end, p2, pos') :: filter not_escape tb3) ((R_raw_block_end, s2, e2) :: b))
    as (_ & ET & Eb); try reflexivity.
  - apply Forall_filter. exact N1.
  - exact E.
  - inversion N3; subst. constructor; [reflexivity|]. apply Forall_filter. assumption.
  - inversion ET; subst. inversion Eb; subst. reflexivity.
Qed.
