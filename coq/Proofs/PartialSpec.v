(* Proofs/PartialSpec.v -- property C09: a partial renders as its template
   applied to the designated context.  The specification pieces
   (resolve_partial, depth_step, partial_context, partial_inner,
   partial_cleanup, is_self) are in Spec/RenderFrameSpec.v. *)
From HB Require Export Proofs.Frame.
Open Scope N_scope.

(* ---------- strings and maps ---------- *)
Lemma str_eqb_true : forall a b : str, str_eqb a b = true -> a = b.
Proof.
  unfold str_eqb. induction a as [|x a IH]; destruct b as [|y b]; cbn; try discriminate; auto.
  intros H. apply andb_prop in H. destruct H as [H1 H2]. apply N.eqb_eq in H1. subst. f_equal. auto.
Qed.
Lemma str_eqb_refl : forall a : str, str_eqb a a = true.
Proof. unfold str_eqb. induction a as [|x a IH]; cbn; auto. rewrite N.eqb_refl. exact IH. Qed.
Lemma str_eqb_false a b : a <> b -> str_eqb a b = false.
Proof. intros H. destruct (str_eqb a b) eqn:E; [apply str_eqb_true in E; contradiction|reflexivity]. Qed.
Lemma str_cmp_refl : forall a : str, str_cmp a a = Eq.
Proof. induction a as [|x a IH]; cbn [str_cmp]; [reflexivity|]. rewrite N.compare_refl. exact IH. Qed.
Lemma str_cmp_eq_true : forall a b : str, str_cmp a b = Eq -> a = b.
Proof.
  induction a as [|x a IH]; destruct b as [|y b]; cbn [str_cmp]; try discriminate; [reflexivity|].
  destruct (N.compare x y) eqn:E; try discriminate. apply N.compare_eq in E. subst. intros H. f_equal. auto.
Qed.
Lemma str_cmp_ne a b : str_cmp a b <> Eq -> str_eqb a b = false.
Proof. intros H. apply str_eqb_false. intros ->. apply H. apply str_cmp_refl. Qed.

Lemma map_get_insert_same {A} (m : list (str * A)) k v : map_get (map_insert m k v) k = Some v.
Proof.
  induction m as [|[k' v'] r IH]; cbn [map_insert map_get].
  - rewrite str_eqb_refl. reflexivity.
  - destruct (str_cmp k k') eqn:E; cbn [map_get]; rewrite ?str_eqb_refl; try reflexivity.
    rewrite str_cmp_ne by congruence. exact IH.
Qed.
Lemma map_get_insert_other {A} (m : list (str * A)) k v k0 :
  k0 <> k -> map_get (map_insert m k v) k0 = map_get m k0.
Proof.
  intros Hne. induction m as [|[k' v'] r IH]; cbn [map_insert map_get].
  - rewrite str_eqb_false by exact Hne. reflexivity.
  - destruct (str_cmp k k') eqn:E; cbn [map_get].
    + apply str_cmp_eq_true in E. subst k'. rewrite !str_eqb_false by exact Hne. reflexivity.
    + rewrite str_eqb_false by exact Hne. reflexivity.
    + destruct (str_eqb k0 k'); [reflexivity|exact IH].
Qed.

(* ---------- (c) merge_json ---------- *)
(* the last binding of k in an association list (later hash entries override
   earlier ones) *)
Fixpoint assoc_last (l : list (str * json)) (k : str) : option json :=
  match l with
  | [] => None
  | (k', v) :: r =>
      match assoc_last r k with
      | Some v' => Some v'
      | None => if str_eqb k k' then Some v else None
      end
  end.

(* the fields merge_json sees in its base value: an object's own; an array's
   elements and a string's characters under their decimal indices; none for
   null, booleans and numbers *)
Definition base_fields (base : json) : list (str * json) :=
  match base with
  | JObj m => m
  | JArr a => fold_left (fun m '(i, v) => map_insert m (n_to_dec i) v) (enum_from 0 a) []
  | JStr s => fold_left (fun m '(i, c) => map_insert m (n_to_dec i) (JStr [c])) (enum_from 0 s) []
  | _ => []
  end.

Lemma fold_insert_get (add : list (str * json)) : forall m0 k,
  map_get (fold_left (fun m '(k, v) => map_insert m k v) add m0) k =
  match assoc_last add k with Some v => Some v | None => map_get m0 k end.
Proof.
  induction add as [|[k' v] r IH]; intros m0 k; cbn [fold_left assoc_last]; [reflexivity|].
  rewrite IH. destruct (assoc_last r k); [reflexivity|].
  destruct (str_eqb k k') eqn:E.
  - apply str_eqb_true in E. subst. apply map_get_insert_same.
  - apply map_get_insert_other. intros ->. rewrite str_eqb_refl in E. discriminate E.
Qed.

Lemma merge_json_nil base : merge_json base [] = base.
Proof. reflexivity. Qed.

Lemma merge_json_fields base add :
  add <> [] ->
  exists m, merge_json base add = JObj m /\
            forall k, map_get m k = match assoc_last add k with
                                    | Some v => Some v
                                    | None => map_get (base_fields base) k
                                    end.
Proof.
  intros Hne. destruct add as [|x r]; [contradiction|].
  eexists. split; [reflexivity|]. intros k. apply fold_insert_get.
Qed.

(* hash keys override the fields of the base *)
Lemma merge_json_override base add k v :
  assoc_last add k = Some v ->
  exists m, merge_json base add = JObj m /\ map_get m k = Some v.
Proof.
  intros H. destruct (merge_json_fields base add) as (m & E & G).
  - intros ->. discriminate H.
  - exists m. split; [exact E|]. rewrite G, H. reflexivity.
Qed.
(* the other fields of an object base are kept *)
Lemma merge_json_keep bm add k :
  add <> [] -> assoc_last add k = None ->
  exists m, merge_json (JObj bm) add = JObj m /\ map_get m k = map_get bm k.
Proof.
  intros Hne H. destruct (merge_json_fields (JObj bm) add Hne) as (m & E & G).
  exists m. split; [exact E|]. rewrite G, H. reflexivity.
Qed.
(* a base that is null, a boolean or a number contributes nothing *)
Lemma merge_json_scalar base add k :
  add <> [] -> (base = JNull \/ (exists b, base = JBool b) \/ (exists n, base = JNum n)) ->
  exists m, merge_json base add = JObj m /\ map_get m k = assoc_last add k.
Proof.
  intros Hne Hb. destruct (merge_json_fields base add Hne) as (m & E & G).
  exists m. split; [exact E|]. rewrite G.
  destruct (assoc_last add k); [reflexivity|].
  destruct Hb as [->|[[b ->]|[n ->]]]; reflexivity.
Qed.

(* ---------- paths on the one-block stack of a partial ---------- *)
Definition one_block (v : json) : block := b_set_base_value block_new v.

Lemma lv_get_empty name : lv_get lv_empty name = None.
Proof. unfold lv_get. repeat match goal with |- context [if ?c then _ else _] => destruct c end; reflexivity. Qed.

(* no @-variable of any level: @index, @../key, ... of the caller are gone *)
Lemma one_block_locals v level name : get_local_var [one_block v] level name = None.
Proof.
  unfold get_local_var. destruct (N.to_nat level) as [|n]; cbn [nth_error].
  - apply lv_get_empty.
  - destruct n; reflexivity.
Qed.

(* no block parameter of the caller *)
Lemma one_block_params v p : get_in_block_params [one_block v] p = None.
Proof. reflexivity. Qed.

Lemma one_block_scan v segs : forall depth, visitor_scan [one_block v] segs depth = visitor_scan [] segs depth.
Proof.
  induction segs as [|sg r IH]; intros depth; cbn [visitor_scan]; [reflexivity|].
  destruct sg as [p|ru]; [reflexivity|].
  destruct (rule_eqb ru R_path_root); [reflexivity|]. destruct (rule_eqb ru R_path_up); [apply IH|reflexivity].
Qed.

Lemma scan_nil_none segs : forall depth, snd (fst (visitor_scan [] segs depth)) = None.
Proof.
  induction segs as [|sg r IH]; intros depth; cbn [visitor_scan]; [reflexivity|].
  destruct sg as [p|ru]; [reflexivity|].
  destruct (rule_eqb ru R_path_root); [reflexivity|]. destruct (rule_eqb ru R_path_up); [apply IH|reflexivity].
Qed.

(* every path, whatever its ../ prefix, is resolved inside the merged value
   (or from the root data when it starts with @root): nothing of the caller's
   scopes is reachable *)
Lemma one_block_visitor v segs :
  parse_json_visitor segs [one_block v] =
  match visitor_scan [] segs 0 with
  | (O, _, true) => ResAbsolute (merge_json_path segs)
  | _ => ResValue (merge_json_path segs) v
  end.
Proof.
  unfold parse_json_visitor. rewrite one_block_scan.
  pose proof (scan_nil_none segs 0%nat) as Hn.
  destruct (visitor_scan [] segs 0) as [[depth bp] fr]. cbn [fst snd] in Hn. subst bp.
  destruct depth as [|n].
  - cbn [Nat.ltb Nat.leb]. destruct fr; reflexivity.
  - change (Nat.ltb 0 (S n)) with true. cbv iota.
    destruct n; reflexivity.
Qed.

Lemma one_block_up v data segs :
  navigate data (SegRuled R_path_up :: segs) [one_block v] =
  match walk (Some v) (merge_json_path segs) with
  | NavSome v' => NavOk (SDerived v')
  | NavNone => NavOk SMissing
  | NavBadIndex s => NavErr (RInvalidJsonIndex s)
  end.
Proof.
  unfold navigate. rewrite one_block_visitor. cbn [visitor_scan].
  change (rule_eqb R_path_up R_path_root) with false. change (rule_eqb R_path_up R_path_up) with true.
  cbv iota.
  assert (Hd : forall segs d, exists d' bp fr, visitor_scan [] segs (S d) = (S d', bp, fr)).
  { clear. induction segs as [|sg r IH]; intros d; cbn [visitor_scan]; [eauto|].
    destruct sg as [p|ru]; [eauto|].
    destruct (rule_eqb ru R_path_root); [eauto|]. destruct (rule_eqb ru R_path_up); [apply IH|eauto]. }
  destruct (Hd segs 0%nat) as (d' & bp & fr & ->). reflexivity.
Qed.

(* @root paths read the render data whatever the block stack is *)
Lemma root_visitor segs blocks :
  parse_json_visitor (SegRuled R_path_root :: segs) blocks = ResAbsolute (merge_json_path segs).
Proof. reflexivity. Qed.

Lemma root_visible data segs blocks1 blocks2 :
  navigate data (SegRuled R_path_root :: segs) blocks1 = navigate data (SegRuled R_path_root :: segs) blocks2.
Proof. reflexivity. Qed.

(* ---------- expand_partial ---------- *)
Lemma depth_step_res d s : restored s (depth_step d s).
Proof.
  unfold depth_step. destruct (str_eqb (dv_name d) PARTIAL_BLOCK); [res|].
  destruct (Z.ltb 0 (s_pb_depth s)); [res|apply restored_refl].
Qed.
Lemma depth_step_current d s : s_current (depth_step d s) = s_current s.
Proof.
  unfold depth_step. destruct (str_eqb (dv_name d) PARTIAL_BLOCK); [reflexivity|].
  destruct (Z.ltb 0 (s_pb_depth s)); reflexivity.
Qed.

Lemma partial_context_st data d s v s' : partial_context data d s = ROk v s' -> s' = s.
Proof.
  unfold partial_context. intros H.
  destruct (dv_params d) as [|p ps].
  - inv. match goal with H : evaluate2 _ _ _ = _ |- _ => apply evaluate2_st in H end. assumption.
  - destruct (pj_rel p).
    + inv. match goal with H : evaluate _ _ _ = _ |- _ => apply evaluate_st in H end. assumption.
    + inv. reflexivity.
Qed.
Lemma partial_context_err_st data d s e s' : partial_context data d s = RErr e s' -> s' = s.
Proof.
  unfold partial_context, evaluate, evaluate2, rfail. intros H.
  destruct (dv_params d) as [|p ps].
  - cbn in H. destruct (navigate data [] (s_blocks s)); cbn in H; try discriminate H.
    injection H as _ <-. reflexivity.
  - destruct (pj_rel p); [|discriminate H].
    destruct (path_parse s0) as [[segs raw|lv nm raw]|]; cbn in H.
    + destruct (navigate data segs (s_blocks s)); cbn in H; try discriminate H. injection H as _ <-. reflexivity.
    + discriminate H.
    + injection H as _ <-. reflexivity.
Qed.

Section Partial.
  Variable reg : registry.
  Variable data : json.
  Variable ft : ftable.

  Definition run_block_decorators (f : nat) (d : deco_v) (s : rstate) : rres unit :=
    match dv_tpl d with Some t => eval_template reg data ft f t s | None => ROk tt s end.

  (* (a) the unfolding characterisation *)
  Theorem partial_spec f d s s1 partial :
    run_block_decorators f d s = ROk tt s1 ->
    is_self d s1 = false ->
    resolve_partial reg d s1 = Some partial ->
    expand_partial reg data ft (S f) d s =
    rbind (partial_context data d (depth_step d s1)) (fun merged s3 =>
      match render_template reg data ft f partial (partial_inner d merged s3) with
      | ROk u s7 => ROk u (partial_cleanup d s1 s7)
      | RErr e s7 => RErr e (partial_cleanup d s1 s7)
      | RPanic p => RPanic p
      | RFuel => RFuel
      end).
  Proof.
    unfold run_block_decorators, is_self, resolve_partial. intros Hd Hself Hres.
    rewrite expand_partial_eq. rewrite Hd. cbn [rbind]. cbv zeta. rewrite Hself, Hres.
    fold (depth_step d s1). fold (hash_values d). fold (partial_context data d (depth_step d s1)).
    destruct (partial_context data d (depth_step d s1)) as [merged s3|e s3|p|] eqn:Hc; cbn [rbind]; try reflexivity.
    apply partial_context_st in Hc. subst s3.
    assert (Hb : s_blocks (depth_step d s1) = s_blocks s1) by (apply (depth_step_res d s1)).
    assert (Hi : s_indent (depth_step d s1) = s_indent s1) by (apply (depth_step_res d s1)).
    unfold partial_cleanup, partial_inner. rewrite Hb.
    destruct (render_template reg data ft f partial _); reflexivity.
  Qed.

  (* inversion of a successful partial call into its stages *)
  Theorem partial_ok_inv f d s s' :
    expand_partial reg data ft (S f) d s = ROk tt s' ->
    exists s1 partial merged s7,
      run_block_decorators f d s = ROk tt s1 /\
      is_self d s1 = false /\
      resolve_partial reg d s1 = Some partial /\
      partial_context data d (depth_step d s1) = ROk merged (depth_step d s1) /\
      render_template reg data ft f partial (partial_inner d merged (depth_step d s1)) = ROk tt s7 /\
      s' = partial_cleanup d s1 s7.
  Proof.
    intros H. pose proof H as H0. rewrite expand_partial_eq in H0.
    apply rbind_ok in H0. destruct H0 as ([] & s1 & Hd & H0). cbv zeta in H0.
    fold (is_self d s1) in H0. destruct (is_self d s1) eqn:Hself; [discriminate H0|].
    fold (resolve_partial reg d s1) in H0.
    destruct (resolve_partial reg d s1) as [partial|] eqn:Hres; [|discriminate H0]. clear H0.
    rewrite (partial_spec f d s s1 partial Hd Hself Hres) in H.
    apply rbind_ok in H. destruct H as (merged & s3 & Hc & H).
    pose proof (partial_context_st _ _ _ _ _ Hc) as ->.
    destruct (render_template reg data ft f partial _) as [[] s7| | |] eqn:Hr; try discriminate H.
    injection H as <-. exists s1, partial, merged, s7. repeat split; assumption.
  Qed.

  (* the restore facts: after a successful partial call the block stack, the
     indent string, the current template name and the partial-block stack are
     those of the state in which the partial was looked up *)
  Theorem partial_restores f d s s' :
    expand_partial reg data ft (S f) d s = ROk tt s' ->
    exists s1, run_block_decorators f d s = ROk tt s1 /\
      s_blocks s' = s_blocks s1 /\ s_indent s' = s_indent s1 /\
      s_current s' = s_current s1 /\ s_pb_stack s' = s_pb_stack s1.
  Proof.
    intros H. apply partial_ok_inv in H.
    destruct H as (s1 & partial & merged & s7 & Hd & _ & _ & _ & Hr & ->).
    exists s1. split; [exact Hd|]. apply frame_template in Hr.
    pose proof (depth_step_res d s1) as Hs.
    unfold partial_cleanup, partial_inner in *.
    destruct (dv_tpl d); res2.
  Qed.

  (* hash arguments (and the context argument) are invisible after the call:
     the block stack is the caller's again *)
  Theorem hash_invisible_after f d s s' :
    expand_partial reg data ft (S f) d s = ROk tt s' -> s_blocks s' = s_blocks s.
  Proof.
    intros H. apply partial_restores in H. destruct H as (s1 & Hd & Hb & _).
    rewrite Hb. unfold run_block_decorators in Hd.
    destruct (dv_tpl d); [|injection Hd as <-; reflexivity].
    apply (fr_eval_template _ _ _ _ (frame_all reg data ft f)) in Hd. apply Hd.
  Qed.

  (* inside, the stack is the single block holding the merged value *)
  Lemma partial_inner_blocks d merged s : s_blocks (partial_inner d merged s) = [one_block merged].
  Proof. unfold partial_inner. destruct (dv_tpl d); reflexivity. Qed.

  Theorem caller_scopes_hidden d merged s :
    (forall level name, get_local_var (s_blocks (partial_inner d merged s)) level name = None) /\
    (forall p, get_in_block_params (s_blocks (partial_inner d merged s)) p = None) /\
    (forall segs, parse_json_visitor segs (s_blocks (partial_inner d merged s)) =
                  match visitor_scan [] segs 0 with
                  | (O, _, true) => ResAbsolute (merge_json_path segs)
                  | _ => ResValue (merge_json_path segs) merged
                  end).
  Proof.
    rewrite partial_inner_blocks. split; [|split]; intros.
    - apply one_block_locals. - apply one_block_params. - apply one_block_visitor.
  Qed.

  (* (b) resolution order *)
  Lemma resolve_inline d s p : get_partial s (dv_name d) = Some p -> resolve_partial reg d s = Some p.
  Proof. unfold resolve_partial. intros ->. reflexivity. Qed.
  Lemma resolve_dev d s dm p :
    get_partial s (dv_name d) = None -> s_dev s = Some dm -> map_get dm (dv_name d) = Some p ->
    resolve_partial reg d s = Some p.
  Proof. unfold resolve_partial. intros -> -> ->. reflexivity. Qed.
  Lemma resolve_registry d s p :
    get_partial s (dv_name d) = None ->
    match s_dev s with Some dm => map_get dm (dv_name d) | None => None end = None ->
    map_get (r_templates reg) (dv_name d) = Some p ->
    resolve_partial reg d s = Some p.
  Proof. unfold resolve_partial. intros -> -> ->. reflexivity. Qed.
  Lemma resolve_block d s :
    get_partial s (dv_name d) = None ->
    match s_dev s with Some dm => map_get dm (dv_name d) | None => None end = None ->
    map_get (r_templates reg) (dv_name d) = None ->
    resolve_partial reg d s = dv_tpl d.
  Proof. unfold resolve_partial. intros -> -> ->. reflexivity. Qed.

  Lemma get_partial_inline s name :
    str_eqb name PARTIAL_BLOCK = false -> get_partial s name = map_get (s_partials s) name.
  Proof. unfold get_partial. intros ->. reflexivity. Qed.

  (* an inline partial is visible from its definition onward, and takes
     precedence over a registered template of the same name *)
  Lemma inline_defined s name t d :
    str_eqb name PARTIAL_BLOCK = false -> dv_name d = name ->
    resolve_partial reg d (set_partials s (map_insert (s_partials s) name t)) = Some t.
  Proof.
    intros Hn Hd. apply resolve_inline. rewrite Hd, get_partial_inline by exact Hn.
    cbn [s_partials set_partials]. apply map_get_insert_same.
  Qed.

  Lemma inline_decorator_defines f dt s s1 d p ps name t :
    deco_from_template reg data ft f dt s = ROk d s1 ->
    map_get (r_decorators reg) (dv_name d) = Some DInline ->
    dv_params d = p :: ps -> pj_value p = JStr name -> dv_tpl d = Some t ->
    eval_decorator reg data ft (S f) dt s = ROk tt (set_partials s1 (map_insert (s_partials s1) name t)).
  Proof.
    intros Hd Hm Hp Hv Ht. rewrite eval_decorator_eq, Hd. cbn [rbind]. rewrite Hm, Hp, Hv, Ht. reflexivity.
  Qed.

  (* the name may be computed by a subexpression: it is the rendering of the
     subexpression's value *)
  Lemma dynamic_name f e s :
    expand_as_name reg data ft (S f) (PSub e) s =
    rbind (expand_param reg data ft f (PSub e) s) (fun v s1 => ROk (render_json ft (pj_value v)) s1).
  Proof. apply expand_as_name_eq. Qed.

  (* (d) directly including the template being rendered *)
  Theorem self_include f d s s1 :
    run_block_decorators f d s = ROk tt s1 ->
    s_current s1 = Some (dv_name d) ->
    expand_partial reg data ft (S f) d s = RErr (mk_err RCannotIncludeSelf) s1.
  Proof.
    unfold run_block_decorators. intros Hd Hc. rewrite expand_partial_eq, Hd. cbn [rbind]. cbv zeta.
    rewrite Hc, str_eqb_refl. reflexivity.
  Qed.
  Corollary self_include_plain f d s :
    dv_tpl d = None -> s_current s = Some (dv_name d) ->
    expand_partial reg data ft (S f) d s = RErr (mk_err RCannotIncludeSelf) s.
  Proof. intros Ht Hc. apply self_include; [unfold run_block_decorators; rewrite Ht; reflexivity|exact Hc]. Qed.

  (* (e) an unknown partial without a block *)
  Theorem not_found f d s s1 :
    run_block_decorators f d s = ROk tt s1 ->
    is_self d s1 = false ->
    resolve_partial reg d s1 = None ->
    expand_partial reg data ft (S f) d s = RErr (mk_err (RPartialNotFound (dv_name d))) s1.
  Proof.
    unfold run_block_decorators, is_self, resolve_partial. intros Hd Hself Hres.
    rewrite expand_partial_eq, Hd. cbn [rbind]. cbv zeta. rewrite Hself, Hres. reflexivity.
  Qed.
  Corollary not_found_plain f d s :
    dv_tpl d = None -> is_self d s = false ->
    get_partial s (dv_name d) = None ->
    match s_dev s with Some dm => map_get dm (dv_name d) | None => None end = None ->
    map_get (r_templates reg) (dv_name d) = None ->
    expand_partial reg data ft (S f) d s = RErr (mk_err (RPartialNotFound (dv_name d))) s.
  Proof.
    intros Ht Hs H1 H2 H3. apply not_found; [unfold run_block_decorators; rewrite Ht; reflexivity|exact Hs|].
    rewrite (resolve_block d s H1 H2 H3). exact Ht.
  Qed.

  (* (f) @partial-block: the first use inside a partial called with a block
     (from depth 0 or 1) finds the caller's block ... *)
  Lemma get_partial_block s pb rest :
    s_pb_depth s = 0%Z -> s_pb_stack s = pb :: rest -> get_partial s PARTIAL_BLOCK = Some pb.
  Proof. unfold get_partial. intros -> ->. reflexivity. Qed.

  Theorem partial_block_first_use d merged s1 pb :
    dv_tpl d = Some pb -> str_eqb (dv_name d) PARTIAL_BLOCK = false ->
    (0 <= s_pb_depth s1 <= 1)%Z ->
    get_partial (partial_inner d merged (depth_step d s1)) PARTIAL_BLOCK = Some pb.
  Proof.
    intros Ht Hn Hd. unfold partial_inner, depth_step. rewrite Ht, Hn.
    destruct (Z.ltb 0 (s_pb_depth s1)) eqn:E.
    - apply Z.ltb_lt in E. eapply get_partial_block; [|reflexivity]. cbn. lia.
    - apply Z.ltb_ge in E. eapply get_partial_block; [|reflexivity]. cbn. lia.
  Qed.

  (* ... but entering @partial-block increments the depth, and nothing ever
     puts it back (F3) *)
  Lemma depth_step_block d s :
    dv_name d = PARTIAL_BLOCK -> s_pb_depth (depth_step d s) = (s_pb_depth s + 1)%Z.
  Proof. unfold depth_step. intros ->. reflexivity. Qed.
  Lemma cleanup_keeps_depth d before s : s_pb_depth (partial_cleanup d before s) = s_pb_depth s.
  Proof. unfold partial_cleanup. destruct (dv_tpl d); reflexivity. Qed.
End Partial.

(* ---------- F3: the second {{> @partial-block}} fails ---------- *)
Definition f3_twice_reg : registry :=
  reg_with_strings [(`"p", `"{{> @partial-block}}{{> @partial-block}}"); (`"m", `"{{#> p}}D{{/p}}")].

Theorem refuted_twice :
  exists reg data ft fuel t s e s',
    t = reg_tpl reg (`"m") /\
    map_get (r_templates reg) (`"p") = Some (reg_tpl reg (`"p")) /\
    (exists d1 d2 d0 b, t_els (reg_tpl reg (`"p")) = [ElPartExpr d1; ElPartExpr d2] /\
                        as_name (d_name d1) = Some PARTIAL_BLOCK /\ as_name (d_name d2) = Some PARTIAL_BLOCK /\
                        t_els t = [ElPartBlock d0] /\ d_name d0 = PName (`"p") /\
                        d_tpl d0 = Some b /\ t_els b = [ElRaw (`"D")]) /\
    render_template reg data ft fuel t s = RErr e s' /\
    e_reason e = RPartialNotFound PARTIAL_BLOCK /\
    out_text (s_out s') = `"D".
Proof.
  exists f3_twice_reg, JNull, [], 20%nat, (reg_tpl f3_twice_reg (`"m")), (st_init (Some (`"m")) None None).
  eexists. eexists.
  split; [reflexivity|]. split; [vm_compute; reflexivity|].
  split; [do 4 eexists; vm_compute; repeat split; reflexivity|].
  split; [vm_compute; reflexivity|]. split; vm_compute; reflexivity.
Qed.

(* the same through the registry entry point `render` *)
Theorem refuted_twice_entry :
  exists e, render_named f3_twice_reg [] [] (`"m") JNull None = RoErr e (`"D") [] /\
            e_reason e = RPartialNotFound PARTIAL_BLOCK.
Proof. eexists. split; vm_compute; reflexivity. Qed.

(* a single use works *)
Example single_use_ok :
  render_named (reg_with_strings [(`"p", `"<{{> @partial-block}}>"); (`"m", `"{{#> p}}D{{/p}}")])
               [] [] (`"m") JNull None = RoOk (`"<D>") [] 3.
Proof. vm_compute. reflexivity. Qed.

(* ---------- the hypotheses are satisfiable ---------- *)
Definition ex_reg : registry :=
  reg_with_strings [(`"p", `"[{{a}}{{k}}{{../a}}{{@root.a}}]"); (`"m", `"{{#each l}}{{> p this k=1}}{{/each}}")].
Example partial_spec_ex :
  render_named ex_reg [] [] (`"m")
    (JObj [(`"a", JStr (`"R")); (`"l", JArr [JObj [(`"a", JStr (`"x"))]; JObj [(`"a", JStr (`"y"))]])]) None
  = RoOk (`"[x1xR][y1yR]") [] 12.
Proof. vm_compute. reflexivity. Qed.

Example merge_json_ex :
  merge_json (JObj [(`"a", JNull); (`"b", JBool true)]) [(`"b", JNull); (`"c", JBool false)]
  = JObj [(`"a", JNull); (`"b", JNull); (`"c", JBool false)]
  /\ assoc_last [(`"b", JNull); (`"c", JBool false)] (`"b") = Some JNull
  /\ assoc_last [(`"b", JNull); (`"c", JBool false)] (`"a") = None.
Proof. vm_compute. repeat split; reflexivity. Qed.

Example self_include_ex :
  exists e s', render_template (reg_with_strings [(`"t", `"a{{> t}}")]) JNull [] 20
                 (reg_tpl (reg_with_strings [(`"t", `"a{{> t}}")]) (`"t")) (st_init (Some (`"t")) None None)
               = RErr e s' /\ e_reason e = RCannotIncludeSelf.
Proof. do 2 eexists. split; vm_compute; reflexivity. Qed.

Example not_found_ex :
  exists e, render_named (reg_with_strings [(`"m", `"a{{> nope}}")]) [] [] (`"m") JNull None
            = RoErr e (`"a") [] /\ e_reason e = RPartialNotFound (`"nope").
Proof. eexists. split; vm_compute; reflexivity. Qed.
