(* Proofs/PartialSpec.v -- property C09: a partial renders as its template
   applied to the designated context.  The specification pieces
   (resolve_partial, depth_step, partial_context, partial_inner,
   partial_cleanup, is_self) are in Spec/RenderFrameSpec.v. *)
From HB Require Export Proofs.Frame.
Open Scope N_scope.

(* ---------- strings and maps ---------- *)
Lemma str_eqb_true : forall a b : str, str_eqb a b = true -> a = b.
Proof.
  unfold str_eqb. induction a as [|x a IH]; destruct b as [|y b]; cbn; try discriminate; auto.
  intros H. apply andb_prop in H. destruct H as [H1 H2]. apply N.eqb_eq in H1. subst. f_equal. auto.
Qed.
Lemma str_eqb_refl : forall a : str, str_eqb a a = true.
Proof. unfold str_eqb. induction a as [|x a IH]; cbn; auto. rewrite N.eqb_refl. exact IH. Qed.
Lemma str_eqb_false a b : a <> b -> str_eqb a b = false.
Proof. intros H. destruct (str_eqb a b) eqn:E; [apply str_eqb_true in E; contradiction|reflexivity]. Qed.
Lemma str_cmp_refl : forall a : str, str_cmp a a = Eq.
Proof. induction a as [|x a IH]; cbn [str_cmp]; [reflexivity|]. rewrite N.compare_refl. exact IH. Qed.
Lemma str_cmp_eq_true : forall a b : str, str_cmp a b = Eq -> a = b.
Proof.
  induction a as [|x a IH]; destruct b as [|y b]; cbn [str_cmp]; try discriminate; [reflexivity|].
  destruct (N.compare x y) eqn:E; try discriminate. apply N.compare_eq in E. subst. intros H. f_equal. auto.
Qed.
Lemma str_cmp_ne a b : str_cmp a b <> Eq -> str_eqb a b = false.
Proof. intros H. apply str_eqb_false. intros ->. apply H. apply str_cmp_refl. Qed.

Lemma map_get_insert_same {A} (m : list (str * A)) k v : map_get (map_insert m k v) k = Some v.
Proof.
  induction m as [|[k' v'] r IH]; cbn [map_insert map_get].
  - rewrite str_eqb_refl. reflexivity.
  - destruct (str_cmp k k') eqn:E; cbn [map_get]; rewrite ?str_eqb_refl; try reflexivity.
    rewrite str_cmp_ne by congruence. exact IH.
Qed.
Lemma map_get_insert_other {A} (m : list (str * A)) k v k0 :
  k0 <> k -> map_get (map_insert m k v) k0 = map_get m k0.
Proof.
  intros Hne. induction m as [|[k' v'] r IH]; cbn [map_insert map_get].
  - rewrite str_eqb_false by exact Hne. reflexivity.
  - destruct (str_cmp k k') eqn:E; cbn [map_get].
    + apply str_cmp_eq_true in E. subst k'. rewrite !str_eqb_false by exact Hne. reflexivity.
    + rewrite str_eqb_false by exact Hne. reflexivity.
    + destruct (str_eqb k0 k'); [reflexivity|exact IH].
Qed.

(* ---------- (c) merge_json ---------- *)
(* the last binding of k in an association list (later hash entries override
   earlier ones) *)
Fixpoint assoc_last (l : list (str * json)) (k : str) : option json :=
  match l with
  | [] => None
  | (k', v) :: r =>
      match assoc_last r k with
      | Some v' => Some v'
      | None => if str_eqb k k' then Some v else None
      end
  end.

(* the fields merge_json sees in its base value: an object's own; an array's
   elements and a string's characters under their decimal indices; none for
   null, booleans and numbers *)
Definition base_fields (base : json) : list (str * json) :=
  match base with
  | JObj m => m
  | JArr a => fold_left (fun m '(i, v) => map_insert m (n_to_dec i) v) (enum_from 0 a) []
  | JStr s => fold_left (fun m '(i, c) => map_insert m (n_to_dec i) (JStr [c])) (enum_from 0 s) []
  | _ => []
  end.

Lemma fold_insert_get (add : list (str * json)) : forall m0 k,
  map_get (fold_left (fun m '(k, v) => map_insert m k v) add m0) k =
  match assoc_last add k with Some v => Some v | None => map_get m0 k end.
Proof.
  induction add as [|[k' v] r IH]; intros m0 k; cbn [fold_left assoc_last]; [reflexivity|].
  rewrite IH. destruct (assoc_last r k); [reflexivity|].
  destruct (str_eqb k k') eqn:E.
  - apply str_eqb_true in E. subst. apply map_get_insert_same.
  - apply map_get_insert_other. intros ->. rewrite str_eqb_refl in E. discriminate E.
Qed.

Lemma merge_json_nil base : merge_json base [] = base.
Proof. reflexivity. Qed.

Lemma merge_json_fields base add :
  add <> [] ->
  exists m, merge_json base add = JObj m /\
            forall k, map_get m k = match assoc_last add k with
                                    | Some v => Some v
                                    | None => map_get (base_fields base) k
                                    end.
Proof.
  intros Hne. destruct add as [|x r]; [contradiction|].
  eexists. split; [reflexivity|]. intros k. apply fold_insert_get.
Qed.

(* hash keys override the fields of the base *)
Lemma merge_json_override base add k v :
  assoc_last add k = Some v ->
  exists m, merge_json base add = JObj m /\ map_get m k = Some v.
Proof.
  intros H. destruct (merge_json_fields base add) as (m & E & G).
  - intros ->. discriminate H.
  - exists m. split; [exact E|]. rewrite G, H. reflexivity.
Qed.
(* the other fields of an object base are kept *)
Lemma merge_json_keep bm add k :
  add <> [] -> assoc_last add k = None ->
  exists m, merge_json (JObj bm) add = JObj m /\ map_get m k = map_get bm k.
Proof.
  intros Hne H. destruct (merge_json_fields (JObj bm) add Hne) as (m & E & G).
  exists m. split; [exact E|]. rewrite G, H. reflexivity.
Qed.
(* a base that is null, a boolean or a number contributes nothing *)
Lemma merge_json_scalar base add k :
  add <> [] -> (base = JNull \/ (exists b, base = JBool b) \/ (exists n, base = JNum n)) ->
  exists m, merge_json base add = JObj m /\ map_get m k = assoc_last add k.
Proof.
  intros Hne Hb. destruct (merge_json_fields base add Hne) as (m & E & G).
  exists m. split; [exact E|]. rewrite G.
  destruct (assoc_last add k); [reflexivity|].
  destruct Hb as [->|[[b ->]|[n ->]]]; reflexivity.
Qed.

(* ---------- paths on the one-block stack of a partial ---------- *)
Definition one_block (v : json) : block := b_set_base_value block_new v.

Lemma lv_get_empty name : lv_get lv_empty name = None.
Proof. unfold lv_get. repeat match goal with |- context [if ?c then _ else _] => destruct c end; reflexivity. Qed.

(* no @-variable of any level: @index, @../key, ... of the caller are gone *)
Lemma one_block_locals v level name : get_local_var [one_block v] level name = None.
Proof.
  unfold get_local_var. destruct (N.to_nat level) as [|n]; cbn [nth_error].
  - apply lv_get_empty.
  - destruct n; reflexivity.
Qed.

(* no block parameter of the caller *)
Lemma one_block_params v p : get_in_block_params [one_block v] p = None.
Proof. reflexivity. Qed.

Lemma one_block_scan v segs : forall depth, visitor_scan [one_block v] segs depth = visitor_scan [] segs depth.
Proof.
  induction segs as [|sg r IH]; intros depth; cbn [visitor_scan]; [reflexivity|].
  destruct sg as [p|ru]; [reflexivity|].
  destruct (rule_eqb ru R_path_root); [reflexivity|]. destruct (rule_eqb ru R_path_up); [apply IH|reflexivity].
Qed.

Lemma scan_nil_none segs : forall depth, snd (fst (visitor_scan [] segs depth)) = None.
Proof.
  induction segs as [|sg r IH]; intros depth; cbn [visitor_scan]; [reflexivity|].
  destruct sg as [p|ru]; [reflexivity|].
  destruct (rule_eqb ru R_path_root); [reflexivity|]. destruct (rule_eqb ru R_path_up); [apply IH|reflexivity].
Qed.

(* every path, whatever its ../ prefix, is resolved inside the merged value
   (or from the root data when it starts with @root): nothing of the caller's
   scopes is reachable *)
Lemma one_block_visitor v segs :
  parse_json_visitor segs [one_block v] =
  match visitor_scan [] segs 0 with
  | (O, _, true) => ResAbsolute (merge_json_path segs)
  | _ => ResValue (merge_json_path segs) v
  end.
Proof.
  unfold parse_json_visitor. rewrite one_block_scan.
  pose proof (scan_nil_none segs 0%nat) as Hn.
  destruct (visitor_scan [] segs 0) as [[depth bp] fr]. cbn [fst snd] in Hn. subst bp.
  destruct depth as [|n].
  - cbn [Nat.ltb Nat.leb]. destruct fr; reflexivity.
  - change (Nat.ltb 0 (S n)) with true. cbv iota.
    destruct n; reflexivity.
Qed.

Lemma one_block_up v data segs :
  navigate data (SegRuled R_path_up :: segs) [one_block v] =
  match walk (Some v) (merge_json_path segs) with
  | NavSome v' => NavOk (SDerived v')
  | NavNone => NavOk SMissing
  | NavBadIndex s => NavErr (RInvalidJsonIndex s)
  end.
Proof.
  unfold navigate. rewrite one_block_visitor. cbn [visitor_scan].
  change (rule_eqb R_path_up R_path_root) with false. change (rule_eqb R_path_up R_path_up) with true.
  cbv iota.
  assert (Hd : forall segs d, exists d' bp fr, visitor_scan [] segs (S d) = (S d', bp, fr)).
  { clear. induction segs as [|sg r IH]; intros d; cbn [visitor_scan]; [eauto|].
    destruct sg as [p|ru]; [eauto|].
    destruct (rule_eqb ru R_path_root); [eauto|]. destruct (rule_eqb ru R_path_up); [apply IH|eauto]. }
  destruct (Hd segs 0%nat) as (d' & bp & fr & ->). reflexivity.
Qed.

(* @root paths read the render data whatever the block stack is *)
Lemma root_visitor segs blocks :
  parse_json_visitor (SegRuled R_path_root :: segs) blocks = ResAbsolute (merge_json_path segs).
Proof. reflexivity. Qed.

Lemma root_visible data segs blocks1 blocks2 :
  navigate data (SegRuled R_path_root :: segs) blocks1 = navigate data (SegRuled R_path_root :: segs) blocks2.
Proof. reflexivity. Qed.

(* ---------- expand_partial ---------- *)
(* depth_step changes only the depth *)
Definition same_but_depth (s s' : rstate) : Prop :=
  s_blocks s' = s_blocks s /\ s_pb_stack s' = s_pb_stack s /\ s_current s' = s_current s /\
  s_indent s' = s_indent s /\ s_root s' = s_root s /\ s_dev s' = s_dev s /\
  s_disable_escape s' = s_disable_escape s /\ s_partials s' = s_partials s.
Lemma depth_step_res d s : same_but_depth s (depth_step d s).
Proof.
  unfold depth_step, same_but_depth. destruct (str_eqb (dv_name d) PARTIAL_BLOCK); [|intuition].
  destruct (current_pb s) as [[pb d0]|]; st_cbn; intuition.
Qed.
Lemma depth_step_current d s : s_current (depth_step d s) = s_current s.
Proof. apply (depth_step_res d s). Qed.

Lemma partial_context_st data d s v s' : partial_context data d s = ROk v s' -> s' = s.
Proof.
  unfold partial_context. intros H.
  destruct (dv_params d) as [|p ps].
  - inv. match goal with H : evaluate2 _ _ _ = _ |- _ => apply evaluate2_st in H end. assumption.
  - destruct (pj_rel p).
    + inv. match goal with H : evaluate _ _ _ = _ |- _ => apply evaluate_st in H end. assumption.
    + inv. reflexivity.
Qed.
Lemma partial_context_err_st data d s e s' : partial_context data d s = RErr e s' -> s' = s.
Proof.
  unfold partial_context, evaluate, evaluate2, rfail. intros H.
  destruct (dv_params d) as [|p ps].
  - cbn in H. destruct (navigate data [] (s_blocks s)); cbn in H; try discriminate H.
    injection H as _ <-. reflexivity.
  - destruct (pj_rel p); [|discriminate H].
    destruct (path_parse s0) as [[segs raw|lv nm raw]|]; cbn in H.
    + destruct (navigate data segs (s_blocks s)); cbn in H; try discriminate H. injection H as _ <-. reflexivity.
    + discriminate H.
    + injection H as _ <-. reflexivity.
Qed.

Section Partial.
  Variable reg : registry.
  Variable data : json.
  Variable ft : ftable.

  Definition run_block_decorators (f : nat) (d : deco_v) (s : rstate) : rres unit :=
    match dv_tpl d with Some t => eval_template reg data ft f t s | None => ROk tt s end.

  (* (a) the unfolding characterisation, in general ... *)
  Theorem expand_partial_unfold f d s :
    expand_partial reg data ft (S f) d s =
    rbind (run_block_decorators f d s) (fun _ s1 =>
      if is_self d s1 then rfail RCannotIncludeSelf s1
      else match resolve_partial reg d s1 with
           | None => rfail (RPartialNotFound (dv_name d)) s1
           | Some partial =>
               rbind (partial_context data d (depth_step d s1)) (fun merged s3 =>
                 match render_template reg data ft f partial (partial_inner d merged s3) with
                 | ROk u s7 => ROk u (partial_cleanup d s1 s7)
                 | RErr e s7 => RErr e (partial_cleanup d s1 s7)
                 | RPanic p => RPanic p
                 | RFuel => RFuel
                 end)
           end).
  Proof.
    rewrite expand_partial_eq. unfold run_block_decorators.
    destruct (match dv_tpl d with Some t => eval_template reg data ft f t s | None => ROk tt s end)
      as [[] s1|e s1|p|]; cbn [rbind]; try reflexivity.
    cbv zeta. fold (is_self d s1). destruct (is_self d s1); [reflexivity|].
    fold (resolve_partial reg d s1). destruct (resolve_partial reg d s1) as [partial|]; [|reflexivity].
    fold (depth_step d s1). fold (hash_values d). fold (partial_context data d (depth_step d s1)).
    destruct (partial_context data d (depth_step d s1)) as [merged s3|e s3|p|] eqn:Hc; cbn [rbind]; try reflexivity.
    apply partial_context_st in Hc. subst s3.
    assert (Hb : s_blocks (depth_step d s1) = s_blocks s1) by (apply (depth_step_res d s1)).
    unfold partial_cleanup, partial_inner. rewrite Hb.
    destruct (render_template reg data ft f partial _); reflexivity.
  Qed.

  (* ... and when the decorators ran, the name is not the current template and
     the partial is found *)
  Theorem partial_spec f d s s1 partial :
    run_block_decorators f d s = ROk tt s1 ->
    is_self d s1 = false ->
    resolve_partial reg d s1 = Some partial ->
    expand_partial reg data ft (S f) d s =
    rbind (partial_context data d (depth_step d s1)) (fun merged s3 =>
      match render_template reg data ft f partial (partial_inner d merged s3) with
      | ROk u s7 => ROk u (partial_cleanup d s1 s7)
      | RErr e s7 => RErr e (partial_cleanup d s1 s7)
      | RPanic p => RPanic p
      | RFuel => RFuel
      end).
  Proof.
    intros Hd Hself Hres. rewrite expand_partial_unfold, Hd. cbn [rbind]. rewrite Hself, Hres. reflexivity.
  Qed.

  (* inversion of a successful partial call into its stages *)
  Theorem partial_ok_inv f d s s' :
    expand_partial reg data ft (S f) d s = ROk tt s' ->
    exists s1 partial merged s7,
      run_block_decorators f d s = ROk tt s1 /\
      is_self d s1 = false /\
      resolve_partial reg d s1 = Some partial /\
      partial_context data d (depth_step d s1) = ROk merged (depth_step d s1) /\
      render_template reg data ft f partial (partial_inner d merged (depth_step d s1)) = ROk tt s7 /\
      s' = partial_cleanup d s1 s7.
  Proof.
    intros H. pose proof H as H0. rewrite expand_partial_eq in H0.
    apply rbind_ok in H0. destruct H0 as ([] & s1 & Hd & H0). cbv zeta in H0.
    fold (is_self d s1) in H0. destruct (is_self d s1) eqn:Hself; [discriminate H0|].
    fold (resolve_partial reg d s1) in H0.
    destruct (resolve_partial reg d s1) as [partial|] eqn:Hres; [|discriminate H0]. clear H0.
    rewrite (partial_spec f d s s1 partial Hd Hself Hres) in H.
    apply rbind_ok in H. destruct H as (merged & s3 & Hc & H).
    pose proof (partial_context_st _ _ _ _ _ Hc) as ->.
    destruct (render_template reg data ft f partial _) as [[] s7| | |] eqn:Hr; try discriminate H.
    injection H as <-. exists s1, partial, merged, s7. repeat split; assumption.
  Qed.

  (* the restore facts: after a successful partial call the block stack, the
     indent string, the current template name, the partial-block stack and the
     partial-block depth are those of the state in which the partial was
     looked up *)
  Theorem partial_restores f d s s' :
    expand_partial reg data ft (S f) d s = ROk tt s' ->
    exists s1, run_block_decorators f d s = ROk tt s1 /\
      s_blocks s' = s_blocks s1 /\ s_indent s' = s_indent s1 /\
      s_current s' = s_current s1 /\ s_pb_stack s' = s_pb_stack s1 /\
      s_pb_depth s' = s_pb_depth s1.
  Proof.
    intros H. apply partial_ok_inv in H.
    destruct H as (s1 & partial & merged & s7 & Hd & _ & _ & _ & Hr & ->).
    exists s1. split; [exact Hd|]. apply frame_template in Hr.
    pose proof (depth_step_res d s1) as Hs.
    unfold partial_cleanup, partial_inner, same_but_depth in *.
    destruct (dv_tpl d); res2.
  Qed.

  (* and with respect to the state before the call: everything in `restored` *)
  Theorem partial_restored f d s s' :
    expand_partial reg data ft (S f) d s = ROk tt s' -> restored s s'.
  Proof. apply (fr_expand_partial _ _ _ _ (frame_all reg data ft (S f))). Qed.

  (* hash arguments (and the context argument) are invisible after the call:
     the block stack is the caller's again *)
  Theorem hash_invisible_after f d s s' :
    expand_partial reg data ft (S f) d s = ROk tt s' -> s_blocks s' = s_blocks s.
  Proof.
    intros H. apply partial_restores in H. destruct H as (s1 & Hd & Hb & _).
    rewrite Hb. unfold run_block_decorators in Hd.
    destruct (dv_tpl d); [|injection Hd as <-; reflexivity].
    apply (fr_eval_template _ _ _ _ (frame_all reg data ft f)) in Hd. apply Hd.
  Qed.

  (* inside, the stack is the single block holding the merged value *)
  Lemma partial_inner_blocks d merged s : s_blocks (partial_inner d merged s) = [one_block merged].
  Proof. unfold partial_inner. destruct (dv_tpl d); reflexivity. Qed.

  Theorem caller_scopes_hidden d merged s :
    (forall level name, get_local_var (s_blocks (partial_inner d merged s)) level name = None) /\
    (forall p, get_in_block_params (s_blocks (partial_inner d merged s)) p = None) /\
    (forall segs, parse_json_visitor segs (s_blocks (partial_inner d merged s)) =
                  match visitor_scan [] segs 0 with
                  | (O, _, true) => ResAbsolute (merge_json_path segs)
                  | _ => ResValue (merge_json_path segs) merged
                  end).
  Proof.
    rewrite partial_inner_blocks. split; [|split]; intros.
    - apply one_block_locals. - apply one_block_params. - apply one_block_visitor.
  Qed.

  (* (b) resolution order *)
  Lemma resolve_inline d s p : get_partial s (dv_name d) = Some p -> resolve_partial reg d s = Some p.
  Proof. unfold resolve_partial. intros ->. reflexivity. Qed.
  Lemma resolve_dev d s dm p :
    get_partial s (dv_name d) = None -> s_dev s = Some dm -> map_get dm (dv_name d) = Some p ->
    resolve_partial reg d s = Some p.
  Proof. unfold resolve_partial. intros -> -> ->. reflexivity. Qed.
  Lemma resolve_registry d s p :
    get_partial s (dv_name d) = None ->
    match s_dev s with Some dm => map_get dm (dv_name d) | None => None end = None ->
    map_get (r_templates reg) (dv_name d) = Some p ->
    resolve_partial reg d s = Some p.
  Proof. unfold resolve_partial. intros -> -> ->. reflexivity. Qed.
  Lemma resolve_block d s :
    get_partial s (dv_name d) = None ->
    match s_dev s with Some dm => map_get dm (dv_name d) | None => None end = None ->
    map_get (r_templates reg) (dv_name d) = None ->
    resolve_partial reg d s = dv_tpl d.
  Proof. unfold resolve_partial. intros -> -> ->. reflexivity. Qed.

  Lemma get_partial_inline s name :
    str_eqb name PARTIAL_BLOCK = false -> get_partial s name = map_get (s_partials s) name.
  Proof. unfold get_partial. intros ->. reflexivity. Qed.

  (* an inline partial is visible from its definition onward, and takes
     precedence over a registered template of the same name *)
  Lemma inline_defined s name t d :
    str_eqb name PARTIAL_BLOCK = false -> dv_name d = name ->
    resolve_partial reg d (set_partials s (map_insert (s_partials s) name t)) = Some t.
  Proof.
    intros Hn Hd. apply resolve_inline. rewrite Hd, get_partial_inline by exact Hn.
    cbn [s_partials set_partials]. apply map_get_insert_same.
  Qed.

  Lemma inline_decorator_defines f dt s s1 d p ps name t :
    deco_from_template reg data ft f dt s = ROk d s1 ->
    map_get (r_decorators reg) (dv_name d) = Some DInline ->
    dv_params d = p :: ps -> pj_value p = JStr name -> dv_tpl d = Some t ->
    eval_decorator reg data ft (S f) dt s = ROk tt (set_partials s1 (map_insert (s_partials s1) name t)).
  Proof.
    intros Hd Hm Hp Hv Ht. rewrite eval_decorator_eq, Hd. cbn [rbind]. rewrite Hm, Hp, Hv, Ht. reflexivity.
  Qed.

  (* the name may be computed by a subexpression: it is the rendering of the
     subexpression's value *)
  Lemma dynamic_name f e s :
    expand_as_name reg data ft (S f) (PSub e) s =
    rbind (expand_param reg data ft f (PSub e) s) (fun v s1 => ROk (render_json ft (pj_value v)) s1).
  Proof. apply expand_as_name_eq. Qed.

  (* (d) directly including the template being rendered *)
  Theorem self_include f d s s1 :
    run_block_decorators f d s = ROk tt s1 ->
    s_current s1 = Some (dv_name d) ->
    expand_partial reg data ft (S f) d s = RErr (mk_err RCannotIncludeSelf) s1.
  Proof.
    unfold run_block_decorators. intros Hd Hc. rewrite expand_partial_eq, Hd. cbn [rbind]. cbv zeta.
    rewrite Hc, str_eqb_refl. reflexivity.
  Qed.
  Corollary self_include_plain f d s :
    dv_tpl d = None -> s_current s = Some (dv_name d) ->
    expand_partial reg data ft (S f) d s = RErr (mk_err RCannotIncludeSelf) s.
  Proof. intros Ht Hc. apply self_include; [unfold run_block_decorators; rewrite Ht; reflexivity|exact Hc]. Qed.

  (* the same at the level of the partial element, in whatever state of the
     template's body it is reached: the current name survives every finished
     element (frame), so {{> n}} inside the template n is always refused *)
  Theorem self_include_element f dt s d s2 :
    deco_from_template reg data ft (S f) dt s = ROk d s2 ->
    s_current s = Some (dv_name d) -> dv_tpl d = None ->
    exists s3, render_element reg data ft (S (S (S f))) (ElPartExpr dt) s = RErr (mk_err RCannotIncludeSelf) s3.
  Proof.
    intros Hd Hc Ht. rewrite render_element_eq, render_partial_eq, Hd. cbn [rbind]. cbv zeta.
    rewrite self_include_plain; [eexists; reflexivity|exact Ht|].
    apply (fr_deco_from_template _ _ _ _ (frame_all reg data ft (S f))) in Hd.
    destruct Hd as (_ & _ & _ & Hcur & _). st_cbn. congruence.
  Qed.

  Theorem self_include_after_elements f f' (g : nat -> rerror -> rerror) A i s0 s1 n dt d s2 :
    fold_idx (fun e idx s' => rmap_err (render_element reg data ft f' e s') (g idx)) A i s0 = ROk tt s1 ->
    s_current s0 = Some n ->
    deco_from_template reg data ft (S f) dt s1 = ROk d s2 -> dv_name d = n -> dv_tpl d = None ->
    exists s3, render_element reg data ft (S (S (S f))) (ElPartExpr dt) s1 = RErr (mk_err RCannotIncludeSelf) s3.
  Proof.
    intros HA Hc Hd Hn Ht. apply frame_elements in HA. destruct HA as (_ & _ & _ & Hcur & _).
    eapply self_include_element; [exact Hd| |exact Ht]. congruence.
  Qed.

  (* (e) an unknown partial without a block *)
  Theorem not_found f d s s1 :
    run_block_decorators f d s = ROk tt s1 ->
    is_self d s1 = false ->
    resolve_partial reg d s1 = None ->
    expand_partial reg data ft (S f) d s = RErr (mk_err (RPartialNotFound (dv_name d))) s1.
  Proof.
    unfold run_block_decorators, is_self, resolve_partial. intros Hd Hself Hres.
    rewrite expand_partial_eq, Hd. cbn [rbind]. cbv zeta. rewrite Hself, Hres. reflexivity.
  Qed.
  Corollary not_found_plain f d s :
    dv_tpl d = None -> is_self d s = false ->
    get_partial s (dv_name d) = None ->
    match s_dev s with Some dm => map_get dm (dv_name d) | None => None end = None ->
    map_get (r_templates reg) (dv_name d) = None ->
    expand_partial reg data ft (S f) d s = RErr (mk_err (RPartialNotFound (dv_name d))) s.
  Proof.
    intros Ht Hs H1 H2 H3. apply not_found; [unfold run_block_decorators; rewrite Ht; reflexivity|exact Hs|].
    rewrite (resolve_block d s H1 H2 H3). exact Ht.
  Qed.

  (* (f) @partial-block.  Inside a partial called with a block pb, the
     @partial-block binding is pb, recorded with the depth current at the call *)
  Theorem partial_block_bound d merged s pb :
    dv_tpl d = Some pb ->
    current_pb (partial_inner d merged s) = Some (pb, s_pb_depth s) /\
    get_partial (partial_inner d merged s) PARTIAL_BLOCK = Some pb.
  Proof.
    intros Ht.
    assert (H : current_pb (partial_inner d merged s) = Some (pb, s_pb_depth s)).
    { unfold current_pb, partial_inner. rewrite Ht. st_cbn. cbn [List.length].
      replace (Z.ltb (Z.of_nat (S (List.length (s_pb_stack s)))) 1) with false by (symmetry; apply Z.ltb_ge; lia).
      rewrite Z.ltb_irrefl. cbn [orb]. rewrite Z.sub_diag. reflexivity. }
    split; [exact H|]. unfold get_partial. rewrite str_eqb_refl, H. reflexivity.
  Qed.

  (* entering {{> @partial-block}} when the binding is (pb, d0): the template
     rendered is pb, and inside it @partial-block is entry d0: the binding of
     the place where pb was written *)
  Theorem partial_block_enter d s pb d0 :
    dv_name d = PARTIAL_BLOCK -> current_pb s = Some (pb, d0) ->
    resolve_partial reg d s = Some pb /\ depth_step d s = set_pb_depth s d0.
  Proof.
    intros Hn Hc. split.
    - apply resolve_inline. rewrite Hn. unfold get_partial. rewrite str_eqb_refl, Hc. reflexivity.
    - unfold depth_step. rewrite Hn, str_eqb_refl, Hc. reflexivity.
  Qed.

  (* which entry a depth denotes depends only on the entries below it: pushing
     further blocks on top (nested partial calls) does not change it *)
  Lemma nth_error_rev {A} (l : list A) k :
    (k < List.length l)%nat -> nth_error l (List.length l - S k) = nth_error (rev l) k.
  Proof.
    intros Hk. destruct l as [|d l']; [cbn in Hk; lia|].
    rewrite (nth_error_nth' (d :: l') d) by lia.
    rewrite (nth_error_nth' (rev (d :: l')) d) by (rewrite rev_length; exact Hk).
    rewrite rev_nth by exact Hk. reflexivity.
  Qed.

  Lemma current_pb_spec s :
    current_pb s =
    if Z.ltb (s_pb_depth s) 1 || Z.ltb (Z.of_nat (List.length (s_pb_stack s))) (s_pb_depth s) then None
    else nth_error (rev (s_pb_stack s)) (Z.to_nat (s_pb_depth s - 1)).
  Proof.
    unfold current_pb. cbv zeta.
    destruct (Z.ltb (s_pb_depth s) 1) eqn:E1; [reflexivity|].
    destruct (Z.ltb (Z.of_nat (List.length (s_pb_stack s))) (s_pb_depth s)) eqn:E2; [reflexivity|].
    cbn [orb]. apply Z.ltb_ge in E1. apply Z.ltb_ge in E2.
    rewrite <- nth_error_rev by lia. f_equal. lia.
  Qed.

  Theorem current_pb_below sA sB top :
    s_pb_depth sB = s_pb_depth sA -> s_pb_stack sB = top ++ s_pb_stack sA ->
    (s_pb_depth sA <= Z.of_nat (List.length (s_pb_stack sA)))%Z ->
    current_pb sB = current_pb sA.
  Proof.
    intros Hd Hs Hle. rewrite !current_pb_spec, Hd, Hs, rev_app_distr, app_length.
    destruct (Z.ltb (s_pb_depth sA) 1) eqn:E1; [reflexivity|]. cbn [orb]. apply Z.ltb_ge in E1.
    replace (Z.ltb (Z.of_nat (List.length top + List.length (s_pb_stack sA))) (s_pb_depth sA)) with false
      by (symmetry; apply Z.ltb_ge; lia).
    replace (Z.ltb (Z.of_nat (List.length (s_pb_stack sA))) (s_pb_depth sA)) with false
      by (symmetry; apply Z.ltb_ge; lia).
    apply nth_error_app1. rewrite rev_length. lia.
  Qed.

  (* closure semantics: a block body passed at a call site (binding: depth dc
     over the stack `base`) and used later through {{> @partial-block}} -- from
     any state whose stack extends `base` and whose binding is that body's
     entry (pb, dc) -- is rendered with @partial-block bound exactly as at the
     call site *)
  Theorem partial_block_closure d s1 pb dc top sc :
    dv_name d = PARTIAL_BLOCK -> current_pb s1 = Some (pb, dc) ->
    s_pb_stack s1 = top ++ s_pb_stack sc -> s_pb_depth sc = dc ->
    (dc <= Z.of_nat (List.length (s_pb_stack sc)))%Z ->
    resolve_partial reg d s1 = Some pb /\
    current_pb (depth_step d s1) = current_pb sc.
  Proof.
    intros Hn Hc Hs Hd Hle. destruct (partial_block_enter d s1 pb dc Hn Hc) as [Hr ->].
    split; [exact Hr|]. apply (current_pb_below sc (set_pb_depth s1 dc) top); st_cbn; congruence.
  Qed.

  (* the side condition of partial_block_closure is an invariant: the depth
     never exceeds the stack, and every entry's recorded depth is at most the
     number of entries below it.  It holds initially and is kept by every step
     that touches these fields (and by every finished function, by `restored`) *)
  Fixpoint entries_ok (st : list (template * Z)) : Prop :=
    match st with
    | [] => True
    | (_, d0) :: r => (0 <= d0 <= Z.of_nat (List.length r))%Z /\ entries_ok r
    end.
  Definition pb_ok (s : rstate) : Prop :=
    (0 <= s_pb_depth s <= Z.of_nat (List.length (s_pb_stack s)))%Z /\ entries_ok (s_pb_stack s).

  Lemma pb_ok_init root dev fa : pb_ok (st_init root dev fa).
  Proof. split; cbn; [lia|exact I]. Qed.
  Lemma pb_ok_restored s s' : restored s s' -> pb_ok s -> pb_ok s'.
  Proof. intros (_ & H2 & H3 & _). unfold pb_ok. rewrite H2, H3. exact (fun H => H). Qed.
  Lemma entries_ok_nth st : forall i t d0, entries_ok st -> nth_error st i = Some (t, d0) ->
    (0 <= d0 <= Z.of_nat (List.length st))%Z.
  Proof.
    induction st as [|[t' d'] r IH]; intros i t d0 Hok Hn; [destruct i; discriminate Hn|].
    destruct Hok as [H1 H2]. destruct i as [|i]; cbn [nth_error] in Hn.
    - injection Hn as -> ->. cbn [List.length]. lia.
    - specialize (IH _ _ _ H2 Hn). cbn [List.length]. lia.
  Qed.
  Lemma pb_ok_depth_step d s : pb_ok s -> pb_ok (depth_step d s).
  Proof.
    intros [H1 H2]. unfold depth_step. destruct (str_eqb (dv_name d) PARTIAL_BLOCK); [|split; assumption].
    destruct (current_pb s) as [[pb d0]|] eqn:E; [|split; assumption].
    split; [|exact H2]. st_cbn. unfold current_pb in E. cbv zeta in E.
    destruct (_ || _) in E; [discriminate E|]. eapply entries_ok_nth; eassumption.
  Qed.
  Lemma pb_ok_inner d merged s : pb_ok s -> pb_ok (partial_inner d merged s).
  Proof.
    intros [H1 H2]. unfold partial_inner, pb_ok. destruct (dv_tpl d); st_cbn; [|split; assumption].
    cbn [List.length entries_ok]. split; [lia|]. split; assumption.
  Qed.
  Lemma pb_ok_closure_side s : pb_ok s -> (s_pb_depth s <= Z.of_nat (List.length (s_pb_stack s)))%Z.
  Proof. intros [H _]. lia. Qed.

  Lemma pb_ok_invariant :
    (forall root dev fa, pb_ok (st_init root dev fa)) /\
    (forall s s', restored s s' -> pb_ok s -> pb_ok s') /\
    (forall d s, pb_ok s -> pb_ok (depth_step d s)) /\
    (forall d merged s, pb_ok s -> pb_ok (partial_inner d merged s)) /\
    (forall s, pb_ok s -> (s_pb_depth s <= Z.of_nat (List.length (s_pb_stack s)))%Z).
  Proof.
    split; [exact pb_ok_init|]. split; [exact pb_ok_restored|]. split; [exact pb_ok_depth_step|].
    split; [exact pb_ok_inner|exact pb_ok_closure_side].
  Qed.

  (* entering @partial-block changes only the depth; the cleanup puts it back *)
  Lemma cleanup_restores_depth d before s : s_pb_depth (partial_cleanup d before s) = s_pb_depth before.
  Proof. unfold partial_cleanup. destruct (dv_tpl d); reflexivity. Qed.
End Partial.

(* ---------- @partial-block any number of times ---------- *)
(* after any prefix A of a run of elements, the @partial-block binding is the
   one the run started with: the k-th use sees what the first use saw *)
Theorem partial_block_every_use reg data ft f (g : nat -> rerror -> rerror) A B i s0 s' :
  fold_idx (fun e idx s' => rmap_err (render_element reg data ft f e s') (g idx)) (A ++ B) i s0 = ROk tt s' ->
  exists s1,
    fold_idx (fun e idx s' => rmap_err (render_element reg data ft f e s') (g idx)) A i s0 = ROk tt s1 /\
    fold_idx (fun e idx s' => rmap_err (render_element reg data ft f e s') (g idx)) B (i + List.length A)%nat s1
    = ROk tt s' /\
    restored s0 s1 /\
    get_partial s1 PARTIAL_BLOCK = get_partial s0 PARTIAL_BLOCK.
Proof.
  rewrite fold_idx_app. intros H. apply rbind_ok in H. destruct H as ([] & s1 & H1 & H2).
  exists s1. split; [exact H1|]. split; [exact H2|].
  pose proof (frame_elements _ _ _ _ _ _ _ _ _ H1) as Hr. split; [exact Hr|apply restored_partial_block; exact Hr].
Qed.

(* hence inside a partial called with a block pb, before every top-level
   element of the partial's body -- whatever came before it, including earlier
   uses of {{> @partial-block}} -- @partial-block is pb, recorded with the
   depth of the call site *)
Theorem partial_block_all_uses reg data ft f d merged s1 pb partial A B s' :
  dv_tpl d = Some pb ->
  t_els partial = A ++ B ->
  render_template reg data ft (S f) partial (partial_inner d merged s1) = ROk tt s' ->
  exists sA,
    fold_idx (fun e idx s' => rmap_err (render_element reg data ft f e s') (attach_render partial idx)) A 0%nat
             (set_current (partial_inner d merged s1) (t_name partial)) = ROk tt sA /\
    current_pb sA = Some (pb, s_pb_depth s1) /\
    get_partial sA PARTIAL_BLOCK = Some pb.
Proof.
  intros Ht Hsplit H. apply render_template_ok in H. destruct H as (s2 & H & _).
  rewrite Hsplit in H. apply partial_block_every_use in H. destruct H as (sA & HA & _ & Hr & Hg).
  exists sA. split; [exact HA|].
  destruct (partial_block_bound d merged s1 pb Ht) as [Hc Hp]. split.
  - rewrite (restored_current_pb _ _ Hr). exact Hc.
  - rewrite Hg. exact Hp.
Qed.

(* (was F3) p = {{> @partial-block}}{{> @partial-block}}, m = {{#> p}}D{{/p}} *)
Definition f3_twice_reg : registry :=
  reg_with_strings [(`"p", `"{{> @partial-block}}{{> @partial-block}}"); (`"m", `"{{#> p}}D{{/p}}")].

Example twice_ok :
  render_named f3_twice_reg [] [] (`"m") JNull None = RoOk (`"DD") [] 2.
Proof. vm_compute. reflexivity. Qed.

Example twice_angle_ok :
  render_named (reg_with_strings [(`"p", `"<{{> @partial-block}}{{> @partial-block}}>"); (`"m", `"{{#> p}}D{{/p}}")])
               [] [] (`"m") JNull None = RoOk (`"<DD>") [] 4.
Proof. vm_compute. reflexivity. Qed.

(* nested partial blocks resolve @partial-block lexically (this looped before
   the repair) *)
Example nested_lexical_ok :
  render_named (reg_with_strings [(`"l3", `"[{{> @partial-block}}]");
                                  (`"l2", `"<{{#> l3}}{{#> l3}}{{> @partial-block}}{{/l3}}{{/l3}}>");
                                  (`"m", `"{{#> l2}}X{{/l2}}")])
               [] [] (`"m") JNull None = RoOk (`"<[[X]]>") [] 7.
Proof. vm_compute. reflexivity. Qed.

Example thrice_nested_ok :
  render_named (reg_with_strings [(`"q", `"({{> @partial-block}}{{> @partial-block}})");
                                  (`"p", `"<{{#> q}}{{> @partial-block}}{{/q}}{{> @partial-block}}>");
                                  (`"m", `"{{#> p}}D{{/p}}")])
               [] [] (`"m") JNull None = RoOk (`"<(DD)D>") [] 7.
Proof. vm_compute. reflexivity. Qed.

(* a single use works *)
Example single_use_ok :
  render_named (reg_with_strings [(`"p", `"<{{> @partial-block}}>"); (`"m", `"{{#> p}}D{{/p}}")])
               [] [] (`"m") JNull None = RoOk (`"<D>") [] 3.
Proof. vm_compute. reflexivity. Qed.

(* ---------- the hypotheses are satisfiable ---------- *)
Definition ex_reg : registry :=
  reg_with_strings [(`"p", `"[{{a}}{{k}}{{../a}}{{@root.a}}]"); (`"m", `"{{#each l}}{{> p this k=1}}{{/each}}")].
Example partial_spec_ex :
  render_named ex_reg [] [] (`"m")
    (JObj [(`"a", JStr (`"R")); (`"l", JArr [JObj [(`"a", JStr (`"x"))]; JObj [(`"a", JStr (`"y"))]])]) None
  = RoOk (`"[x1xR][y1yR]") [] 12.
Proof. vm_compute. reflexivity. Qed.

Definition ex_dv : deco_v :=
  {| dv_name := `"p"; dv_params := []; dv_hash := [(`"k", {| pj_rel := None; pj_val := SConstant (JNum (PosInt 1)) |})];
     dv_tpl := None; dv_indent := None |}.
Example partial_spec_hyps_ex :
  run_block_decorators ex_reg JNull [] 5 ex_dv (st_init None None None) = ROk tt (st_init None None None) /\
  is_self ex_dv (st_init None None None) = false /\
  resolve_partial ex_reg ex_dv (st_init None None None) = Some (reg_tpl ex_reg (`"p")) /\
  partial_context (JObj [(`"a", JNull)]) ex_dv (depth_step ex_dv (st_init None None None))
  = ROk (JObj [(`"a", JNull); (`"k", JNum (PosInt 1))]) (st_init None None None).
Proof. vm_compute. repeat split; reflexivity. Qed.

Example merge_json_ex :
  merge_json (JObj [(`"a", JNull); (`"b", JBool true)]) [(`"b", JNull); (`"c", JBool false)]
  = JObj [(`"a", JNull); (`"b", JNull); (`"c", JBool false)]
  /\ assoc_last [(`"b", JNull); (`"c", JBool false)] (`"b") = Some JNull
  /\ assoc_last [(`"b", JNull); (`"c", JBool false)] (`"a") = None.
Proof. vm_compute. repeat split; reflexivity. Qed.

Example self_include_ex :
  exists e s', render_template (reg_with_strings [(`"t", `"a{{> t}}")]) JNull [] 20
                 (reg_tpl (reg_with_strings [(`"t", `"a{{> t}}")]) (`"t")) (st_init (Some (`"t")) None None)
               = RErr e s' /\ e_reason e = RCannotIncludeSelf.
Proof. do 2 eexists. split; vm_compute; reflexivity. Qed.

(* (was F4) the self-include after a finished block is now refused *)
Example self_include_after_block_ex :
  exists e, render_named (reg_with_strings [(`"t", `"{{#if true}}x{{/if}}{{> t}}")]) [] [] (`"t") JNull None
            = RoErr e (`"x") [] /\ e_reason e = RCannotIncludeSelf.
Proof. eexists. split; vm_compute; reflexivity. Qed.

Example not_found_ex :
  exists e, render_named (reg_with_strings [(`"m", `"a{{> nope}}")]) [] [] (`"m") JNull None
            = RoErr e (`"a") [] /\ e_reason e = RPartialNotFound (`"nope").
Proof. eexists. split; vm_compute; reflexivity. Qed.
