(* Proofs/ErrorPos.v — C18, render side: a render error points at the tag that
   failed. *)
From Coq Require Import List Lia NArith ZArith.
From HB Require Import Rt.Render Reg.RegOps Spec.RenderAll Spec.ErrorOrigin Proofs.RenderInd.
Import ListNotations.
Open Scope N_scope.

(* ====================================================================== *)
(** * 1. fold_idx fails at the first failing index *)

Lemma fold_idx_err {A} (step : A -> nat -> rstate -> rres unit) l i s e s' :
  fold_idx step l i s = RErr e s' ->
  exists n x s0,
    nth_error l n = Some x /\
    fold_idx step (firstn n l) i s = ROk tt s0 /\
    step x (i + n)%nat s0 = RErr e s'.
Proof.
  revert i s. induction l as [|x r IH]; intros i s H; cbn [fold_idx] in H; [discriminate|].
  destruct (step x i s) as [[] s1|e1 s1|p|] eqn:E; cbn [rbind] in H; try discriminate.
  - destruct (IH _ _ H) as (n & y & s0 & Hn & Hpre & Hy).
    exists (S n), y, s0. cbn [nth_error firstn fold_idx]. rewrite E. cbn [rbind].
    replace (i + S n)%nat with (S i + n)%nat by lia. auto.
  - inversion H; subst. exists 0%nat, x, s. cbn [nth_error firstn fold_idx].
    rewrite Nat.add_0_r. auto.
Qed.

(* on the successful prefix the error decoration is invisible *)
Lemma fold_idx_ok_rmap {A} (step : A -> nat -> rstate -> rres unit) (g : A -> nat -> rerror -> rerror)
      l i s s0 :
  fold_idx (fun x j s' => rmap_err (step x j s') (g x j)) l i s = ROk tt s0 <->
  fold_idx step l i s = ROk tt s0.
Proof.
  revert i s. induction l as [|x r IH]; intros i s; cbn [fold_idx]; [tauto|].
  destruct (step x i s) as [[] s1|e1 s1|p|]; cbn [rmap_err rbind]; try (split; discriminate).
  apply IH.
Qed.

Theorem render_error_origin : forall reg data ft f t s e s',
  render_template reg data ft (S f) t s = RErr e s' ->
  exists idx el s0 e0,
    nth_error (t_els t) idx = Some el /\
    fold_idx (fun x _ s1 => render_element reg data ft f x s1) (firstn idx (t_els t)) 0
             (set_current s (t_name t)) = ROk tt s0 /\
    render_element reg data ft f el s0 = RErr e0 s' /\
    e = attach_render t idx e0.
Proof.
  intros reg data ft f t s e s' H. rewrite render_template_S in H.
  destruct (fold_idx _ (t_els t) 0 (set_current s (t_name t))) as [u s1|e1 s1|p|] eqn:E;
    cbn [rbind] in H; try discriminate.
  inversion H; subst. apply fold_idx_err in E. destruct E as (n & x & s0 & Hn & Hpre & Hx).
  cbn [Nat.add] in Hx.
  destruct (render_element reg data ft f x s0) as [u s2|e0 s2|p|] eqn:Ex; cbn [rmap_err] in Hx;
    try discriminate.
  inversion Hx; subst. exists n, x, s0, e0. split; [exact Hn|]. split; [|split; [exact Ex|reflexivity]].
  apply (fold_idx_ok_rmap (fun x _ s1 => render_element reg data ft f x s1)
           (fun _ j => attach_render t j)). exact Hpre.
Qed.

Theorem eval_error_origin : forall reg data ft f t s e s',
  eval_template reg data ft (S f) t s = RErr e s' ->
  exists idx el s0 e0,
    nth_error (t_els t) idx = Some el /\
    fold_idx (fun x _ s1 => eval_element reg data ft f x s1) (firstn idx (t_els t)) 0 s = ROk tt s0 /\
    eval_element reg data ft f el s0 = RErr e0 s' /\
    e = attach_eval t idx e0.
Proof.
  intros reg data ft f t s e s' H. rewrite eval_template_S in H.
  apply fold_idx_err in H. destruct H as (n & x & s0 & Hn & Hpre & Hx). cbn [Nat.add] in Hx.
  destruct (eval_element reg data ft f x s0) as [u s2|e0 s2|p|] eqn:Ex; cbn [rmap_err] in Hx;
    try discriminate.
  inversion Hx; subst. exists n, x, s0, e0. split; [exact Hn|]. split; [|split; [exact Ex|reflexivity]].
  apply (fold_idx_ok_rmap (fun x _ s1 => eval_element reg data ft f x s1)
           (fun _ j => attach_eval t j)). exact Hpre.
Qed.

(* ====================================================================== *)
(** * 2. what the decoration does *)

Theorem attach_render_spec : forall t idx e0,
  let e := attach_render t idx e0 in
  e_reason e = e_reason e0 /\
  (* the position: kept when e0 has a line (the innermost template wins);
     otherwise the idx-th mapping entry; when idx is beyond t_map, unchanged *)
  e_line e = match e_line e0 with
             | Some l => Some l
             | None => match nth_error (t_map t) idx with Some (l, _) => Some l | None => None end
             end /\
  e_col e = match e_line e0 with
            | Some _ => e_col e0
            | None => match nth_error (t_map t) idx with Some (_, c) => Some c | None => e_col e0 end
            end /\
  (* the template name: kept when present, else this template's name *)
  e_tpl e = match e_tpl e0 with Some n => Some n | None => t_name t end.
Proof.
  intros t idx e0. cbv zeta. unfold attach_render, attach_pos.
  destruct (e_line e0) as [l|] eqn:El.
  - destruct (e_tpl e0) eqn:Et; cbn; rewrite ?El, ?Et; auto.
  - destruct (nth_error (t_map t) idx) as [[l c]|]; cbn; destruct (e_tpl e0) eqn:Et; cbn;
      rewrite ?El, ?Et; auto.
Qed.

Theorem attach_eval_spec : forall t idx e0,
  let e := attach_eval t idx e0 in
  e_reason e = e_reason e0 /\
  e_line e = match e_line e0 with
             | Some l => Some l
             | None => match nth_error (t_map t) idx with Some (l, _) => Some l | None => None end
             end /\
  e_col e = match e_line e0 with
            | Some _ => e_col e0
            | None => match nth_error (t_map t) idx with Some (_, c) => Some c | None => e_col e0 end
            end /\
  (* Template::eval overwrites the template name unconditionally *)
  e_tpl e = t_name t.
Proof.
  intros t idx e0. cbv zeta. unfold attach_eval, attach_pos.
  destruct (e_line e0) as [l|] eqn:El.
  - cbn; rewrite ?El; auto.
  - destruct (nth_error (t_map t) idx) as [[l c]|]; cbn; rewrite ?El; auto.
Qed.

(* once set, never overwritten on the way out *)
Theorem position_kept : forall t idx e0,
  e_line e0 <> None ->
  e_line (attach_render t idx e0) = e_line e0 /\ e_col (attach_render t idx e0) = e_col e0 /\
  e_line (attach_eval t idx e0) = e_line e0 /\ e_col (attach_eval t idx e0) = e_col e0.
Proof.
  intros t idx e0 H.
  destruct (attach_render_spec t idx e0) as (_ & L1 & C1 & _).
  destruct (attach_eval_spec t idx e0) as (_ & L2 & C2 & _).
  destruct (e_line e0); [|contradiction]. auto.
Qed.

Theorem template_name_kept : forall t idx e0,
  e_tpl e0 <> None -> e_tpl (attach_render t idx e0) = e_tpl e0.
Proof.
  intros t idx e0 H. destruct (attach_render_spec t idx e0) as (_ & _ & _ & T).
  rewrite T. destruct (e_tpl e0); [reflexivity|contradiction].
Qed.

(* a freshly raised error gets this template's entry and name *)
Theorem fresh_error_positioned : forall t idx r l c,
  nth_error (t_map t) idx = Some (l, c) ->
  attach_render t idx (mk_err r) =
    {| e_reason := r; e_tpl := t_name t; e_line := Some l; e_col := Some c |}.
Proof. intros t idx r l c H. unfold attach_render, attach_pos. cbn. rewrite H. reflexivity. Qed.

(* ====================================================================== *)
(** * 3. nothing else touches an error on its way out *)

Definition okt {A} : A -> rstate -> Prop := fun _ _ => True.
Definition freshq : rerror -> rstate -> Prop := fun e _ => exists r, e = mk_err r.

Section Provenance.
Variables (reg : registry) (data : json) (ft : ftable).

Definition provq : rerror -> rstate -> Prop := fun e _ => error_provenance reg data ft e.

Lemma fresh_prov {A} (r : rres A) : sat r okt freshq True -> sat r okt provq True.
Proof. intros H. eapply sat_mono; [exact H| | |]; auto. intros e s Hf. left. exact Hf. Qed.

Lemma pv_rbind {A B} (x : rres A) (f : A -> rstate -> rres B) (E : rerror -> rstate -> Prop) :
  sat x okt E True -> (forall a s1, sat (f a s1) okt E True) -> sat (rbind x f) okt E True.
Proof. intros Hx Hf. eapply sat_rbind; [exact Hx|]. intros a s1 _. apply Hf. Qed.

Lemma pv_mapM {A B} (f : A -> rstate -> rres B) l s E :
  (forall x s, sat (f x s) okt E True) -> sat (mapM f l s) okt E True.
Proof.
  intros Hf. revert s. induction l as [|x r IH]; intros s; cbn [mapM]; [exact I|].
  apply pv_rbind; [apply Hf|]. intros y s1. apply pv_rbind; [apply IH|]. intros ys s2. exact I.
Qed.

Lemma pv_fold_idx {A} (step : A -> nat -> rstate -> rres unit) l i s E :
  (forall x i s, sat (step x i s) okt E True) -> sat (fold_idx step l i s) okt E True.
Proof.
  intros Hstep. revert i s. induction l as [|x r IH]; intros i s; cbn [fold_idx]; [exact I|].
  apply pv_rbind; [apply Hstep|]. intros _ s1. apply IH.
Qed.

(* the primitives only raise fresh errors *)
Lemma fr_out_write chunk s : sat (out_write chunk s) okt freshq True.
Proof.
  unfold out_write. destruct chunk; [exact I|].
  destruct (match o_fail_at (s_out s) with Some k => _ | None => false end); [|exact I].
  cbn. eexists; reflexivity.
Qed.
Lemma fr_write_indented fuel v ind s : sat (write_indented fuel v ind s) okt freshq True.
Proof.
  revert v s. induction fuel as [|f IH]; intros v s; cbn [write_indented]; [exact I|].
  destruct (find_lf v); [|apply fr_out_write].
  apply pv_rbind; [apply fr_out_write|]. intros _ s1. destruct (skipn (S n) v); [exact I|].
  apply pv_rbind; [apply fr_out_write|]. intros _ s2. apply IH.
Qed.
Lemma fr_indent_aware_write v s : sat (indent_aware_write v s) okt freshq True.
Proof.
  unfold indent_aware_write. destruct v as [|c r]; [exact I|]. apply pv_rbind.
  - destruct (_ && _); [|exact I]. destruct (s_indent _); [apply fr_out_write|exact I].
  - intros _ s2. apply pv_rbind; [|intros _ s3; exact I].
    destruct (s_indent s2); [apply fr_write_indented|apply fr_out_write].
Qed.
Lemma fr_log_write txt s : sat (log_write txt s) okt freshq True.
Proof. apply fr_out_write. Qed.
Lemma fr_evaluate2 d p s : sat (evaluate2 d p s) okt freshq True.
Proof.
  unfold evaluate2. destruct p; [|exact I].
  destruct (navigate d segs (s_blocks s)); cbn; try exact I. eexists; reflexivity.
Qed.
Lemma fr_evaluate d raw s : sat (evaluate d raw s) okt freshq True.
Proof. unfold evaluate. destruct (path_parse raw); [apply fr_evaluate2|]. cbn. eexists; reflexivity. Qed.
Lemma fr_call_inner hid h s : sat (call_inner reg hid h s) okt freshq True.
Proof.
  unfold call_inner, macro_inner, param_or, strict_error, rfail.
  repeat lazymatch goal with
  | |- sat ?e _ _ _ =>
      lazymatch e with
      | context [match ?y with _ => _ end] => let z := inner_scrut y in destruct z
      end
  end; cbn; try exact I; eexists; reflexivity.
Qed.

Definition prov_spec : rspec := uniform_spec (fun A _ r => sat r okt provq True).
End Provenance.

Ltac pv_err_leaf :=
  cbn [sat]; unfold provq, okt;
  first [ exact I
        | left; eexists; reflexivity
        | assumption
        | left; assumption ].

Ltac pv_ih IH :=
  first [ apply (h_rt IH) | apply (h_et IH) | apply (h_or IH) | apply (h_re IH) | apply (h_ee IH)
        | apply (h_rx IH) | apply (h_rh IH) | apply (h_hft IH) | apply (h_dft IH) | apply (h_ean IH)
        | apply (h_ep IH) | apply (h_chv IH) | apply (h_ch IH) | apply (h_ed IH) | apply (h_rp IH)
        | apply (h_xp IH)
        | apply fresh_prov;
          first [ apply fr_out_write | apply fr_indent_aware_write | apply fr_log_write
                | apply fr_evaluate2 | apply fr_evaluate | apply fr_call_inner ] ].

Ltac pv_step IH :=
  lazymatch goal with
  | |- sat ?e okt (provq _ _ _) True =>
      lazymatch e with
      | (let _ := _ in _) => cbv zeta
      | rbind _ _ => apply pv_rbind; [ | intros ? ? ]
      | fold_idx _ _ _ _ => apply pv_fold_idx; intros ? ? ?
      | mapM _ _ _ => apply pv_mapM; intros ? ?
      | param_or _ _ _ _ _ => unfold param_or
      | strict_error _ _ => unfold strict_error, rfail; pv_err_leaf
      | rfail _ _ => unfold rfail; pv_err_leaf
      | ROk _ _ => exact I
      | RErr _ _ => pv_err_leaf
      | RPanic _ => exact I
      | RFuel => exact I
      | match ?y with _ => _ end =>
          let z := inner_scrut y in
          lazymatch z with
          | call_inner ?r ?hid ?h ?s =>
              let X := fresh "X" in
              pose proof (fr_call_inner r hid h s) as X;
              destruct (call_inner r hid h s); cbn [sat] in X; unfold freshq in X
          | _ =>
              tryif is_ih_call z
              then (let X := fresh "X" in
                    assert (X : sat z okt (provq _ _ _) True) by (pv_ih IH);
                    destruct z; cbn [sat] in X; unfold provq in X)
              else destruct z
          end
      | _ => pv_ih IH
      end
  end.

Section ProvSteps.
Variables (reg : registry) (data : json) (ft : ftable).
Variable f : nat.
Hypothesis IH : holds reg data ft (prov_spec reg data ft) f.
Local Notation P := (provq reg data ft).

(* the two decorating functions: by the first-failing-index theorems *)
Lemma pv_rt t s : sat (render_template reg data ft (S f) t s) okt P True.
Proof.
  destruct (render_template reg data ft (S f) t s) as [u s'|e s'|p|] eqn:E; try exact I.
  destruct (render_error_origin _ _ _ _ _ _ _ _ E) as (idx & el & s0 & e0 & Hn & _ & Hel & ->).
  cbn. right. left. exists f, t, idx, el, s0, s', e0. auto.
Qed.
Lemma pv_et t s : sat (eval_template reg data ft (S f) t s) okt P True.
Proof.
  destruct (eval_template reg data ft (S f) t s) as [u s'|e s'|p|] eqn:E; try exact I.
  destruct (eval_error_origin _ _ _ _ _ _ _ _ E) as (idx & el & s0 & e0 & Hn & _ & Hel & ->).
  cbn. right. right. exists f, t, idx, el, s0, s', e0. auto.
Qed.

(* every other function passes errors on untouched or raises fresh ones *)
Lemma pv_or t s : sat (opt_render reg data ft (S f) t s) okt P True.
Proof. rewrite opt_render_S. repeat pv_step IH. Qed.
Lemma pv_re e s : sat (render_element reg data ft (S f) e s) okt P True.
Proof. rewrite render_element_S. repeat pv_step IH. Qed.
Lemma pv_ee e s : sat (eval_element reg data ft (S f) e s) okt P True.
Proof. rewrite eval_element_S. repeat pv_step IH. Qed.
Lemma pv_rh ht s : sat (render_helper reg data ft (S f) ht s) okt P True.
Proof. rewrite render_helper_S. cbv zeta. repeat pv_step IH. Qed.
Lemma pv_hft ht s : sat (helper_from_template reg data ft (S f) ht s) okt P True.
Proof. rewrite helper_from_template_S. repeat pv_step IH. Qed.
Lemma pv_dft dt s : sat (deco_from_template reg data ft (S f) dt s) okt P True.
Proof. rewrite deco_from_template_S. repeat pv_step IH. Qed.
Lemma pv_ean p s : sat (expand_as_name reg data ft (S f) p s) okt P True.
Proof. rewrite expand_as_name_S. repeat pv_step IH. Qed.
Lemma pv_ep p s : sat (expand_param reg data ft (S f) p s) okt P True.
Proof. rewrite expand_param_S. repeat pv_step IH. Qed.
Lemma pv_ch hid h s : sat (call_helper reg data ft (S f) hid h s) okt P True.
Proof. rewrite call_helper_S. cbv zeta. repeat pv_step IH. Qed.
Lemma pv_ed dt s : sat (eval_decorator reg data ft (S f) dt s) okt P True.
Proof. rewrite eval_decorator_S. repeat pv_step IH. Qed.
Lemma pv_rp dt s : sat (render_partial reg data ft (S f) dt s) okt P True.
Proof. rewrite render_partial_S. cbv zeta. repeat pv_step IH. Qed.
Lemma pv_xp d s : sat (expand_partial reg data ft (S f) d s) okt P True.
Proof. rewrite expand_partial_S. cbv zeta. repeat pv_step IH. Qed.
Lemma pv_chv hid h s : sat (call_helper_for_value reg data ft (S f) hid h s) okt P True.
Proof. rewrite call_helper_for_value_S. repeat pv_step IH. Qed.
Lemma pv_rx ht html s : sat (render_expression reg data ft (S f) ht html s) okt P True.
Proof.
  rewrite render_expression_S. cbv zeta.
  apply (sat_post_id _ (fun s' => if html then set_disable_escape s' false else s')
           (fun s' => if html then set_disable_escape s' false else s') okt P).
  - generalize (if html then set_disable_escape s true else s). intros s0. repeat pv_step IH.
  - intros; exact I.
  - intros e s' H. exact H.
Qed.
End ProvSteps.

Theorem prov_holds : forall reg data ft f, holds reg data ft (prov_spec reg data ft) f.
Proof.
  intros reg data ft. apply render_ind.
  - constructor; intros; exact I.
  - constructor; intros f IH; intros.
    + apply pv_rt.
    + apply pv_et.
    + apply pv_or; exact IH.
    + apply pv_re; exact IH.
    + apply pv_ee; exact IH.
    + apply pv_rx; exact IH.
    + apply pv_rh; exact IH.
    + apply pv_hft; exact IH.
    + apply pv_dft; exact IH.
    + apply pv_ean; exact IH.
    + apply pv_ep; exact IH.
    + apply pv_chv; exact IH.
    + apply pv_ch; exact IH.
    + apply pv_ed; exact IH.
    + apply pv_rp; exact IH.
    + apply pv_xp; exact IH.
Qed.

(* only Template::render / Template::eval decorate *)
Theorem error_untouched_elsewhere : forall reg data ft f,
  every_render_fn reg data ft f
    (fun A s r => forall e s', r = RErr e s' -> error_provenance reg data ft e).
Proof.
  intros reg data ft f. apply holds_uniform.
  eapply holds_uniform_mono; [|apply (prov_holds reg data ft f)].
  intros A s r H e s' ->. exact H.
Qed.

(* ====================================================================== *)
(** * 4. the position a user sees *)

(* converse of fold_idx_err *)
Lemma fold_idx_err_intro {A} (step : A -> nat -> rstate -> rres unit) l i s n x s0 e s' :
  nth_error l n = Some x ->
  fold_idx step (firstn n l) i s = ROk tt s0 ->
  step x (i + n)%nat s0 = RErr e s' ->
  fold_idx step l i s = RErr e s'.
Proof.
  revert i s n. induction l as [|y r IH]; intros i s [|n] Hn Hpre Hx; cbn in Hn; try discriminate.
  - inversion Hn; subst. cbn [firstn fold_idx] in *. inversion Hpre; subst.
    rewrite Nat.add_0_r in Hx. rewrite Hx. reflexivity.
  - cbn [firstn fold_idx] in *.
    destruct (step y i s) as [[] s1|e1 s1|p|]; cbn [rbind] in *; try discriminate.
    apply (IH (S i) s1 n Hn Hpre). replace (S i + n)%nat with (i + S n)%nat by lia. exact Hx.
Qed.

(* if the elements before idx render and element idx fails, the template fails
   with exactly that element's error, decorated for idx *)
Theorem render_error_at : forall reg data ft f t s idx el s0 e0 s',
  nth_error (t_els t) idx = Some el ->
  fold_idx (fun x _ s1 => render_element reg data ft f x s1) (firstn idx (t_els t)) 0
           (set_current s (t_name t)) = ROk tt s0 ->
  render_element reg data ft f el s0 = RErr e0 s' ->
  render_template reg data ft (S f) t s = RErr (attach_render t idx e0) s'.
Proof.
  intros reg data ft f t s idx el s0 e0 s' Hn Hpre Hel. rewrite render_template_S.
  rewrite (fold_idx_err_intro _ (t_els t) 0 (set_current s (t_name t)) idx el s0
             (attach_render t idx e0) s' Hn); [reflexivity| |].
  - apply (fold_idx_ok_rmap (fun x _ s1 => render_element reg data ft f x s1)
             (fun _ j => attach_render t j)). exact Hpre.
  - cbn [Nat.add]. rewrite Hel. reflexivity.
Qed.

(* the error of a failing render_template: origin, decoration, and the
   provenance of the element's own error *)
Theorem error_position_innermost : forall reg data ft f t s e s',
  render_template reg data ft (S f) t s = RErr e s' ->
  exists idx el s0 e0,
    nth_error (t_els t) idx = Some el /\
    render_element reg data ft f el s0 = RErr e0 s' /\
    error_provenance reg data ft e0 /\
    e_reason e = e_reason e0 /\
    (* unpositioned element error: this template's entry for the element *)
    (e_line e0 = None ->
       e_line e = match nth_error (t_map t) idx with Some (l, _) => Some l | None => None end /\
       e_col e = match nth_error (t_map t) idx with Some (_, c) => Some c | None => e_col e0 end) /\
    (* positioned (by an inner template): passed on unchanged *)
    (e_line e0 <> None -> e_line e = e_line e0 /\ e_col e = e_col e0) /\
    (* the name: the innermost NAMED template on the way out *)
    e_tpl e = match e_tpl e0 with Some n => Some n | None => t_name t end.
Proof.
  intros reg data ft f t s e s' H.
  destruct (render_error_origin _ _ _ _ _ _ _ _ H) as (idx & el & s0 & e0 & Hn & _ & Hel & ->).
  exists idx, el, s0, e0. split; [exact Hn|]. split; [exact Hel|]. split.
  { destruct (error_untouched_elsewhere reg data ft f) as (_ & _ & _ & K & _).
    exact (K el s0 e0 s' Hel). }
  destruct (attach_render_spec t idx e0) as (R & L & C & T). cbv zeta in *.
  split; [exact R|]. split; [|split; [|exact T]].
  - intros E. rewrite E in L, C. auto.
  - intros E. destruct (e_line e0); [auto|contradiction].
Qed.

(* case 1: the failing element raised the error itself (it did not come out of
   a nested template): line and column of the element's tag, this template's name *)
Corollary leaf_error_position : forall reg data ft f t s idx el s0 r s' l c,
  nth_error (t_els t) idx = Some el ->
  fold_idx (fun x _ s1 => render_element reg data ft f x s1) (firstn idx (t_els t)) 0
           (set_current s (t_name t)) = ROk tt s0 ->
  render_element reg data ft f el s0 = RErr (mk_err r) s' ->
  nth_error (t_map t) idx = Some (l, c) ->
  render_template reg data ft (S f) t s =
    RErr {| e_reason := r; e_tpl := t_name t; e_line := Some l; e_col := Some c |} s'.
Proof.
  intros reg data ft f t s idx el s0 r s' l c Hn Hpre Hel Hm.
  rewrite (render_error_at reg data ft f t s idx el s0 (mk_err r) s' Hn Hpre Hel).
  rewrite (fresh_error_positioned t idx r l c Hm). reflexivity.
Qed.

(* case 2: the failing element's error came out of an inner template t1 (block
   body, else branch, partial, partial block) that positioned it at its own
   element j: the outer template passes the inner line and column on, and gives
   its name only if the inner template had none *)
Corollary nested_error_position : forall reg data ft f t s idx el s0 s' t1 j r l c,
  nth_error (t_els t) idx = Some el ->
  fold_idx (fun x _ s1 => render_element reg data ft f x s1) (firstn idx (t_els t)) 0
           (set_current s (t_name t)) = ROk tt s0 ->
  render_element reg data ft f el s0 = RErr (attach_render t1 j (mk_err r)) s' ->
  nth_error (t_map t1) j = Some (l, c) ->
  render_template reg data ft (S f) t s =
    RErr {| e_reason := r;
            e_tpl := match t_name t1 with Some n => Some n | None => t_name t end;
            e_line := Some l; e_col := Some c |} s'.
Proof.
  intros reg data ft f t s idx el s0 s' t1 j r l c Hn Hpre Hel Hm.
  rewrite (render_error_at reg data ft f t s idx el s0 _ s' Hn Hpre Hel).
  rewrite (fresh_error_positioned t1 j r l c Hm).
  unfold attach_render, attach_pos. cbn. destruct (t_name t1); reflexivity.
Qed.

(* ---------- two ways an element raises an error itself ---------- *)

(* strict mode, a name-only expression whose value is missing *)
Theorem strict_missing_is_fresh : forall reg data ft f ht (html : bool) s name s1 cj s2,
  is_name_only ht = true ->
  expand_as_name reg data ft f (h_name ht) (if html then set_disable_escape s true else s)
    = ROk name s1 ->
  helper_exists reg s1 name = false ->
  expand_param reg data ft f (h_name ht) s1 = ROk cj s2 ->
  sc_missing (pj_val cj) = true ->
  r_strict reg = true ->
  render_expression reg data ft (S f) ht html s =
    RErr (mk_err (RMissingVariable (pj_rel cj))) (if html then set_disable_escape s2 false else s2).
Proof.
  intros reg data ft f ht html s name s1 cj s2 Hno Hname Hnh Hval Hmiss Hstrict.
  rewrite render_expression_S. cbv zeta. rewrite Hno, Hname. cbn [rbind]. rewrite Hnh, Hval.
  cbn [rbind]. rewrite Hmiss, Hstrict. reflexivity.
Qed.

(* a helper call with no such helper and no helperMissing hook *)
Theorem helper_not_found_is_fresh : forall reg data ft f ht s h s1,
  helper_from_template reg data ft f ht s = ROk h s1 ->
  find_local_helper s1 (hv_name h) = None ->
  find_reg_helper reg (hv_name h) = None ->
  find_reg_helper reg (if h_block ht then BLOCK_HELPER_MISSING else HELPER_MISSING) = None ->
  render_helper reg data ft (S f) ht s = RErr (mk_err (RHelperNotFound (hv_name h))) s1.
Proof.
  intros reg data ft f ht s h s1 Hh Hl Hr Hm.
  rewrite render_helper_S. rewrite Hh. cbn [rbind]. cbv zeta. rewrite Hl, Hr, Hm. reflexivity.
Qed.

(* ====================================================================== *)
(** * Examples *)

Definition ex_opts : copts :=
  {| o_prevent_indent := false; o_is_partial := false; o_name := Some (`"t1") |}.
Definition ex_data : json := JObj [(`"ok", JBool true)].

(* a failing tag on line 2 inside an #if: line 2, the column of the inner tag
   (13), not of the #if (1); the name of the enclosing named template *)
Definition ex_src1 : str := `"line one
{{#if ok}}  {{missing}}{{/if}}".
Definition ex_t1 : template := match compile2 ex_src1 ex_opts with COk t => t | _ => t_empty end.

Example ex1_compiles : compile2 ex_src1 ex_opts = COk ex_t1 /\ t_map ex_t1 = [(1, 1); (2, 1)].
Proof. split; vm_compute; reflexivity. Qed.

Example ex1_strict_missing_in_if :
  exists s', render_template (set_strict_mode reg_new true) ex_data [] 20 ex_t1
               (st_init (Some (`"t1")) None None)
             = RErr {| e_reason := RMissingVariable (Some (`"missing")); e_tpl := Some (`"t1");
                       e_line := Some 2; e_col := Some 13 |} s'.
Proof. eexists. vm_compute. reflexivity. Qed.

(* unknown helper on line 3 of a block that opens on line 2 *)
Definition ex_src2 : str := `"a
{{#if ok}}
x {{nohelper 1}}
{{/if}}".
Definition ex_t2 : template := match compile2 ex_src2 ex_opts with COk t => t | _ => t_empty end.

Example ex2_helper_not_found_in_if :
  exists s', render_template reg_new ex_data [] 20 ex_t2 (st_init (Some (`"t1")) None None)
             = RErr {| e_reason := RHelperNotFound (`"nohelper"); e_tpl := Some (`"t1");
                       e_line := Some 3; e_col := Some 3 |} s'.
Proof. eexists. vm_compute. reflexivity. Qed.

(* a top-level failing tag: its own entry *)
Definition ex_src3 : str := `"ab
 {{missing}}".
Definition ex_t3 : template := match compile2 ex_src3 ex_opts with COk t => t | _ => t_empty end.
Example ex3_top_level :
  exists s', render_template (set_strict_mode reg_new true) ex_data [] 20 ex_t3
               (st_init (Some (`"t1")) None None)
             = RErr {| e_reason := RMissingVariable (Some (`"missing")); e_tpl := Some (`"t1");
                       e_line := Some 2; e_col := Some 2 |} s'.
Proof. eexists. vm_compute. reflexivity. Qed.

(* the hypotheses of leaf_error_position are satisfiable: ex_t3, element 1 *)
Example leaf_error_position_ex :
  exists el s0 s',
    nth_error (t_els ex_t3) 1 = Some el /\
    fold_idx (fun x _ s1 => render_element (set_strict_mode reg_new true) ex_data [] 19 x s1)
             (firstn 1 (t_els ex_t3)) 0
             (set_current (st_init (Some (`"t1")) None None) (t_name ex_t3)) = ROk tt s0 /\
    render_element (set_strict_mode reg_new true) ex_data [] 19 el s0
      = RErr (mk_err (RMissingVariable (Some (`"missing")))) s' /\
    nth_error (t_map ex_t3) 1 = Some (2, 2).
Proof.
  eexists _, _, _. split; [vm_compute; reflexivity|]. split; [vm_compute; reflexivity|].
  split; vm_compute; reflexivity.
Qed.

(* the hypotheses of strict_missing_is_fresh / helper_not_found_is_fresh hold on
   the failing elements of ex_t3 / ex_t2 *)
Definition ex_ht_missing : helper_t :=
  MkH (PPath (PathRelative [SegNamed (`"missing")] (`"missing"))) [] [] None None None false false false.
Example strict_missing_is_fresh_ex :
  let reg := set_strict_mode reg_new true in
  let s := st_init None None None in
  is_name_only ex_ht_missing = true /\
  expand_as_name reg ex_data [] 1 (h_name ex_ht_missing) s = ROk (`"missing") s /\
  helper_exists reg s (`"missing") = false /\
  expand_param reg ex_data [] 1 (h_name ex_ht_missing) s
    = ROk {| pj_rel := Some (`"missing"); pj_val := SMissing |} s /\
  r_strict reg = true.
Proof. cbv zeta. repeat (match goal with |- _ /\ _ => split end); vm_compute; reflexivity. Qed.

Definition ex_ht_nohelper : helper_t :=
  MkH (PName (`"nohelper")) [PLit (JNum (PosInt 1))] [] None None None false false false.
Example helper_not_found_is_fresh_ex :
  let s := st_init None None None in
  exists h, helper_from_template reg_new ex_data [] 2 ex_ht_nohelper s = ROk h s /\
            find_local_helper s (hv_name h) = None /\ find_reg_helper reg_new (hv_name h) = None /\
            find_reg_helper reg_new (if h_block ex_ht_nohelper then BLOCK_HELPER_MISSING else HELPER_MISSING)
              = None.
Proof.
  cbv zeta. eexists. split; [vm_compute; reflexivity|].
  repeat (match goal with |- _ /\ _ => split end); vm_compute; reflexivity.
Qed.
