(* Proofs/LiteralProofs.v — literal_roundtrip (C13): the JSON text parser of
   template literals inverts the printer of Spec/LitPrint.v, and the rewrite of
   single-quoted strings is correct. *)
From HB Require Import Tpl.Compile Spec.LitPrint Proofs.CompileBase Proofs.ExprOrder.
Open Scope N_scope.

Arguments N.add : simpl never.
Arguments N.sub : simpl never.
Arguments N.mul : simpl never.
Arguments N.div : simpl never.
Arguments N.modulo : simpl never.
Arguments N.eqb : simpl never.
Arguments N.ltb : simpl never.
Arguments N.leb : simpl never.

(* ---------- decimal printing ---------- *)
Definition horner (ds : str) (a : N) : N := fold_left (fun a c => a * 10 + (c - 48)) ds a.

(* ds is the decimal representation of n without superfluous leading zero *)
Definition dec_repr (ds : str) (n : N) : Prop :=
  Forall (fun c => is_digit c = true) ds /\ horner ds 0 = n /\ ds <> []
  /\ (hd 0 ds = 48 -> ds = [48]).

Lemma is_digit_digit_char d : d < 10 -> is_digit (digit_char d) = true.
Proof.
  intro H. unfold is_digit, digit_char. apply andb_true_intro. split; apply N.leb_le; lia.
Qed.

Lemma horner_app ds c a : horner (ds ++ [c]) a = horner ds a * 10 + (c - 48).
Proof. unfold horner. rewrite fold_left_app. reflexivity. Qed.

Lemma dec_repr_single n : n < 10 -> dec_repr [digit_char n] n.
Proof.
  intro H. unfold dec_repr. repeat split.
  - constructor; [apply is_digit_digit_char; exact H|constructor].
  - unfold horner, digit_char. cbn [fold_left]. lia.
  - discriminate.
  - cbn [hd]. unfold digit_char. intro H0. assert (n = 0) by lia. subst. reflexivity.
Qed.

Lemma dec_repr_snoc ds n : 10 <= n -> dec_repr ds (n / 10) -> dec_repr (ds ++ [digit_char (n mod 10)]) n.
Proof.
  intros Hn (Hd & Hh & Hne & Hz). unfold dec_repr. repeat split.
  - apply Forall_app. split; [exact Hd|]. constructor; [|constructor].
    apply is_digit_digit_char. apply N.mod_lt. lia.
  - rewrite horner_app, Hh. unfold digit_char.
    pose proof (N.div_mod n 10 ltac:(lia)) as Hdm. clear Hh.
    set (q := n / 10) in *. set (r := n mod 10) in *. clearbody q r. lia.
  - destruct ds; discriminate.
  - destruct ds as [|c r]; [contradiction Hne; reflexivity|]. cbn [hd app] in *. intro H0.
    specialize (Hz H0). injection Hz as -> ->. unfold horner in Hh. cbn [fold_left] in Hh.
    assert (n / 10 = 0) by lia. apply N.div_small_iff in H; lia.
Qed.

Lemma n_to_dec_go_spec : forall f n acc,
  n < 2 ^ N.of_nat (S f) ->
  exists ds, n_to_dec_go (S f) n acc = ds ++ acc /\ dec_repr ds n.
Proof.
  induction f as [|f IH]; intros n acc Hn.
  - change (2 ^ N.of_nat 1) with 2 in Hn. cbn [n_to_dec_go].
    assert (Hlt : N.ltb n 10 = true) by (apply N.ltb_lt; lia). rewrite Hlt.
    rewrite N.mod_small by lia. exists [digit_char n]. split; [reflexivity|].
    apply dec_repr_single. lia.
  - cbn [n_to_dec_go]. destruct (N.ltb_spec n 10) as [Hlt|Hge].
    + rewrite N.mod_small by lia. exists [digit_char n]. split; [reflexivity|].
      apply dec_repr_single. exact Hlt.
    + assert (Hd : n / 10 < 2 ^ N.of_nat (S f)).
      { rewrite Nat2N.inj_succ in Hn. rewrite N.pow_succ_r' in Hn.
        apply N.div_lt_upper_bound; [lia|]. lia. }
      destruct (IH (n / 10) (digit_char (n mod 10) :: acc) Hd) as (ds & He & Hr).
      exists (ds ++ [digit_char (n mod 10)]). split.
      * change (n_to_dec_go (S f) (n / 10) (digit_char (n mod 10) :: acc)
                = (ds ++ [digit_char (n mod 10)]) ++ acc).
        rewrite He, <- app_assoc. reflexivity.
      * apply dec_repr_snoc; assumption.
Qed.

Lemma n_to_dec_repr n : dec_repr (n_to_dec n) n.
Proof.
  unfold n_to_dec.
  assert (Hn : n < 2 ^ N.of_nat (S (N.to_nat (N.log2 n)))).
  { rewrite Nat2N.inj_succ, N2Nat.id. destruct n as [|p]; [reflexivity|].
    apply N.log2_spec. lia. }
  destruct (n_to_dec_go_spec _ n [] Hn) as (ds & He & Hr).
  rewrite He, app_nil_r. exact Hr.
Qed.

Lemma digits_val_horner : forall ds a,
  Forall (fun c => is_digit c = true) ds -> digits_val ds a = Some (horner ds a).
Proof.
  induction ds as [|c r IH]; intros a H; [reflexivity|].
  inversion H; subst. cbn [digits_val]. rewrite H2. unfold horner. cbn [fold_left]. apply IH. assumption.
Qed.

Lemma take_while_all f (s : str) rest :
  Forall (fun c => f c = true) s -> first_is f rest = false ->
  take_while f (s ++ rest) = s /\ drop_while f (s ++ rest) = rest.
Proof.
  intros Hs Hr. induction Hs as [|c r Hc _ IH]; cbn [app take_while drop_while].
  - destruct rest as [|x rest']; [split; reflexivity|]. cbn [first_is] in Hr.
    cbn [take_while drop_while]. rewrite Hr. split; reflexivity.
  - rewrite Hc. destruct IH as [-> ->]. split; reflexivity.
Qed.

Lemma parse_json_number_digits (neg : bool) ds n :
  dec_repr ds n ->
  parse_json_number (if neg then 45 :: ds else ds)
  = if negb neg && N.ltb n two64 then Some (PosInt n)
    else if neg && N.leb n two63 && negb (N.eqb n 0) then Some (NegInt (- Z.of_N n))
    else option_map Float (f64_of_ratio neg (n * 10 ^ Z.to_N 0) 1).
Proof.
  intros (Hd & Hh & Hne & Hz). unfold parse_json_number.
  assert (Hstrip : strip_char 45 (if neg then 45 :: ds else ds) = (neg, ds)).
  { destruct neg; cbn [strip_char]; [reflexivity|].
    destruct ds as [|c r]; [reflexivity|]. cbn [strip_char].
    inversion Hd; subst. destruct (N.eqb_spec c 45); [subst; discriminate|reflexivity]. }
  rewrite Hstrip. unfold split_digits.
  destruct (take_while_all is_digit ds [] Hd eq_refl) as [Ht Hdr]. rewrite app_nil_r in Ht, Hdr.
  rewrite Ht, Hdr.
  destruct ds as [|c r] eqn:Eds; [contradiction Hne; reflexivity|]. rewrite <- Eds in *.
  assert (Hlz : leading_zero ds = false).
  { rewrite Eds. cbn [leading_zero]. destruct r as [|c2 r2]; [reflexivity|].
    destruct (N.eqb_spec c 48); [|reflexivity]. subst c. rewrite Eds in Hz. specialize (Hz eq_refl). discriminate. }
  rewrite Hlz. cbn [strip_char andb parse_exp_part length Nat.eqb]. rewrite app_nil_r.
  rewrite digits_val_horner by exact Hd. rewrite Hh. cbn [negb andb].
  destruct neg; cbn [negb andb].
  - rewrite andb_false_r. cbn [andb]. reflexivity.
  - rewrite andb_true_r. reflexivity.
Qed.

Theorem parse_print_posint n : n < two64 -> parse_json_number (n_to_dec n) = Some (PosInt n).
Proof.
  intro H. rewrite (parse_json_number_digits false _ n (n_to_dec_repr n)).
  cbn [negb andb]. apply N.ltb_lt in H. rewrite H. reflexivity.
Qed.

Theorem parse_print_negint z :
  (- Z.of_N two63 <= z < 0)%Z -> parse_json_number (z_to_dec z) = Some (NegInt z).
Proof.
  intro H. destruct z as [|p|p]; try lia. cbn [z_to_dec].
  rewrite (parse_json_number_digits true _ (Npos p) (n_to_dec_repr (Npos p))).
  cbn [negb andb].
  assert (H1 : N.leb (N.pos p) two63 = true) by (apply N.leb_le; lia).
  rewrite H1. reflexivity.
Qed.

Lemma num_wf_print n :
  num_wf n = true -> match n with Float _ => False | _ => True end ->
  parse_json_number (print_num n) = Some n.
Proof.
  destruct n as [n|z|b]; cbn [num_wf print_num]; intros H Hf; [| |contradiction].
  - apply parse_print_posint. apply N.ltb_lt. exact H.
  - apply andb_prop in H. destruct H as [H1 H2]. apply parse_print_negint.
    apply Z.ltb_lt in H1. apply Z.leb_le in H2. lia.
Qed.

(* the text of a printed integer: only number characters, the first one a
   digit or the minus sign *)
Lemma is_digit_numch c : is_digit c = true -> is_numch c = true.
Proof. intro H. unfold is_numch. rewrite H. reflexivity. Qed.

Lemma print_num_chars n :
  match n with Float _ => False | _ => True end ->
  Forall (fun c => is_numch c = true) (print_num n)
  /\ exists c r, print_num n = c :: r /\ (is_digit c = true \/ c = 45).
Proof.
  destruct n as [n|z|b]; cbn [print_num]; intro Hf; [| |contradiction].
  - destruct (n_to_dec_repr n) as (Hd & _ & Hne & _). split.
    + eapply Forall_impl; [|exact Hd]. intros c Hc. apply is_digit_numch. exact Hc.
    + destruct (n_to_dec n) as [|c r]; [contradiction Hne; reflexivity|].
      inversion Hd; subst. exists c, r. split; [reflexivity|left; assumption].
  - destruct z as [|p|p]; cbn [z_to_dec].
    + cbn. split; [repeat constructor|]. exists 48, []. split; [reflexivity|left; reflexivity].
    + destruct (n_to_dec_repr (Z.to_N (Z.pos p))) as (Hd & _ & Hne & _). split.
      * eapply Forall_impl; [|exact Hd]. intros c Hc. apply is_digit_numch. exact Hc.
      * destruct (n_to_dec (Z.to_N (Z.pos p))) as [|c r]; [contradiction Hne; reflexivity|].
        inversion Hd; subst. exists c, r. split; [reflexivity|left; assumption].
    + destruct (n_to_dec_repr (N.pos p)) as (Hd & _ & _ & _). split.
      * constructor; [reflexivity|]. eapply Forall_impl; [|exact Hd].
        intros c Hc. apply is_digit_numch. exact Hc.
      * exists 45, (n_to_dec (N.pos p)). split; [reflexivity|right; reflexivity].
Qed.

(* ---------- strings ---------- *)
Lemma hex_val_hexdig d : d < 16 -> hex_val (hexdig d) = Some d.
Proof.
  intro H.
  assert (Hc : d = 0 \/ d = 1 \/ d = 2 \/ d = 3 \/ d = 4 \/ d = 5 \/ d = 6 \/ d = 7 \/ d = 8
               \/ d = 9 \/ d = 10 \/ d = 11 \/ d = 12 \/ d = 13 \/ d = 14 \/ d = 15) by lia.
  repeat (destruct Hc as [->|Hc]; [reflexivity|]). subst. reflexivity.
Qed.

Lemma unicode_escape_esc_u c rest :
  c < 32 -> unicode_escape ([48; 48; hexdig (c / 16); hexdig (c mod 16)] ++ rest) = Some (c, rest).
Proof.
  intro H. unfold unicode_escape, hex4. cbn [app].
  change (hex_val 48) with (Some 0).
  assert (H1 : c / 16 < 16) by (apply N.div_lt_upper_bound; lia).
  assert (H2 : c mod 16 < 16) by (apply N.mod_lt; lia).
  rewrite (hex_val_hexdig _ H1), (hex_val_hexdig _ H2).
  pose proof (N.div_mod c 16 ltac:(lia)) as Hdm.
  set (q := c / 16) in *. set (r := c mod 16) in *. clearbody q r.
  replace (((0 * 16 + 0) * 16 + q) * 16 + r) with c by lia.
  assert (Hs1 : N.leb 56320 c = false) by (apply N.leb_gt; lia).
  assert (Hs2 : N.leb 55296 c = false) by (apply N.leb_gt; lia).
  rewrite Hs1, Hs2. reflexivity.
Qed.

(* the JSON string parser inverts esc_json, for strings over ALL scalar values *)
Lemma json_string_body_esc : forall s fuel rest acc,
  (length s < fuel)%nat ->
  json_string_body fuel (esc_json s ++ 34 :: rest) acc = Some (rev acc ++ s, rest).
Proof.
  induction s as [|c s IH]; intros fuel rest acc Hf.
  - destruct fuel as [|f]; [inversion Hf|]. cbn [esc_json flat_map app json_string_body].
    change (N.eqb 34 34) with true. cbn iota. rewrite app_nil_r. reflexivity.
  - destruct fuel as [|f]; [inversion Hf|]. cbn [length] in Hf.
    assert (IH' : forall acc', json_string_body f (esc_json s ++ 34 :: rest) acc'
                               = Some (rev acc' ++ s, rest)) by (intro; apply IH; lia).
    assert (Hres : rev (c :: acc) ++ s = rev acc ++ c :: s)
      by (cbn [rev]; rewrite <- app_assoc; reflexivity).
    cbn [esc_json flat_map]. fold (esc_json s). unfold esc_char_json.
    destruct (N.eqb_spec c 34) as [->|H34].
    { cbn [app json_string_body]. change (N.eqb 92 34) with false. change (N.eqb 92 92) with true.
      change (N.eqb 34 117) with false. cbn iota. change (simple_escape 34) with (Some 34).
      cbn iota. rewrite IH'. rewrite Hres. reflexivity. }
    destruct (N.eqb_spec c 92) as [->|H92].
    { cbn [app json_string_body]. change (N.eqb 92 34) with false. change (N.eqb 92 92) with true.
      change (N.eqb 92 117) with false. cbn iota. change (simple_escape 92) with (Some 92).
      cbn iota. rewrite IH'. rewrite Hres. reflexivity. }
    destruct (N.ltb_spec c 32) as [Hlt|Hge].
    { unfold esc_u. cbn [app json_string_body]. change (N.eqb 92 34) with false.
      change (N.eqb 92 92) with true. change (N.eqb 117 117) with true. cbn iota.
      change (48 :: 48 :: hexdig (c / 16) :: hexdig (c mod 16) :: esc_json s ++ 34 :: rest)
        with ([48; 48; hexdig (c / 16); hexdig (c mod 16)] ++ (esc_json s ++ 34 :: rest)).
      rewrite (unicode_escape_esc_u c _ Hlt). rewrite IH'. rewrite Hres. reflexivity. }
    cbn [app json_string_body].
    destruct (N.eqb_spec c 34); [contradiction|]. destruct (N.eqb_spec c 92); [contradiction|].
    destruct (N.ltb_spec c 32); [lia|]. rewrite IH'. rewrite Hres. reflexivity.
Qed.

Lemma esc_json_length s : (length s <= length (esc_json s))%nat.
Proof.
  induction s as [|c s IH]; [reflexivity|]. cbn [esc_json flat_map]. fold (esc_json s).
  rewrite app_length. cbn [length].
  assert (1 <= length (esc_char_json c))%nat; [|lia].
  unfold esc_char_json, esc_u. destruct (N.eqb c 34); [cbn; lia|].
  destruct (N.eqb c 92); [cbn; lia|]. destruct (N.ltb c 32); cbn; lia.
Qed.

Theorem json_from_str_print_str s : json_from_str (print_str s) = Some (JStr s).
Proof.
  unfold json_from_str, print_str. cbn [app length json_value].
  change (skip_ws (34 :: esc_json s ++ [34])) with (34 :: esc_json s ++ [34]).
  cbn [starts_with of_string]. change (N.eqb 34 34) with true.
  cbn iota.
  rewrite (json_string_body_esc s _ [] []).
  - reflexivity.
  - pose proof (esc_json_length s). rewrite app_length. cbn [length]. lia.
Qed.

(* ---------- the single-quote rewrite ---------- *)
(* after replace("\\'", "'"): apostrophes bare, backslashes still doubled *)
Definition mid_char (c : N) : str :=
  if N.eqb c 92 then [92; 92] else if N.ltb c 32 then esc_u c else [c].
Definition mid (s : str) : str := flat_map mid_char s.

Lemma hexdig_range d : hexdig d <> 92 /\ hexdig d <> 34.
Proof. unfold hexdig. destruct (N.ltb_spec d 10); lia. Qed.

Lemma sq_escape_not_apostrophe s : starts_with [39] (sq_escape s) = false.
Proof.
  destruct s as [|c s]; [reflexivity|]. cbn [sq_escape flat_map]. unfold sq_escape_char, esc_u.
  destruct (N.eqb_spec c 39); [reflexivity|]. destruct (N.eqb_spec c 92); [reflexivity|].
  destruct (N.ltb_spec c 32); [reflexivity|]. cbn [app starts_with].
  destruct (N.eqb_spec 39 c); [congruence|reflexivity].
Qed.

(* one step of replace_go over a character that does not start the pattern *)
Lemma replace_go_skip f a b r x s :
  x <> a -> replace_go (S f) [a; b] r (x :: s) = x :: replace_go f [a; b] r s.
Proof.
  intro H. cbn [replace_go starts_with]. destruct (N.eqb_spec a x); [congruence|reflexivity].
Qed.

Lemma replace_go_bs f r x s :
  x <> 39 -> replace_go (S f) [92; 39] r (92 :: x :: s) = 92 :: replace_go f [92; 39] r (x :: s).
Proof.
  intro H. cbn [replace_go starts_with]. change (N.eqb 92 92) with true.
  destruct (N.eqb_spec 39 x); [congruence|reflexivity].
Qed.

Lemma replace_go_sq : forall s fuel,
  (length (sq_escape s) < fuel)%nat ->
  replace_go fuel [92; 39] [39] (sq_escape s) = mid s.
Proof.
  induction s as [|c s IH]; intros fuel Hf.
  - destruct fuel; [inversion Hf|]. reflexivity.
  - cbn [sq_escape flat_map mid] in *. fold (sq_escape s) in *. fold (mid s).
    rewrite app_length in Hf. unfold sq_escape_char, mid_char in *.
    destruct (N.eqb_spec c 39) as [->|H39].
    { change (N.eqb 39 92) with false. change (N.ltb 39 32) with false. cbn iota.
      destruct fuel as [|f]; [inversion Hf|]. cbn [length] in Hf.
      cbn [app replace_go starts_with length skipn]. change (N.eqb 92 92) with true.
      change (N.eqb 39 39) with true. cbn [andb]. rewrite IH by lia. reflexivity. }
    destruct (N.eqb_spec c 92) as [->|H92].
    { destruct fuel as [|f]; [inversion Hf|]. destruct f as [|f]; [cbn [length] in Hf; lia|].
      cbn [length] in Hf. cbn [app].
      (* first backslash: followed by a backslash, no match *)
      cbn [replace_go starts_with]. change (N.eqb 92 92) with true. change (N.eqb 39 92) with false.
      cbn [andb]. 
      (* second backslash: followed by the next escape, which never starts with an apostrophe *)
      change (starts_with [39] (sq_escape s)) with (starts_with [39] (sq_escape s)).
      pose proof (sq_escape_not_apostrophe s) as Hn. cbn [starts_with] in Hn.
      destruct (sq_escape s) as [|y t].
      - cbn [andb]. rewrite IH by (cbn [length] in *; lia). reflexivity.
      - rewrite Hn. cbn [andb]. rewrite IH by (cbn [length] in *; lia). reflexivity. }
    destruct (N.ltb_spec c 32) as [Hlt|Hge].
    { unfold esc_u in *. cbn [length] in Hf.
      do 6 (destruct fuel as [|fuel]; [lia|]). cbn [app].
      destruct (hexdig_range (c / 16)) as [Ha _]. destruct (hexdig_range (c mod 16)) as [Hb _].
      (* the backslash of \u: followed by u *)
      rewrite (replace_go_bs _ [39] 117) by lia.
      rewrite (replace_go_skip _ 92 39 [39] 117) by lia.
      rewrite (replace_go_skip _ 92 39 [39] 48) by lia.
      rewrite (replace_go_skip _ 92 39 [39] 48) by lia.
      rewrite (replace_go_skip _ 92 39 [39] (hexdig (c / 16))) by exact Ha.
      rewrite (replace_go_skip _ 92 39 [39] (hexdig (c mod 16))) by exact Hb.
      rewrite IH by lia. reflexivity. }
    destruct fuel as [|f]; [inversion Hf|]. cbn [length] in Hf. cbn [app].
    rewrite (replace_go_skip _ 92 39 [39] c) by exact H92. rewrite IH by lia. reflexivity.
Qed.

(* replacing a single character *)
Lemma replace_go_char a r : forall s fuel,
  (length s < fuel)%nat ->
  replace_go fuel [a] r s = flat_map (fun x => if N.eqb x a then r else [x]) s.
Proof.
  induction s as [|x s IH]; intros fuel Hf.
  - destruct fuel; [inversion Hf|]. reflexivity.
  - destruct fuel as [|f]; [inversion Hf|]. cbn [length] in Hf.
    cbn [replace_go starts_with flat_map length skipn]. rewrite andb_true_r.
    rewrite (N.eqb_sym a x). destruct (N.eqb x a); rewrite IH by lia; reflexivity.
Qed.

Lemma quote_mid_char c :
  flat_map (fun x => if N.eqb x 34 then [92; 34] else [x]) (mid_char c) = esc_char_json c.
Proof.
  unfold mid_char, esc_char_json, esc_u.
  destruct (N.eqb_spec c 34) as [->|H34]; [reflexivity|].
  destruct (N.eqb_spec c 92) as [->|H92]; [reflexivity|].
  destruct (N.ltb_spec c 32) as [Hlt|Hge].
  - destruct (hexdig_range (c / 16)) as [_ Ha]. destruct (hexdig_range (c mod 16)) as [_ Hb].
    cbn [flat_map app]. change (N.eqb 92 34) with false. change (N.eqb 117 34) with false.
    change (N.eqb 48 34) with false. cbn iota.
    destruct (N.eqb_spec (hexdig (c / 16)) 34); [contradiction|].
    destruct (N.eqb_spec (hexdig (c mod 16)) 34); [contradiction|]. reflexivity.
  - cbn [flat_map app]. destruct (N.eqb_spec c 34); [contradiction|]. reflexivity.
Qed.

Lemma quote_mid s : flat_map (fun x => if N.eqb x 34 then [92; 34] else [x]) (mid s) = esc_json s.
Proof.
  induction s as [|c s IH]; [reflexivity|]. cbn [mid esc_json flat_map]. fold (mid s). fold (esc_json s).
  rewrite flat_map_app, quote_mid_char, IH. reflexivity.
Qed.

Theorem single_quote_rewrite_sq_escape c : single_quote_rewrite (sq_escape c) = print_str c.
Proof.
  unfold single_quote_rewrite, print_str, replace.
  rewrite replace_go_sq by lia. rewrite replace_go_char by lia. rewrite quote_mid. reflexivity.
Qed.

(* a single-quoted literal whose body is the escaping of c denotes c, for every
   content string c — including backslashes followed by apostrophes *)
Theorem single_quote_literal c :
  json_from_str (single_quote_rewrite (sq_escape c)) = Some (JStr c).
Proof. rewrite single_quote_rewrite_sq_escape. apply json_from_str_print_str. Qed.

(* ---------- sorted maps: inserting a larger key appends ---------- *)
Lemma str_lt_trans : forall a b c, str_cmp a b = Lt -> str_cmp b c = Lt -> str_cmp a c = Lt.
Proof.
  induction a as [|x a IH]; intros [|y b] [|z c]; cbn [str_cmp]; try discriminate; try reflexivity.
  destruct (N.compare_spec x y) as [->|Hxy|Hxy]; try discriminate;
    destruct (N.compare_spec y z) as [->|Hyz|Hyz]; try discriminate; intros H1 H2.
  - eapply IH; eassumption.
  - reflexivity.
  - destruct (N.compare_spec x z); try lia. reflexivity.
  - destruct (N.compare_spec x z); try lia. reflexivity.
Qed.

Lemma sorted_tail {A} (kv : str * A) m : keys_sorted (kv :: m) = true -> keys_sorted m = true.
Proof.
  destruct kv as [k v]. cbn [keys_sorted]. destruct m as [|[k1 v1] r]; [reflexivity|].
  intro H. apply andb_prop in H. apply H.
Qed.

Lemma sorted_app_lt {A} : forall (pre : list (str * A)) k x post,
  keys_sorted (pre ++ (k, x) :: post) = true ->
  Forall (fun kv => str_cmp (fst kv) k = Lt) pre.
Proof.
  induction pre as [|[k0 v0] pre IH]; intros k x post H; [constructor|].
  pose proof (sorted_tail _ _ H) as Ht. specialize (IH _ _ _ Ht).
  constructor; [|exact IH]. cbn [fst]. cbn [app keys_sorted] in H.
  destruct pre as [|[k1 v1] pre'].
  - cbn [app] in H. apply andb_prop in H. destruct H as [H _]. unfold str_ltb in H.
    destruct (str_cmp k0 k); try discriminate. reflexivity.
  - cbn [app] in H. apply andb_prop in H. destruct H as [H _]. unfold str_ltb in H.
    inversion IH; subst. cbn [fst] in *. eapply str_lt_trans; [|eassumption].
    destruct (str_cmp k0 k1); try discriminate. reflexivity.
Qed.

Lemma map_insert_append {A} : forall (pre : list (str * A)) k v,
  Forall (fun kv => str_cmp (fst kv) k = Lt) pre -> map_insert pre k v = pre ++ [(k, v)].
Proof.
  induction pre as [|[k0 v0] pre IH]; intros k v H; [reflexivity|].
  inversion H; subst. cbn [fst] in *. cbn [map_insert app].
  rewrite str_cmp_flip. match goal with Hc : str_cmp k0 k = Lt |- _ => rewrite Hc end.
  cbn [CompOpp]. rewrite IH by assumption. reflexivity.
Qed.

(* ---------- the printer, unfolded ---------- *)
Definition print_member (kx : str * json) : str :=
  let '(k, x) := kx in print_str k ++ 58 :: print_json x.

Fixpoint arr_tail (r : list json) : str :=
  match r with [] => [93] | y :: r' => 44 :: print_json y ++ arr_tail r' end.
Fixpoint obj_tail (r : list (str * json)) : str :=
  match r with [] => [125] | ky :: r' => 44 :: print_member ky ++ obj_tail r' end.

Lemma print_json_arr x r : print_json (JArr (x :: r)) = 91 :: print_json x ++ arr_tail r.
Proof. reflexivity. Qed.

Lemma print_json_obj kx r : print_json (JObj (kx :: r)) = 123 :: print_member kx ++ obj_tail r.
Proof. reflexivity. Qed.

Lemma print_member_app k x t :
  print_member (k, x) ++ t = 34 :: esc_json k ++ 34 :: 58 :: print_json x ++ t.
Proof.
  unfold print_member, print_str. cbn [app]. rewrite <- !app_assoc. cbn [app]. reflexivity.
Qed.

(* a value may be followed by anything that is not a number character *)
Definition delim (rest : str) : bool :=
  match rest with [] => true | c :: _ => negb (is_numch c) end.

Lemma delim_first_is rest : delim rest = true -> first_is is_numch rest = false.
Proof. destruct rest as [|c r]; [reflexivity|]. cbn. apply negb_true_iff. Qed.

Lemma delim_arr_tail l rest : delim (arr_tail l ++ rest) = true.
Proof. destruct l; reflexivity. Qed.
Lemma delim_obj_tail l rest : delim (obj_tail l ++ rest) = true.
Proof. destruct l; reflexivity. Qed.

(* first character of a printed value *)
Definition starter (c : N) : Prop :=
  is_json_ws c = false /\ N.eqb c 93 = false.

Lemma digit_starter c : is_digit c = true \/ c = 45 ->
  starter c /\ N.eqb 110 c = false /\ N.eqb 116 c = false /\ N.eqb 102 c = false
  /\ N.eqb c 34 = false /\ N.eqb c 91 = false /\ N.eqb c 123 = false /\ is_numch c = true.
Proof.
  intro H.
  assert (Hr : 48 <= c <= 57 \/ c = 45).
  { destruct H as [H| ->]; [|right; reflexivity]. left. unfold is_digit in H.
    apply andb_prop in H. destruct H as [H1 H2]. apply N.leb_le in H1. apply N.leb_le in H2. lia. }
  assert (Hn : is_numch c = true).
  { destruct H as [H| ->]; [apply is_digit_numch; exact H|reflexivity]. }
  unfold starter, is_json_ws.
  repeat split; try exact Hn;
    repeat match goal with |- context [N.eqb ?a ?b] => destruct (N.eqb_spec a b); [lia|] end; reflexivity.
Qed.

Lemma print_json_head v :
  int_json v = true -> exists c r, print_json v = c :: r /\ starter c.
Proof.
  destruct v as [|b|n|s|l|m]; intro Hi.
  - exists 110, (`"ull"). split; [reflexivity|split; reflexivity].
  - destruct b; [exists 116, (`"rue")|exists 102, (`"alse")]; (split; [reflexivity|split; reflexivity]).
  - assert (Hf : match n with Float _ => False | _ => True end) by (destruct n; try exact I; discriminate).
    destruct (print_num_chars n Hf) as (_ & c & r & He & Hc). exists c, r. split; [exact He|].
    apply digit_starter. exact Hc.
  - exists 34, (esc_json s ++ [34]). split; [reflexivity|split; reflexivity].
  - destruct l as [|x r].
    + exists 91, [93]. split; [reflexivity|split; reflexivity].
    + rewrite print_json_arr. eexists; eexists. split; [reflexivity|split; reflexivity].
  - destruct m as [|kx r].
    + exists 123, [125]. split; [reflexivity|split; reflexivity].
    + rewrite print_json_obj. eexists; eexists. split; [reflexivity|split; reflexivity].
Qed.

Lemma skip_ws_starter c r : is_json_ws c = false -> skip_ws (c :: r) = c :: r.
Proof. intro H. unfold skip_ws. cbn [drop_while]. rewrite H. reflexivity. Qed.

(* ---------- arrays and objects ---------- *)
Lemma elems_ok f : forall l x acc g rest,
  (forall y, In y (x :: l) -> int_json y = true /\ forall rest', delim rest' = true ->
      json_value f (print_json y ++ rest') = Some (y, rest')) ->
  (length l < g)%nat ->
  json_elems (json_value f) g (print_json x ++ arr_tail l ++ rest) acc
  = Some (JArr (rev acc ++ x :: l), rest).
Proof.
  induction l as [|y l IH]; intros x acc g rest Hv Hg; (destruct g as [|g]; [inversion Hg|]).
  - cbn [json_elems]. destruct (Hv x (or_introl eq_refl)) as [_ Hx].
    rewrite Hx by apply delim_arr_tail. cbn [arr_tail app].
    rewrite skip_ws_starter by reflexivity.
    change (N.eqb 93 44) with false. change (N.eqb 93 93) with true. cbn iota. reflexivity.
  - cbn [json_elems]. destruct (Hv x (or_introl eq_refl)) as [_ Hx].
    rewrite Hx by apply delim_arr_tail. cbn [arr_tail app].
    rewrite skip_ws_starter by reflexivity.
    change (N.eqb 44 44) with true. cbn iota. rewrite <- app_assoc.
    rewrite IH.
    + cbn [rev]. rewrite <- app_assoc. reflexivity.
    + intros z Hz. apply Hv. right. exact Hz.
    + cbn [length] in Hg. lia.
Qed.

Lemma members_ok f : forall post pre k x g rest,
  (forall ky, In ky ((k, x) :: post) -> forall rest', delim rest' = true ->
      json_value f (print_json (snd ky) ++ rest') = Some (snd ky, rest')) ->
  keys_sorted (pre ++ (k, x) :: post) = true ->
  (length post < g)%nat ->
  json_members (json_value f) g (print_member (k, x) ++ obj_tail post ++ rest) pre
  = Some (JObj (pre ++ (k, x) :: post), rest).
Proof.
  induction post as [|[k2 x2] post IH]; intros pre k x g rest Hv Hs Hg;
    (destruct g as [|g]; [inversion Hg|]).
  - rewrite print_member_app. cbn [json_members].
    rewrite skip_ws_starter by reflexivity. change (N.eqb 34 34) with true. cbn iota.
    rewrite json_string_body_esc
      by (pose proof (esc_json_length k); rewrite app_length; cbn [length]; lia).
    cbn [rev app]. rewrite skip_ws_starter by reflexivity. change (N.eqb 58 58) with true. cbn iota.
    pose proof (Hv (k, x) (or_introl eq_refl)) as Hx. cbn [snd] in Hx.
    rewrite Hx by apply delim_obj_tail. cbn [obj_tail app].
    rewrite skip_ws_starter by reflexivity.
    change (N.eqb 125 44) with false. change (N.eqb 125 125) with true. cbn iota.
    rewrite (map_insert_append pre k x (sorted_app_lt _ _ _ _ Hs)). reflexivity.
  - rewrite print_member_app. cbn [json_members].
    rewrite skip_ws_starter by reflexivity. change (N.eqb 34 34) with true. cbn iota.
    rewrite json_string_body_esc
      by (pose proof (esc_json_length k); rewrite app_length; cbn [length]; lia).
    cbn [rev app]. rewrite skip_ws_starter by reflexivity. change (N.eqb 58 58) with true. cbn iota.
    pose proof (Hv (k, x) (or_introl eq_refl)) as Hx. cbn [snd] in Hx.
    rewrite Hx by apply delim_obj_tail. cbn [obj_tail app].
    rewrite skip_ws_starter by reflexivity.
    change (N.eqb 44 44) with true. cbn iota.
    rewrite (map_insert_append pre k x (sorted_app_lt _ _ _ _ Hs)).
    rewrite <- app_assoc. rewrite IH.
    + rewrite <- app_assoc. reflexivity.
    + intros ky Hk. apply Hv. right. exact Hk.
    + rewrite <- app_assoc. exact Hs.
    + cbn [length] in Hg. lia.
Qed.

(* ---------- induction on JSON values ---------- *)
Lemma json_ind' (P : json -> Prop) :
  P JNull -> (forall b, P (JBool b)) -> (forall n, P (JNum n)) -> (forall s, P (JStr s)) ->
  (forall l, Forall P l -> P (JArr l)) ->
  (forall m, Forall (fun kv => P (snd kv)) m -> P (JObj m)) ->
  forall v, P v.
Proof.
  intros Hn Hb Hnum Hs Ha Ho.
  fix IH 1. intros [|b|n|s|l|m].
  - exact Hn.
  - apply Hb.
  - apply Hnum.
  - apply Hs.
  - apply Ha. induction l as [|x l IHl]; constructor; [apply IH|exact IHl].
  - apply Ho. induction m as [|[k x] m IHm]; constructor; [apply IH|exact IHm].
Qed.

Lemma arr_tail_length l : (length l < length (arr_tail l))%nat.
Proof. induction l as [|y l IH]; cbn [arr_tail length]; [lia|]. rewrite app_length. lia. Qed.
Lemma obj_tail_length l : (length l < length (obj_tail l))%nat.
Proof. induction l as [|y l IH]; cbn [obj_tail length]; [lia|]. rewrite app_length. lia. Qed.

Lemma arr_tail_in y l : In y l -> (length (print_json y) < length (arr_tail l))%nat.
Proof.
  induction l as [|z l IH]; [contradiction|]. cbn [arr_tail length]. rewrite app_length.
  intros [->|H]; [lia|]. specialize (IH H). lia.
Qed.
Lemma obj_tail_in ky l : In ky l -> (length (print_json (snd ky)) < length (obj_tail l))%nat.
Proof.
  induction l as [|[k z] l IH]; [contradiction|]. cbn [obj_tail length]. rewrite app_length.
  intros [<-|H].
  - cbn [snd print_member]. rewrite app_length. cbn [length]. lia.
  - specialize (IH H). lia.
Qed.

Lemma starts_with_head_ne c (p : str) s a :
  N.eqb a c = false -> starts_with (a :: p) (c :: s) = false.
Proof. intro H. cbn [starts_with]. rewrite H. reflexivity. Qed.

Lemma json_value_print : forall v,
  int_json v = true -> wf_json v = true ->
  forall fuel rest, (length (print_json v) < fuel)%nat -> delim rest = true ->
  json_value fuel (print_json v ++ rest) = Some (v, rest).
Proof.
  induction v as [|b|n|s|l IHl|m IHm] using json_ind'; intros Hi Hw fuel rest Hf Hd;
    (destruct fuel as [|f]; [inversion Hf|]).
  - reflexivity.
  - destruct b; reflexivity.
  - (* numbers *)
    assert (Hfl : match n with Float _ => False | _ => True end) by (destruct n; try exact I; discriminate).
    destruct (print_num_chars n Hfl) as (Hall & c & r & He & Hc).
    destruct (digit_starter c Hc) as ([Hws _] & H110 & H116 & H102 & H34 & H91 & H123 & Hnc).
    cbn [json_value print_json]. rewrite He. cbn [app]. rewrite skip_ws_starter by exact Hws.
    change (`"null") with [110; 117; 108; 108]. change (`"true") with [116; 114; 117; 101].
    change (`"false") with [102; 97; 108; 115; 101].
    rewrite !starts_with_head_ne by assumption.
    rewrite H34, H91, H123, Hnc.
    change (c :: r ++ rest) with ((c :: r) ++ rest). rewrite <- He.
    destruct (take_while_all is_numch (print_num n) rest Hall (delim_first_is _ Hd)) as [-> ->].
    cbn [wf_json] in Hw. rewrite (num_wf_print n Hw Hfl). reflexivity.
  - (* strings *)
    cbn [json_value print_json]. unfold print_str. cbn [app]. rewrite skip_ws_starter by reflexivity.
    change (`"null") with [110; 117; 108; 108]. change (`"true") with [116; 114; 117; 101].
    change (`"false") with [102; 97; 108; 115; 101].
    rewrite !starts_with_head_ne by reflexivity.
    change (N.eqb 34 34) with true. cbn iota. rewrite <- app_assoc. cbn [app].
    rewrite json_string_body_esc
      by (pose proof (esc_json_length s); rewrite app_length; cbn [length]; lia).
    reflexivity.
  - (* arrays *)
    destruct l as [|x l].
    + cbn [json_value print_json app]. rewrite skip_ws_starter by reflexivity.
      change (`"null") with [110; 117; 108; 108]. change (`"true") with [116; 114; 117; 101].
      change (`"false") with [102; 97; 108; 115; 101].
      rewrite !starts_with_head_ne by reflexivity.
      change (N.eqb 91 34) with false. change (N.eqb 91 91) with true. cbn iota.
      rewrite skip_ws_starter by reflexivity. reflexivity.
    + rewrite print_json_arr in *. cbn [length] in Hf. rewrite app_length in Hf.
      cbn [int_json wf_json] in Hi, Hw.
      assert (Hall : forall y, In y (x :: l) -> int_json y = true /\ forall rest', delim rest' = true ->
                json_value f (print_json y ++ rest') = Some (y, rest')).
      { intros y Hy. rewrite Forall_forall in IHl. rewrite forallb_forall in Hi, Hw.
        split; [apply Hi; exact Hy|]. intros rest' Hd'. apply IHl; auto.
        destruct Hy as [->|Hy]; [lia|]. pose proof (arr_tail_in y l Hy). lia. }
      destruct (print_json_head x (proj1 (Hall x (or_introl eq_refl)))) as (c & r & He & Hws & H93).
      cbn [json_value app]. rewrite skip_ws_starter by reflexivity.
      change (`"null") with [110; 117; 108; 108]. change (`"true") with [116; 114; 117; 101].
      change (`"false") with [102; 97; 108; 115; 101].
      rewrite !starts_with_head_ne by reflexivity.
      change (N.eqb 91 34) with false. change (N.eqb 91 91) with true. cbn iota.
      rewrite <- app_assoc.
      assert (Hfe : first_eq 93 (skip_ws (print_json x ++ arr_tail l ++ rest)) = false).
      { rewrite He. cbn [app]. rewrite skip_ws_starter by exact Hws. cbn [first_eq]. exact H93. }
      rewrite Hfe. rewrite (elems_ok f l x [] f rest Hall).
      * reflexivity.
      * pose proof (arr_tail_length l). lia.
  - (* objects *)
    destruct m as [|[k x] m].
    + cbn [json_value print_json app]. rewrite skip_ws_starter by reflexivity.
      change (`"null") with [110; 117; 108; 108]. change (`"true") with [116; 114; 117; 101].
      change (`"false") with [102; 97; 108; 115; 101].
      rewrite !starts_with_head_ne by reflexivity.
      change (N.eqb 123 34) with false. change (N.eqb 123 91) with false.
      change (N.eqb 123 123) with true. cbn iota.
      rewrite skip_ws_starter by reflexivity. reflexivity.
    + rewrite print_json_obj in *. cbn [length] in Hf. rewrite app_length in Hf.
      cbn [int_json wf_json] in Hi, Hw. apply andb_prop in Hw. destruct Hw as [Hsorted Hw].
      assert (Hall : forall ky, In ky ((k, x) :: m) -> forall rest', delim rest' = true ->
                json_value f (print_json (snd ky) ++ rest') = Some (snd ky, rest')).
      { intros ky Hy rest' Hd'. rewrite Forall_forall in IHm. rewrite forallb_forall in Hi, Hw.
        apply IHm; auto.
        destruct Hy as [<-|Hy].
        - cbn [snd print_member] in *. rewrite app_length in Hf. cbn [length] in Hf. lia.
        - pose proof (obj_tail_in ky m Hy). lia. }
      cbn [json_value app]. rewrite skip_ws_starter by reflexivity.
      change (`"null") with [110; 117; 108; 108]. change (`"true") with [116; 114; 117; 101].
      change (`"false") with [102; 97; 108; 115; 101].
      rewrite !starts_with_head_ne by reflexivity.
      change (N.eqb 123 34) with false. change (N.eqb 123 91) with false.
      change (N.eqb 123 123) with true. cbn iota.
      rewrite <- app_assoc.
      assert (Hfe : first_eq 125 (skip_ws (print_member (k, x) ++ obj_tail m ++ rest)) = false).
      { rewrite print_member_app. rewrite skip_ws_starter by reflexivity. reflexivity. }
      rewrite Hfe. rewrite (members_ok f m [] k x f rest Hall Hsorted).
      * reflexivity.
      * pose proof (obj_tail_length m). lia.
Qed.

(* literal_roundtrip: every JSON value without floats, with in-range integers
   and strictly sorted (hence distinct) object keys, strings over all scalar
   values *)
Theorem literal_roundtrip v :
  int_json v = true -> wf_json v = true -> json_from_str (print_json v) = Some v.
Proof.
  intros Hi Hw. unfold json_from_str.
  rewrite <- (app_nil_r (print_json v)) at 2.
  rewrite (json_value_print v Hi Hw _ [] (Nat.lt_succ_diag_r _) eq_refl). reflexivity.
Qed.

(* the hypotheses are satisfiable by a value of every shape *)
Example literal_roundtrip_example :
  let v := JObj [(`"a", JArr [JNum (PosInt 18446744073709551615); JNum (NegInt (-9223372036854775808));
                              JStr [34; 92; 7; 39; 955; 128512]; JNull; JBool true]);
                 (`"b", JObj []); (`"c", JArr [])] in
  int_json v = true /\ wf_json v = true /\ json_from_str (print_json v) = Some v.
Proof. cbv zeta. split; [reflexivity|]. split; [reflexivity|]. apply literal_roundtrip; reflexivity. Qed.

(* ---------- both quote styles: only at the top of a literal ---------- *)
(* The grammar accepts single-quoted strings inside array and object literals
   (string_literal is either quote style), but parse_param rewrites the quotes
   only when the literal itself is a string: the text goes to the JSON parser
   unchanged and the template is rejected.  The same literal with double quotes
   compiles. *)
Lemma single_quote_nested_refuted :
  compile2 (`"{{h ['a']}}") default_opts = CErr (TEInvalidParam (`"['a']"))
  /\ compile2 (`"{{h {'k': 1}}}") default_opts = CErr (TEInvalidParam (`"{'k': 1}"))
  /\ exists t, compile2 (`"{{h [""a""]}}") default_opts = COk t.
Proof.
  split; [vm_compute; reflexivity|]. split; [vm_compute; reflexivity|].
  eexists. vm_compute. reflexivity.
Qed.

(* ---------- parse_param on a literal parameter ---------- *)
Section ParamLiteral.
  Variable src : str.

  (* a literal that is not a string (or a double-quoted string): its source text
     goes to the JSON parser as is *)
  Lemma parse_param_literal f p0 p lit rest ptxt :
    is_rule R_helper_parameter p0 = true ->
    name_classify (tk_rule p) = NmLiteral ->
    span_str src p (`"param span") = COk ptxt ->
    is_rule R_string_literal lit = false ->
    parse_param src (S f) (p0 :: p :: lit :: rest)
    = match json_from_str ptxt with
      | Some j => COk (PLit j, skip_upto rest (tk_end p))
      | None => CErr (TEInvalidParam ptxt)
      end.
  Proof.
    intros H0 Hc Hs Hl. rewrite parse_param_S. cbv zeta. rewrite H0. cbn [cbind].
    rewrite Hs. cbn [cbind]. rewrite Hc, Hl. cbn [cbind].
    destruct (json_from_str ptxt); reflexivity.
  Qed.

  Lemma parse_param_double_quoted f p0 p lit q rest ptxt :
    is_rule R_helper_parameter p0 = true ->
    name_classify (tk_rule p) = NmLiteral ->
    span_str src p (`"param span") = COk ptxt ->
    is_rule R_string_literal lit = true ->
    is_rule R_string_inner_single_quote q = false ->
    parse_param src (S f) (p0 :: p :: lit :: q :: rest)
    = match json_from_str ptxt with
      | Some j => COk (PLit j, skip_upto (q :: rest) (tk_end p))
      | None => CErr (TEInvalidParam ptxt)
      end.
  Proof.
    intros H0 Hc Hs Hl Hq. rewrite parse_param_S. cbv zeta. rewrite H0. cbn [cbind].
    rewrite Hs. cbn [cbind]. rewrite Hc, Hl, Hq. cbn [cbind].
    destruct (json_from_str ptxt); reflexivity.
  Qed.

  Lemma parse_param_single_quoted f p0 p lit q rest ptxt inner :
    is_rule R_helper_parameter p0 = true ->
    name_classify (tk_rule p) = NmLiteral ->
    span_str src p (`"param span") = COk ptxt ->
    is_rule R_string_literal lit = true ->
    is_rule R_string_inner_single_quote q = true ->
    span_str src q (`"inner span") = COk inner ->
    parse_param src (S f) (p0 :: p :: lit :: q :: rest)
    = match json_from_str (single_quote_rewrite inner) with
      | Some j => COk (PLit j, skip_upto rest (tk_end p))
      | None => CErr (TEInvalidParam ptxt)
      end.
  Proof.
    intros H0 Hc Hs Hl Hq Hi. rewrite parse_param_S. cbv zeta. rewrite H0. cbn [cbind].
    rewrite Hs. cbn [cbind]. rewrite Hc, Hl, Hq, Hi. cbn [cbind].
    destruct (json_from_str (single_quote_rewrite inner)); reflexivity.
  Qed.

  (* the parameter written as the printed form of v is the literal v *)
  Theorem parse_param_printed_literal f p0 p lit rest v :
    is_rule R_helper_parameter p0 = true ->
    name_classify (tk_rule p) = NmLiteral ->
    span_str src p (`"param span") = COk (print_json v) ->
    is_rule R_string_literal lit = false ->
    int_json v = true -> wf_json v = true ->
    parse_param src (S f) (p0 :: p :: lit :: rest) = COk (PLit v, skip_upto rest (tk_end p)).
  Proof.
    intros H0 Hc Hs Hl Hi Hw. rewrite (parse_param_literal f p0 p lit rest _ H0 Hc Hs Hl).
    rewrite literal_roundtrip by assumption. reflexivity.
  Qed.

  Theorem parse_param_single_quoted_literal f p0 p lit q rest ptxt c :
    is_rule R_helper_parameter p0 = true ->
    name_classify (tk_rule p) = NmLiteral ->
    span_str src p (`"param span") = COk ptxt ->
    is_rule R_string_literal lit = true ->
    is_rule R_string_inner_single_quote q = true ->
    span_str src q (`"inner span") = COk (sq_escape c) ->
    parse_param src (S f) (p0 :: p :: lit :: q :: rest) = COk (PLit (JStr c), skip_upto rest (tk_end p)).
  Proof.
    intros H0 Hc Hs Hl Hq Hi.
    rewrite (parse_param_single_quoted f p0 p lit q rest ptxt _ H0 Hc Hs Hl Hq Hi).
    rewrite single_quote_literal. reflexivity.
  Qed.
End ParamLiteral.

(* both through the whole compiler on a template: the content of the
   single-quoted literal is  it's \ "q" \'  (apostrophe, backslash, double quotes,
   backslash followed by apostrophe) *)
Example single_quote_literal_example :
  let c := [105; 116; 39; 115; 32; 92; 32; 34; 113; 34; 32; 92; 39] in
  compile2 (`"{{h '" ++ sq_escape c ++ `"'}}") default_opts
  = COk (MkT None [ElExpr (MkH (PName (`"h")) [PLit (JStr c)] [] None None None false false false)]
             [(1, 1)]).
Proof. vm_compute. reflexivity. Qed.

(* the hypotheses of the two parse_param theorems on pest's tokens of
   {{h 'a\'b'}} and {{h [1,-2]}} *)
Example parse_param_single_quoted_literal_example :
  let src := `"{{h 'a\'b'}}" in
  let p0 : tok := (R_helper_parameter, 4, 10) in
  let p : tok := (R_literal, 4, 10) in
  let lit : tok := (R_string_literal, 4, 10) in
  let q : tok := (R_string_inner_single_quote, 5, 9) in
  is_rule R_helper_parameter p0 = true /\
  name_classify (tk_rule p) = NmLiteral /\
  span_str src p (`"param span") = COk (`"'a\'b'") /\
  is_rule R_string_literal lit = true /\
  is_rule R_string_inner_single_quote q = true /\
  span_str src q (`"inner span") = COk (sq_escape (`"a'b")).
Proof. cbv zeta. repeat split; vm_compute; reflexivity. Qed.

Example parse_param_printed_literal_example :
  let src := `"{{h [1,-2]}}" in
  let v := JArr [JNum (PosInt 1); JNum (NegInt (-2))] in
  let p0 : tok := (R_helper_parameter, 4, 10) in
  let p : tok := (R_literal, 4, 10) in
  let lit : tok := (R_array_literal, 4, 10) in
  is_rule R_helper_parameter p0 = true /\
  name_classify (tk_rule p) = NmLiteral /\
  span_str src p (`"param span") = COk (print_json v) /\
  is_rule R_string_literal lit = false /\
  int_json v = true /\ wf_json v = true.
Proof. cbv zeta. repeat split; vm_compute; reflexivity. Qed.
