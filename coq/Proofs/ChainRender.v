(* Proofs/ChainRender.v — property C06, render half: the nest of helper blocks
   an else-chain compiles to renders exactly one branch body. *)
From Coq Require Import List Lia NArith Bool.
From HB Require Import Rt.Render Reg.RegOps Spec.ChainSpec Spec.DispatchSpec Spec.ChainRenderSpec.
From HB Require Import Proofs.DispatchProofs.
Import ListNotations.
Open Scope nat_scope.

Ltac sx :=
  cbn [frame s_blocks s_modified s_partials s_pb_stack s_pb_depth s_local_helpers s_current s_root
       s_disable_escape s_trailing_newline s_content_produced s_indent_before_write s_indent
       s_dev s_out s_log s_esc_trace
       set_blocks set_modified set_partials set_pb_stack set_pb_depth set_local_helpers set_current
       set_disable_escape set_trailing_newline set_content_produced set_indent_before_write
       set_indent set_out set_log set_esc_trace].

Lemma frame_id st : frame st (s_content_produced st) (s_indent_before_write st) (s_current st) = st.
Proof. destruct st; reflexivity. Qed.

Lemma rbind_unit_id (x : rres unit) : rbind x (fun _ s' => ROk tt s') = x.
Proof. destruct x as [[] s| | |]; reflexivity. Qed.

Lemma rmap_err_id {A} (x : rres A) g : (forall e, g e = e) -> rmap_err x g = x.
Proof. intros H. destruct x; cbn; congruence. Qed.

Lemma attach_render_wrap h e : attach_render (wrap h) 0 e = e.
Proof.
  unfold attach_render, attach_pos, wrap. cbn [t_map t_name nth_error].
  destruct e as [r tp l c]. cbn [e_line e_tpl e_reason e_col].
  destruct l; destruct tp; reflexivity.
Qed.

Section CR.
  Variables (reg : registry) (data : json) (ft : ftable) (st : rstate).
  Notation RT := (render_template reg data ft).
  Notation RH := (render_helper reg data ft).

  (* the unnamed template around a chain link *)
  Lemma wrap_render f h s :
    RT (S (S f)) (wrap h) s =
    rbind (RH f h (set_current s None)) (fun _ s' => ROk tt (set_current s' (s_current s))).
  Proof.
    rewrite render_template_S. unfold restore_current. cbn [wrap t_els t_name fold_idx].
    f_equal. unfold render_step. rewrite rbind_unit_id, render_element_S.
    apply rmap_err_id. intros e. apply attach_render_wrap.
  Qed.

  Lemma nest_nonempty lk rest fe : nest (lk :: rest) fe = Some (wrap (chain_block true (lk :: rest) fe)).
  Proof. destruct lk as [[e b] w]. reflexivity. Qed.

  Hypothesis Hvis : builtins_visible reg st.

  (* one block whose tag evaluates: the bracket of render_helper around the
     selected template *)
  Lemma block_step lk k iz cv c rest fe g cp ibw cur :
    link_evals reg data ft st lk k iz cv ->
    RH (S (S (S g))) (block c lk rest fe) (frame st cp ibw cur) =
    rbind (match (if selects k iz cv then Some (link_body lk) else nest rest fe) with
           | Some t => RT g t (frame st false (ibw || (link_ibw lk && s_trailing_newline st)) cur)
           | None => ROk tt (frame st false (ibw || (link_ibw lk && s_trailing_newline st)) cur)
           end)
          (fun _ s2 =>
             if s_content_produced s2
             then ROk tt (set_indent_before_write s2 (s_trailing_newline s2))
             else ROk tt (set_indent_before_write (set_content_produced s2 cp) ibw)).
  Proof.
    destruct lk as [[e b] w]. cbn [link_evals link_body link_ibw block].
    intros (Hname & pv & hm & p0 & Hps & Hhs & Hp0 & Hcv & Hiz).
    set (ht := MkH (es_name e) (es_params e) (es_hash e) (es_bp e) (Some b) (nest rest fe) true c w).
    assert (Hhft : helper_from_template reg data ft (S (S g)) ht (frame st cp ibw cur)
                   = ROk {| hv_name := kind_name k; hv_params := pv; hv_hash := hm; hv_tpl := Some b;
                            hv_inv := nest rest fe; hv_bp := es_bp e; hv_block := true |}
                         (frame st cp ibw cur)).
    { rewrite helper_from_template_S. subst ht. cbn [h_name h_params h_hash h_tpl h_inv h_bp h_block].
      rewrite Hname, expand_as_name_S. cbn [rbind]. rewrite Hps. cbn [rbind]. rewrite Hhs. reflexivity. }
    destruct Hvis as (Hif & Hun & Hlif & Hlun).
    rewrite (dispatch_registry reg data ft (S (S g)) ht _ _ _ (kind_hid k) Hhft).
    2:{ cbn [hv_name]. destruct k; [exact Hlif|exact Hlun]. }
    2:{ cbn [hv_name]. destruct k; [exact Hif|exact Hun]. }
    unfold call_indent_aware. subst ht. cbn [h_ibw].
    apply (f_equal2 (@rbind unit unit)); [|reflexivity].
    assert (Hch : forall s, call_helper reg data ft (S (S g)) (kind_hid k)
                     {| hv_name := kind_name k; hv_params := pv; hv_hash := hm; hv_tpl := Some b;
                        hv_inv := nest rest fe; hv_bp := es_bp e; hv_block := true |} s
                   = opt_render reg data ft (S g) (if selects k iz cv then Some b else nest rest fe) s).
    { intros s. destruct k; cbn [kind_hid call_helper]; unfold param_or; cbn [hv_params hv_hash hv_tpl hv_inv];
        rewrite Hp0; fold (include_zero hm); rewrite Hiz, Hcv; cbn [selects];
        destruct (is_truthy iz cv); reflexivity. }
    rewrite Hch. destruct (if selects k iz cv then Some b else nest rest fe); reflexivity.
  Qed.

  Definition any_ibw (l : list link) : bool := existsb link_ibw l.

  (* the exit of one bracket level, and of the levels above the first *)
  Definition gexit (cp ibw : bool) (cur : option str) (deep : bool) (s2 : rstate) : rstate :=
    let s3 := if s_content_produced s2
              then set_indent_before_write s2 (s_trailing_newline s2)
              else set_indent_before_write (set_content_produced s2 cp) ibw in
    if deep then set_current s3 cur else s3.

  Definition is_deep {A} (l : list A) : bool := match l with [] => false | _ => true end.

  Lemma passed_evals lk : link_passed reg data ft st lk ->
    exists k iz cv, link_evals reg data ft st lk k iz cv /\ selects k iz cv = false.
  Proof. exact (fun H => H). Qed.

  (* a selected link after a prefix of passed links *)
  Lemma level_sel lk rest fe g : link_selected reg data ft st lk ->
    forall pre c cp ibw cur, Forall (link_passed reg data ft st) pre ->
    RH (g + 3 + 5 * length pre) (chain_block c (pre ++ lk :: rest) fe) (frame st cp ibw cur) =
    rbind (RT g (link_body lk)
              (frame st false (ibw || (any_ibw (pre ++ [lk]) && s_trailing_newline st))
                     (if is_deep pre then None else cur)))
          (fun _ s2 => ROk tt (gexit cp ibw cur (is_deep pre) s2)).
  Proof.
    intros (k & iz & cv & Hev & Hsel). induction pre as [|l0 pre IH]; intros c cp ibw cur Hpre.
    - cbn [app length chain_block is_deep any_ibw existsb]. rewrite Nat.mul_0_r, Nat.add_0_r.
      replace (g + 3) with (S (S (S g))) by lia.
      rewrite (block_step _ _ _ _ _ _ _ _ _ _ _ Hev). rewrite Hsel, orb_false_r.
      apply rbind_ext. intros _ s2. unfold gexit. destruct (s_content_produced s2); reflexivity.
    - inversion Hpre as [|? ? H0 Hpre']; subst.
      destruct H0 as (k0 & iz0 & cv0 & Hev0 & Hsel0).
      cbn [app length chain_block is_deep].
      replace (g + 3 + 5 * S (length pre)) with (S (S (S (S (S (g + 3 + 5 * length pre)))))) by lia.
      rewrite (block_step _ _ _ _ _ _ _ _ _ _ _ Hev0). rewrite Hsel0.
      assert (Hn : nest (pre ++ lk :: rest) fe = Some (wrap (chain_block true (pre ++ lk :: rest) fe)))
        by (destruct pre; apply nest_nonempty).
      rewrite Hn, wrap_render.
      change (set_current (frame st false (ibw || (link_ibw l0 && s_trailing_newline st)) cur) None)
        with (frame st false (ibw || (link_ibw l0 && s_trailing_newline st)) None).
      rewrite (IH true false (ibw || (link_ibw l0 && s_trailing_newline st)) None Hpre').
      rewrite !rbind_assoc.
      replace (if is_deep pre then None else @None str) with (@None str) by (destruct pre; reflexivity).
      cbn [any_ibw app existsb]. fold (any_ibw (pre ++ [lk])).
      replace (ibw || (link_ibw l0 && s_trailing_newline st) || (any_ibw (pre ++ [lk]) && s_trailing_newline st))%bool
        with (ibw || ((link_ibw l0 || any_ibw (pre ++ [lk])) && s_trailing_newline st))%bool
        by (destruct ibw, (link_ibw l0), (any_ibw (pre ++ [lk])), (s_trailing_newline st); reflexivity).
      apply rbind_ext. intros _ s2. cbn [rbind]. unfold gexit.
      destruct (s_content_produced s2) eqn:E; destruct (is_deep pre); sx; rewrite ?E; sx; reflexivity.
  Qed.

  (* no link selects: the final else, or nothing *)
  Lemma level_else fe g :
    forall links c cp ibw cur, links <> [] -> Forall (link_passed reg data ft st) links ->
    RH (g + 3 + 5 * (length links - 1)) (chain_block c links fe) (frame st cp ibw cur) =
    match fe with
    | Some t =>
        rbind (RT g t (frame st false (ibw || (any_ibw links && s_trailing_newline st))
                        (if is_deep (tl links) then None else cur)))
              (fun _ s2 => ROk tt (gexit cp ibw cur (is_deep (tl links)) s2))
    | None => ROk tt (frame st cp ibw cur)
    end.
  Proof.
    induction links as [|l0 links IH]; intros c cp ibw cur Hne Hall; [congruence|].
    inversion Hall as [|? ? H0 Hall']; subst.
    destruct H0 as (k0 & iz0 & cv0 & Hev0 & Hsel0).
    destruct links as [|l1 r1].
    - cbn [length chain_block tl is_deep any_ibw existsb]. rewrite orb_false_r.
      replace (g + 3 + 5 * (1 - 1)) with (S (S (S g))) by lia.
      rewrite (block_step _ _ _ _ _ _ _ _ _ _ _ Hev0). rewrite Hsel0.
      cbn [nest]. destruct fe as [t|].
      + apply rbind_ext. intros _ s2. unfold gexit. destruct (s_content_produced s2); reflexivity.
      + cbn [rbind]. sx. reflexivity.
    - cbn [chain_block tl is_deep].
      replace (g + 3 + 5 * (length (l0 :: l1 :: r1) - 1))
        with (S (S (S (S (S (g + 3 + 5 * (length (l1 :: r1) - 1))))))) by (cbn [length]; lia).
      rewrite (block_step _ _ _ _ _ _ _ _ _ _ _ Hev0). rewrite Hsel0.
      rewrite nest_nonempty, wrap_render.
      change (set_current (frame st false (ibw || (link_ibw l0 && s_trailing_newline st)) cur) None)
        with (frame st false (ibw || (link_ibw l0 && s_trailing_newline st)) None).
      rewrite (IH true false (ibw || (link_ibw l0 && s_trailing_newline st)) None
                  ltac:(discriminate) Hall').
      destruct fe as [t|].
      + rewrite !rbind_assoc.
        replace (if is_deep (tl (l1 :: r1)) then None else @None str) with (@None str)
          by (destruct r1; reflexivity).
        cbn [any_ibw existsb]. fold (any_ibw r1).
        replace (ibw || (link_ibw l0 && s_trailing_newline st)
                 || ((link_ibw l1 || any_ibw r1) && s_trailing_newline st))%bool
          with (ibw || ((link_ibw l0 || (link_ibw l1 || any_ibw r1)) && s_trailing_newline st))%bool
          by (destruct ibw, (link_ibw l0), (link_ibw l1), (any_ibw r1), (s_trailing_newline st); reflexivity).
        apply rbind_ext. intros _ s2. cbn [rbind]. unfold gexit.
        destruct (s_content_produced s2) eqn:E; destruct (is_deep (tl (l1 :: r1))); sx; rewrite ?E; sx;
          reflexivity.
      + cbn [rbind]. sx. reflexivity.
  Qed.
End CR.

(* ====================================================================== *)
(** * The theorems, from an arbitrary state st *)

Theorem chain_render_selected : forall reg data ft st pre lk rest fe c g,
  builtins_visible reg st ->
  Forall (link_passed reg data ft st) pre ->
  link_selected reg data ft st lk ->
  render_element reg data ft (g + 4 + 5 * length pre)
                 (ElBlock (chain_block c (pre ++ lk :: rest) fe)) st
  = chain_result st (length pre) (existsb link_ibw (pre ++ [lk]))
                 (render_template reg data ft g (link_body lk)).
Proof.
  intros reg data ft st pre lk rest fe c g Hvis Hpre Hsel.
  replace (g + 4 + 5 * length pre) with (S (g + 3 + 5 * length pre)) by lia.
  rewrite render_element_S.
  pose proof (level_sel reg data ft st Hvis lk rest fe g Hsel pre c
                (s_content_produced st) (s_indent_before_write st) (s_current st) Hpre) as H.
  rewrite frame_id in H. rewrite H. unfold chain_result, chain_entry, chain_exit, gexit, any_ibw.
  destruct pre; reflexivity.
Qed.

Theorem chain_render_else : forall reg data ft st links fe c g,
  builtins_visible reg st ->
  links <> [] -> Forall (link_passed reg data ft st) links ->
  render_element reg data ft (g + 4 + 5 * (length links - 1)) (ElBlock (chain_block c links fe)) st
  = match fe with
    | Some t => chain_result st (length links - 1) (existsb link_ibw links)
                             (render_template reg data ft g t)
    | None => ROk tt st
    end.
Proof.
  intros reg data ft st links fe c g Hvis Hne Hall.
  replace (g + 4 + 5 * (length links - 1)) with (S (g + 3 + 5 * (length links - 1))) by lia.
  rewrite render_element_S.
  pose proof (level_else reg data ft st Hvis fe g links c
                (s_content_produced st) (s_indent_before_write st) (s_current st) Hne Hall) as H.
  rewrite frame_id in H. rewrite H. destruct fe as [t|]; [|reflexivity].
  unfold chain_result, chain_entry, chain_exit, gexit, any_ibw.
  destruct links as [|l0 [|l1 r]]; [congruence| |]; cbn [length Nat.sub tl is_deep]; reflexivity.
Qed.

(* (b) nothing after the selected link matters: any other tail, any other
   final else — also tails whose tags would not evaluate at all *)
Theorem no_later_evaluated : forall reg data ft st pre lk rest rest' fe fe' c g,
  builtins_visible reg st ->
  Forall (link_passed reg data ft st) pre ->
  link_selected reg data ft st lk ->
  render_element reg data ft (g + 4 + 5 * length pre)
                 (ElBlock (chain_block c (pre ++ lk :: rest) fe)) st
  = render_element reg data ft (g + 4 + 5 * length pre)
                   (ElBlock (chain_block c (pre ++ lk :: rest') fe')) st.
Proof.
  intros. rewrite !chain_render_selected by assumption. reflexivity.
Qed.

(* nothing selected and no final else: nothing is written, the state is unchanged *)
Theorem chain_render_nothing : forall reg data ft st links c g,
  builtins_visible reg st ->
  links <> [] -> Forall (link_passed reg data ft st) links ->
  render_element reg data ft (g + 4 + 5 * (length links - 1)) (ElBlock (chain_block c links None)) st
  = ROk tt st.
Proof. intros. rewrite chain_render_else by assumption. reflexivity. Qed.

Lemma chain_block_is_compiled : forall e0 ibw0 b0 (links : list link) fe,
  MkH (es_name e0) (es_params e0) (es_hash e0) (es_bp e0) (Some b0) (nest links fe)
      true (match links with [] => false | _ => true end) ibw0
  = chain_block (match links with [] => false | _ => true end) ((e0, b0, ibw0) :: links) fe.
Proof. reflexivity. Qed.

(* ====================================================================== *)
(** * Which parameters evaluate quietly *)

Section Quiet.
  Variables (reg : registry) (data : json) (ft : ftable) (st : rstate).

  Lemma quiet_lit j : quiet_param reg data ft st (PLit j) {| pj_rel := None; pj_val := SConstant j |}.
  Proof. intros f cp ibw cur. reflexivity. Qed.

  Lemma evaluate2_frame d pa v cp ibw cur :
    evaluate2 d pa st = ROk v st -> evaluate2 d pa (frame st cp ibw cur) = ROk v (frame st cp ibw cur).
  Proof.
    unfold evaluate2, rfail. sx. destruct pa.
    - destruct (navigate d segs (s_blocks st)); try discriminate. intros [= ->]. reflexivity.
    - intros [= <-]. reflexivity.
  Qed.

  (* a path: it evaluates (against the replaced context if a decorator set one,
     else against the data) without an invalid-index error *)
  Lemma quiet_path pa v :
    evaluate2 (match s_modified st with Some c => c | None => data end) pa st = ROk v st ->
    quiet_param reg data ft st (PPath pa)
      {| pj_rel := Some (path_raw pa);
         pj_val := match s_modified st with Some _ => SDerived (sc_json v) | None => v end |}.
  Proof.
    intros Hev f cp ibw cur. rewrite expand_param_path.
    change (s_modified (frame st cp ibw cur)) with (s_modified st).
    destruct (s_modified st); rewrite (evaluate2_frame _ _ _ cp ibw cur Hev); reflexivity.
  Qed.

  (* a name (identifier parameter): a missing value *)
  Lemma quiet_name m : quiet_param reg data ft st (PName m) {| pj_rel := Some m; pj_val := SMissing |}.
  Proof. intros f cp ibw cur. reflexivity. Qed.

  Lemma quiet_params_of ps pv :
    Forall2 (quiet_param reg data ft st) ps pv -> quiet_params reg data ft st ps pv.
  Proof.
    intros H f cp ibw cur. induction H as [|p v ps pv Hp _ IH]; [reflexivity|].
    cbn [mapM]. rewrite Hp. cbn [rbind]. rewrite IH. reflexivity.
  Qed.

  Lemma quiet_hash_of hs hm :
    Forall2 (fun (kv : str * param) (kv' : str * pj) =>
               fst kv = fst kv' /\ quiet_param reg data ft st (snd kv) (snd kv')) hs hm ->
    quiet_hash reg data ft st hs hm.
  Proof.
    intros H f cp ibw cur. induction H as [|[k p] [k' v] hs hm [Hk Hp] _ IH]; [reflexivity|].
    cbn [fst snd] in Hk, Hp. subst k'. cbn [mapM fst snd]. rewrite Hp. cbn [rbind]. rewrite IH.
    reflexivity.
  Qed.

  (* a link `if p` / `unless p`, optionally with includeZero=<bool literal> *)
  Lemma link_evals_simple k p v (iz : option bool) b w pre pro :
    quiet_param reg data ft st p v ->
    link_evals reg data ft st
      ({| es_name := PName (kind_name k); es_params := [p];
          es_hash := match iz with Some z => [(`"includeZero", PLit (JBool z))] | None => [] end;
          es_bp := None; es_pre := pre; es_pro := pro |}, b, w)
      k (match iz with Some z => z | None => false end) (pj_value v).
  Proof.
    intros Hp. cbn [link_evals es_name es_params es_hash]. split; [reflexivity|].
    exists [v], (match iz with
                 | Some z => [(`"includeZero", {| pj_rel := None; pj_val := SConstant (JBool z) |})]
                 | None => [] end), v.
    split; [apply quiet_params_of; repeat constructor; exact Hp|]. split.
    - apply quiet_hash_of. destruct iz; repeat constructor; try apply quiet_lit.
    - split; [reflexivity|]. split; [reflexivity|]. destruct iz; reflexivity.
  Qed.
End Quiet.

(* ====================================================================== *)
(** * (c) the one-link forms *)

Definition simple_tag (k : ckind) (p : param) (iz : option bool) : espec :=
  {| es_name := PName (kind_name k); es_params := [p];
     es_hash := match iz with Some z => [(`"includeZero", PLit (JBool z))] | None => [] end;
     es_bp := None; es_pre := false; es_pro := false |}.

(* {{#if p}}A{{else}}B{{/if}}, {{#unless p}}A{{else}}B{{/unless}}, with or
   without includeZero=<bool>; B absent: nothing *)
Theorem one_link_render : forall reg data ft st k p v iz A fe c w g,
  builtins_visible reg st ->
  quiet_param reg data ft st p v ->
  render_element reg data ft (g + 4)
    (ElBlock (MkH (PName (kind_name k)) [p]
                  (match iz with Some z => [(`"includeZero", PLit (JBool z))] | None => [] end)
                  None (Some A) fe true c w)) st
  = if selects k (match iz with Some z => z | None => false end) (pj_value v)
    then chain_result st 0 w (render_template reg data ft g A)
    else match fe with
         | Some B => chain_result st 0 w (render_template reg data ft g B)
         | None => ROk tt st
         end.
Proof.
  intros reg data ft st k p v iz A fe c w g Hvis Hp.
  pose proof (link_evals_simple reg data ft st k p v iz A w false false Hp) as Hev.
  fold (simple_tag k p iz) in Hev.
  change (MkH (PName (kind_name k)) [p]
              (match iz with Some z => [(`"includeZero", PLit (JBool z))] | None => [] end)
              None (Some A) fe true c w)
    with (chain_block c ([] ++ (simple_tag k p iz, A, w) :: []) fe).
  destruct (selects k (match iz with Some z => z | None => false end) (pj_value v)) eqn:Hs.
  - replace (g + 4) with (g + 4 + 5 * length (@nil link)) by (cbn; lia).
    rewrite chain_render_selected; [|exact Hvis|constructor|eexists _, _, _; split; [exact Hev|exact Hs]].
    cbn [app existsb link_ibw length link_body]. rewrite orb_false_r. reflexivity.
  - cbn [app].
    replace (g + 4) with (g + 4 + 5 * (length [(simple_tag k p iz, A, w)] - 1)) by (cbn; lia).
    rewrite chain_render_else; [|exact Hvis|discriminate|].
    + cbn [existsb link_ibw length Nat.sub]. rewrite orb_false_r. reflexivity.
    + constructor; [|constructor]. eexists _, _, _. split; [exact Hev|exact Hs].
Qed.

Theorem if_else_render : forall reg data ft st p v A B c w g,
  builtins_visible reg st ->
  quiet_param reg data ft st p v ->
  render_element reg data ft (g + 4)
    (ElBlock (MkH (PName (`"if")) [p] [] None (Some A) (Some B) true c w)) st
  = chain_result st 0 w (render_template reg data ft g (if is_truthy false (pj_value v) then A else B)).
Proof.
  intros reg data ft st p v A B c w g Hvis Hp.
  pose proof (one_link_render reg data ft st KIf p v None A (Some B) c w g Hvis Hp) as H.
  cbn [kind_name selects] in H. rewrite H.
  destruct (is_truthy false (pj_value v)); reflexivity.
Qed.

Theorem unless_render : forall reg data ft st p v A c w g,
  builtins_visible reg st ->
  quiet_param reg data ft st p v ->
  render_element reg data ft (g + 4)
    (ElBlock (MkH (PName (`"unless")) [p] [] None (Some A) None true c w)) st
  = if is_truthy false (pj_value v) then ROk tt st
    else chain_result st 0 w (render_template reg data ft g A).
Proof.
  intros reg data ft st p v A c w g Hvis Hp.
  pose proof (one_link_render reg data ft st KUnless p v None A None c w g Hvis Hp) as H.
  cbn [kind_name selects] in H. rewrite H.
  destruct (is_truthy false (pj_value v)); reflexivity.
Qed.

(* ====================================================================== *)
(** * Examples *)

Definition copts0 : copts := {| o_prevent_indent := false; o_is_partial := false; o_name := None |}.
Definition st0 : rstate := st_init None None None.
Definition pth (nm : string) : param := PPath (PathRelative [SegNamed (`nm)] (`nm)).
Definition raw_t (txt : string) (col : N) : template := MkT None [ElRaw (`txt)] [(1%N, col)].

(* a 3-link chain (plus the head link) through compile2: it IS chain_block of
   these links *)
Definition src3 : str := `"{{#if a}}A{{else if b includeZero=true}}B{{else unless c}}C{{else}}D{{/if}}".
Definition l_a : link := (simple_tag KIf (pth "a") None, raw_t "A" 10, false).
Definition l_b : link := (simple_tag KIf (pth "b") (Some true), raw_t "B" 41, false).
Definition l_c : link := (simple_tag KUnless (pth "c") None, raw_t "C" 59, false).
Definition data3 : json := JObj [(`"a", JBool false); (`"b", JNum (PosInt 0)); (`"c", JBool true)].

Example ex_chain_compiles :
  compile2 src3 copts0
  = COk (MkT None [ElBlock (chain_block true [l_a; l_b; l_c] (Some (raw_t "D" 68)))] [(1, 1)%N]).
Proof. vm_compute. reflexivity. Qed.

Example ex_builtins_visible : builtins_visible reg_new st0.
Proof. repeat split; vm_compute; reflexivity. Qed.

(* path parameters satisfy the evaluation hypothesis (so do literals: quiet_lit) *)
Example ex_quiet_path_a :
  quiet_param reg_new data3 [] st0 (pth "a")
    {| pj_rel := Some (`"a"); pj_val := SContext (JBool false) [`"a"] |}.
Proof. apply (quiet_path reg_new data3 [] st0). vm_compute. reflexivity. Qed.

Example ex_quiet_path_b :
  quiet_param reg_new data3 [] st0 (pth "b")
    {| pj_rel := Some (`"b"); pj_val := SContext (JNum (PosInt 0)) [`"b"] |}.
Proof. apply (quiet_path reg_new data3 [] st0). vm_compute. reflexivity. Qed.

Example ex_quiet_literal :
  quiet_param reg_new data3 [] st0 (PLit (JNum (PosInt 0)))
    {| pj_rel := None; pj_val := SConstant (JNum (PosInt 0)) |}.
Proof. apply quiet_lit. Qed.

Example ex_l_a_passed : link_passed reg_new data3 [] st0 l_a.
Proof.
  exists KIf, false, (JBool false). split; [|reflexivity].
  exact (link_evals_simple reg_new data3 [] st0 KIf (pth "a") _ None (raw_t "A" 10) false false false
           ex_quiet_path_a).
Qed.

Example ex_l_b_selected : link_selected reg_new data3 [] st0 l_b.
Proof.
  exists KIf, true, (JNum (PosInt 0)). split; [|vm_compute; reflexivity].
  exact (link_evals_simple reg_new data3 [] st0 KIf (pth "b") _ (Some true) (raw_t "B" 41) false false false
           ex_quiet_path_b).
Qed.

(* the theorem applied: `a` is false, `b` is 0 with includeZero=true: body B,
   whatever follows (here: the `unless c` link and the final else) *)
Example ex_chain_theorem_applies : forall g,
  render_element reg_new data3 [] (g + 4 + 5 * 1)
    (ElBlock (chain_block true [l_a; l_b; l_c] (Some (raw_t "D" 68)))) st0
  = chain_result st0 1 false (render_template reg_new data3 [] g (raw_t "B" 41)).
Proof.
  intros g.
  exact (chain_render_selected reg_new data3 [] st0 [l_a] l_b [l_c] (Some (raw_t "D" 68)) true g
           ex_builtins_visible (Forall_cons _ ex_l_a_passed (Forall_nil _)) ex_l_b_selected).
Qed.

(* and computed: the whole compiled template and the theorem's answer both write "B" once *)
Example ex_chain_computed :
  (match compile2 src3 copts0 with
   | COk t => finish_render (render_template reg_new data3 [] 30 t st0)
   | _ => RoPanic
   end) = RoOk (`"B") [] 1
  /\ finish_render (chain_result st0 1 false (render_template reg_new data3 [] 5 (raw_t "B" 41)))
     = RoOk (`"B") [] 1
  /\ finish_render (render_element reg_new data3 [] (5 + 4 + 5 * 1)
                      (ElBlock (chain_block true [l_a; l_b; l_c] (Some (raw_t "D" 68)))) st0)
     = RoOk (`"B") [] 1.
Proof. repeat split; vm_compute; reflexivity. Qed.

(* STRICT MODE.  For `if` / `unless` a condition that is a MISSING path is not
   an error, in the crate (helper_if.rs reads param.value(), which is Null for
   a missing value) as in the model: the parameter evaluates quietly to a
   missing value, which is falsy — the hypothesis of the theorem holds and the
   else branch is rendered, strict mode or not. *)
Definition reg_strict : registry := set_strict_mode reg_new true.
Example ex_strict_missing_is_falsy :
  quiet_param reg_strict data3 [] st0 (pth "nope") {| pj_rel := Some (`"nope"); pj_val := SMissing |}
  /\ (match compile2 (`"{{#if nope}}A{{else}}B{{/if}}") copts0 with
      | COk t => finish_render (render_template reg_strict data3 [] 30 t st0)
      | _ => RoPanic
      end) = RoOk (`"B") [] 1.
Proof.
  split; [apply (quiet_path reg_strict data3 [] st0); vm_compute; reflexivity|vm_compute; reflexivity].
Qed.

(* What IS an error, and lies outside the hypothesis "the tag evaluates":
   no condition parameter; a path whose evaluation fails (index into an array
   that is not a number); a subexpression condition that fails. *)
Definition err_of (o : render_obs) : option rreason :=
  match o with RoErr e _ _ => Some (e_reason e) | _ => None end.
Example ex_condition_errors :
  (match compile2 (`"{{#if}}A{{else}}B{{/if}}") copts0 with
   | COk t => err_of (finish_render (render_template reg_new data3 [] 30 t st0))
   | _ => None
   end) = Some (RParamNotFoundForIndex (`"if") 0)
  /\ (match compile2 (`"{{#if (nohelper 1)}}A{{else}}B{{/if}}") copts0 with
      | COk t => err_of (finish_render (render_template reg_new data3 [] 30 t st0))
      | _ => None
      end) = Some (RHelperNotFound (`"nohelper")).
Proof. split; vm_compute; reflexivity. Qed.

(* ====================================================================== *)
(** * Goal B (fragment): a single `with` block, with or without {{else}} *)

(* the block `with` pushes for the value v (helper_with.rs / block_util.rs) *)
Definition with_block (bp : option blockparam) (v : pj) : HB.Rt.State.block :=
  match bp with
  | Some (BP1 a) =>
      b_set_params (create_block v)
        (map_insert [] a (match sc_context_path (pj_val v) with
                          | Some _ => BPPath []
                          | None => BPValue (pj_value v)
                          end))
  | _ => create_block v
  end.

Theorem with_render_partial : forall reg data ft st p v bp A fe c w g,
  find_reg_helper reg (`"with") = Some HWith -> find_local_helper st (`"with") = None ->
  quiet_param reg data ft st p v ->
  render_element reg data ft (g + 4)
    (ElBlock (MkH (PName (`"with")) [p] [] bp (Some A) fe true c w)) st
  = if is_truthy false (pj_value v)
    then chain_result st 0 w (fun s =>
           rbind (render_template reg data ft g A (push_block (with_block bp v) s))
                 (fun _ s1 => ROk tt (pop_block s1)))
    else match fe with
         | Some B => chain_result st 0 w (render_template reg data ft (S g) B)
         | None =>
             if r_strict reg
             then RErr (mk_err (RMissingVariable (pj_rel v))) (chain_entry st 0 w)
             else ROk tt st
         end.
Proof.
  intros reg data ft st p v bp A fe c w g Hreg Hloc Hp.
  replace (g + 4) with (S (S (S (S g)))) by lia. rewrite render_element_S.
  set (ht := MkH (PName (`"with")) [p] [] bp (Some A) fe true c w).
  assert (Hhft : helper_from_template reg data ft (S (S g)) ht st
                 = ROk {| hv_name := `"with"; hv_params := [v]; hv_hash := []; hv_tpl := Some A;
                          hv_inv := fe; hv_bp := bp; hv_block := true |} st).
  { rewrite helper_from_template_S. subst ht. cbn [h_name h_params h_hash h_tpl h_inv h_bp h_block].
    rewrite expand_as_name_S. cbn [rbind mapM].
    pose proof (Hp g (s_content_produced st) (s_indent_before_write st) (s_current st)) as Hp'.
    rewrite frame_id in Hp'. rewrite Hp'. reflexivity. }
  rewrite (dispatch_registry reg data ft (S (S g)) ht _ _ _ HWith Hhft Hloc Hreg).
  unfold call_indent_aware. subst ht. cbn [h_ibw call_helper]. unfold param_or.
  cbn [hv_params hv_hash hv_tpl hv_inv hv_bp nth_error].
  unfold chain_result, chain_entry, chain_exit.
  change (set_indent_before_write (set_content_produced st false)
            (s_indent_before_write st || w && s_trailing_newline st))
    with (frame st false (s_indent_before_write st || w && s_trailing_newline st) (s_current st)).
  assert (Hx : forall (x x' : rres unit) (k k' : unit -> rstate -> rres unit), x = x' ->
                 (forall a s, k a s = k' a s) -> rbind x k = rbind x' k').
  { intros x x' k k' -> Hk. apply rbind_ext. exact Hk. }
  destruct (is_truthy false (pj_value v)).
  - fold (with_block bp v). apply Hx; [reflexivity|].
    intros _ s2. destruct (s_content_produced s2); reflexivity.
  - destruct fe as [B|].
    + apply Hx; [reflexivity|]. intros _ s2. destruct (s_content_produced s2); reflexivity.
    + destruct (r_strict reg); cbn [rbind strict_error rfail]; [reflexivity|].
      sx. f_equal. destruct st; reflexivity.
Qed.

Example ex_with_computed :
  (match compile2 (`"{{#with o}}[{{x}}]{{else}}none{{/with}}") copts0 with
   | COk t => finish_render (render_template reg_new (JObj [(`"o", JObj [(`"x", JStr (`"v"))])]) [] 30 t st0)
   | _ => RoPanic
   end) = RoOk (`"[v]") [] 3
  /\ (match compile2 (`"{{#with o}}[{{x}}]{{else}}none{{/with}}") copts0 with
      | COk t => finish_render (render_template reg_new (JObj []) [] 30 t st0)
      | _ => RoPanic
      end) = RoOk (`"none") [] 1.
Proof. split; vm_compute; reflexivity. Qed.
