(* Proofs/LeafTruthy.v — C06 leaf level: complete characterisation of
   JsonTruthy (is_truthy) on every JSON shape, the subnormal refutation
   (finding F5) and the positive theorem for non-subnormal numbers. *)
From HB Require Import Base.Json.
Open Scope N_scope.

Lemma nonempty_true {A} (l : list A) :
  (match l with [] => false | _ => true end) = true <-> l <> [].
Proof. destruct l; split; intros H; try reflexivity; try discriminate; congruence. Qed.

Theorem truthy_nonnumbers : forall iz : bool,
  is_truthy iz JNull = false /\
  (forall b, is_truthy iz (JBool b) = b) /\
  is_truthy iz (JStr []) = false /\
  is_truthy iz (JArr []) = false /\
  is_truthy iz (JObj []) = false /\
  (forall s, is_truthy iz (JStr s) = true <-> s <> []) /\
  (forall l, is_truthy iz (JArr l) = true <-> l <> []) /\
  (forall m, is_truthy iz (JObj m) = true <-> m <> []).
Proof.
  intros iz. repeat split; try reflexivity;
    try (intros H; apply (proj1 (nonempty_true _)); exact H);
    try (intros H; apply (proj2 (nonempty_true _)); exact H).
Qed.

Theorem truthy_numbers_default :
  (forall n, is_truthy false (JNum (PosInt n)) = true <-> n <> 0) /\
  (forall z, is_truthy false (JNum (NegInt z)) = true <-> z <> 0%Z) /\
  (forall b, is_truthy false (JNum (Float b)) = negb (f_is_zero b) && negb (f_is_nan b)).
Proof.
  repeat split; cbn [is_truthy as_f64_nonzero].
  - intros H ->. discriminate.
  - intros H. destruct (N.eqb_spec n 0); [contradiction | reflexivity].
  - intros H ->. discriminate.
  - intros H. destruct (Z.eqb_spec z 0); [contradiction | reflexivity].
Qed.

Theorem truthy_numbers_include_zero :
  (forall n, is_truthy true (JNum (PosInt n)) = true) /\
  (forall z, is_truthy true (JNum (NegInt z)) = true) /\
  (forall b, is_truthy true (JNum (Float b)) = negb (f_is_nan b)) /\
  (forall x, num_wf x = true -> is_truthy true (JNum x) = true).
Proof.
  repeat split. intros [n|z|b] Hwf; try reflexivity.
  cbn [is_truthy as_f64_is_nan]. unfold f_is_nan.
  cbn [num_wf] in Hwf. apply andb_prop in Hwf as [_ Hwf].
  destruct (N.eqb (f_exp b) 2047); [discriminate | reflexivity].
Qed.

(* the combined table asked for by the design *)
Theorem truthy_table : forall iz : bool,
  is_truthy iz JNull = false /\
  (forall b, is_truthy iz (JBool b) = b) /\
  (forall s, is_truthy iz (JStr s) = true <-> s <> []) /\
  (forall l, is_truthy iz (JArr l) = true <-> l <> []) /\
  (forall m, is_truthy iz (JObj m) = true <-> m <> []) /\
  (forall n, is_truthy iz (JNum (PosInt n)) = true <-> (iz = true \/ n <> 0)) /\
  (forall z, is_truthy iz (JNum (NegInt z)) = true <-> (iz = true \/ z <> 0%Z)) /\
  (forall b, is_truthy iz (JNum (Float b)) =
     if iz then negb (f_is_nan b) else negb (f_is_zero b) && negb (f_is_nan b)).
Proof.
  intros iz.
  destruct (truthy_nonnumbers iz) as (H1 & H2 & _ & _ & _ & H3 & H4 & H5).
  destruct truthy_numbers_default as (D1 & D2 & D3).
  destruct truthy_numbers_include_zero as (I1 & I2 & I3 & _).
  refine (conj H1 (conj H2 (conj H3 (conj H4 (conj H5 (conj _ (conj _ _))))))).
  - intros n. destruct iz.
    + split; [auto | intros _; apply I1].
    + rewrite D1. split; [auto | intros [Hd|Hn]; [discriminate | exact Hn]].
  - intros z. destruct iz.
    + split; [auto | intros _; apply I2].
    + rewrite D2. split; [auto | intros [Hd|Hn]; [discriminate | exact Hn]].
  - intros b. destruct iz; [apply I3 | apply D3].
Qed.

(* ---- finding F5 (fixed in /repo by "fix: treat non-zero subnormal numbers as truthy"):
   the old code tested f64::is_normal; the witness 1e-320 (bits 2024) is now truthy ---- *)
Theorem subnormal_truthy :
  num_wf (Float 2024) = true /\ f_is_zero 2024 = false /\ f_exp 2024 = 0 /\
  is_truthy false (JNum (Float 2024)) = true.
Proof. vm_compute. repeat split; reflexivity. Qed.

(* ---- positive theorem ---- *)
Lemma f_dyadic_fst_zero b : fst (f_dyadic b) = 0%Z <-> f_is_zero b = true.
Proof.
  unfold f_dyadic, f_is_zero.
  assert (Hp : forall m, (Z.of_N (two52 + m) <> 0)%Z) by (intros m; unfold two52; lia).
  destruct (N.eqb_spec (f_exp b) 0) as [He|He]; destruct (f_sign b); cbn [fst snd andb].
  - rewrite N.eqb_eq. lia.
  - rewrite N.eqb_eq. lia.
  - split; [intros H; specialize (Hp (f_man b)); lia | discriminate].
  - split; [intros H; specialize (Hp (f_man b)); lia | discriminate].
Qed.

(* for EVERY well-formed double (normal, subnormal or zero) truthiness = "value is non-zero" *)
Theorem truthy_float_value : forall b,
  num_wf (Float b) = true ->
  is_truthy false (JNum (Float b)) = negb (f_is_zero b) /\
  (is_truthy false (JNum (Float b)) = true <-> fst (f_dyadic b) <> 0%Z).
Proof.
  intros b Hwf.
  assert (E : is_truthy false (JNum (Float b)) = negb (f_is_zero b)).
  { cbn [is_truthy as_f64_nonzero]. unfold f_is_nan.
    cbn [num_wf] in Hwf. apply andb_prop in Hwf as [_ Hwf].
    destruct (N.eqb_spec (f_exp b) 2047) as [|H47]; [discriminate|].
    cbn [negb andb]. rewrite andb_true_r. reflexivity. }
  split; [exact E|]. rewrite E, f_dyadic_fst_zero.
  destruct (f_is_zero b); cbn [negb]; split; congruence.
Qed.

(* all numbers at once: truthy iff the exact value mant * 2^exp is non-zero *)
Theorem truthy_number_value : forall x,
  num_wf x = true ->
  (is_truthy false (JNum x) = true <-> fst (dyadic x) <> 0%Z).
Proof.
  intros [n|z|b] Hwf; cbn [dyadic fst].
  - rewrite (proj1 truthy_numbers_default). lia.
  - rewrite (proj1 (proj2 truthy_numbers_default)). tauto.
  - apply truthy_float_value; exact Hwf.
Qed.

(* hypotheses are satisfiable: 1.5 = 0x3FF8000000000000, and +0.0 *)
Example truthy_float_value_ex :
  num_wf (Float 4609434218613702656) = true /\
  is_truthy false (JNum (Float 4609434218613702656)) = true /\
  num_wf (Float 0) = true /\ is_truthy false (JNum (Float 0)) = false.
Proof. vm_compute. repeat split; reflexivity. Qed.
