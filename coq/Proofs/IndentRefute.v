(* Proofs/IndentRefute.v — C12: where the line-by-line law fails in the model
   (concrete renders, closed by computation), and concrete instances showing
   that the hypotheses of the positive theorems are satisfiable. *)
From HB Require Import Reg.RegOps Spec.WriterSpec Spec.IndentSpec Proofs.IndentLaw Proofs.IndentSim.
Open Scope N_scope.

Local Notation LF := [10] (only parsing).

(* ---------- 1. a partial call at the start of a line that is not standalone ----------
   q = "x\n{{> p}} y\n", p = "P".  Called as "  {{> q}}\n" the second line of q
   comes out as "P y", without the indentation: render_partial overwrites
   indent_before_write with the tag's own (false) flag although the writer is
   at a line start. *)
Theorem linestart_partial_refuted :
  exists parts plain ind,
    out_of (render_with parts (`"{{> q}}" ++ LF) JNull) = Some plain /\
    out_of (render_with parts (`"  {{> q}}" ++ LF) JNull) = Some ind /\
    no_blank_line plain /\
    ind <> indent_lines (`"  ") plain true /\
    plain = `"x" ++ LF ++ `"P y" ++ LF /\ ind = `"  x" ++ LF ++ `"P y" ++ LF.
Proof.
  exists [(`"p", `"P"); (`"q", `"x" ++ LF ++ `"{{> p}} y" ++ LF)].
  eexists. eexists. split; [vm_compute; reflexivity|]. split; [vm_compute; reflexivity|].
  split; [|split; [|split; vm_compute; reflexivity]].
  - vm_compute. repeat split; try discriminate; intros [? ?]; discriminate.
  - vm_compute. discriminate.
Qed.

(* ---------- 2. an indented standalone call after a partial whose output does not end a line ----------
   q = "{{> a}}\n  {{> p}}\n", a = "abc", p = "P": alone, q writes "abc  P".
   Called as "    {{> q}}\n" the model writes "    abc" ++ "      " ++ "P": the
   outer indentation is inserted again in the middle of the line (the tag's
   `indent.is_some()` forces indent_before_write although no line was ended). *)
Theorem nested_after_unterminated_refuted :
  exists parts plain ind,
    out_of (render_with parts (`"{{> q}}" ++ LF) JNull) = Some plain /\
    out_of (render_with parts (`"    {{> q}}" ++ LF) JNull) = Some ind /\
    no_blank_line plain /\
    ind <> indent_lines (`"    ") plain true /\
    plain = `"abc  P" /\ ind = `"    abc      P".
Proof.
  exists [(`"a", `"abc"); (`"p", `"P"); (`"q", `"{{> a}}" ++ LF ++ `"  {{> p}}" ++ LF)].
  eexists. eexists. split; [vm_compute; reflexivity|]. split; [vm_compute; reflexivity|].
  split; [|split; [|split; vm_compute; reflexivity]].
  - vm_compute. repeat split; try discriminate; intros [? ?]; discriminate.
  - vm_compute. discriminate.
Qed.

(* ---------- 3. blank lines: the indented text is not a function of the plain text ----------
   q1 = "a\n{{x}}\n" with x = "\nb" and q2 = "a\n\nb\n" write the same text,
   but indented by "  " the blank line carries the indentation only for q2. *)
Theorem blank_line_not_a_function_refuted :
  exists parts data plain ind1 ind2,
    out_of (render_with parts (`"{{> q1}}" ++ LF) data) = Some plain /\
    out_of (render_with parts (`"{{> q2}}" ++ LF) data) = Some plain /\
    out_of (render_with parts (`"  {{> q1}}" ++ LF) data) = Some ind1 /\
    out_of (render_with parts (`"  {{> q2}}" ++ LF) data) = Some ind2 /\
    ind1 <> ind2 /\
    ind1 = `"  a" ++ LF ++ LF ++ `"  b" ++ LF /\ ind2 = `"  a" ++ LF ++ `"  " ++ LF ++ `"  b" ++ LF.
Proof.
  exists [(`"q1", `"a" ++ LF ++ `"{{x}}" ++ LF); (`"q2", `"a" ++ LF ++ LF ++ `"b" ++ LF)].
  exists (JObj [(`"x", JStr (LF ++ `"b"))]).
  eexists. eexists. eexists.
  split; [vm_compute; reflexivity|]. split; [vm_compute; reflexivity|].
  split; [vm_compute; reflexivity|]. split; [vm_compute; reflexivity|].
  split; [vm_compute; discriminate|]. split; vm_compute; reflexivity.
Qed.

(* ---------- instances of the positive theorems ---------- *)
Definition ex_p : str :=
  `"a{{x}}" ++ LF ++ `"{{#if t}}" ++ LF ++ `"yes {{{x}}}" ++ LF ++ `"{{/if}}" ++ LF
  ++ `"{{> q}}" ++ LF ++ `"end" ++ LF.
Definition ex_q : str := `"q1" ++ LF ++ `"{{#each l}}{{this}}," ++ LF ++ `"{{/each}}".
Definition ex_reg : registry :=
  fold_left (fun r kv => fst (register_template_string r (fst kv) (snd kv)))
            [(`"p", ex_p); (`"q", ex_q)] reg_new.
Definition ex_data : json :=
  JObj [(`"l", JArr [JStr (`"u"); JStr (`"v")]); (`"t", JBool true); (`"x", JStr (`"v1" ++ LF ++ `"v2"))].
Definition ex_dt : deco_t := MkD (PName (`"p")) [] [] None (Some (`"  ")) true.
Definition ex_s : rstate := st_init None None None.

Example ex_registry : fr_registry ex_reg.
Proof.
  apply builtin_registry_in_fragment; [reflexivity | reflexivity |].
  vm_compute. repeat constructor.
Qed.

Example standalone_partial_ex :
  fr_registry ex_reg /\ fr_deco ex_dt /\ d_indent ex_dt = Some (`"  ") /\ d_ibw ex_dt = true /\
  call_state ex_s /\
  exists s' t',
    render_element ex_reg ex_data [] 40 (ElPartExpr (d_set_indent ex_dt None)) ex_s = ROk tt s' /\
    render_element ex_reg ex_data [] 40 (ElPartExpr ex_dt) ex_s = ROk tt t' /\
    out_text (s_out s') =
      `"av1" ++ LF ++ `"v2" ++ LF ++ `"yes v1" ++ LF ++ `"v2" ++ LF ++ `"q1" ++ LF ++ `"u," ++ LF
      ++ `"v," ++ LF ++ `"end" ++ LF /\
    out_text (s_out t') =
      `"  av1" ++ LF ++ `"  v2" ++ LF ++ `"  yes v1" ++ LF ++ `"  v2" ++ LF ++ `"  q1" ++ LF ++ `"  u," ++ LF
      ++ `"  v," ++ LF ++ `"  end" ++ LF.
Proof.
  split; [exact ex_registry|]. split; [cbn; repeat split; constructor|].
  split; [reflexivity|]. split; [reflexivity|].
  split; [vm_compute; repeat split; try constructor; intros; discriminate|].
  eexists. eexists. split; [vm_compute; reflexivity|]. split; [vm_compute; reflexivity|].
  split; vm_compute; reflexivity.
Qed.

(* a state inside an indented region for the simulation theorem *)
Example indent_simulation_ex :
  let t := match map_get (r_templates ex_reg) (`"p") with Some t => t | None => t_empty end in
  let s := set_indent_before_write ex_s true in
  fr_template t /\ plain_state s /\ o_fail_at (out_new None) = None /\
  exists s' t',
    render_template ex_reg ex_data [] 40 t s = ROk tt s' /\
    render_template ex_reg ex_data [] 40 t (with_indent [9] s (out_new None)) = ROk tt t' /\
    out_text (s_out t') =
      [9] ++ `"av1" ++ LF ++ [9] ++ `"v2" ++ LF ++ [9] ++ `"yes v1" ++ LF ++ [9] ++ `"v2" ++ LF
      ++ [9] ++ `"q1" ++ LF ++ [9] ++ `"u," ++ LF ++ [9] ++ `"v," ++ LF ++ [9] ++ `"end" ++ LF.
Proof.
  cbv zeta. split; [vm_compute; repeat split; repeat constructor|].
  split; [vm_compute; repeat split; try constructor; intros; discriminate|].
  split; [reflexivity|].
  eexists. eexists. split; [vm_compute; reflexivity|]. split; vm_compute; reflexivity.
Qed.
