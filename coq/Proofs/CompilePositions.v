(* Proofs/CompilePositions.v — C04: the positions carried by
   MismatchingClosedHelper / MismatchingClosedDecorator are pest's line/column
   of the start of a closing-tag token of the parsed source, hence inside the
   source.  Holds for every source (no well-formedness assumption). *)
From Coq Require Import List NArith Lia Bool.
From HB Require Import Peg.Peg Peg.Grammar Tpl.Compile Proofs.PegFacts Proofs.CompileNoPanic Proofs.CompileStages.
Import ListNotations.
Open Scope N_scope.

Definition Suffix {A} (a b : list A) : Prop := exists p, b = p ++ a.

Lemma Suffix_refl {A} (a : list A) : Suffix a a.
Proof. exists []. reflexivity. Qed.
Lemma Suffix_trans {A} (a b c : list A) : Suffix a b -> Suffix b c -> Suffix a c.
Proof. intros [p ->] [q ->]. exists (q ++ p). rewrite app_assoc. reflexivity. Qed.
Lemma Suffix_cons {A} (x : A) a b : Suffix a b -> Suffix a (x :: b).
Proof. intros [p ->]. exists (x :: p). reflexivity. Qed.
Lemma Suffix_In {A} (x : A) a b : Suffix (x :: a) b -> In x b.
Proof. intros [p ->]. apply in_or_app. right. left. reflexivity. Qed.

Definition is_ip (e : terror) : Prop := exists s, e = TEInvalidParam s.

(* result discipline of the tag-body parsers on ARBITRARY token lists: what is
   left is a suffix of the input, and the only error is InvalidParam *)
Definition sfx {A} (it : list tok) (x : cres (A * list tok)) : Prop :=
  match x with COk r => Suffix (snd r) it | CErr e => is_ip e | _ => True end.

Lemma sfx_bind {A B} it (x : cres (A * list tok)) (f : A * list tok -> cres (B * list tok)) :
  sfx it x -> (forall a it1, Suffix it1 it -> sfx it1 (f (a, it1))) -> sfx it (cbind x f).
Proof.
  intros Hx Hf. destruct x as [[a it1]| | |]; cbn [cbind sfx snd] in *; auto.
  specialize (Hf a it1 Hx). destruct (f (a, it1)) as [[b it2]| | |]; cbn [sfx snd] in *; auto.
  eapply Suffix_trans; eassumption.
Qed.

Lemma sfx_weaken {A} it it' (x : cres (A * list tok)) : sfx it x -> Suffix it it' -> sfx it' x.
Proof.
  intros H S. destruct x as [[a it1]| | |]; cbn [sfx snd] in *; auto. eapply Suffix_trans; eassumption.
Qed.

Section Positions.
  Variable src : str.

  Lemma pjp_sfx : forall it limit acc, sfx it (parse_json_path src it limit acc).
  Proof.
    induction it as [|n it IH]; intros limit acc; cbn [parse_json_path].
    - cbn. apply Suffix_refl.
    - destruct (limit <? tk_end n); [cbn; apply Suffix_refl|].
      assert (G : forall acc', sfx (n :: it) (parse_json_path src it limit acc')).
      { intros acc'. eapply sfx_weaken; [apply IH|]. apply Suffix_cons, Suffix_refl. }
      destruct (seg_classify (tk_rule n)); try apply G.
      destruct (slice src (tk_start n) (tk_end n)); [|exact I].
      destruct (str_eqb _ _); apply G.
  Qed.

  Lemma skip_upto_sfx : forall it limit, Suffix (skip_upto it limit) it.
  Proof.
    induction it as [|n it IH]; intros limit; cbn [skip_upto]; [apply Suffix_refl|].
    destruct (limit <? tk_end n); [apply Suffix_refl | apply Suffix_cons, IH].
  Qed.

  Lemma span_str_cases t site : (exists s, span_str src t site = COk s) \/ span_str src t site = CPanic site.
  Proof. unfold span_str. destruct (slice _ _ _); [left; eexists; reflexivity | right; reflexivity]. Qed.

  Definition QE (f : nat) : Prop := forall it limit, sfx it (parse_expression src f it limit).
  Definition QL (f : nat) : Prop := forall it limit name params hash bp pre pro,
    sfx it (expr_loop src f it limit name params hash bp pre pro).
  Definition QN (f : nat) : Prop := forall it, sfx it (parse_name src f it).
  Definition QP (f : nat) : Prop := forall it, sfx it (parse_param src f it).

  Lemma QN_step f : QE f -> QN (S f).
  Proof.
    intros HQE it. destruct it as [|n it']; cbn [parse_name]; [exact I|].
    destruct (name_classify (tk_rule n)); try exact I.
    - destruct (span_str_cases n (`"name span")) as [(s & ->)| ->]; [|exact I].
      cbn. apply Suffix_cons, Suffix_refl.
    - destruct (span_str_cases n (`"name span")) as [(s & ->)| ->]; [|exact I]. cbn [cbind].
      eapply sfx_weaken; [|apply Suffix_cons, Suffix_refl].
      eapply sfx_bind; [apply pjp_sfx|]. intros a it1 S1. cbn. apply Suffix_refl.
    - eapply sfx_weaken; [|apply Suffix_cons, Suffix_refl].
      eapply sfx_bind; [apply HQE|]. intros a it1 S1. cbn. apply Suffix_refl.
  Qed.

  Lemma QE_step f : QN f -> QL f -> QE (S f).
  Proof.
    intros HQN HQL it limit. destruct it as [|t0 it0]; cbn [parse_expression]; [exact I|].
    destruct (is_rule R_leading_tilde_to_omit_whitespace t0).
    - eapply sfx_weaken; [|apply Suffix_cons, Suffix_refl].
      eapply sfx_bind; [apply HQN|]. intros a it1 S1. apply HQL.
    - eapply sfx_bind; [apply HQN|]. intros a it1 S1. apply HQL.
  Qed.

  Lemma QP_step f : QE f -> QP (S f).
  Proof.
    intros HQE it. rewrite parse_param_S. destruct it as [|p0 it0]; [exact I|]. cbn zeta.
    assert (Core : forall p it1, Suffix it1 (p0 :: it0) ->
      sfx (p0 :: it0)
        (do ptxt <- span_str src p (`"param span");
         do '(result, it2) <-
           match name_classify (tk_rule p) with
           | NmReference =>
               do '(segs, it2) <- parse_json_path src it1 (tk_end p) [];
               COk (PPath (path_new ptxt segs), it2)
           | NmLiteral =>
               match it1 with
               | [] => CPanic (`"parse_param literal next")
               | lit :: it2 =>
                   do '(jr, it3) <-
                     (if is_rule R_string_literal lit then
                        match it2 with
                        | [] => CPanic (`"parse_param peek")
                        | q :: it3 =>
                            if is_rule R_string_inner_single_quote q then
                              do inner <- span_str src q (`"inner span");
                              COk (json_from_str (single_quote_rewrite inner), it3)
                            else COk (json_from_str ptxt, it2)
                        end
                      else COk (json_from_str ptxt, it2));
                   match jr with
                   | Some j => COk (PLit j, it3)
                   | None => CErr (TEInvalidParam ptxt)
                   end
               end
           | NmSubexpression =>
               do '(e, it2) <- parse_expression src f it1 (tk_end p);
               COk (new_subexpression e, it2)
           | _ => CPanic (`"parse_param unreachable")
           end;
         COk (result, skip_upto it2 (tk_end p)))).
    { intros p it1 S1.
      destruct (span_str_cases p (`"param span")) as [(ptxt & ->)| ->]; [|exact I]. cbn [cbind].
      eapply sfx_weaken; [|exact S1].
      eapply sfx_bind.
      - destruct (name_classify (tk_rule p)); try exact I.
        + eapply sfx_bind; [apply pjp_sfx|]. intros a it2 S2. cbn. apply Suffix_refl.
        + eapply sfx_bind; [apply HQE|]. intros a it2 S2. cbn. apply Suffix_refl.
        + destruct it1 as [|lit it2]; [exact I|].
          eapply sfx_weaken; [|apply Suffix_cons, Suffix_refl].
          eapply (sfx_bind it2 _ _).
          * destruct (is_rule R_string_literal lit); [|cbn; apply Suffix_refl].
            destruct it2 as [|q it3]; [exact I|].
            destruct (is_rule R_string_inner_single_quote q); [|cbn; apply Suffix_refl].
            destruct (span_str_cases q (`"inner span")) as [(inner & ->)| ->]; [|exact I].
            cbn. apply Suffix_cons, Suffix_refl.
          * intros jr it3 S3. destruct jr; cbn; [apply Suffix_refl | eexists; reflexivity].
      - intros result it2 S2. cbn. apply skip_upto_sfx. }
    destruct (is_rule R_helper_parameter p0).
    - destruct it0 as [|p1 it1]; [exact I|]. cbn [cbind]. apply Core.
      apply Suffix_cons, Suffix_cons, Suffix_refl.
    - cbn [cbind]. apply Core. apply Suffix_cons, Suffix_refl.
  Qed.

  Lemma QL_step f : QP f -> QL f -> QL (S f).
  Proof.
    intros HQP HQL it limit name params hash bp pre pro. rewrite expr_loop_S. cbn zeta.
    destruct it as [|p it']; [cbn; apply Suffix_refl|].
    destruct (tk_end p <? limit); [|cbn; apply Suffix_refl].
    eapply sfx_weaken; [|apply Suffix_cons, Suffix_refl].
    destruct (arg_classify (tk_rule p)).
    - eapply sfx_bind; [apply HQP|]. intros a it2 S2. apply HQL.
    - destruct it' as [|k it1]; [exact I|].
      destruct (span_str_cases k (`"hash key span")) as [(key & ->)| ->]; [|exact I]. cbn [cbind].
      eapply sfx_weaken; [|apply Suffix_cons, Suffix_refl].
      eapply sfx_bind; [apply HQP|]. intros a it2 S2. apply HQL.
    - eapply sfx_bind.
      + unfold parse_block_param. destruct it' as [|p1 it1]; [exact I|].
        destruct (span_str_cases p1 (`"bp span")) as [(n1 & ->)| ->]; [|exact I]. cbn [cbind].
        destruct it1 as [|p2 it2]; [cbn; apply Suffix_cons, Suffix_refl|].
        destruct (tk_end p2 <=? tk_end p); [|cbn; apply Suffix_cons, Suffix_refl].
        destruct (span_str_cases p2 (`"bp span")) as [(n2 & ->)| ->]; [|exact I].
        cbn. apply Suffix_cons, Suffix_cons, Suffix_refl.
      + intros a it2 S2. apply HQL.
    - apply HQL.
    - apply HQL.
  Qed.

  Theorem parsers_sfx : forall f, QE f /\ QL f /\ QN f /\ QP f.
  Proof.
    induction f as [|f (A & B & C & D)].
    - repeat split; red; intros; exact I.
    - repeat split; [apply QE_step | apply QL_step | apply QN_step | apply QP_step]; assumption.
  Qed.

  (* ---------- one step of the loop ---------- *)
  Variable all : list tok.
  Variable opts : copts.

  (* what an error of `step` on token pr can be *)
  Definition err_at (pr : tok) (e : terror) : Prop :=
    match e with
    | TEMismatchHelper _ _ l c =>
        tag_classify (tk_rule pr) = KHelperEnd /\ line_col src (tk_start pr) = (l, c)
    | TEMismatchDeco _ _ l c =>
        (exists b, tag_classify (tk_rule pr) = KDecoEnd b) /\ line_col src (tk_start pr) = (l, c)
    | TEInvalidParam _ => True
    | _ => False
    end.

  Definition errp {A} (P : terror -> Prop) (x : cres A) : Prop :=
    match x with CErr e => P e | _ => True end.
  Definition stp (pr : tok) (it : list tok) (x : cres (cstate * list tok)) : Prop :=
    match x with COk r => Suffix (snd r) it | CErr e => err_at pr e | _ => True end.

  Lemma stp_bind {A} pr it (x : cres A) (f : A -> cres (cstate * list tok)) :
    errp (err_at pr) x -> (forall a, x = COk a -> stp pr it (f a)) -> stp pr it (cbind x f).
  Proof. intros Hx Hf. destruct x; cbn [cbind errp stp] in *; auto. Qed.

  Lemma errp_bind {A B} P (x : cres A) (f : A -> cres B) :
    errp P x -> (forall a, errp P (f a)) -> errp P (cbind x f).
  Proof. intros Hx Hf. destruct x; cbn [cbind errp] in *; auto. Qed.

  Lemma push_front_noerr P ts el lc site : errp P (push_front_el ts el lc site).
  Proof. destruct ts; exact I. Qed.

  Lemma remove_escapes_noerr P : forall l s o cs, errp P (remove_escapes s o cs l).
  Proof.
    induction l as [|e l IH]; intros s o cs; cbn [remove_escapes]; [exact I|].
    destruct (remove_at s _); [apply IH | exact I].
  Qed.

  Lemma raw_string_noerr P txt pr a b : errp P (raw_string txt pr a b).
  Proof.
    unfold raw_string. apply errp_bind.
    - destruct pr as [[p escs]|]; [|exact I].
      destruct (len txt <? tk_end p - tk_start p); [exact I|]. apply remove_escapes_noerr.
    - intros s0. destruct a; [exact I|]. destruct b; exact I.
  Qed.

  Lemma trailing_string_noerr P c pr lc : errp P (trailing_string src c pr lc).
  Proof.
    unfold trailing_string. match goal with |- context [if ?b then _ else _] => destruct b end; [|exact I].
    destruct (slice src _ _); [|exact I].
    apply errp_bind; [apply raw_string_noerr|]. intros el.
    destruct (rule_eqb _ _); [exact I|]. apply errp_bind; [apply push_front_noerr | intros; exact I].
  Qed.

  Lemma standalone_noerr P ts t pi ip : errp P (process_standalone_statement src ts t pi ip).
  Proof.
    unfold process_standalone_statement. destruct (suffix_from src _); [|exact I].
    match goal with |- context [if ?b then _ else _] => destruct b end; [|exact I].
    destruct (prefix_to src _); [|exact I].
    apply errp_bind; [|intros; exact I].
    destruct (pi && _); [destruct ts; exact I | exact I].
  Qed.

  Lemma revert_loop_noerr P : forall fuel cur prev, errp P (revert_loop fuel cur prev).
  Proof.
    induction fuel as [|f IH]; intros cur prev; cbn [revert_loop]; [exact I|].
    destruct cur as [[n els m]|]; [|exact I].
    destruct els as [|[] [|]]; try exact I. apply IH.
  Qed.

  Lemma revert_chain_noerr P fuel h inv : errp P (revert_chain_and_set fuel h inv).
  Proof.
    unfold revert_chain_and_set. destruct (h_chain h).
    - destruct (ref_chain_head h) as [hd|]; [|exact I].
      destruct hd as [head|].
      + destruct (h_tpl head); (apply errp_bind; [apply revert_loop_noerr | intros; exact I]).
      + apply errp_bind; [apply revert_loop_noerr | intros; exact I].
    - destruct (h_tpl h); exact I.
  Qed.

  Lemma set_chain_template_noerr P h t : errp P (set_chain_template h t).
  Proof. unfold set_chain_template. destruct (ref_chain_head h) as [[|]|]; exact I. Qed.

  (* tag_prologue: leftover is a suffix, errors are InvalidParam *)
  Lemma tag_prologue_sfx f c1 pr it :
    match tag_prologue src f c1 pr it with
    | COk r => Suffix (snd r) it
    | CErr e => is_ip e
    | _ => True
    end.
  Proof.
    unfold tag_prologue. pose proof (proj1 (parsers_sfx f) it (tk_end pr)) as H.
    destruct (parse_expression src f it (tk_end pr)) as [[e it1]| | |]; cbn [cbind sfx snd] in *; auto.
    destruct (es_pre e); cbn [cbind].
    - unfold remove_previous_whitespace. destruct (c_ts c1); cbn; auto.
    - cbn. exact H.
  Qed.

  Lemma ip_err_at pr e : is_ip e -> err_at pr e.
  Proof. intros [s ->]. exact I. Qed.

  Theorem step_stp f c pr it : stp pr it (step src all opts f c pr it).
  Proof.
    unfold step.
    apply stp_bind; [apply trailing_string_noerr|]. intros c1 _.
    set (lc := line_col src (tk_start pr)).
    assert (Hlc : lc = (fst lc, snd lc)) by (destruct lc; reflexivity).
    (* every class: the body leaves a suffix and errs only as allowed *)
    assert (Body : forall body : cres (cstate * list tok), stp pr it body ->
      stp pr it (cbind body (fun r => let '(c', it') := r in
         match tag_classify (tk_rule pr) with
         | KTemplate => COk (c', it')
         | _ => COk ({| c_ts := c_ts c'; c_hs := c_hs c'; c_ds := c_ds c'; c_omit := c_omit c';
                        c_trim := c_trim c'; c_end := Some (tk_end pr) |}, it')
         end))).
    { intros body Hb. destruct body as [[c' it']| | |]; cbn [cbind stp snd] in *; auto.
      destruct (tag_classify (tk_rule pr)); cbn; exact Hb. }
    apply Body. clear Body.
    assert (Pro : forall (k : espec * list template * list tok -> cres (cstate * list tok)),
              (forall es ts1 it1, Suffix it1 it -> stp pr it (k (es, ts1, it1))) ->
              forall it0, Suffix it0 it -> stp pr it (cbind (tag_prologue src f c1 pr it0) k)).
    { intros k Hk it0 S0. pose proof (tag_prologue_sfx f c1 pr it0) as H.
      destruct (tag_prologue src f c1 pr it0) as [[[es ts1] it1]| | |]; cbn [cbind stp snd] in *; auto.
      - apply Hk. eapply Suffix_trans; eassumption.
      - apply ip_err_at; assumption. }
    destruct (tag_classify (tk_rule pr)) eqn:Hc.
    - cbn. apply Suffix_refl.
    - destruct (slice src _ _); [|exact I].
      apply stp_bind; [apply raw_string_noerr|]. intros el _.
      apply stp_bind; [apply push_front_noerr|]. intros ts' _. cbn. apply Suffix_refl.
    - destruct (slice src _ _); [|exact I].
      apply stp_bind; [apply raw_string_noerr|]. intros el _. cbn. apply Suffix_refl.
    - (* block start *)
      apply Pro; [|apply Suffix_refl]. intros es ts1 it1 S1.
      apply stp_bind; [apply standalone_noerr|]. intros [trim ts2] _.
      destruct deco; cbn [c_ts]; (destruct ts2; [exact I | cbn; exact S1]).
    - (* invert *)
      match goal with |- stp _ _ (let '(chain_pre, ita) := ?X in _) =>
        destruct X as [chain_pre ita] eqn:Epa end.
      assert (Sa : Suffix ita it).
      { destruct chain; [|inversion Epa; apply Suffix_refl].
        destruct it as [|t0 it0']; [inversion Epa; apply Suffix_refl|].
        destruct (is_rule R_leading_tilde_to_omit_whitespace t0); inversion Epa; subst;
          [apply Suffix_cons, Suffix_refl | apply Suffix_refl]. }
      clear Epa.
      apply stp_bind.
      + destruct chain; [|exact I].
        pose proof (proj1 (proj2 (proj2 (parsers_sfx f))) ita) as H.
        destruct (parse_name src f ita) as [[nm it']| | |]; cbn [cbind errp sfx] in *; auto.
        apply ip_err_at; assumption.
      + intros it0 E0.
        assert (S0 : Suffix it0 it).
        { eapply Suffix_trans; [|exact Sa].
          destruct chain; [|inversion E0; apply Suffix_refl].
          pose proof (proj1 (proj2 (proj2 (parsers_sfx f))) ita) as H.
          destruct (parse_name src f ita) as [[nm it']| | |]; cbn [cbind sfx snd] in *; try discriminate.
          inversion E0; subst. exact H. }
        pose proof (proj1 (parsers_sfx f) it0 (tk_end pr)) as He.
        destruct (parse_expression src f it0 (tk_end pr)) as [[e0 it1]| | |]; cbn [cbind sfx snd stp] in *; auto;
          [|apply ip_err_at; assumption].
        assert (S1 : Suffix it1 it) by (eapply Suffix_trans; eassumption).
        apply stp_bind.
        { destruct (es_pre _); [|exact I]. unfold remove_previous_whitespace. destruct (c_ts c1); exact I. }
        intros ts1 _.
        apply stp_bind; [apply standalone_noerr|]. intros [trim ts2] _.
        destruct ts2 as [|t ts3]; [exact I|]. destruct (c_hs c1) as [|h hs]; [exact I|].
        apply stp_bind; [apply set_chain_template_noerr|]. intros h2 _. cbn. exact S1.
    - (* value expression *)
      apply Pro; [|apply Suffix_refl]. intros es ts1 it1 S1.
      apply stp_bind; [apply push_front_noerr|]. intros ts2 _. cbn. exact S1.
    - (* decorator / partial expression *)
      apply Pro; [|apply Suffix_refl]. intros es ts1 it1 S1.
      apply stp_bind; [apply standalone_noerr|]. intros [trim ts2] _.
      apply stp_bind.
      { destruct (partial && _ && _); [|exact I]. destruct (prefix_to src _); exact I. }
      intros indent _.
      apply stp_bind; [apply push_front_noerr|]. intros ts3 _. cbn. exact S1.
    - (* helper end *)
      apply Pro; [|apply Suffix_refl]. intros es ts1 it1 S1.
      apply stp_bind; [apply standalone_noerr|]. intros [trim ts2] _.
      destruct (c_hs c1) as [|h hs]; [exact I|].
      destruct (opt_str_eqb _ _).
      + destruct ts2 as [|prev_t ts3]; [exact I|].
        apply stp_bind; [apply revert_chain_noerr|]. intros h' _.
        destruct ts3; [exact I|]. cbn. exact S1.
      + cbn [stp err_at]. split; [exact Hc | exact Hlc].
    - (* decorator end *)
      apply Pro; [|apply Suffix_refl]. intros es ts1 it1 S1.
      apply stp_bind; [apply standalone_noerr|]. intros [trim ts2] _.
      destruct (c_ds c1) as [|d ds]; [exact I|].
      destruct (opt_str_eqb _ _).
      + destruct ts2 as [|prev_t ts3]; [exact I|]. destruct ts3; [exact I|]. cbn. exact S1.
      + cbn [stp err_at]. split; [eexists; exact Hc | exact Hlc].
    - (* comment *)
      apply stp_bind; [apply standalone_noerr|]. intros [trim ts1] _.
      apply stp_bind; [unfold span_str; destruct (slice _ _ _); exact I|]. intros txt _.
      apply stp_bind; [apply push_front_noerr|]. intros ts2 _. cbn. apply Suffix_refl.
    - cbn. apply Suffix_refl.
  Qed.

  Lemma Suffix_incl {A} (a b : list A) x : Suffix a b -> In x a -> In x b.
  Proof. intros [p0 ->] H. apply in_or_app. right. exact H. Qed.

  Theorem main_loop_err : forall fuel c it e,
    main_loop src all opts fuel c it = CErr e -> exists pr, In pr it /\ err_at pr e.
  Proof.
    induction fuel as [|f IH]; intros c it e H; [discriminate|].
    destruct it as [|pr it'].
    - exfalso. cbn [main_loop] in H.
      match type of H with cbind ?X _ = _ => assert (Hx : errp (fun _ => False) X) end.
      { destruct (_ <? _); [|exact I]. destruct (slice src _ _); [|exact I].
        destruct (c_end c); [apply push_front_noerr | exact I]. }
      match type of H with cbind ?X _ = _ => destruct X as [ts| | |] end; cbn [cbind errp] in *;
        try discriminate; try contradiction.
      destruct ts; discriminate.
    - rewrite main_loop_S in H. pose proof (step_stp f c pr it') as Hs.
      destruct (step src all opts f c pr it') as [[c' it'']| | |]; cbn [cbind stp snd] in *; try discriminate.
      + destruct (IH _ _ _ H) as (pr' & Hin & He). exists pr'. split; [|exact He].
        right. eapply Suffix_incl; eassumption.
      + inversion H; subst. exists pr. split; [left; reflexivity | exact Hs].
  Qed.

End Positions.

Lemma compile_match_err src opts (r : parse_res rule) e :
  match r with
  | SyntaxError => CErr TESyntax
  | ParseOutOfFuel => CFuel
  | Parsed ts => compile_tokens src opts ts
  end = CErr e ->
  e = TESyntax \/ exists ts pr, r = Parsed ts /\ In pr ts /\ err_at src pr e.
Proof.
  intros H. destruct r as [ts| |]; try discriminate.
  - right. unfold compile_tokens in H.
    destruct (main_loop_err _ _ _ _ _ _ _ H) as (pr & Hin & He).
    exists ts, pr. split; [reflexivity|]. split; [|exact He].
    apply filter_In in Hin. tauto.
  - left. inversion H. reflexivity.
Qed.

Lemma compile2_unfold src opts :
  compile2 src opts =
  match hb_parse (peg_fuel src) R_handlebars src with
  | SyntaxError => CErr TESyntax
  | ParseOutOfFuel => CFuel
  | Parsed ts => compile_tokens src opts ts
  end.
Proof. reflexivity. Qed.

Theorem compile2_err : forall src opts e, compile2 src opts = CErr e ->
  e = TESyntax \/
  exists ts pr, hb_parse (peg_fuel src) R_handlebars src = Parsed ts /\ In pr ts /\ err_at src pr e.
Proof.
  intros src opts e H. rewrite compile2_unfold in H.
  exact (compile_match_err src opts (hb_parse (peg_fuel src) R_handlebars src) e H).
Qed.

(* every mismatch error of compile2 carries the line/column (pest's
   Position::line_col) of the start of a closing-tag token of the source, and
   that position is inside the source *)
Theorem mismatch_positions : forall src opts e, compile2 src opts = CErr e ->
  match e with
  | TEMismatchHelper _ _ l c | TEMismatchDeco _ _ l c =>
      exists ts pr, hb_parse (peg_fuel src) R_handlebars src = Parsed ts /\ In pr ts /\
        (match e with TEMismatchHelper _ _ _ _ => tag_classify (tk_rule pr) = KHelperEnd
                    | _ => exists b, tag_classify (tk_rule pr) = KDecoEnd b end) /\
        tk_start pr <= len src /\ line_col src (tk_start pr) = (l, c) /\
        1 <= l /\ l <= 1 + count_lf src /\ 1 <= c /\ c <= 1 + tk_start pr
  | _ => True
  end.
Proof.
  intros src opts e H. destruct (compile2_err _ _ _ H) as [->|(ts & pr & Hp & Hin & He)]; [exact I|].
  pose proof (hb_parse_spans _ _ _ _ Hp) as Hsp. rewrite Forall_forall in Hsp.
  destruct (Hsp pr Hin) as [A B].
  destruct e as [|o cl l c|o cl l c| |]; try exact I; cbn [err_at] in He; destruct He as [Hc Hl];
    exists ts, pr; (split; [exact Hp|]); (split; [exact Hin|]); (split; [exact Hc|]);
    (split; [lia|]); (split; [exact Hl|]);
    destruct (line_col_inside _ _ _ _ Hl) as (L1 & L2 & L3 & L4 & L5); repeat split; assumption.
Qed.

(* the only errors compile2 returns *)
Corollary compile2_error_kinds : forall src opts e, compile2 src opts = CErr e ->
  match e with TEIo => False | _ => True end.
Proof.
  intros src opts e H. destruct (compile2_err _ _ _ H) as [->|(ts & pr & _ & _ & He)]; [exact I|].
  destruct e; try exact I. exact He.
Qed.

Example mismatch_example :
  compile2 (`"a" ++ [10] ++ `"{{#if x}}y{{/each}}") default_opts
  = CErr (TEMismatchHelper (Some (`"if")) (Some (`"each")) 2 11).
Proof. vm_compute. reflexivity. Qed.
