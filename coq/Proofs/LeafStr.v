(* Proofs/LeafStr.v — C11 leaf level: each support::str predicate of Base/Str.v
   equals its specification phrase; Rust trim_start/trim_end remove exactly the
   maximal White_Space prefix/suffix. *)
From HB Require Import Base.Str.
Open Scope N_scope.

(* ---------- character classes ---------- *)
Lemma is_blank_iff c : is_blank c = true <-> (c = 32 \/ c = 9).
Proof. unfold is_blank. rewrite orb_true_iff, !N.eqb_eq. tauto. Qed.

Lemma is_newline_iff c : is_newline c = true <-> (c = 10 \/ c = 13).
Proof. unfold is_newline. rewrite orb_true_iff, !N.eqb_eq. tauto. Qed.

Lemma newline_not_blank c : is_newline c = true -> is_blank c = false.
Proof.
  rewrite is_newline_iff. intros [->| ->]; reflexivity.
Qed.

Lemma forallb_Forall_iff {A} (f : A -> bool) (P : A -> Prop) :
  (forall x, f x = true <-> P x) -> forall l, forallb f l = true <-> Forall P l.
Proof.
  intros Hf l. rewrite forallb_forall, Forall_forall.
  split; intros H x Hx; apply Hf, H, Hx.
Qed.

Lemma blanks_iff l : forallb is_blank l = true <-> Forall (fun c => c = 32 \/ c = 9) l.
Proof. apply forallb_Forall_iff. exact is_blank_iff. Qed.

(* ---------- last_opt / last_is ---------- *)
Lemma last_opt_app {A} (p : list A) c : last_opt (p ++ [c]) = Some c.
Proof.
  induction p as [|x p IH]; [reflexivity|].
  cbn [app last_opt]. destruct (p ++ [c]) eqn:E.
  - destruct p; discriminate.
  - exact IH.
Qed.

Lemma last_opt_some {A} (l : list A) c : last_opt l = Some c -> exists p, l = p ++ [c].
Proof.
  induction l as [|x l IH]; [discriminate|].
  cbn [last_opt]. destruct l as [|y l].
  - intros [= ->]. exists []. reflexivity.
  - intros H. destruct (IH H) as [p Hp]. exists (x :: p). rewrite Hp. reflexivity.
Qed.

Lemma last_opt_none {A} (l : list A) : last_opt l = None -> l = [].
Proof.
  induction l as [|x l IH]; [reflexivity|].
  cbn [last_opt]. destruct l as [|y l]; [discriminate|].
  intros H. specialize (IH H). discriminate.
Qed.

Lemma last_is_app f p c : last_is f (p ++ [c]) = f c.
Proof. unfold last_is. rewrite last_opt_app. reflexivity. Qed.

Lemma last_is_nil f : last_is f [] = false.
Proof. reflexivity. Qed.

Lemma last_is_true f l : last_is f l = true <-> exists p c, l = p ++ [c] /\ f c = true.
Proof.
  unfold last_is. split.
  - destruct (last_opt l) as [c|] eqn:E; [|discriminate].
    intros H. destruct (last_opt_some _ _ E) as [p Hp]. eauto.
  - intros (p & c & -> & H). rewrite last_opt_app. exact H.
Qed.

Lemma last_is_false f l :
  last_is f l = false <-> (forall p c, l = p ++ [c] -> f c = false).
Proof.
  split.
  - intros H p c ->. rewrite last_is_app in H. exact H.
  - intros H. destruct (last_is f l) eqn:E; [|reflexivity].
    apply last_is_true in E as (p & c & Hl & Hc). rewrite (H _ _ Hl) in Hc. discriminate.
Qed.

Lemma last_is_cons2 f x y l : last_is f (x :: y :: l) = last_is f (y :: l).
Proof. reflexivity. Qed.

(* ---------- drop_while / take_while ---------- *)
Lemma dw_split f s : s = take_while f s ++ drop_while f s.
Proof.
  induction s as [|c s IH]; [reflexivity|].
  cbn [take_while drop_while]. destruct (f c); [|reflexivity].
  cbn [app]. f_equal. exact IH.
Qed.

Lemma tw_all f s : forallb f (take_while f s) = true.
Proof.
  induction s as [|c s IH]; [reflexivity|].
  cbn [take_while]. destruct (f c) eqn:E; [|reflexivity].
  cbn [forallb]. rewrite E, IH. reflexivity.
Qed.

Lemma dw_first f s : first_is f (drop_while f s) = false.
Proof.
  induction s as [|c s IH]; [reflexivity|].
  cbn [drop_while]. destruct (f c) eqn:E; [exact IH|]. cbn [first_is]. exact E.
Qed.

Lemma dw_unique f pre r :
  forallb f pre = true -> first_is f r = false -> drop_while f (pre ++ r) = r.
Proof.
  intros Hpre Hr. induction pre as [|c pre IH].
  - cbn [app]. destruct r as [|x r]; [reflexivity|].
    cbn [first_is] in Hr. cbn [drop_while]. rewrite Hr. reflexivity.
  - cbn [forallb] in Hpre. apply andb_prop in Hpre as [Hc Hpre].
    cbn [app drop_while]. rewrite Hc. exact (IH Hpre).
Qed.

Lemma first_is_false f r :
  first_is f r = false <-> (forall c r', r = c :: r' -> f c = false).
Proof.
  destruct r as [|x r]; cbn [first_is]; split; intros H.
  - intros c r' Hd. discriminate.
  - reflexivity.
  - intros c r' [= -> ->]. exact H.
  - apply (H x r). reflexivity.
Qed.

(* ---------- drop_while_end ---------- *)
Lemma dwe_all f w : forallb f w = true -> drop_while_end f w = [].
Proof.
  induction w as [|c w IH]; [reflexivity|].
  cbn [forallb]. intros H. apply andb_prop in H as [Hc Hw].
  cbn [drop_while_end]. rewrite (IH Hw), Hc. reflexivity.
Qed.

Lemma dwe_split f s : exists w, s = drop_while_end f s ++ w /\ forallb f w = true.
Proof.
  induction s as [|c s (w & Hs & Hw)].
  - exists []. split; reflexivity.
  - cbn [drop_while_end]. destruct (drop_while_end f s) as [|x d] eqn:E.
    + cbn [app] in Hs. destruct (f c) eqn:Ec.
      * exists (c :: w). split; [rewrite Hs at 1; reflexivity|].
        cbn [forallb]. rewrite Ec, Hw. reflexivity.
      * exists w. split; [rewrite Hs at 1; reflexivity | exact Hw].
    + exists w. split; [|exact Hw]. rewrite Hs at 1. reflexivity.
Qed.

Lemma dwe_last f s : last_is f (drop_while_end f s) = false.
Proof.
  induction s as [|c s IH]; [reflexivity|].
  cbn [drop_while_end]. destruct (drop_while_end f s) as [|x d] eqn:E.
  - destruct (f c) eqn:Ec; [reflexivity|]. unfold last_is. cbn [last_opt]. exact Ec.
  - rewrite last_is_cons2. exact IH.
Qed.

Lemma dwe_unique f p w :
  forallb f w = true -> last_is f p = false -> drop_while_end f (p ++ w) = p.
Proof.
  intros Hw. induction p as [|c p IH]; intros Hp.
  - cbn [app]. apply dwe_all, Hw.
  - cbn [app drop_while_end]. destruct p as [|y p].
    + cbn [app]. rewrite (dwe_all _ _ Hw).
      unfold last_is in Hp. cbn [last_opt] in Hp. rewrite Hp. reflexivity.
    + rewrite last_is_cons2 in Hp. rewrite (IH Hp). reflexivity.
Qed.

(* ---------- trim_start / trim_end (Rust char::is_whitespace) ---------- *)
Theorem trim_start_spec : forall s,
  exists pre, s = pre ++ trim_start s /\
    Forall (fun c => is_ws c = true) pre /\
    (forall c r, trim_start s = c :: r -> is_ws c = false).
Proof.
  intros s. exists (take_while is_ws s). split; [apply dw_split|]. split.
  - apply (forallb_Forall_iff is_ws (fun c => is_ws c = true)); [tauto | apply tw_all].
  - apply first_is_false. apply dw_first.
Qed.

Theorem trim_start_unique : forall pre r,
  Forall (fun c => is_ws c = true) pre ->
  (forall c r', r = c :: r' -> is_ws c = false) ->
  trim_start (pre ++ r) = r.
Proof.
  intros pre r Hpre Hr. apply dw_unique.
  - apply (forallb_Forall_iff is_ws (fun c => is_ws c = true)); [tauto | exact Hpre].
  - apply first_is_false. exact Hr.
Qed.

Theorem trim_end_spec : forall s,
  exists suf, s = trim_end s ++ suf /\
    Forall (fun c => is_ws c = true) suf /\
    (forall p c, trim_end s = p ++ [c] -> is_ws c = false).
Proof.
  intros s. destruct (dwe_split is_ws s) as (w & Hs & Hw). exists w.
  split; [exact Hs|]. split.
  - apply (forallb_Forall_iff is_ws (fun c => is_ws c = true)); [tauto | exact Hw].
  - apply last_is_false. apply dwe_last.
Qed.

Theorem trim_end_unique : forall p suf,
  Forall (fun c => is_ws c = true) suf ->
  (forall p' c, p = p' ++ [c] -> is_ws c = false) ->
  trim_end (p ++ suf) = p.
Proof.
  intros p suf Hs Hp. apply dwe_unique.
  - apply (forallb_Forall_iff is_ws (fun c => is_ws c = true)); [tauto | exact Hs].
  - apply last_is_false. exact Hp.
Qed.

(* ---------- ends_with_empty_line ---------- *)
Theorem ends_with_empty_line_spec : forall s,
  ends_with_empty_line s = true <->
  exists p t, s = p ++ t /\ Forall (fun c => c = 32 \/ c = 9) t /\
    (p = [] \/ exists p' c, p = p' ++ [c] /\ (c = 10 \/ c = 13)).
Proof.
  intros s. unfold ends_with_empty_line, trim_end_blank. split.
  - intros H. destruct (dwe_split is_blank s) as (w & Hs & Hw).
    exists (drop_while_end is_blank s), w. split; [exact Hs|]. split; [apply blanks_iff, Hw|].
    apply orb_prop in H as [H|H].
    + right. apply last_is_true in H as (p' & c & Hp & Hc).
      exists p', c. split; [exact Hp | apply is_newline_iff, Hc].
    + left. destruct (drop_while_end is_blank s); [reflexivity | discriminate].
  - intros (p & t & -> & Ht & Hp). apply blanks_iff in Ht.
    assert (Hl : last_is is_blank p = false).
    { destruct Hp as [->|(p' & c & -> & Hc)]; [reflexivity|].
      rewrite last_is_app. apply newline_not_blank, is_newline_iff, Hc. }
    rewrite (dwe_unique _ _ _ Ht Hl).
    destruct Hp as [->|(p' & c & -> & Hc)]; [reflexivity|].
    rewrite last_is_app. apply is_newline_iff in Hc. rewrite Hc. reflexivity.
Qed.

(* ---------- starts_with_empty_line ---------- *)
Theorem starts_with_empty_line_spec : forall s,
  starts_with_empty_line s = true <->
  exists b c r, s = b ++ c :: r /\ Forall (fun c => c = 32 \/ c = 9) b /\ (c = 10 \/ c = 13).
Proof.
  intros s. unfold starts_with_empty_line, trim_start_blank. split.
  - intros H. pose proof (dw_split is_blank s) as Hs.
    destruct (drop_while is_blank s) as [|c r] eqn:E; [discriminate|].
    cbn [first_is] in H. exists (take_while is_blank s), c, r.
    split; [exact Hs|]. split; [apply blanks_iff, tw_all | apply is_newline_iff, H].
  - intros (b & c & r & -> & Hb & Hc). apply blanks_iff in Hb. apply is_newline_iff in Hc.
    rewrite (dw_unique is_blank b (c :: r) Hb); cbn [first_is];
      [exact Hc | apply newline_not_blank, Hc].
Qed.

(* ---------- strip_first_newline ---------- *)
Theorem strip_first_newline_lf : forall r, strip_first_newline (10 :: r) = r.
Proof. reflexivity. Qed.

Theorem strip_first_newline_crlf : forall r, strip_first_newline (13 :: 10 :: r) = r.
Proof. reflexivity. Qed.

Theorem strip_first_newline_other : forall s,
  (forall r, s <> 10 :: r) -> (forall r, s <> 13 :: 10 :: r) ->
  strip_first_newline s = s.
Proof.
  intros s H1 H2.
  destruct s as [|c s]; [reflexivity|].
  destruct (N.eq_dec c 10) as [->|Hc10]; [exfalso; exact (H1 s eq_refl)|].
  destruct (N.eq_dec c 13) as [->|Hc13].
  - destruct s as [|d s]; [reflexivity|].
    destruct (N.eq_dec d 10) as [->|Hd]; [exfalso; exact (H2 s eq_refl)|].
    unfold strip_first_newline.
    repeat match goal with
    | |- context [match ?x with _ => _ end] => is_var x; destruct x; try reflexivity; try congruence
    end.
  - unfold strip_first_newline.
    repeat match goal with
    | |- context [match ?x with _ => _ end] => is_var x; destruct x; try reflexivity; try congruence
    end.
Qed.

(* exactly one: the result is the input minus one leading LF or CRLF, or the input *)
Theorem strip_first_newline_cases : forall s,
  (exists r, s = 10 :: r /\ strip_first_newline s = r) \/
  (exists r, s = 13 :: 10 :: r /\ strip_first_newline s = r) \/
  ((forall r, s <> 10 :: r) /\ (forall r, s <> 13 :: 10 :: r) /\ strip_first_newline s = s).
Proof.
  intros s.
  destruct s as [|c s].
  - right; right. repeat split; intros; discriminate.
  - destruct (N.eq_dec c 10) as [->|Hc10]; [left; eauto|].
    destruct (N.eq_dec c 13) as [->|Hc13].
    + destruct s as [|d s].
      * right; right. repeat split; intros; discriminate.
      * destruct (N.eq_dec d 10) as [->|Hd]; [right; left; eauto|].
        right; right.
        assert (A : forall r, 13 :: d :: s <> 10 :: r) by (intros; discriminate).
        assert (B : forall r, 13 :: d :: s <> 13 :: 10 :: r) by (intros r [= E _]; contradiction).
        split; [exact A|]. split; [exact B|]. apply strip_first_newline_other; assumption.
    + right; right.
      assert (A : forall r, c :: s <> 10 :: r) by (intros r [= E _]; contradiction).
      assert (B : forall r, c :: s <> 13 :: 10 :: r) by (intros r [= E _]; contradiction).
      split; [exact A|]. split; [exact B|]. apply strip_first_newline_other; assumption.
Qed.

(* the CR asymmetry (finding F13): a lone CR is a line boundary for the
   predicates but is not removed by strip_first_newline *)
Theorem lone_cr_is_boundary_start : forall r, starts_with_empty_line (13 :: r) = true.
Proof. reflexivity. Qed.

Theorem lone_cr_is_boundary_end : forall p, ends_with_empty_line (p ++ [13]) = true.
Proof.
  intros p. apply ends_with_empty_line_spec. exists (p ++ [13]), [].
  rewrite app_nil_r. split; [reflexivity|]. split; [constructor|].
  right. exists p, 13. split; [reflexivity | right; reflexivity].
Qed.

Theorem lone_cr_not_stripped : forall r,
  (forall r', r <> 10 :: r') -> strip_first_newline (13 :: r) = 13 :: r.
Proof.
  intros r Hr. apply strip_first_newline_other.
  - intros; discriminate.
  - intros r' [= E]. exact (Hr _ E).
Qed.

(* ---------- find_trailing_whitespace_chars ---------- *)
Lemma skipn_app_len {A} (p w : list A) : skipn (length p) (p ++ w) = w.
Proof. induction p as [|x p IH]; [reflexivity | exact IH]. Qed.

Theorem find_trailing_whitespace_chars_spec : forall s w,
  find_trailing_whitespace_chars s = Some w <->
  w <> [] /\ Forall (fun c => c = 32 \/ c = 9) w /\
  exists p, s = p ++ w /\ (forall p' c, p = p' ++ [c] -> ~ (c = 32 \/ c = 9)).
Proof.
  intros s w. unfold find_trailing_whitespace_chars, trim_end_blank. split.
  - destruct (dwe_split is_blank s) as (w0 & Hs & Hw0).
    pose proof (dwe_last is_blank s) as Hl.
    set (t := drop_while_end is_blank s) in *.
    destruct (Nat.eqb_spec (length t) (length s)) as [El|El]; [discriminate|].
    intros [= <-]. rewrite Hs, skipn_app_len.
    split. { intros ->. rewrite app_nil_r in Hs. apply El. rewrite <- Hs. reflexivity. }
    split; [apply blanks_iff, Hw0|].
    exists t. split; [reflexivity|].
    intros p' c Hp Hc. apply is_blank_iff in Hc.
    rewrite (proj1 (last_is_false _ _) Hl _ _ Hp) in Hc. discriminate.
  - intros (Hne & Hw & p & -> & Hp). apply blanks_iff in Hw.
    assert (Hl : last_is is_blank p = false).
    { apply last_is_false. intros p' c E. destruct (is_blank c) eqn:Ec; [|reflexivity].
      exfalso. apply (Hp _ _ E). apply is_blank_iff, Ec. }
    rewrite (dwe_unique _ _ _ Hw Hl).
    destruct (Nat.eqb_spec (length p) (length (p ++ w))) as [El|El].
    + exfalso. rewrite app_length in El. destruct w; [congruence | cbn [length] in El; lia].
    + rewrite skipn_app_len. reflexivity.
Qed.

Theorem find_trailing_whitespace_chars_none : forall s,
  find_trailing_whitespace_chars s = None <->
  (forall p c, s = p ++ [c] -> ~ (c = 32 \/ c = 9)).
Proof.
  intros s. split.
  - intros H p c -> Hc.
    assert (E : find_trailing_whitespace_chars (p ++ [c]) = Some
                  (skipn (length (trim_end_blank (p ++ [c]))) (p ++ [c]))).
    { unfold find_trailing_whitespace_chars.
      destruct (Nat.eqb_spec (length (trim_end_blank (p ++ [c]))) (length (p ++ [c]))) as [El|El];
        [|reflexivity].
      exfalso. unfold trim_end_blank in El.
      destruct (dwe_split is_blank (p ++ [c])) as (w0 & Hs & Hw0).
      assert (w0 = []).
      { apply (f_equal (@length N)) in Hs. rewrite !app_length in Hs. rewrite !app_length in El.
        destruct w0; [reflexivity | cbn [length] in Hs, El; lia]. }
      subst w0. rewrite app_nil_r in Hs.
      pose proof (dwe_last is_blank (p ++ [c])) as Hl. rewrite <- Hs, last_is_app in Hl.
      apply is_blank_iff in Hc. congruence. }
    congruence.
  - intros H. destruct (find_trailing_whitespace_chars s) as [w|] eqn:E; [|reflexivity].
    exfalso. apply find_trailing_whitespace_chars_spec in E as (Hne & Hw & p & -> & _).
    destruct (exists_last Hne) as (w' & c & ->).
    apply Forall_app in Hw as [_ Hw]. inversion Hw as [|? ? Hc _]; subst.
    apply (H (p ++ w') c); [rewrite app_assoc; reflexivity | exact Hc].
Qed.

(* ---------- satisfiability of the characterisations ---------- *)
Example ends_with_empty_line_ex :
  ends_with_empty_line (`"ab") = false /\ ends_with_empty_line [97; 10; 32; 9] = true /\
  ends_with_empty_line [32; 32] = true /\ ends_with_empty_line [97; 13] = true.
Proof. vm_compute. repeat split. Qed.

Example starts_with_empty_line_ex :
  starts_with_empty_line [32; 9; 13; 10; 97] = true /\ starts_with_empty_line [32; 97; 10] = false /\
  starts_with_empty_line [32; 32] = false.
Proof. vm_compute. repeat split. Qed.

Example find_trailing_ex :
  find_trailing_whitespace_chars [97; 32; 98; 32; 9] = Some [32; 9] /\
  find_trailing_whitespace_chars [97; 10] = None.
Proof. vm_compute. repeat split. Qed.

Example strip_first_newline_ex :
  strip_first_newline [13; 10; 10; 97] = [10; 97] /\ strip_first_newline [10; 13; 10] = [13; 10] /\
  strip_first_newline [13; 97] = [13; 97] /\ strip_first_newline [32; 10] = [32; 10].
Proof. vm_compute. repeat split. Qed.

Example trim_ex :
  trim_start [32; 160; 10; 97; 32] = [97; 32] /\ trim_end [32; 97; 32; 8232; 13] = [32; 97].
Proof. vm_compute. repeat split. Qed.
