(* Proofs/EscapeFlag.v — C02 at the render level: the disable_escape flag, and
   the ghost trace of escape-function arguments. *)
From Coq Require Import List Lia NArith ZArith Bool.
From HB Require Import Rt.Render Spec.RenderAll Proofs.RenderInd.
Import ListNotations.
Open Scope N_scope.

(* ====================================================================== *)
(** * (a) the flag *)

(* on Ok outcomes the flag can only stay or drop to false; nothing is claimed
   of Err outcomes (call_helper_for_value leaves it set on errors) *)
Definition flag_ok (c c' : crit_t) : Prop := snd (fst c') = true -> snd (fst c) = true.
Definition any_rel (c c' : crit_t) : Prop := True.

#[export] Instance flag_rel_ok : crel_ok flag_ok any_rel.
Proof.
  constructor; unfold flag_ok, any_rel; cbn [fst snd]; intros; auto; discriminate.
Qed.

(* flag_invariant: from disable_escape = false every function of the fixpoint
   ends (Ok) with disable_escape = false; more precisely the flag never goes
   from false to true across any call *)
Theorem flag_invariant : forall reg data ft f,
  every_render_fn reg data ft f
    (fun A s r => forall s', ok_in r s' -> s_disable_escape s' = true -> s_disable_escape s = true).
Proof.
  intros reg data ft f. apply holds_uniform.
  eapply holds_uniform_mono; [|apply (@crit_rel flag_ok any_rel _ reg data ft f)].
  intros A s r H.
  apply (ok_in_sat r (fun s' => s_disable_escape s' = true -> s_disable_escape s = true)).
  exact H.
Qed.

Corollary flag_stays_false : forall reg data ft f,
  every_render_fn reg data ft f
    (fun A s r => forall s', ok_in r s' -> s_disable_escape s = false -> s_disable_escape s' = false).
Proof.
  intros reg data ft f. pose proof (flag_invariant reg data ft f) as H.
  unfold every_render_fn in *.
  repeat match goal with H : _ /\ _ |- _ => destruct H end.
  repeat split; intros;
    match goal with
    | Hok : ok_in ?r ?s', Hf : s_disable_escape ?s = false, H : forall _, _ |- _ =>
        destruct (s_disable_escape s') eqn:E; [|reflexivity];
        rewrite <- Hf; symmetry; eapply H; eassumption
    end.
Qed.

(* a triple-brace expression always ends with the flag false, whatever it was *)
Theorem html_resets_flag : forall reg data ft f ht s s',
  ends_in (render_expression reg data ft f ht true s) s' -> s_disable_escape s' = false.
Proof.
  intros reg data ft [|f] ht s s'; [intros []|].
  rewrite render_expression_S. cbv zeta.
  match goal with |- ends_in (match ?r with _ => _ end) _ -> _ => destruct r end;
    cbn [ends_in]; try contradiction; intros <-; reflexivity.
Qed.

(* C02_after_triple: after an HtmlExpression element the flag is false, so the
   next double-brace expression escapes again (see once_escaped) *)
Theorem after_triple : forall reg data ft f ht s s',
  ends_in (render_element reg data ft f (ElHtml ht) s) s' -> s_disable_escape s' = false.
Proof.
  intros reg data ft [|f] ht s s'; [intros []|].
  rewrite render_element_S. apply html_resets_flag.
Qed.

(* with the flag set, do_escape is the identity and records nothing *)
Theorem do_escape_disabled : forall reg content s,
  s_disable_escape s = true -> do_escape reg content s = (content, s).
Proof. intros reg content s H. unfold do_escape. rewrite H. reflexivity. Qed.

Theorem do_escape_enabled : forall reg content s,
  s_disable_escape s = false ->
  fst (do_escape reg content s) = r_escape reg content /\
  s_esc_trace (snd (do_escape reg content s)) = content :: s_esc_trace s /\
  s_disable_escape (snd (do_escape reg content s)) = false /\
  s_out (snd (do_escape reg content s)) = s_out s.
Proof.
  intros reg content s H. unfold do_escape. rewrite H. cbn [fst snd].
  destruct (r_esc_mark reg); cbn; auto.
Qed.

(* ====================================================================== *)
(** * (c) the trace only grows *)
Definition trace_ext (c c' : crit_t) : Prop := exists l, snd c' = l ++ snd c.

#[export] Instance trace_rel_ok : crel_ok trace_ext trace_ext.
Proof.
  constructor; unfold trace_ext; cbn [fst snd]; intros; auto.
  - exists []. reflexivity.
  - destruct H as [l1 H1], H0 as [l2 H2]. exists (l2 ++ l1). rewrite H2, H1, app_assoc. reflexivity.
  - destruct H as [l1 H1], H0 as [l2 H2]. exists (l2 ++ l1). rewrite H2, H1, app_assoc. reflexivity.
  - exists []. reflexivity.
  - exists [c]. reflexivity.
Qed.

Theorem trace_grows : forall reg data ft f,
  every_render_fn reg data ft f
    (fun A s r => forall s', ends_in r s' -> exists l, s_esc_trace s' = l ++ s_esc_trace s).
Proof.
  intros reg data ft f. apply holds_uniform.
  eapply holds_uniform_mono; [|apply (@crit_rel trace_ext trace_ext _ reg data ft f)].
  intros A s r H.
  apply (ends_in_sat r (fun s' => exists l, s_esc_trace s' = l ++ s_esc_trace s)). exact H.
Qed.

(* ====================================================================== *)
(** * (b) escaped exactly once / never *)

(* the writer does not touch the flag or the trace *)
Definition esc_view (s : rstate) := (s_disable_escape s, s_esc_trace s).
Definition keeps_esc {A} (s : rstate) (r : rres A) : Prop :=
  forall s', ends_in r s' -> esc_view s' = esc_view s.

Lemma keeps_esc_rbind {A B} s (x : rres A) (f : A -> rstate -> rres B) :
  keeps_esc s x -> (forall a s1, esc_view s1 = esc_view s -> keeps_esc s1 (f a s1)) ->
  keeps_esc s (rbind x f).
Proof.
  unfold keeps_esc. intros Hx Hf s' H. destruct x as [a s1|e s1|p|]; cbn in H; try contradiction.
  - rewrite <- (Hx s1 eq_refl). apply (Hf a s1); [apply Hx; reflexivity | exact H].
  - apply Hx. exact H.
Qed.

Lemma keeps_esc_eq {A} s s0 (r : rres A) :
  esc_view s0 = esc_view s -> keeps_esc s0 r -> keeps_esc s r.
Proof. unfold keeps_esc. intros E H s' Hs'. rewrite <- E. apply H. exact Hs'. Qed.

Lemma out_write_keeps chunk s : keeps_esc s (out_write chunk s).
Proof.
  unfold keeps_esc, out_write. intros s'. destruct chunk; [cbn; intros <-; reflexivity|].
  destruct (match o_fail_at (s_out s) with Some k => _ | None => false end); cbn; intros <-; reflexivity.
Qed.

Lemma write_indented_keeps fuel v ind s : keeps_esc s (write_indented fuel v ind s).
Proof.
  revert v s. induction fuel as [|f IH]; intros v s; cbn [write_indented]; [intros s' []|].
  destruct (find_lf v) as [k|]; [|apply out_write_keeps].
  apply keeps_esc_rbind; [apply out_write_keeps|]. intros _ s1 E1.
  destruct (skipn (S k) v); [intros s' <-; reflexivity|].
  apply keeps_esc_rbind; [apply out_write_keeps|]. intros _ s2 E2. apply IH.
Qed.

Lemma indent_aware_write_keeps v s : keeps_esc s (indent_aware_write v s).
Proof.
  unfold indent_aware_write. destruct v as [|c r]; [intros s' <-; reflexivity|].
  apply (keeps_esc_eq s (set_content_produced s true)); [reflexivity|].
  apply keeps_esc_rbind.
  - destruct (negb (first_is is_newline (c :: r)) && s_indent_before_write (set_content_produced s true)).
    + destruct (s_indent (set_content_produced s true)); [apply out_write_keeps|].
      intros s' <-; reflexivity.
    + intros s' <-; reflexivity.
  - intros _ s2 E2. apply keeps_esc_rbind.
    + destruct (s_indent s2); [apply write_indented_keeps | apply out_write_keeps].
    + intros _ s3 E3 s' <-. reflexivity.
Qed.

(* RawString: written as is, the escape function never sees it *)
Theorem raw_never_escaped : forall reg data ft f v s,
  render_element reg data ft (S f) (ElRaw v) s = indent_aware_write v s /\
  forall s', ends_in (render_element reg data ft (S f) (ElRaw v) s) s' ->
             s_esc_trace s' = s_esc_trace s.
Proof.
  intros reg data ft f v s. rewrite render_element_S. split; [reflexivity|].
  intros s' H. apply indent_aware_write_keeps in H. unfold esc_view in H. congruence.
Qed.

(* values handed to helpers: a path, literal or name parameter is expanded
   without any state change at all *)
Theorem param_never_escaped : forall reg data ft f p s s',
  (forall e, p <> PSub e) ->
  ends_in (expand_param reg data ft f p s) s' -> s' = s.
Proof.
  intros reg data ft [|f] p s s' Hp; [intros []|]. rewrite expand_param_S.
  destruct p as [n|pa|j|el]; [| | |exfalso; eapply Hp; reflexivity]; cbn [ends_in]; auto.
  assert (forall d s', ends_in (evaluate2 d pa s) s' -> s' = s) as Hev.
  { intros d s0. unfold evaluate2. destruct pa; [destruct (navigate d segs (s_blocks s))|];
      cbn; intros H; try contradiction; subst; reflexivity. }
  destruct (s_modified s) as [c|].
  - specialize (Hev c). destruct (evaluate2 c pa s); cbn in *; auto.
  - specialize (Hev data). destruct (evaluate2 data pa s); cbn in *; auto.
Qed.

(* subexpression results: a value-returning helper in a subexpression hands its
   value over without the escape function seeing anything *)
Theorem subexpr_value_never_escaped : forall reg data ft f hid h s r s1,
  call_inner reg hid h s = ROk r s1 ->
  call_helper_for_value reg data ft (S f) hid h s = ROk {| pj_rel := None; pj_val := r |} s1 /\
  s_esc_trace s1 = s_esc_trace s /\ s_disable_escape s1 = s_disable_escape s.
Proof.
  intros reg data ft f hid h s r s1 H. rewrite call_helper_for_value_S, H.
  pose proof (call_inner_crit reg hid h s) as X. rewrite H in X. cbn in X. unfold crit in X.
  split; [reflexivity|]. split; congruence.
Qed.

(* ---------- Expression: exactly once ---------- *)

(* a name-only {{expr}} whose name is not a helper and whose value is present:
   the escape function is called exactly once, on the rendering of the value,
   and what goes to the writer is its result *)
Theorem once_escaped : forall reg data ft f ht s name s1 cj s2,
  is_name_only ht = true ->
  expand_as_name reg data ft f (h_name ht) s = ROk name s1 ->
  helper_exists reg s1 name = false ->
  expand_param reg data ft f (h_name ht) s1 = ROk cj s2 ->
  sc_missing (pj_val cj) = false ->
  s_disable_escape s2 = false ->
  let txt := json_render ft (pj_value cj) in
  let s3 := snd (do_escape reg txt s2) in
  render_expression reg data ft (S f) ht false s = indent_aware_write (r_escape reg txt) s3 /\
  s_esc_trace s3 = txt :: s_esc_trace s2 /\
  forall s', ends_in (render_expression reg data ft (S f) ht false s) s' ->
             s_esc_trace s' = txt :: s_esc_trace s2 /\ s_disable_escape s' = false.
Proof.
  intros reg data ft f ht s name s1 cj s2 Hno Hname Hnh Hval Hpres Hflag txt s3.
  destruct (do_escape_enabled reg txt s2 Hflag) as (E1 & E2 & E3 & E4).
  assert (Heq : render_expression reg data ft (S f) ht false s
                = indent_aware_write (r_escape reg txt) s3).
  { rewrite render_expression_S. cbv zeta. rewrite Hno, Hname. cbn [rbind]. rewrite Hnh, Hval.
    cbn [rbind]. rewrite Hpres. unfold render_json. fold txt.
    destruct (do_escape reg txt s2) as [output s3'] eqn:Ed. cbn [fst snd] in *. subst s3 output.
    destruct (indent_aware_write (r_escape reg txt) s3'); reflexivity. }
  split; [exact Heq|]. split; [exact E2|].
  intros s' H. rewrite Heq in H. apply indent_aware_write_keeps in H. unfold esc_view in H.
  inversion H as [[H1 H2]]. subst s3. rewrite H1, H2, E2, E3. split; reflexivity.
Qed.

(* the common case: the name is a data path *)
Corollary once_escaped_path : forall reg data ft f ht pa s cj,
  is_name_only ht = true -> h_name ht = PPath pa ->
  helper_exists reg s (path_raw pa) = false ->
  expand_param reg data ft (S f) (PPath pa) s = ROk cj s ->
  sc_missing (pj_val cj) = false ->
  s_disable_escape s = false ->
  let txt := json_render ft (pj_value cj) in
  render_expression reg data ft (S (S f)) ht false s
    = indent_aware_write (r_escape reg txt) (snd (do_escape reg txt s)) /\
  forall s', ends_in (render_expression reg data ft (S (S f)) ht false s) s' ->
             s_esc_trace s' = txt :: s_esc_trace s.
Proof.
  intros reg data ft f ht pa s cj Hno Hn Hnh Hval Hpres Hflag txt.
  assert (Hname : expand_as_name reg data ft (S f) (h_name ht) s = ROk (path_raw pa) s)
    by (rewrite Hn; reflexivity).
  rewrite <- Hn in Hval.
  destruct (once_escaped reg data ft (S f) ht s _ s cj s Hno Hname Hnh Hval Hpres Hflag)
    as (H1 & H2 & H3).
  split; [exact H1|]. intros s' H. apply H3 in H. tauto.
Qed.

(* HtmlExpression (all of {{{x}}}, {{ {x} }}, {{&x}} compile to it): never *)
Theorem never_escaped_html : forall reg data ft f ht s name s1 cj s2,
  is_name_only ht = true ->
  expand_as_name reg data ft f (h_name ht) (set_disable_escape s true) = ROk name s1 ->
  helper_exists reg s1 name = false ->
  expand_param reg data ft f (h_name ht) s1 = ROk cj s2 ->
  sc_missing (pj_val cj) = false ->
  s_disable_escape s2 = true ->
  let txt := json_render ft (pj_value cj) in
  render_expression reg data ft (S f) ht true s =
    match indent_aware_write txt s2 with
    | ROk u s' => ROk u (set_disable_escape s' false)
    | RErr e s' => RErr e (set_disable_escape s' false)
    | x => x
    end /\
  forall s', ends_in (render_expression reg data ft (S f) ht true s) s' ->
             s_esc_trace s' = s_esc_trace s2.
Proof.
  intros reg data ft f ht s name s1 cj s2 Hno Hname Hnh Hval Hpres Hflag txt.
  assert (Heq : render_expression reg data ft (S f) ht true s =
    match indent_aware_write txt s2 with
    | ROk u s' => ROk u (set_disable_escape s' false)
    | RErr e s' => RErr e (set_disable_escape s' false)
    | x => x
    end).
  { rewrite render_expression_S. cbv zeta. rewrite Hno, Hname. cbn [rbind]. rewrite Hnh, Hval.
    cbn [rbind]. rewrite Hpres. unfold render_json. fold txt.
    rewrite (do_escape_disabled reg txt s2 Hflag).
    destruct (indent_aware_write txt s2); reflexivity. }
  split; [exact Heq|]. intros s' H. rewrite Heq in H.
  pose proof (indent_aware_write_keeps txt s2) as K. unfold keeps_esc in K.
  destruct (indent_aware_write txt s2) as [u s4|e s4|p|]; cbn [ends_in] in *; try contradiction;
    subst s'; specialize (K s4 eq_refl); unfold esc_view in K; cbn; congruence.
Qed.

(* a value-returning helper (lookup, eq, ...) used as {{helper args}}: its
   result passes through the escape function exactly once *)
Theorem once_escaped_helper : forall reg data ft f hid h s result s1,
  has_call_inner hid = true ->
  call_inner reg hid h s = ROk result s1 ->
  r_strict reg && sc_missing result = false ->
  s_disable_escape s = false ->
  let txt := json_render ft (sc_json result) in
  let s3 := snd (do_escape reg txt s1) in
  call_helper reg data ft (S f) hid h s = indent_aware_write (r_escape reg txt) s3 /\
  forall s', ends_in (call_helper reg data ft (S f) hid h s) s' ->
             s_esc_trace s' = txt :: s_esc_trace s.
Proof.
  intros reg data ft f hid h s result s1 Hci Hcall Hstrict Hflag txt s3.
  pose proof (call_inner_crit reg hid h s) as X. rewrite Hcall in X. cbn in X. unfold crit in X.
  assert (Hflag1 : s_disable_escape s1 = false) by congruence.
  destruct (do_escape_enabled reg txt s1 Hflag1) as (E1 & E2 & E3 & E4).
  assert (Heq : call_helper reg data ft (S f) hid h s = indent_aware_write (r_escape reg txt) s3).
  { rewrite call_helper_S. rewrite Hci, Hcall, Hstrict. unfold render_json. fold txt.
    destruct (do_escape reg txt s1) as [output s3'] eqn:Ed. cbn [fst snd] in *. subst s3 output.
    reflexivity. }
  split; [exact Heq|]. intros s' H. rewrite Heq in H. apply indent_aware_write_keeps in H.
  unfold esc_view in H. inversion H as [[H1 H2]]. subst s3. rewrite H2, E2. f_equal. congruence.
Qed.

(* ---------- the text that reaches the writer ---------- *)
Lemma out_write_text v s u s' :
  out_write v s = ROk u s' -> out_text (s_out s') = out_text (s_out s) ++ v.
Proof.
  unfold out_write. destruct v as [|c r]; [intros E; inversion E; subst; rewrite app_nil_r; reflexivity|].
  destruct (match o_fail_at (s_out s) with Some k => _ | None => false end); [discriminate|].
  intros E; inversion E; subst. unfold out_text. cbn [s_out set_out o_chunks rev].
  rewrite concat_app. cbn [concat]. rewrite app_nil_r. reflexivity.
Qed.

Lemma indent_aware_write_text v s u s' :
  s_indent s = None -> indent_aware_write v s = ROk u s' ->
  out_text (s_out s') = out_text (s_out s) ++ v.
Proof.
  intros Hi. unfold indent_aware_write. destruct v as [|c r].
  - intros E; inversion E; subst. rewrite app_nil_r. reflexivity.
  - cbn [s_indent set_content_produced]. rewrite Hi.
    replace (if negb (first_is is_newline (c :: r)) && s_indent_before_write (set_content_produced s true)
             then ROk tt (set_content_produced s true) else ROk tt (set_content_produced s true))
      with (@ROk unit tt (set_content_produced s true)) by (destruct (_ && _); reflexivity).
    cbn [rbind s_indent set_content_produced]. rewrite Hi.
    destruct (out_write (c :: r) (set_content_produced s true)) as [u1 s1| | |] eqn:Ew; cbn [rbind];
      try discriminate.
    intros E; inversion E; subst. cbn [s_out set_indent_before_write set_trailing_newline].
    apply out_write_text in Ew. exact Ew.
Qed.

Lemma do_escape_frame reg c s :
  s_out (snd (do_escape reg c s)) = s_out s /\ s_indent (snd (do_escape reg c s)) = s_indent s.
Proof.
  unfold do_escape. destruct (s_disable_escape s); [split; reflexivity|].
  cbn [snd]. destruct (r_esc_mark reg); split; reflexivity.
Qed.

(* C02_once, text: without partial indentation, a successful {{path}} appends
   exactly esc (json_render v) to the output and [json_render v] to the trace *)
Theorem once_escaped_path_text : forall reg data ft f ht pa s cj u s',
  is_name_only ht = true -> h_name ht = PPath pa ->
  helper_exists reg s (path_raw pa) = false ->
  expand_param reg data ft (S f) (PPath pa) s = ROk cj s ->
  sc_missing (pj_val cj) = false ->
  s_disable_escape s = false ->
  s_indent s = None ->
  render_expression reg data ft (S (S f)) ht false s = ROk u s' ->
  out_text (s_out s') = out_text (s_out s) ++ r_escape reg (json_render ft (pj_value cj)) /\
  s_esc_trace s' = json_render ft (pj_value cj) :: s_esc_trace s /\
  s_disable_escape s' = false.
Proof.
  intros reg data ft f ht pa s cj u s' Hno Hn Hnh Hval Hpres Hflag Hind Hr.
  destruct (once_escaped_path reg data ft f ht pa s cj Hno Hn Hnh Hval Hpres Hflag) as [H1 H2].
  destruct (do_escape_frame reg (json_render ft (pj_value cj)) s) as [F1 F2].
  split; [|split].
  - rewrite H1 in Hr. apply indent_aware_write_text in Hr; [|congruence]. rewrite Hr, F1. reflexivity.
  - apply H2. rewrite Hr. reflexivity.
  - pose proof (flag_stays_false reg data ft (S (S f))) as K. unfold every_render_fn in K.
    destruct K as (_ & _ & _ & _ & _ & K & _). apply (K ht false s s'); [rewrite Hr; reflexivity | exact Hflag].
Qed.

(* ====================================================================== *)
(** * Refuted: "every function preserves the flag exactly, except
      render_expression with html = true" *)

Definition ex_html_el : element :=
  ElHtml (MkH (PName (`"x")) [] [] None None None false false false).
Definition ex_reg0 : registry :=
  {| r_templates := []; r_sources := []; r_helpers := [(`"if", HIf)]; r_decorators := [];
     r_escape := escape_html; r_esc_mark := false; r_strict := false; r_dev := false;
     r_prevent_indent := false |}.

(* the reset to false (not to the previous value) shows through every
   construct that contains a triple-brace expression *)
Theorem flag_exact_preservation_refuted :
  (exists reg data ft f e s s',
      render_element reg data ft f e s = ROk tt s' /\
      s_disable_escape s = true /\ s_disable_escape s' = false) /\
  (exists reg data ft f hid h s s',
      call_helper reg data ft f hid h s = ROk tt s' /\
      s_disable_escape s = true /\ s_disable_escape s' = false).
Proof.
  split.
  - exists ex_reg0, JNull, [], 4%nat, ex_html_el,
      (set_disable_escape (st_init None None None) true). eexists.
    split; [vm_compute; reflexivity|]. split; vm_compute; reflexivity.
  - exists ex_reg0, JNull, [], 8%nat, HIf,
      {| hv_name := `"if"; hv_params := [{| pj_rel := None; pj_val := SConstant (JBool true) |}];
         hv_hash := []; hv_tpl := Some (MkT None [ex_html_el] []); hv_inv := None; hv_bp := None;
         hv_block := true |},
      (set_disable_escape (st_init None None None) true). eexists.
    split; [vm_compute; reflexivity|]. split; vm_compute; reflexivity.
Qed.

(* ====================================================================== *)
(** * Examples: the hypotheses of once_escaped_path(_text) are satisfiable *)
Definition ex_pa : path := PathRelative [SegNamed (`"x")] (`"x").
Definition ex_ht : helper_t := MkH (PPath ex_pa) [] [] None None None false false false.
Definition ex_data2 : json := JObj [(`"x", JStr (`"a<b&"))].
Definition ex_cj : pj := {| pj_rel := Some (`"x"); pj_val := SContext (JStr (`"a<b&")) [`"x"] |}.

Example once_escaped_path_ex :
  let s := st_init None None None in
  is_name_only ex_ht = true /\ h_name ex_ht = PPath ex_pa /\
  helper_exists ex_reg0 s (path_raw ex_pa) = false /\
  expand_param ex_reg0 ex_data2 [] 1 (PPath ex_pa) s = ROk ex_cj s /\
  sc_missing (pj_val ex_cj) = false /\ s_disable_escape s = false /\ s_indent s = None /\
  exists s', render_expression ex_reg0 ex_data2 [] 2 ex_ht false s = ROk tt s' /\
             out_text (s_out s') = `"a&lt;b&amp;" /\ s_esc_trace s' = [`"a<b&"].
Proof.
  cbv zeta. repeat (match goal with |- _ /\ _ => split end); try (vm_compute; reflexivity).
  eexists. repeat (match goal with |- _ /\ _ => split end); vm_compute; reflexivity.
Qed.

(* and after a triple brace the next double brace is escaped again *)
Example after_triple_ex :
  exists s', render_template ex_reg0 ex_data2 [] 6
               (MkT None [ElHtml ex_ht; ElExpr ex_ht] []) (st_init None None None) = ROk tt s' /\
             out_text (s_out s') = `"a<b&a&lt;b&amp;" /\ s_esc_trace s' = [`"a<b&"].
Proof. eexists. repeat (match goal with |- _ /\ _ => split end); vm_compute; reflexivity. Qed.

(* hypotheses of never_escaped_html, once_escaped_helper and
   subexpr_value_never_escaped are satisfiable *)
Example never_escaped_html_ex :
  let s := st_init None None None in
  is_name_only ex_ht = true /\
  expand_as_name ex_reg0 ex_data2 [] 1 (h_name ex_ht) (set_disable_escape s true)
    = ROk (`"x") (set_disable_escape s true) /\
  helper_exists ex_reg0 (set_disable_escape s true) (`"x") = false /\
  expand_param ex_reg0 ex_data2 [] 1 (h_name ex_ht) (set_disable_escape s true)
    = ROk ex_cj (set_disable_escape s true) /\
  sc_missing (pj_val ex_cj) = false /\
  s_disable_escape (set_disable_escape s true) = true /\
  exists s', render_expression ex_reg0 ex_data2 [] 2 ex_ht true s = ROk tt s' /\
             out_text (s_out s') = `"a<b&" /\ s_esc_trace s' = [] /\ s_disable_escape s' = false.
Proof.
  cbv zeta. repeat (match goal with |- _ /\ _ => split end); try (vm_compute; reflexivity).
  eexists. repeat (match goal with |- _ /\ _ => split end); vm_compute; reflexivity.
Qed.

Definition ex_eq_h : helper_v :=
  {| hv_name := `"eq";
     hv_params := [{| pj_rel := None; pj_val := SConstant (JStr (`"<")) |};
                   {| pj_rel := None; pj_val := SConstant (JStr (`"<")) |}];
     hv_hash := []; hv_tpl := None; hv_inv := None; hv_bp := None; hv_block := false |}.

Example once_escaped_helper_ex :
  let s := st_init None None None in
  has_call_inner HEq = true /\
  call_inner ex_reg0 HEq ex_eq_h s = ROk (SDerived (JBool true)) s /\
  r_strict ex_reg0 && sc_missing (SDerived (JBool true)) = false /\
  s_disable_escape s = false /\
  exists s', call_helper ex_reg0 ex_data2 [] 1 HEq ex_eq_h s = ROk tt s' /\
             out_text (s_out s') = `"true" /\ s_esc_trace s' = [`"true"].
Proof.
  cbv zeta. repeat (match goal with |- _ /\ _ => split end); try (vm_compute; reflexivity).
  eexists. repeat (match goal with |- _ /\ _ => split end); vm_compute; reflexivity.
Qed.

Example subexpr_value_never_escaped_ex :
  call_helper_for_value ex_reg0 ex_data2 [] 1 HEq ex_eq_h (st_init None None None)
  = ROk {| pj_rel := None; pj_val := SDerived (JBool true) |} (st_init None None None).
Proof. vm_compute. reflexivity. Qed.
