(* Proofs/EachProofs.v — C07: the HEach arm of call_helper (helper_each.rs):
   one iteration per element, in order, with the iteration variables, base
   path / base value and block parameters of Spec/Scope.each_block; output is
   the concatenation; the inverse for empty / non-iterable values. *)
From Coq Require Import Lia List NArith Bool.
From HB Require Import Rt.Render Spec.Scope Proofs.PathProofs.
Import ListNotations.
Open Scope N_scope.
Open Scope list_scope.

(* ------------------------------------------------------------------ *)
(* unfolding the arm                                                   *)
(* ------------------------------------------------------------------ *)
Theorem each_array_unfold reg data ft f h s value rest t l :
  hv_params h = value :: rest -> hv_tpl h = Some t -> pj_value value = JArr l ->
  (l <> [] \/ hv_inv h = None) ->
  call_helper reg data ft (S f) HEach h s =
  rbind (fold_idx (fun v i s' =>
                     render_template reg data ft f t
                       (each_iter_setup h (sc_context_path (pj_val value)) (length l) i None v s'))
                  l O (push_block (create_block value) s))
        (fun _ s1 => ROk tt (pop_block s1)).
Proof.
  intros Hp Ht Hv Hne. cbn [call_helper has_call_inner]. unfold param_or. rewrite Hp. cbn [nth_error].
  rewrite Ht, Hv.
  replace (negb (Nat.eqb (length l) 0) || match hv_inv h with None => true | Some _ => false end)
    with true; [reflexivity|].
  destruct Hne as [Hne|Hne]; [destruct l; [congruence | reflexivity]|].
  rewrite Hne. symmetry. apply orb_true_r.
Qed.

Theorem each_object_unfold reg data ft f h s value rest t m :
  hv_params h = value :: rest -> hv_tpl h = Some t -> pj_value value = JObj m ->
  (m <> [] \/ hv_inv h = None) ->
  call_helper reg data ft (S f) HEach h s =
  rbind (fold_idx (fun (kv : str * json) i s' =>
                     render_template reg data ft f t
                       (each_iter_setup h (sc_context_path (pj_val value)) (length m) i
                                        (Some (fst kv)) (snd kv) s'))
                  m O (push_block (create_block value) s))
        (fun _ s1 => ROk tt (pop_block s1)).
Proof.
  intros Hp Ht Hv Hne. cbn [call_helper has_call_inner]. unfold param_or. rewrite Hp. cbn [nth_error].
  rewrite Ht, Hv.
  replace (negb (Nat.eqb (length m) 0) || match hv_inv h with None => true | Some _ => false end)
    with true; [reflexivity|].
  destruct Hne as [Hne|Hne]; [destruct m; [congruence | reflexivity]|].
  rewrite Hne. symmetry. apply orb_true_r.
Qed.

(* ------------------------------------------------------------------ *)
(* one iteration's setup                                               *)
(* ------------------------------------------------------------------ *)
Lemma locals_after_setup lo n i key :
  lv_extra lo = [] -> (is_some key = false -> lv_key lo = None) ->
  (let b1 := lv_put (lv_put lo (`"first") (JBool (Nat.eqb i 0))) (`"last") (JBool (Nat.eqb i (n - 1))) in
   match key with
   | None => lv_put b1 (`"index") (JNum (PosInt (N.of_nat i)))
   | Some ks => lv_put (lv_put b1 (`"key") (JStr ks)) (`"index") (JNum (PosInt (N.of_nat i)))
   end) = each_locals n i key.
Proof.
  destruct lo as [a b c d e]. cbn [lv_extra lv_key]. intros -> Hk.
  destruct key as [ks|]; [reflexivity|]. rewrite Hk by reflexivity. reflexivity.
Qed.

Theorem each_iter_setup_front h path n i key v s b rest keyed :
  s_blocks s = b :: rest ->
  is_some key = keyed ->
  each_pre (hv_bp h) path keyed i b ->
  each_iter_setup h path n i key v s = set_blocks s (each_block (hv_bp h) path n i key v :: rest).
Proof.
  intros Hs Hkey (Hpath & Hps & Hex & Hk).
  unfold each_iter_setup, map_front_block. rewrite Hs. f_equal. f_equal.
  subst keyed.
  pose proof (locals_after_setup (b_locals b) n i key Hex Hk) as Hloc. cbv zeta in Hloc.
  destruct b as [bpath bval bps blo]. cbn [b_base_path b_base_value b_params b_locals] in *.
  unfold each_block, each_block_params, update_block_context, nat_dec.
  destruct key as [ks|]; destruct path as [p|].
  - destruct Hpath as (-> & Hbp).
    destruct (Nat.eqb i 0) eqn:Ei.
    + subst bpath. destruct (hv_bp h) as [[a|a c]|]; cbn; rewrite ?Hps by reflexivity;
        cbn in Hloc; rewrite <- Hloc; reflexivity.
    + destruct Hbp as (x & ->).
      destruct (hv_bp h) as [[a|a c]|]; cbn; rewrite ?Hps by reflexivity;
        rewrite rev_app_distr; cbn; rewrite rev_involutive;
        cbn in Hloc; rewrite <- Hloc; reflexivity.
  - subst bpath.
    destruct (hv_bp h) as [[a|a c]|]; cbn; rewrite ?Hps by reflexivity;
      cbn in Hloc; rewrite <- Hloc; reflexivity.
  - destruct Hpath as (-> & Hbp).
    destruct (Nat.eqb i 0) eqn:Ei.
    + subst bpath. destruct (hv_bp h) as [[a|a c]|]; cbn -[n_to_dec]; rewrite ?Hps by reflexivity;
        cbn -[n_to_dec] in Hloc; rewrite <- Hloc; reflexivity.
    + destruct Hbp as (x & ->).
      destruct (hv_bp h) as [[a|a c]|]; cbn -[n_to_dec]; rewrite ?Hps by reflexivity;
        rewrite rev_app_distr; cbn -[n_to_dec]; rewrite rev_involutive;
        cbn -[n_to_dec] in Hloc; rewrite <- Hloc; reflexivity.
  - subst bpath.
    destruct (hv_bp h) as [[a|a c]|]; cbn -[n_to_dec]; rewrite ?Hps by reflexivity;
      cbn -[n_to_dec] in Hloc; rewrite <- Hloc; reflexivity.
Qed.

Lemma each_pre_next bp path keyed n i key v :
  is_some key = keyed ->
  each_pre bp path keyed (S i) (each_block bp path n i key v).
Proof.
  intro Hk. unfold each_pre, each_block. cbn [b_base_path b_base_value b_params b_locals Nat.eqb].
  split; [destruct path; [split; [reflexivity | eauto] | reflexivity]|].
  split; [intros ->; reflexivity|]. split; [reflexivity|].
  intros ->. destruct key; [discriminate | reflexivity].
Qed.

Lemma each_pre_create bp value keyed :
  each_pre bp (sc_context_path (pj_val value)) keyed 0 (create_block value).
Proof.
  unfold each_pre, create_block. destruct (sc_context_path (pj_val value)); cbn; auto.
Qed.

(* ------------------------------------------------------------------ *)
(* the loop: closed form under the frame property of the body          *)
(* ------------------------------------------------------------------ *)
Section Loop.
  Context {A : Type}.
  Variable kf : A -> option str.
  Variable vf : A -> json.
  Variable keyed : bool.
  Hypothesis kf_keyed : forall x, is_some (kf x) = keyed.
  Variable body : rstate -> rres unit.
  (* a completed body leaves the block stack as it found it (frame property,
     C08; proved for render_template elsewhere) *)
  Hypothesis frame : forall s s', body s = ROk tt s' -> s_blocks s' = s_blocks s.
  Variable h : helper_v.
  Variable path : option (list str).
  Variable n : nat.
  Variable outer : list block.

  Definition step_model (x : A) (i : nat) (s : rstate) : rres unit :=
    body (each_iter_setup h path n i (kf x) (vf x) s).
  Definition step_closed (x : A) (i : nat) (s : rstate) : rres unit :=
    body (set_blocks s (each_block (hv_bp h) path n i (kf x) (vf x) :: outer)).

  Lemma each_loop l : forall i s b,
    s_blocks s = b :: outer ->
    each_pre (hv_bp h) path keyed i b ->
    rbind (fold_idx step_model l i s) (fun _ s1 => ROk tt (pop_block s1))
    = rbind (fold_idx step_closed l i s) (fun _ s1 => ROk tt (set_blocks s1 outer)).
  Proof.
    induction l as [|x r IH]; intros i s b Hs Hpre.
    - cbn [fold_idx rbind]. unfold pop_block. rewrite Hs. reflexivity.
    - cbn [fold_idx]. unfold step_model at 1, step_closed at 1.
      rewrite (each_iter_setup_front h path n i (kf x) (vf x) s b outer keyed Hs (kf_keyed x) Hpre).
      destruct (body (set_blocks s (each_block (hv_bp h) path n i (kf x) (vf x) :: outer)))
        as [u s'|e s'|site|] eqn:E; try reflexivity.
      destruct u. cbn [rbind].
      apply (IH (S i) s' (each_block (hv_bp h) path n i (kf x) (vf x))).
      + apply frame in E. exact E.
      + apply each_pre_next. apply kf_keyed.
  Qed.

  (* the closed-form loop overwrites the block stack at every iteration, so the
     stack it starts from is irrelevant *)
  Lemma closed_start l i s blocks0 :
    rbind (fold_idx step_closed l i (set_blocks s blocks0)) (fun _ s1 => ROk tt (set_blocks s1 outer))
    = rbind (fold_idx step_closed l i s) (fun _ s1 => ROk tt (set_blocks s1 outer)).
  Proof. destruct l; reflexivity. Qed.
End Loop.

Theorem each_array reg data ft f h s value rest t l :
  hv_params h = value :: rest -> hv_tpl h = Some t -> pj_value value = JArr l ->
  (l <> [] \/ hv_inv h = None) ->
  (forall s1 s2, render_template reg data ft f t s1 = ROk tt s2 -> s_blocks s2 = s_blocks s1) ->
  call_helper reg data ft (S f) HEach h s =
  rbind (fold_idx (fun v i s' =>
                     render_template reg data ft f t
                       (set_blocks s' (each_block (hv_bp h) (sc_context_path (pj_val value))
                                                  (length l) i None v :: s_blocks s)))
                  l O s)
        (fun _ s1 => ROk tt (set_blocks s1 (s_blocks s))).
Proof.
  intros Hp Ht Hv Hne Hframe.
  rewrite (each_array_unfold reg data ft f h s value rest t l Hp Ht Hv Hne).
  pose proof (each_loop (fun _ : json => None) (fun v : json => v) false (fun _ => eq_refl)
                        (render_template reg data ft f t) Hframe h
                        (sc_context_path (pj_val value)) (length l) (s_blocks s) l O
                        (push_block (create_block value) s) (create_block value) eq_refl
                        (each_pre_create _ _ _)) as H.
  unfold step_model, step_closed in H. rewrite H.
  apply (closed_start (fun _ : json => None) (fun v : json => v)
                      (render_template reg data ft f t) h (sc_context_path (pj_val value))
                      (length l) (s_blocks s) l O s (create_block value :: s_blocks s)).
Qed.

Theorem each_object reg data ft f h s value rest t m :
  hv_params h = value :: rest -> hv_tpl h = Some t -> pj_value value = JObj m ->
  (m <> [] \/ hv_inv h = None) ->
  (forall s1 s2, render_template reg data ft f t s1 = ROk tt s2 -> s_blocks s2 = s_blocks s1) ->
  call_helper reg data ft (S f) HEach h s =
  rbind (fold_idx (fun (kv : str * json) i s' =>
                     render_template reg data ft f t
                       (set_blocks s' (each_block (hv_bp h) (sc_context_path (pj_val value))
                                                  (length m) i (Some (fst kv)) (snd kv) :: s_blocks s)))
                  m O s)
        (fun _ s1 => ROk tt (set_blocks s1 (s_blocks s))).
Proof.
  intros Hp Ht Hv Hne Hframe.
  rewrite (each_object_unfold reg data ft f h s value rest t m Hp Ht Hv Hne).
  pose proof (each_loop (fun kv : str * json => Some (fst kv)) (fun kv : str * json => snd kv) true
                        (fun _ => eq_refl)
                        (render_template reg data ft f t) Hframe h
                        (sc_context_path (pj_val value)) (length m) (s_blocks s) m O
                        (push_block (create_block value) s) (create_block value) eq_refl
                        (each_pre_create _ _ _)) as H.
  unfold step_model, step_closed in H. rewrite H.
  apply (closed_start (fun kv : str * json => Some (fst kv)) (fun kv : str * json => snd kv)
                      (render_template reg data ft f t) h (sc_context_path (pj_val value))
                      (length m) (s_blocks s) m O s (create_block value :: s_blocks s)).
Qed.

(* ------------------------------------------------------------------ *)
(* output = concatenation of the iterations' outputs, in order         *)
(* ------------------------------------------------------------------ *)
Lemma iter_run_length {A} (step : A -> nat -> rstate -> rres unit) l i s ds s' :
  iter_run step l i s ds s' -> length ds = length l.
Proof. intro H; induction H; cbn; congruence. Qed.

Lemma iter_run_out {A} (step : A -> nat -> rstate -> rres unit) l i s ds s' :
  iter_run step l i s ds s' -> out_text (s_out s') = out_text (s_out s) ++ concat ds.
Proof.
  intro H; induction H as [|x r i s s1 d ds s' Hst Hd Hr IH]; cbn [concat].
  - rewrite app_nil_r. reflexivity.
  - rewrite IH, Hd, app_assoc. reflexivity.
Qed.

Theorem fold_idx_run {A} (step : A -> nat -> rstate -> rres unit) :
  (forall x j s1 s2, step x j s1 = ROk tt s2 ->
                     exists d, out_text (s_out s2) = out_text (s_out s1) ++ d) ->
  forall l i s s', fold_idx step l i s = ROk tt s' -> exists ds, iter_run step l i s ds s'.
Proof.
  intros Happ. induction l as [|x r IH]; intros i s s' H; cbn [fold_idx] in H.
  - inversion H; subst. exists []. constructor.
  - destruct (step x i s) as [u s1|e s1|site|] eqn:E; cbn [rbind] in H; try discriminate.
    destruct u. destruct (Happ _ _ _ _ E) as (d & Hd). destruct (IH _ _ _ H) as (ds & Hds).
    exists (d :: ds). econstructor; eassumption.
Qed.

Theorem each_array_output reg data ft f h s value rest t l s' :
  hv_params h = value :: rest -> hv_tpl h = Some t -> pj_value value = JArr l ->
  (l <> [] \/ hv_inv h = None) ->
  (forall s1 s2, render_template reg data ft f t s1 = ROk tt s2 -> s_blocks s2 = s_blocks s1) ->
  (forall s1 s2, render_template reg data ft f t s1 = ROk tt s2 ->
                 exists d, out_text (s_out s2) = out_text (s_out s1) ++ d) ->
  call_helper reg data ft (S f) HEach h s = ROk tt s' ->
  exists ds s_last,
    iter_run (fun v i s1 =>
                render_template reg data ft f t
                  (set_blocks s1 (each_block (hv_bp h) (sc_context_path (pj_val value))
                                             (length l) i None v :: s_blocks s)))
             l O s ds s_last
    /\ s' = set_blocks s_last (s_blocks s)
    /\ length ds = length l
    /\ out_text (s_out s') = out_text (s_out s) ++ concat ds.
Proof.
  intros Hp Ht Hv Hne Hframe Happ Hcall.
  rewrite (each_array reg data ft f h s value rest t l Hp Ht Hv Hne Hframe) in Hcall.
  match type of Hcall with rbind (fold_idx ?st _ _ _) _ = _ => set (step := st) in * end.
  destruct (fold_idx step l 0 s) as [u s_last|e s1|site|] eqn:E; cbn [rbind] in Hcall; try discriminate.
  destruct u. inversion Hcall; subst s'. clear Hcall.
  destruct (fold_idx_run step) with (l := l) (i := O) (s := s) (s' := s_last) as (ds & Hrun).
  - intros x j s1 s2 H. unfold step in H. destruct (Happ _ _ H) as (d & Hd). exists d. exact Hd.
  - exact E.
  - exists ds, s_last. split; [exact Hrun|]. split; [reflexivity|].
    split; [eapply iter_run_length; exact Hrun|].
    apply iter_run_out in Hrun. exact Hrun.
Qed.

Theorem each_object_output reg data ft f h s value rest t m s' :
  hv_params h = value :: rest -> hv_tpl h = Some t -> pj_value value = JObj m ->
  (m <> [] \/ hv_inv h = None) ->
  (forall s1 s2, render_template reg data ft f t s1 = ROk tt s2 -> s_blocks s2 = s_blocks s1) ->
  (forall s1 s2, render_template reg data ft f t s1 = ROk tt s2 ->
                 exists d, out_text (s_out s2) = out_text (s_out s1) ++ d) ->
  call_helper reg data ft (S f) HEach h s = ROk tt s' ->
  exists ds s_last,
    iter_run (fun (kv : str * json) i s1 =>
                render_template reg data ft f t
                  (set_blocks s1 (each_block (hv_bp h) (sc_context_path (pj_val value))
                                             (length m) i (Some (fst kv)) (snd kv) :: s_blocks s)))
             m O s ds s_last
    /\ s' = set_blocks s_last (s_blocks s)
    /\ length ds = length m
    /\ out_text (s_out s') = out_text (s_out s) ++ concat ds.
Proof.
  intros Hp Ht Hv Hne Hframe Happ Hcall.
  rewrite (each_object reg data ft f h s value rest t m Hp Ht Hv Hne Hframe) in Hcall.
  match type of Hcall with rbind (fold_idx ?st _ _ _) _ = _ => set (step := st) in * end.
  destruct (fold_idx step m 0 s) as [u s_last|e s1|site|] eqn:E; cbn [rbind] in Hcall; try discriminate.
  destruct u. inversion Hcall; subst s'. clear Hcall.
  destruct (fold_idx_run step) with (l := m) (i := O) (s := s) (s' := s_last) as (ds & Hrun).
  - intros x j s1 s2 H. unfold step in H. destruct (Happ _ _ H) as (d & Hd). exists d. exact Hd.
  - exact E.
  - exists ds, s_last. split; [exact Hrun|]. split; [reflexivity|].
    split; [eapply iter_run_length; exact Hrun|].
    apply iter_run_out in Hrun. exact Hrun.
Qed.

(* ------------------------------------------------------------------ *)
(* each_scope_R: the block of iteration i against the spec scope       *)
(* ------------------------------------------------------------------ *)
Lemma params_each D base bp holder i key v :
  holder_denotes D base holder v ->
  params_rel D base
    (match bp with
     | None => []
     | Some (BP1 a) => map_insert [] a holder
     | Some (BP2 a b) => map_insert (map_insert [] a holder) b (BPValue (each_key_json i key))
     end)
    (match bp with
     | None => []
     | Some (BP1 a) => [(a, v)]
     | Some (BP2 a b) => [(b, each_key_json i key); (a, v)]
     end).
Proof.
  intro Hd. destruct bp as [[a|a b]|]; [apply params_rel_single; exact Hd | | apply params_rel_nil].
  intro n0. cbn [map_insert].
  destruct (str_cmp b a) eqn:Ec; cbn [map_get].
  - apply str_cmp_eq in Ec. subst b.
    destruct (str_eqb n0 a); [exists (each_key_json i key); split; reflexivity | reflexivity].
  - destruct (str_eqb n0 b); [exists (each_key_json i key); split; reflexivity|].
    destruct (str_eqb n0 a); [exists v; split; [reflexivity | exact Hd] | reflexivity].
  - assert (Hne : a <> b).
    { intros ->. assert (E : str_cmp b b = Eq) by (apply str_cmp_eq; reflexivity). congruence. }
    destruct (str_eqb n0 a) eqn:Ea.
    + apply str_eqb_eq in Ea. subst n0. rewrite (str_eqb_neq a b Hne).
      exists v; split; [reflexivity | exact Hd].
    + destruct (str_eqb n0 b); [exists (each_key_json i key); split; reflexivity | reflexivity].
Qed.

Theorem each_scope_R D bp path n i key v :
  (forall p, path = Some p ->
             walk (Some D) (p ++ [match key with Some k => k | None => n_to_dec (N.of_nat i) end])
             = NavSome v) ->
  block_rel D (each_block bp path n i key v) (each_scope bp n i key v).
Proof.
  intro Hw. unfold block_rel, each_block, each_scope.
  cbn [b_base_path b_base_value b_params b_locals sc_value sc_params sc_locals].
  split; [|split; [|reflexivity]].
  - destruct path as [p|]; [right; split; [reflexivity | apply Hw; reflexivity] | left; reflexivity].
  - apply params_each. destruct path as [p|]; cbn [holder_denotes]; [|reflexivity].
    rewrite app_nil_r. apply Hw; reflexivity.
Qed.

Theorem each_scope_R_value D bp n i key v :
  block_rel D (each_block bp None n i key v) (each_scope bp n i key v).
Proof. apply each_scope_R. intros p Hp; discriminate. Qed.

Theorem each_scope_R_array D bp p l n i v :
  walk (Some D) p = NavSome (JArr l) ->
  nth_error l i = Some v ->
  N.of_nat i <= u64_max ->
  block_rel D (each_block bp (Some p) n i None v) (each_scope bp n i None v).
Proof.
  intros Hw Hn Hi. apply each_scope_R. intros p' Hp'. inversion Hp'; subst p'.
  rewrite walk_app, Hw. cbn [walk get_data]. rewrite parse_usize_n_to_dec by exact Hi.
  rewrite nth_N_spec, Nat2N.id, Hn. reflexivity.
Qed.

(* object keys: strictly sorted keys are found by map_get at their position *)
Lemma str_cmp_lt_trans a : forall b c, str_cmp a b = Lt -> str_cmp b c = Lt -> str_cmp a c = Lt.
Proof.
  induction a as [|x a IH]; intros [|y b] [|z c]; cbn [str_cmp]; try congruence.
  destruct (N.compare_spec x y) as [Exy|Exy|Exy]; try discriminate;
    destruct (N.compare_spec y z) as [Eyz|Eyz|Eyz]; try discriminate; intros H1 H2; subst.
  - rewrite N.compare_refl. eapply IH; eassumption.
  - apply N.compare_lt_iff in Eyz. rewrite Eyz. reflexivity.
  - apply N.compare_lt_iff in Exy. rewrite Exy. reflexivity.
  - assert (E : x < z) by lia. apply N.compare_lt_iff in E. rewrite E. reflexivity.
Qed.

Lemma str_ltb_trans a b c : str_ltb a b = true -> str_ltb b c = true -> str_ltb a c = true.
Proof.
  unfold str_ltb. destruct (str_cmp a b) eqn:E1; try discriminate.
  destruct (str_cmp b c) eqn:E2; try discriminate. intros _ _.
  rewrite (str_cmp_lt_trans a b c E1 E2). reflexivity.
Qed.

Lemma keys_sorted_tail {A} k (v : A) r : keys_sorted ((k, v) :: r) = true -> keys_sorted r = true.
Proof. cbn [keys_sorted]. destruct r as [|[k' v'] r]; [reflexivity|]. intro H. apply andb_true_iff in H. apply H. Qed.

Lemma keys_sorted_head_lt {A} k (v : A) r k' v' :
  keys_sorted ((k, v) :: r) = true -> In (k', v') r -> str_ltb k k' = true.
Proof.
  revert k v. induction r as [|[k1 v1] r IH]; intros k v Hs Hin; [contradiction|].
  cbn [keys_sorted] in Hs. apply andb_true_iff in Hs as [H1 H2].
  destruct Hin as [E|Hin].
  - inversion E; subst. exact H1.
  - apply (str_ltb_trans k k1 k' H1). apply (IH k1 v1); assumption.
Qed.

Lemma sorted_nth_get {A} (m : list (str * A)) i k v :
  keys_sorted m = true -> nth_error m i = Some (k, v) -> map_get m k = Some v.
Proof.
  revert i. induction m as [|[k0 v0] r IH]; intros i Hs Hn; [destruct i; discriminate|].
  destruct i as [|i]; cbn [nth_error map_get] in *.
  - inversion Hn; subst. rewrite str_eqb_refl. reflexivity.
  - assert (Hlt : str_ltb k0 k = true).
    { apply (keys_sorted_head_lt k0 v0 r k v Hs). eapply nth_error_In; exact Hn. }
    assert (Hne : k <> k0).
    { intros ->. unfold str_ltb in Hlt.
      assert (E : str_cmp k0 k0 = Eq) by (apply str_cmp_eq; reflexivity). rewrite E in Hlt. discriminate. }
    rewrite (str_eqb_neq k k0 Hne). apply (IH i); [eapply keys_sorted_tail; exact Hs | exact Hn].
Qed.

Theorem each_scope_R_object D bp p m n i k v :
  walk (Some D) p = NavSome (JObj m) ->
  keys_sorted m = true ->
  nth_error m i = Some (k, v) ->
  block_rel D (each_block bp (Some p) n i (Some k) v) (each_scope bp n i (Some k) v).
Proof.
  intros Hw Hs Hn. apply each_scope_R. intros p' Hp'. inversion Hp'; subst p'.
  rewrite walk_app, Hw. cbn [walk get_data]. rewrite (sorted_nth_get m i k v Hs Hn). reflexivity.
Qed.

(* R is preserved by entering iteration i of an each *)
Theorem R_each D blocks scopes bp path n i key v :
  R D blocks scopes ->
  (forall p, path = Some p ->
             walk (Some D) (p ++ [match key with Some k => k | None => n_to_dec (N.of_nat i) end])
             = NavSome v) ->
  R D (each_block bp path n i key v :: blocks) (each_scope bp n i key v :: scopes).
Proof. intros HR Hw. apply R_push; [exact HR | apply each_scope_R; exact Hw]. Qed.

(* ------------------------------------------------------------------ *)
(* each_empty                                                          *)
(* ------------------------------------------------------------------ *)
(* empty collection with an else body, or a value that is neither an array
   nor an object: the else body if present, else nothing / strict error *)
Theorem each_otherwise reg data ft f h s value rest t :
  hv_params h = value :: rest -> hv_tpl h = Some t ->
  match pj_value value with
  | JArr l => l = [] /\ hv_inv h <> None
  | JObj m => m = [] /\ hv_inv h <> None
  | _ => True
  end ->
  call_helper reg data ft (S f) HEach h s =
  match hv_inv h with
  | Some et => render_template reg data ft f et s
  | None => if r_strict reg then RErr (mk_err (RMissingVariable (pj_rel value))) s else ROk tt s
  end.
Proof.
  intros Hp Ht Hc. cbn [call_helper has_call_inner]. unfold param_or. rewrite Hp. cbn [nth_error].
  rewrite Ht.
  destruct (pj_value value) as [| | | |l|m]; try reflexivity.
  - destruct Hc as (-> & Hi). destruct (hv_inv h); [reflexivity | congruence].
  - destruct Hc as (-> & Hi). destruct (hv_inv h); [reflexivity | congruence].
Qed.

(* empty collection without an else body: a block is pushed and popped,
   nothing is rendered, nothing else changes *)
Theorem each_empty_no_inverse reg data ft f h s value rest t :
  hv_params h = value :: rest -> hv_tpl h = Some t -> hv_inv h = None ->
  (pj_value value = JArr [] \/ pj_value value = JObj []) ->
  call_helper reg data ft (S f) HEach h s = ROk tt (pop_block (push_block (create_block value) s))
  /\ pop_block (push_block (create_block value) s) = s.
Proof.
  intros Hp Ht Hi Hv. split.
  - cbn [call_helper has_call_inner]. unfold param_or. rewrite Hp. cbn [nth_error]. rewrite Ht, Hi.
    destruct Hv as [-> | ->]; reflexivity.
  - destruct s; reflexivity.
Qed.

(* no body at all / no parameter *)
Theorem each_no_template reg data ft f h s value rest :
  hv_params h = value :: rest -> hv_tpl h = None ->
  call_helper reg data ft (S f) HEach h s = ROk tt s.
Proof.
  intros Hp Ht. cbn [call_helper has_call_inner]. unfold param_or. rewrite Hp. cbn [nth_error].
  rewrite Ht. reflexivity.
Qed.

Theorem each_no_param reg data ft f h s :
  hv_params h = [] ->
  call_helper reg data ft (S f) HEach h s = RErr (mk_err (RParamNotFoundForIndex (`"each") 0)) s.
Proof.
  intros Hp. cbn [call_helper has_call_inner]. unfold param_or. rewrite Hp. reflexivity.
Qed.

(* ------------------------------------------------------------------ *)
(* each_nested_locals                                                  *)
(* ------------------------------------------------------------------ *)
Lemma update_ctx_locals b p rel fst v : b_locals (update_block_context b p rel fst v) = b_locals b.
Proof.
  unfold update_block_context. destruct p as [p|]; [|reflexivity].
  destruct fst; [reflexivity|]. destruct (rev (b_base_path b)); reflexivity.
Qed.

(* inside iteration j of an inner each nested (directly or through if/with-
   free bodies) in iteration i of an outer each, level 1 reads the outer
   iteration's variables and level 0 the inner one's *)
Theorem each_nested_locals h2 path2 n2 j key2 v2 s inner bp path n i key v rest :
  s_blocks s = inner :: each_block bp path n i key v :: rest ->
  let blocks := s_blocks (each_iter_setup h2 path2 n2 j key2 v2 s) in
  get_local_var blocks 1 (`"index") = Some (JNum (PosInt (N.of_nat i)))
  /\ get_local_var blocks 1 (`"first") = Some (JBool (Nat.eqb i 0))
  /\ get_local_var blocks 1 (`"last") = Some (JBool (Nat.eqb i (n - 1)))
  /\ get_local_var blocks 1 (`"key") = option_map JStr key
  /\ get_local_var blocks 0 (`"index") = Some (JNum (PosInt (N.of_nat j))).
Proof.
  intros Hs blocks. subst blocks. unfold each_iter_setup, map_front_block. rewrite Hs.
  cbn [s_blocks set_blocks]. unfold get_local_var. cbn [N.to_nat Pos.to_nat Pos.iter_op Nat.add nth_error].
  repeat split; try reflexivity.
  destruct key2; destruct (each_block_params _ _ _ _); cbn [b_locals b_set_params];
    rewrite update_ctx_locals; reflexivity.
Qed.

(* {{@../index}} is PathLocal 1 "index" *)
Example up_index_parses :
  path_parse (`"@../index") = Some (PathLocal 1 (`"index") (`"@../index")).
Proof. vm_compute. reflexivity. Qed.

(* with does not inherit @index: the block it pushes has empty locals *)
Theorem with_block_no_locals bp param name :
  get_local_var [with_block bp param] 0 name = None.
Proof.
  unfold get_local_var, with_block, create_block. cbn [N.to_nat nth_error].
  destruct bp as [[a|a b]|]; destruct (sc_context_path (pj_val param)); cbn;
    unfold lv_get; cbn; repeat (destruct (str_eqb name _); [reflexivity|]); reflexivity.
Qed.

(* ------------------------------------------------------------------ *)
(* the hypotheses are satisfiable: a concrete each over ["a","b"] with a
   body whose rendering keeps the block stack                           *)
(* ------------------------------------------------------------------ *)
Definition ex_reg : registry :=
  {| r_templates := []; r_sources := []; r_helpers := []; r_decorators := [];
     r_escape := escape_html; r_esc_mark := false; r_strict := false; r_dev := false;
     r_prevent_indent := false |}.
Definition ex_body : template := MkT None [ElComment (`"c")] [].
Definition ex_value : pj :=
  {| pj_rel := Some (`"l"); pj_val := SContext (JArr [JStr (`"a"); JStr (`"b")]) [`"l"] |}.
Definition ex_h (body : template) : helper_v :=
  {| hv_name := `"each"; hv_params := [ex_value]; hv_hash := []; hv_tpl := Some body;
     hv_inv := None; hv_bp := Some (BP2 (`"e") (`"i")); hv_block := true |}.
Definition ex_s : rstate := st_init None None None.

Lemma ex_body_ok D ft f s1 s2 :
  render_template ex_reg D ft f ex_body s1 = ROk tt s2 ->
  s_blocks s2 = s_blocks s1 /\ out_text (s_out s2) = out_text (s_out s1) ++ [].
Proof.
  destruct f as [|[|f]]; try discriminate.
  cbn. intro H. inversion H; subst. cbn. rewrite app_nil_r. split; reflexivity.
Qed.

Example each_array_hyps_sat :
  hv_params (ex_h ex_body) = [ex_value] /\ hv_tpl (ex_h ex_body) = Some ex_body
  /\ pj_value ex_value = JArr [JStr (`"a"); JStr (`"b")]
  /\ (forall s1 s2, render_template ex_reg JNull [] 3 ex_body s1 = ROk tt s2 -> s_blocks s2 = s_blocks s1)
  /\ (forall s1 s2, render_template ex_reg JNull [] 3 ex_body s1 = ROk tt s2 ->
                    exists d, out_text (s_out s2) = out_text (s_out s1) ++ d)
  /\ exists s', call_helper ex_reg JNull [] 4 HEach (ex_h ex_body) ex_s = ROk tt s'.
Proof.
  repeat split.
  - intros s1 s2 H. apply (ex_body_ok _ _ _ _ _ H).
  - intros s1 s2 H. exists []. apply (ex_body_ok _ _ _ _ _ H).
  - eexists. vm_compute. reflexivity.
Qed.

(* sanity run of the model (a test, not a theorem about all inputs):
   {{#each l as |e i|}}<{{e}}{{i}}{{@index}}{{@last}}>{{/each}} over ["a","b"] *)
Definition ex_expr (p : path) : element := ElExpr (MkH (PPath p) [] [] None None None false false false).
Definition ex_body2 : template :=
  MkT None [ElRaw (`"<");
            ex_expr (PathRelative [SegNamed (`"e")] (`"e"));
            ex_expr (PathRelative [SegNamed (`"i")] (`"i"));
            ex_expr (PathLocal 0 (`"index") (`"@index"));
            ex_expr (PathLocal 0 (`"last") (`"@last"));
            ElRaw (`">")] [].
Example each_smoke :
  match call_helper ex_reg (JObj [(`"l", JArr [JStr (`"a"); JStr (`"b")])]) [] 8 HEach (ex_h ex_body2) ex_s with
  | ROk _ s' => out_text (s_out s') = `"<a00false><b11true>" /\ s_blocks s' = s_blocks ex_s
  | _ => False
  end.
Proof. vm_compute. split; reflexivity. Qed.

(* ---------- more satisfiability examples ---------- *)
Definition ex_obj_value : pj :=
  {| pj_rel := Some (`"m");
     pj_val := SContext (JObj [(`"k1", JNum (PosInt 1)); (`"k2", JNull)]) [`"m"] |}.
Definition ex_h_obj (body : template) : helper_v :=
  {| hv_name := `"each"; hv_params := [ex_obj_value]; hv_hash := []; hv_tpl := Some body;
     hv_inv := None; hv_bp := Some (BP2 (`"e") (`"k")); hv_block := true |}.

Example each_object_hyps_sat :
  hv_params (ex_h_obj ex_body) = [ex_obj_value] /\ hv_tpl (ex_h_obj ex_body) = Some ex_body
  /\ pj_value ex_obj_value = JObj [(`"k1", JNum (PosInt 1)); (`"k2", JNull)]
  /\ (forall s1 s2, render_template ex_reg JNull [] 3 ex_body s1 = ROk tt s2 -> s_blocks s2 = s_blocks s1)
  /\ (forall s1 s2, render_template ex_reg JNull [] 3 ex_body s1 = ROk tt s2 ->
                    exists d, out_text (s_out s2) = out_text (s_out s1) ++ d)
  /\ exists s', call_helper ex_reg JNull [] 4 HEach (ex_h_obj ex_body) ex_s = ROk tt s'.
Proof.
  repeat split.
  - intros s1 s2 H. apply (ex_body_ok _ _ _ _ _ H).
  - intros s1 s2 H. exists []. apply (ex_body_ok _ _ _ _ _ H).
  - eexists. vm_compute. reflexivity.
Qed.

Definition ex_D : json :=
  JObj [(`"l", JArr [JStr (`"a"); JStr (`"b")]); (`"m", JObj [(`"k1", JNum (PosInt 1)); (`"k2", JNull)])].

Example each_scope_R_array_sat :
  walk (Some ex_D) [`"l"] = NavSome (JArr [JStr (`"a"); JStr (`"b")])
  /\ nth_error [JStr (`"a"); JStr (`"b")] 1 = Some (JStr (`"b")) /\ N.of_nat 1 <= u64_max.
Proof. repeat split; try reflexivity. vm_compute. discriminate. Qed.

Example each_scope_R_object_sat :
  walk (Some ex_D) [`"m"] = NavSome (JObj [(`"k1", JNum (PosInt 1)); (`"k2", JNull)])
  /\ keys_sorted [(`"k1", JNum (PosInt 1)); (`"k2", JNull)] = true
  /\ nth_error [(`"k1", JNum (PosInt 1)); (`"k2", JNull)] 1 = Some (`"k2", JNull).
Proof. repeat split; reflexivity. Qed.

(* R for a two-deep each nest and @../index through evaluate2 / designate *)
Example nested_each_locals_sat :
  let outer := each_block None (Some [`"l"]) 2 1 None (JStr (`"b")) in
  let inner := each_block None None 3 0 None JNull in
  let scopes := [each_scope None 3 0 None JNull; each_scope None 2 1 None (JStr (`"b")); root_scope ex_D] in
  let s := set_blocks ex_s [inner; outer; block_new] in
  R ex_D (s_blocks s) scopes
  /\ evaluate2 ex_D (PathLocal 1 (`"index") (`"@../index")) s = ROk (SDerived (JNum (PosInt 1))) s
  /\ designate scopes ex_D (PathLocal 1 (`"index") (`"@../index")) = Some (JNum (PosInt 1)).
Proof.
  cbv zeta. split; [|split; reflexivity].
  apply R_each; [apply R_each; [apply R_init|] |].
  - intros p Hp. inversion Hp; subst. vm_compute. reflexivity.
  - intros p Hp. discriminate.
Qed.
