(* Proofs/Frame.v -- property C08: compositionality of rendering.
   (a) render_app: the element fold splits at any point of the list;
   (b) frame: every function of the render fixpoint restores the block stack,
       the partial-block stack and depth, the current template name, the indent
       string, root and dev templates, and can only clear the escape toggle;
   (c) flags_irrelevant (the three "last write" flags influence nothing but
       themselves when no indentation is active) is in Proofs/FrameFlags.v. *)
From HB Require Export Proofs.RenderScaffold Reg.RegOps Spec.RenderFrameSpec.
Open Scope N_scope.

(* ================= (a) render_app ================= *)
Lemma render_app reg data ft f name A B mp s :
  render_template reg data ft (S f) (MkT name (A ++ B) mp) s =
  rbind (fold_idx (fun e idx s' => rmap_err (render_element reg data ft f e s')
                                            (attach_render (MkT name (A ++ B) mp) idx))
                  A 0%nat (set_current s name))
        (fun _ s1 =>
           rbind (fold_idx (fun e idx s' => rmap_err (render_element reg data ft f e s')
                                                     (attach_render (MkT name (A ++ B) mp) idx))
                           B (List.length A) s1)
                 (fun _ s' => ROk tt (set_current s' (s_current s)))).
Proof.
  rewrite render_template_eq. cbn [t_els t_name]. rewrite fold_idx_app, rbind_assoc. reflexivity.
Qed.

(* on the Ok path the error decoration is invisible: rendering A ++ B succeeds
   iff A succeeds and then B succeeds from the state A left *)
Lemma fold_idx_step_ok {A} (st1 st2 : A -> nat -> rstate -> rres unit) :
  (forall x i j s s', st1 x i s = ROk tt s' <-> st2 x j s = ROk tt s') ->
  forall l i j s s', fold_idx st1 l i s = ROk tt s' <-> fold_idx st2 l j s = ROk tt s'.
Proof.
  intros Hs l. induction l as [|x l IH]; intros i j s s'; cbn [fold_idx]; [reflexivity|].
  split; intros H; apply rbind_ok in H; destruct H as ([] & s1 & H1 & H2).
  - apply (proj1 (Hs _ _ j _ _)) in H1. rewrite H1. cbn [rbind]. apply (proj1 (IH _ _ _ _) H2).
  - apply (proj2 (Hs _ i _ _ _)) in H1. rewrite H1. cbn [rbind]. apply (proj2 (IH _ _ _ _) H2).
Qed.

(* rendering A ++ B succeeds exactly when A's elements succeed from the entry
   state and then B's elements succeed from the state A left; at the end the
   caller's template name is put back *)
Lemma render_app_ok reg data ft f name A B mp mpA mpB s s' :
  render_template reg data ft (S f) (MkT name (A ++ B) mp) s = ROk tt s' <->
  exists s1 s2,
    fold_idx (fun e idx s' => rmap_err (render_element reg data ft f e s')
                                       (attach_render (MkT name A mpA) idx))
             A 0%nat (set_current s name) = ROk tt s1 /\
    fold_idx (fun e idx s' => rmap_err (render_element reg data ft f e s')
                                       (attach_render (MkT name B mpB) idx))
             B 0%nat s1 = ROk tt s2 /\
    s' = set_current s2 (s_current s).
Proof.
  rewrite render_app.
  assert (Hst : forall t1 t2 (x : element) (i j : nat) s0 s0',
             rmap_err (render_element reg data ft f x s0) (attach_render t1 i) = ROk tt s0' <->
             rmap_err (render_element reg data ft f x s0) (attach_render t2 j) = ROk tt s0').
  { intros. rewrite !rmap_err_ok_iff. reflexivity. }
  split.
  - intros H. apply rbind_ok in H. destruct H as ([] & s1 & H1 & H2).
    apply rbind_ok in H2. destruct H2 as ([] & s2 & H2 & H3). injection H3 as <-.
    exists s1, s2. split; [|split; [|reflexivity]].
    + eapply fold_idx_step_ok; [|exact H1]. intros; apply Hst.
    + eapply fold_idx_step_ok; [|exact H2]. intros; apply Hst.
  - intros (s1 & s2 & H1 & H2 & ->).
    eapply (fold_idx_step_ok _ _ (fun x i j s0 s0' => Hst (MkT name A mpA) (MkT name (A ++ B) mp) x i j s0 s0')) in H1.
    rewrite H1. cbn [rbind].
    eapply (fold_idx_step_ok _ _ (fun x i j s0 s0' => Hst (MkT name B mpB) (MkT name (A ++ B) mp) x i j s0 s0')) in H2.
    rewrite H2. reflexivity.
Qed.

(* the elements of a template alone, from a state whose current name is
   already the template's *)
Lemma render_template_ok reg data ft f t s s' :
  render_template reg data ft (S f) t s = ROk tt s' <->
  exists s2, fold_idx (fun e idx s' => rmap_err (render_element reg data ft f e s') (attach_render t idx))
                      (t_els t) 0%nat (set_current s (t_name t)) = ROk tt s2 /\
             s' = set_current s2 (s_current s).
Proof.
  rewrite render_template_eq. split.
  - intros H. apply rbind_ok in H. destruct H as ([] & s2 & H1 & H2). injection H2 as <-. eauto.
  - intros (s2 & H1 & ->). rewrite H1. reflexivity.
Qed.

(* ================= (b) frame ================= *)
Lemma restored_refl s : restored s s.
Proof. unfold restored. intuition. Qed.
Lemma restored_trans s1 s2 s3 : restored s1 s2 -> restored s2 s3 -> restored s1 s3.
Proof. unfold restored. intuition congruence. Qed.

(* like restored, but only the tail of the block stack is kept (the each
   helper rewrites the block it pushed, between iterations) *)
Definition restored_tl (s s' : rstate) : Prop :=
  tl (s_blocks s') = tl (s_blocks s) /\ s_pb_stack s' = s_pb_stack s /\ s_pb_depth s' = s_pb_depth s /\
  s_current s' = s_current s /\ s_indent s' = s_indent s /\
  s_root s' = s_root s /\ s_dev s' = s_dev s /\
  (s_disable_escape s' = true -> s_disable_escape s = true).
Lemma restored_tl_refl s : restored_tl s s.
Proof. unfold restored_tl. intuition. Qed.
Lemma restored_tl_trans s1 s2 s3 : restored_tl s1 s2 -> restored_tl s2 s3 -> restored_tl s1 s3.
Proof. unfold restored_tl. intuition congruence. Qed.
Lemma restored_to_tl s s' : restored s s' -> restored_tl s s'.
Proof. unfold restored, restored_tl. intuition congruence. Qed.

Ltac st_cbn :=
  unfold push_block, pop_block, log_entry in *;
  cbn [s_blocks s_modified s_partials s_pb_stack s_pb_depth s_local_helpers s_current s_root
       s_disable_escape s_trailing_newline s_content_produced s_indent_before_write s_indent s_dev
       s_out s_log s_esc_trace
       set_blocks set_modified set_partials set_pb_stack set_pb_depth set_local_helpers set_current
       set_disable_escape set_trailing_newline set_content_produced set_indent_before_write
       set_indent set_out set_log set_esc_trace tl] in *.
Ltac res := unfold restored, restored_tl in *; st_cbn; intuition congruence.
Ltac res2 :=
  unfold restored, restored_tl in *; st_cbn;
  repeat match goal with H : _ /\ _ |- _ => destruct H end;
  repeat match goal with H : ?x = _ :: _ |- context [tl ?x] => rewrite H end;
  cbn [tl]; intuition congruence.

(* inversion of `... = ROk _ _` hypotheses down to calls of named functions *)
Ltac inv_step :=
  match goal with
  | H : ROk _ _ = ROk _ _ |- _ => injection H as ? ?; subst
  | H : RErr _ _ = ROk _ _ |- _ => discriminate H
  | H : rfail _ _ = ROk _ _ |- _ => discriminate H
  | H : strict_error _ _ = ROk _ _ |- _ => discriminate H
  | H : RPanic _ = ROk _ _ |- _ => discriminate H
  | H : RFuel = ROk _ _ |- _ => discriminate H
  | H : rbind _ _ = ROk _ _ |- _ => apply rbind_ok in H; destruct H as (? & ? & ? & H)
  | H : rmap_err _ _ = ROk _ _ |- _ => apply rmap_err_ok in H
  | H : param_or _ _ _ _ _ = ROk _ _ |- _ => unfold param_or in H
  | H : (match ?c with _ => _ end) = ROk _ _ |- _ => destruct c eqn:?; cbv beta iota in H
  end.
Ltac inv := repeat inv_step.

(* ---------- leaves ---------- *)
Lemma out_write_res c s u s' : out_write c s = ROk u s' -> restored s s'.
Proof. unfold out_write. intros H. inv; res. Qed.

Lemma write_indented_res fuel : forall v ind s u s', write_indented fuel v ind s = ROk u s' -> restored s s'.
Proof.
  induction fuel as [|fuel IH]; intros v ind s u s' H; cbn [write_indented] in H; [discriminate H|].
  inv; repeat match goal with
              | H : out_write _ _ = ROk _ _ |- _ => apply out_write_res in H
              | H : write_indented fuel _ _ _ = ROk _ _ |- _ => apply IH in H
              end; res.
Qed.

Lemma iaw_res v s u s' : indent_aware_write v s = ROk u s' -> restored s s'.
Proof.
  unfold indent_aware_write. intros H. inv;
    repeat match goal with
           | H : out_write _ _ = ROk _ _ |- _ => apply out_write_res in H
           | H : write_indented _ _ _ _ = ROk _ _ |- _ => apply write_indented_res in H
           end; res.
Qed.

Lemma do_escape_res reg c s o s' : do_escape reg c s = (o, s') -> restored s s'.
Proof.
  unfold do_escape. destruct (s_disable_escape s) eqn:E; intros H; injection H as <- <-; [res|].
  destruct (r_esc_mark reg); res.
Qed.

Lemma evaluate2_st data p s v s' : evaluate2 data p s = ROk v s' -> s' = s.
Proof.
  unfold evaluate2. destruct p; intros H.
  - destruct (navigate data segs (s_blocks s)); inv; reflexivity.
  - inv; reflexivity.
Qed.
Lemma evaluate_st data raw s v s' : evaluate data raw s = ROk v s' -> s' = s.
Proof. unfold evaluate. destruct (path_parse raw); intros H; [eapply evaluate2_st; exact H|discriminate H]. Qed.

Lemma log_write_res t s u s' : log_write t s = ROk u s' -> restored s s'.
Proof. unfold log_write. intros H. apply out_write_res in H. res. Qed.

Lemma call_inner_res reg hid h s :
  match call_inner reg hid h s with
  | ROk _ s1 => restored s s1
  | RErr _ s1 => s1 = s
  | _ => True
  end.
Proof.
  destruct hid; cbn [call_inner]; try reflexivity; try apply restored_refl;
    try (unfold macro_inner; destruct (macro_call _ _ (r_strict reg) h); cbn; first [reflexivity|apply restored_refl]).
  - unfold param_or. destruct (nth_error (hv_params h) 0); [|reflexivity].
    destruct (nth_error (hv_params h) 1); [|reflexivity].
    match goal with |- context [match ?v with Some _ => _ | None => if _ then _ else _ end] => destruct v end;
      [apply restored_refl|]. destruct (r_strict reg); [reflexivity|apply restored_refl].
  - unfold param_or. destruct (nth_error (hv_params h) 0); [|reflexivity]. res.
Qed.

Lemma map_front_block_tl g s : restored_tl s (map_front_block g s).
Proof.
  unfold map_front_block. destruct (s_blocks s) eqn:E; [apply restored_tl_refl|].
  unfold restored_tl. st_cbn. rewrite E. cbn [tl]. intuition.
Qed.

Lemma pop_push_tl b s s1 : restored_tl (push_block b s) s1 -> restored s (pop_block s1).
Proof.
  unfold restored_tl, restored. st_cbn. intros (Hb & H). rewrite Hb. intuition.
Qed.
Lemma pop_push_res b s s1 : restored (push_block b s) s1 -> restored s (pop_block s1).
Proof. intros H. eapply pop_push_tl, restored_to_tl, H. Qed.

Section Frame.
  Variable reg : registry.
  Variable data : json.
  Variable ft : ftable.

  Record frame_at (f : nat) : Prop := {
    fr_render_template : forall t s a s', render_template reg data ft f t s = ROk a s' -> restored s s';
    fr_eval_template : forall t s a s', eval_template reg data ft f t s = ROk a s' -> restored s s';
    fr_opt_render : forall t s a s', opt_render reg data ft f t s = ROk a s' -> restored s s';
    fr_render_element : forall e s a s', render_element reg data ft f e s = ROk a s' -> restored s s';
    fr_eval_element : forall e s a s', eval_element reg data ft f e s = ROk a s' -> restored s s';
    fr_render_expression : forall ht html s a s',
      render_expression reg data ft f ht html s = ROk a s' -> restored s s';
    fr_render_helper : forall ht s a s', render_helper reg data ft f ht s = ROk a s' -> restored s s';
    fr_helper_from_template : forall ht s a s',
      helper_from_template reg data ft f ht s = ROk a s' -> restored s s';
    fr_deco_from_template : forall dt s a s',
      deco_from_template reg data ft f dt s = ROk a s' -> restored s s';
    fr_expand_as_name : forall p s a s', expand_as_name reg data ft f p s = ROk a s' -> restored s s';
    fr_expand_param : forall p s a s', expand_param reg data ft f p s = ROk a s' -> restored s s';
    fr_call_helper_for_value : forall hid h s a s',
      call_helper_for_value reg data ft f hid h s = ROk a s' -> restored s s';
    fr_call_helper : forall hid h s a s', call_helper reg data ft f hid h s = ROk a s' -> restored s s';
    fr_eval_decorator : forall dt s a s', eval_decorator reg data ft f dt s = ROk a s' -> restored s s';
    fr_render_partial : forall dt s a s', render_partial reg data ft f dt s = ROk a s' -> restored s s';
    fr_expand_partial : forall d s a s', expand_partial reg data ft f d s = ROk a s' -> restored s s'
  }.

  Lemma frame_0 : frame_at 0.
  Proof. constructor; intros; discriminate. Qed.

  Section Step.
    Variable f : nat.
    Hypothesis IH : frame_at f.

    Ltac leaf_step :=
      match goal with
      | H : render_template _ _ _ f _ _ = ROk _ _ |- _ => apply (fr_render_template f IH) in H
      | H : eval_template _ _ _ f _ _ = ROk _ _ |- _ => apply (fr_eval_template f IH) in H
      | H : opt_render _ _ _ f _ _ = ROk _ _ |- _ => apply (fr_opt_render f IH) in H
      | H : render_element _ _ _ f _ _ = ROk _ _ |- _ => apply (fr_render_element f IH) in H
      | H : eval_element _ _ _ f _ _ = ROk _ _ |- _ => apply (fr_eval_element f IH) in H
      | H : render_expression _ _ _ f _ _ _ = ROk _ _ |- _ => apply (fr_render_expression f IH) in H
      | H : render_helper _ _ _ f _ _ = ROk _ _ |- _ => apply (fr_render_helper f IH) in H
      | H : helper_from_template _ _ _ f _ _ = ROk _ _ |- _ => apply (fr_helper_from_template f IH) in H
      | H : deco_from_template _ _ _ f _ _ = ROk _ _ |- _ => apply (fr_deco_from_template f IH) in H
      | H : expand_as_name _ _ _ f _ _ = ROk _ _ |- _ => apply (fr_expand_as_name f IH) in H
      | H : expand_param _ _ _ f _ _ = ROk _ _ |- _ => apply (fr_expand_param f IH) in H
      | H : call_helper_for_value _ _ _ f _ _ _ = ROk _ _ |- _ => apply (fr_call_helper_for_value f IH) in H
      | H : call_helper _ _ _ f _ _ _ = ROk _ _ |- _ => apply (fr_call_helper f IH) in H
      | H : eval_decorator _ _ _ f _ _ = ROk _ _ |- _ => apply (fr_eval_decorator f IH) in H
      | H : render_partial _ _ _ f _ _ = ROk _ _ |- _ => apply (fr_render_partial f IH) in H
      | H : expand_partial _ _ _ f _ _ = ROk _ _ |- _ => apply (fr_expand_partial f IH) in H
      | H : indent_aware_write _ _ = ROk _ _ |- _ => apply iaw_res in H
      | H : out_write _ _ = ROk _ _ |- _ => apply out_write_res in H
      | H : log_write _ _ = ROk _ _ |- _ => apply log_write_res in H
      | H : do_escape _ _ _ = (_, _) |- _ => apply do_escape_res in H
      | H : evaluate2 _ _ _ = ROk _ _ |- _ => apply evaluate2_st in H; subst
      | H : evaluate _ _ _ = ROk _ _ |- _ => apply evaluate_st in H; subst
      | H : call_inner _ ?hid ?h ?s = ROk _ _ |- _ =>
          let X := fresh in pose proof (call_inner_res reg hid h s) as X; rewrite H in X; clear H
      | H : call_inner _ ?hid ?h ?s = RErr _ _ |- _ =>
          let X := fresh in pose proof (call_inner_res reg hid h s) as X; rewrite H in X; clear H; subst
      end.
    Ltac fin := inv; repeat leaf_step; res.

    Lemma mapM_param_res l s ys s' :
      mapM (expand_param reg data ft f) l s = ROk ys s' -> restored s s'.
    Proof.
      apply (mapM_inv restored); [apply restored_refl|apply restored_trans|].
      intros x s0 y s0' _ H. exact (fr_expand_param f IH _ _ _ _ H).
    Qed.
    Lemma mapM_hash_res l s ys s' :
      mapM (fun (kv : str * param) s' =>
              rbind (expand_param reg data ft f (snd kv) s') (fun v s'' => ROk (fst kv, v) s'')) l s
      = ROk ys s' -> restored s s'.
    Proof.
      apply (mapM_inv restored); [apply restored_refl|apply restored_trans|].
      intros x s0 y s0' _ H. fin.
    Qed.
    Ltac leafs :=
      repeat first [ leaf_step
                   | match goal with
                     | H : mapM (expand_param _ _ _ f) _ _ = ROk _ _ |- _ => apply mapM_param_res in H
                     | H : mapM _ _ _ = ROk _ _ |- _ => apply mapM_hash_res in H
                     end ].
    Ltac fin2 := inv; leafs; res.

    Lemma f_render_template t s a s' : render_template reg data ft (S f) t s = ROk a s' -> restored s s'.
    Proof.
      rewrite render_template_eq. intros H.
      apply rbind_ok in H. destruct H as ([] & s1 & H & H2). injection H2 as _ <-.
      apply (fold_idx_inv restored) in H; [res|apply restored_refl|apply restored_trans|].
      intros x i s0 s0' _ H0. fin.
    Qed.

    Lemma f_eval_template t s a s' : eval_template reg data ft (S f) t s = ROk a s' -> restored s s'.
    Proof.
      rewrite eval_template_eq. destruct a. intros H.
      apply (fold_idx_inv restored) in H; [res|apply restored_refl|apply restored_trans|].
      intros x i s0 s0' _ H0. fin.
    Qed.

    Lemma f_opt_render t s a s' : opt_render reg data ft (S f) t s = ROk a s' -> restored s s'.
    Proof. rewrite opt_render_eq. intros H. fin. Qed.

    Lemma f_render_element e s a s' : render_element reg data ft (S f) e s = ROk a s' -> restored s s'.
    Proof. rewrite render_element_eq. intros H. fin. Qed.

    Lemma f_eval_element e s a s' : eval_element reg data ft (S f) e s = ROk a s' -> restored s s'.
    Proof. rewrite eval_element_eq. intros H. fin. Qed.

    Lemma f_render_expression ht html s a s' :
      render_expression reg data ft (S f) ht html s = ROk a s' -> restored s s'.
    Proof. rewrite render_expression_eq. cbv zeta. intros H. destruct html; fin. Qed.

    Lemma f_render_helper ht s a s' : render_helper reg data ft (S f) ht s = ROk a s' -> restored s s'.
    Proof. rewrite render_helper_eq. cbv zeta. intros H. fin. Qed.

    Lemma f_helper_from_template ht s a s' :
      helper_from_template reg data ft (S f) ht s = ROk a s' -> restored s s'.
    Proof. rewrite helper_from_template_eq. intros H. fin2. Qed.

    Lemma f_deco_from_template dt s a s' :
      deco_from_template reg data ft (S f) dt s = ROk a s' -> restored s s'.
    Proof. rewrite deco_from_template_eq. intros H. fin2. Qed.

    Lemma f_expand_as_name p s a s' : expand_as_name reg data ft (S f) p s = ROk a s' -> restored s s'.
    Proof. rewrite expand_as_name_eq. intros H. fin. Qed.

    Lemma f_expand_param p s a s' : expand_param reg data ft (S f) p s = ROk a s' -> restored s s'.
    Proof. rewrite expand_param_eq. intros H. fin. Qed.

    Lemma f_call_helper_for_value hid h s a s' :
      call_helper_for_value reg data ft (S f) hid h s = ROk a s' -> restored s s'.
    Proof. rewrite call_helper_for_value_eq. cbv zeta. intros H. fin. Qed.

    Lemma each_fold_res {A} (t : template) (g : nat -> A -> rstate -> rstate) (l : list A) :
      (forall i x s, restored_tl s (g i x s)) ->
      forall i s s', fold_idx (fun v i s' => render_template reg data ft f t (g i v s')) l i s = ROk tt s' ->
                     restored_tl s s'.
    Proof.
      intros Hg. apply (fold_idx_inv restored_tl); [apply restored_tl_refl|apply restored_tl_trans|].
      intros x i s0 s0' _ H. apply (fr_render_template f IH) in H.
      eapply restored_tl_trans; [apply Hg|apply restored_to_tl; exact H].
    Qed.

    Lemma f_call_helper hid h s a s' :
      call_helper reg data ft (S f) hid h s = ROk a s' -> restored s s'.
    Proof.
      rewrite call_helper_eq. destruct (has_call_inner hid) eqn:Hci.
      - intros H. fin.
      - destruct hid; try discriminate Hci; cbv zeta; intros H; try solve [fin].
        2:{ (* HWith *) inv; leafs; try res. eapply pop_push_res; eassumption. }
        (* HEach *)
        unfold param_or in H. destruct (nth_error (hv_params h) 0) as [value|]; [|discriminate H].
        destruct (hv_tpl h) as [t|]; [|fin].
        assert (Hoth : forall x s1,
                   match hv_inv h with
                   | Some et => render_template reg data ft f et s
                   | None => if r_strict reg then strict_error (pj_rel value) s else ROk tt s
                   end = ROk x s1 -> restored s s1).
        { intros x s1 H0. fin. }
        destruct (pj_value value); try (eapply Hoth; exact H).
        + destruct (negb (Nat.eqb (List.length l) 0) || match hv_inv h with None => true | Some _ => false end);
            [|eapply Hoth; exact H].
          inv. match goal with H : fold_idx _ _ _ _ = ROk ?u _ |- _ => destruct u;
            apply (each_fold_res t (fun i v s' => each_iter_setup h (sc_context_path (pj_val value)) (List.length l) i None v s')) in H;
            [eapply pop_push_tl; exact H|intros; apply map_front_block_tl] end.
        + destruct (negb (Nat.eqb (List.length m) 0) || match hv_inv h with None => true | Some _ => false end);
            [|eapply Hoth; exact H].
          inv. match goal with H : fold_idx _ _ _ _ = ROk ?u _ |- _ => destruct u;
            apply (each_fold_res t (fun i (kv : str * json) s' =>
                     each_iter_setup h (sc_context_path (pj_val value)) (List.length m) i (Some (fst kv)) (snd kv) s')) in H;
            [eapply pop_push_tl; exact H|intros; apply map_front_block_tl] end.
    Qed.

    Lemma f_eval_decorator dt s a s' : eval_decorator reg data ft (S f) dt s = ROk a s' -> restored s s'.
    Proof. rewrite eval_decorator_eq. intros H. fin. Qed.

    Lemma f_render_partial dt s a s' : render_partial reg data ft (S f) dt s = ROk a s' -> restored s s'.
    Proof. rewrite render_partial_eq. cbv zeta. intros H. fin. Qed.

    Lemma f_expand_partial d s a s' : expand_partial reg data ft (S f) d s = ROk a s' -> restored s s'.
    Proof.
      rewrite expand_partial_eq. cbv zeta. intros H. inv; leafs;
        repeat match goal with
               | H : context [if str_eqb ?a ?b then _ else _] |- _ => destruct (str_eqb a b)
               | |- context [if str_eqb ?a ?b then _ else _] => destruct (str_eqb a b)
               | H : context [match current_pb ?x with _ => _ end] |- _ => destruct (current_pb x) as [[? ?]|]
               | |- context [match current_pb ?x with _ => _ end] => destruct (current_pb x) as [[? ?]|]
               end; res2.
    Qed.

    Lemma frame_step : frame_at (S f).
    Proof.
      constructor.
      - exact f_render_template. - exact f_eval_template. - exact f_opt_render.
      - exact f_render_element. - exact f_eval_element. - exact f_render_expression.
      - exact f_render_helper. - exact f_helper_from_template. - exact f_deco_from_template.
      - exact f_expand_as_name. - exact f_expand_param. - exact f_call_helper_for_value.
      - exact f_call_helper. - exact f_eval_decorator. - exact f_render_partial.
      - exact f_expand_partial.
    Qed.
  End Step.

  Theorem frame_all : forall f, frame_at f.
  Proof. induction f as [|f IH]; [exact frame_0|exact (frame_step f IH)]. Qed.
End Frame.

(* ---------- the frame theorem for elements ---------- *)
Theorem frame_element reg data ft fuel e s s' :
  render_element reg data ft fuel e s = ROk tt s' -> restored s s'.
Proof. apply (fr_render_element _ _ _ _ (frame_all reg data ft fuel)). Qed.

Theorem frame_template reg data ft fuel t s s' :
  render_template reg data ft fuel t s = ROk tt s' -> restored s s'.
Proof. apply (fr_render_template _ _ _ _ (frame_all reg data ft fuel)). Qed.

(* with the escape toggle off before (as it always is between the elements of
   a template body), it is off afterwards, and the rest is equal *)
Theorem frame_element_eq reg data ft fuel e s s' :
  s_disable_escape s = false ->
  render_element reg data ft fuel e s = ROk tt s' ->
  s_blocks s' = s_blocks s /\ s_pb_stack s' = s_pb_stack s /\ s_pb_depth s' = s_pb_depth s /\
  s_current s' = s_current s /\ s_indent s' = s_indent s /\
  s_root s' = s_root s /\ s_dev s' = s_dev s /\ s_disable_escape s' = s_disable_escape s.
Proof.
  intros Hf H. apply frame_element in H. unfold restored in H.
  destruct H as (H1 & H2 & H3 & H4 & H5 & H6 & H7 & H8). repeat split; try assumption.
  rewrite Hf. destruct (s_disable_escape s'); [|reflexivity]. rewrite H8 in Hf; [discriminate Hf|reflexivity].
Qed.

(* the @partial-block binding after any finished element is the one before it *)
Lemma restored_current_pb s s' : restored s s' -> current_pb s' = current_pb s.
Proof. intros (_ & H2 & H3 & _). unfold current_pb. rewrite H2, H3. reflexivity. Qed.
Lemma restored_partial_block s s' : restored s s' -> get_partial s' PARTIAL_BLOCK = get_partial s PARTIAL_BLOCK.
Proof. intros H. unfold get_partial. rewrite (restored_current_pb _ _ H). reflexivity. Qed.

(* a run of elements: the state before each of them is `restored` with respect
   to the state before the first *)
Lemma frame_elements reg data ft f (g : nat -> rerror -> rerror) l : forall i s s',
  fold_idx (fun e idx s' => rmap_err (render_element reg data ft f e s') (g idx)) l i s = ROk tt s' ->
  restored s s'.
Proof.
  apply (fold_idx_inv restored); [apply restored_refl|apply restored_trans|].
  intros x i s0 s0' _ H. apply rmap_err_ok in H. eapply frame_element; exact H.
Qed.

(* ---------- the former findings F3 and F4, now restored ---------- *)
Definition reg_with_strings (l : list (str * str)) : registry :=
  fold_left (fun r kv => fst (register_template_string r (fst kv) (snd kv))) l reg_new.
Definition reg_tpl (r : registry) (n : str) : template :=
  match map_get (r_templates r) n with Some t => t | None => t_empty end.

(* (was F3) a finished partial block leaves the partial-block depth as it was *)
Definition f3_reg : registry :=
  reg_with_strings [(`"p", `"{{> @partial-block}}"); (`"m", `"{{#> p}}D{{/p}}")].

Example depth_restored_ex :
  exists d s',
    t_els (reg_tpl f3_reg (`"m")) = [ElPartBlock d] /\
    render_template f3_reg JNull [] 20 (reg_tpl f3_reg (`"m")) (st_init (Some (`"m")) None None) = ROk tt s' /\
    out_text (s_out s') = `"D" /\
    s_pb_depth s' = s_pb_depth (st_init (Some (`"m")) None None).
Proof.
  do 2 eexists.
  split; [vm_compute; reflexivity|].
  split; [vm_compute; reflexivity|].
  split; vm_compute; reflexivity.
Qed.

(* (was F4) a finished block helper leaves the current template name as it was *)
Definition f4_reg : registry := reg_with_strings [(`"t", `"{{#if true}}x{{/if}}")].

Example current_template_restored_ex :
  exists e s',
    t_name (reg_tpl f4_reg (`"t")) = Some (`"t") /\ t_els (reg_tpl f4_reg (`"t")) = [e] /\
    render_element f4_reg JNull [] 20 e (set_current (st_init (Some (`"t")) None None) (Some (`"t"))) = ROk tt s' /\
    out_text (s_out s') = `"x" /\
    s_current s' = Some (`"t").
Proof.
  do 2 eexists.
  split; [vm_compute; reflexivity|].
  split; [vm_compute; reflexivity|].
  split; [vm_compute; reflexivity|].
  split; vm_compute; reflexivity.
Qed.

Example frame_element_ex :
  exists s', s_disable_escape (st_init None None None) = false /\
    render_element reg_new (JObj [(`"x", JStr (`"<"))]) [] 20
      (ElHtml (MkH (PPath (PathRelative [SegNamed (`"x")] (`"x"))) [] [] None None None false false false))
      (st_init None None None) = ROk tt s' /\ out_text (s_out s') = `"<".
Proof. eexists. split; [reflexivity|]. split; vm_compute; reflexivity. Qed.
