(* Proofs/TagFree.v — C03: a template source without "{{" parses to
   [template; raw_text; EOI], compiles to the single element [ElRaw s] and
   renders to itself.  The PEG part runs the interpreter on the GENERATED
   grammar: the four equations below re-check the shape of the rules involved
   on every build. *)
From Coq Require Import List NArith Lia Bool.
From HB Require Import Peg.Peg Peg.Grammar Tpl.Compile Rt.State Rt.Eval Rt.Render Proofs.PegFacts.
Import ListNotations.
Open Scope N_scope.

Arguments N.add : simpl never.
Arguments N.sub : simpl never.
Arguments N.mul : simpl never.
Arguments N.leb : simpl never.
Arguments N.ltb : simpl never.
Arguments N.eqb : simpl never.

(* ---------- the rules involved, as generated ---------- *)
Definition OPEN : str := [123; 123].
Definition raw_item : expr rule :=
  EAlt (ERef R_escape) (e_seq (ENot (EStr OPEN)) EAny).
Definition escape_body : expr rule :=
  EAlt (e_seq (EStr [92]) (e_seq (EStr OPEN) (EOpt (EStr OPEN))))
       (e_seq (EStr [92]) (e_seq (e_plus (EStr [92])) (EAnd (EStr OPEN)))).
Definition template_item : expr rule :=
  EAlt (ERef R_raw_text) (EAlt (ERef R_expression) (EAlt (ERef R_html_expression)
  (EAlt (ERef R_helper_block) (EAlt (ERef R_raw_block) (EAlt (ERef R_hbs_comment)
  (EAlt (ERef R_hbs_comment_compact) (EAlt (ERef R_decorator_expression)
  (EAlt (ERef R_decorator_block) (EAlt (ERef R_partial_expression) (ERef R_partial_block)))))))))).

Lemma def_escape : hb_defs R_escape = (KAtomic, escape_body).
Proof. reflexivity. Qed.
Lemma def_raw_text : hb_defs R_raw_text = (KCompound, e_plus raw_item).
Proof. reflexivity. Qed.
Lemma def_template : hb_defs R_template = (KNormal, e_star template_item).
Proof. reflexivity. Qed.
Lemma def_handlebars : hb_defs R_handlebars = (KSilent, e_seq (ERef R_template) (ERef R_EOI)).
Proof. reflexivity. Qed.
Lemma def_EOI : hb_defs R_EOI = (KNormal, EEoi).
Proof. reflexivity. Qed.

(* no occurrence of "{{" *)
Definition no_open (s : str) : Prop := forall a b, s <> a ++ [123; 123] ++ b.

Lemma no_open_tail c s : no_open (c :: s) -> no_open s.
Proof. intros H a b E. apply (H (c :: a) b). rewrite E. reflexivity. Qed.

Lemma no_open_starts s : no_open s -> starts_with OPEN s = false.
Proof.
  intros H. destruct (starts_with OPEN s) eqn:E; [|reflexivity].
  exfalso. apply starts_with_split in E. apply (H [] (skipn (length OPEN) s)). exact E.
Qed.

Lemma no_open_skip_bs s : no_open s -> no_open (drop_while (N.eqb 92) s).
Proof.
  induction s as [|c s IH]; intros H; cbn [drop_while]; [assumption|].
  destruct (N.eqb 92 c); [apply IH; eapply no_open_tail; eassumption | assumption].
Qed.

Notation hev := (eval rule hb_defs hb_ws).
Ltac fuel_S f := destruct f as [|f]; [exfalso; lia|].

Ltac by_rule L := etransitivity; [eapply L | ].

(* the backslash loop of the second escape alternative *)
Lemma bs_loop : forall inp pos q f, (3 + length inp <= f)%nat ->
  hev f (ERepTail (EStr [92])) AAtomic q inp pos
  = Ok (pos + len (take_while (N.eqb 92) inp)) (drop_while (N.eqb 92) inp) [].
Proof.
  induction inp as [|c r IH]; intros pos q f Hf; cbn [length] in Hf.
  - fuel_S f. by_rule ev_reptail_stop.
    + fuel_S f. eapply ev_seq_fail2.
      * fuel_S f. apply ev_skip_atomic. discriminate.
      * fuel_S f. apply ev_str_fail. reflexivity.
    + cbn [take_while drop_while]. rewrite len_nil, N.add_0_r. reflexivity.
  - cbn [take_while drop_while]. destruct (N.eqb 92 c) eqn:Ec.
    + apply N.eqb_eq in Ec. subst c.
      fuel_S f. by_rule ev_reptail_more.
      * fuel_S f. eapply ev_seq_ok.
        -- fuel_S f. apply ev_skip_atomic. discriminate.
        -- fuel_S f. apply ev_str_ok. reflexivity.
      * apply IH. lia.
      * cbn [length skipn app]. rewrite !len_cons, len_nil. f_equal. lia.
    + fuel_S f. by_rule ev_reptail_stop.
      * fuel_S f. eapply ev_seq_fail2.
        -- fuel_S f. apply ev_skip_atomic. discriminate.
        -- fuel_S f. apply ev_str_fail. cbn [starts_with]. rewrite Ec. reflexivity.
      * rewrite len_nil, N.add_0_r. reflexivity.
Qed.

Ltac skip_ok f := fuel_S f; apply ev_skip_atomic; discriminate.

Lemma starts_with_1 c (s : str) :
  starts_with [c] s = true -> exists r, s = c :: r.
Proof. intros H. apply starts_with_split in H. eexists. exact H. Qed.

(* without "{{" in the input, `escape` fails (both alternatives need "{{") *)
Lemma escape_body_fails : forall inp pos q f, no_open inp -> (12 + length inp <= f)%nat ->
  hev f escape_body AAtomic q inp pos = Fail.
Proof.
  intros inp pos q f Hno Hf. unfold escape_body, e_seq, e_plus.
  destruct (starts_with [92] inp) eqn:E1.
  - destruct (starts_with_1 _ _ E1) as [r ->]. clear E1. cbn [length] in Hf.
    pose proof (no_open_tail _ _ Hno) as Hr.
    fuel_S f. eapply ev_alt_r.
    + fuel_S f. eapply ev_seq_fail2.
      * fuel_S f. apply ev_str_ok. reflexivity.
      * fuel_S f. eapply ev_seq_fail2; [skip_ok f|].
        fuel_S f. apply ev_seq_fail1. fuel_S f. apply ev_str_fail.
        cbn [length skipn]. apply no_open_starts, Hr.
    + fuel_S f. eapply ev_seq_fail2.
      * fuel_S f. apply ev_str_ok. reflexivity.
      * cbn [length skipn]. fuel_S f. eapply ev_seq_fail2; [skip_ok f|].
        destruct (starts_with [92] r) eqn:E2.
        -- destruct (starts_with_1 _ _ E2) as [r' ->]. clear E2. cbn [length] in Hf.
           fuel_S f. eapply ev_seq_fail2.
           ++ fuel_S f. eapply ev_seq_ok.
              ** fuel_S f. apply ev_str_ok. reflexivity.
              ** cbn [length skipn]. apply bs_loop. lia.
           ++ fuel_S f. eapply ev_seq_fail2; [skip_ok f|].
              fuel_S f. apply ev_and_fail. fuel_S f. apply ev_str_fail.
              apply no_open_starts, no_open_skip_bs. eapply no_open_tail; eassumption.
        -- fuel_S f. apply ev_seq_fail1. fuel_S f. apply ev_seq_fail1.
           fuel_S f. apply ev_str_fail. exact E2.
  - fuel_S f. eapply ev_alt_r.
    + fuel_S f. apply ev_seq_fail1. fuel_S f. apply ev_str_fail. exact E1.
    + fuel_S f. apply ev_seq_fail1. fuel_S f. apply ev_str_fail. exact E1.
Qed.

Lemma escape_fails : forall inp pos at_ q f, no_open inp -> (13 + length inp <= f)%nat ->
  hev f (ERef R_escape) at_ q inp pos = Fail.
Proof.
  intros inp pos at_ q f Hno Hf. fuel_S f. rewrite (ev_ref _ _ _ _ _ _ _ _ _ _ _ def_escape).
  rewrite escape_body_fails by (assumption || lia). reflexivity.
Qed.

(* one iteration of the raw_text loop takes the `!"{{" ~ ANY` branch *)
Lemma raw_item_step : forall c r pos f, no_open (c :: r) -> (16 + length r <= f)%nat ->
  hev f raw_item ACompound false (c :: r) pos = Ok (pos + 1) r [].
Proof.
  intros c r pos f Hno Hf. unfold raw_item, e_seq.
  fuel_S f. eapply ev_alt_r.
  - apply escape_fails; [assumption | cbn [length]; lia].
  - fuel_S f. by_rule ev_seq_ok.
    + fuel_S f. apply ev_not_ok. fuel_S f. apply ev_str_fail. apply no_open_starts, Hno.
    + fuel_S f. eapply ev_seq_ok; [skip_ok f|]. fuel_S f. apply ev_any_ok.
    + reflexivity.
Qed.

Lemma raw_item_nil : forall pos f, (16 <= f)%nat ->
  hev f raw_item ACompound false [] pos = Fail.
Proof.
  intros pos f Hf. unfold raw_item, e_seq.
  fuel_S f. eapply ev_alt_r.
  - apply escape_fails; [intros a b E; destruct a; discriminate | cbn [length]; lia].
  - fuel_S f. eapply ev_seq_fail2.
    + fuel_S f. apply ev_not_ok. fuel_S f. apply ev_str_fail. reflexivity.
    + fuel_S f. eapply ev_seq_fail2; [skip_ok f|]. fuel_S f. apply ev_any_nil.
Qed.

Lemma raw_loop : forall inp pos f, no_open inp -> (19 + length inp <= f)%nat ->
  hev f (ERepTail raw_item) ACompound false inp pos = Ok (pos + len inp) [] [].
Proof.
  induction inp as [|c r IH]; intros pos f Hno Hf; cbn [length] in Hf.
  - fuel_S f. by_rule ev_reptail_stop.
    + fuel_S f. eapply ev_seq_fail2; [skip_ok f|]. apply raw_item_nil. lia.
    + rewrite len_nil, N.add_0_r. reflexivity.
  - fuel_S f. by_rule ev_reptail_more.
    + fuel_S f. eapply ev_seq_ok; [skip_ok f|]. apply raw_item_step; [assumption|lia].
    + apply IH; [eapply no_open_tail; eassumption | lia].
    + rewrite len_cons. cbn [app]. f_equal. lia.
Qed.

(* raw_text on a non-empty tag-free input consumes all of it *)
Lemma raw_text_all : forall inp pos at_ f, inp <> [] -> no_open inp -> (22 + length inp <= f)%nat ->
  hev f (ERef R_raw_text) at_ false inp pos = Ok (pos + len inp) [] [(R_raw_text, pos, pos + len inp)].
Proof.
  intros inp pos at_ f Hne Hno Hf. destruct inp as [|c r]; [congruence|]. cbn [length] in Hf.
  fuel_S f. rewrite (ev_ref _ _ _ _ _ _ _ _ _ _ _ def_raw_text). unfold e_plus.
  fuel_S f.
  assert (E : hev (S f) (ESeq raw_item (ERepTail raw_item)) ACompound false (c :: r) pos
              = Ok (pos + len (c :: r)) [] ([] ++ [])).
  { eapply ev_seq_ok.
    - apply raw_item_step; [assumption|lia].
    - etransitivity; [apply raw_loop; [eapply no_open_tail; eassumption | lia]|].
      rewrite len_cons. f_equal. lia. }
  rewrite E. reflexivity.
Qed.

(* at the end of the input no template item matches, the implicit skip is a no-op *)
Lemma items_nil_40 : forall pos, hev 40 (ERepTail template_item) ANon false [] pos = Ok pos [] [].
Proof. intros pos. vm_compute. reflexivity. Qed.

Lemma items_nil : forall pos f, (40 <= f)%nat ->
  hev f (ERepTail template_item) ANon false [] pos = Ok pos [] [].
Proof.
  intros pos f Hf. eapply eval_fuel_mono; [apply items_nil_40 | discriminate | exact Hf].
Qed.

Lemma eoi_nil_10 : forall pos,
  hev 10 (ESeq ESkip (ERef R_EOI)) ANon false [] pos = Ok pos [] [(R_EOI, pos, pos)].
Proof. intros pos. vm_compute. reflexivity. Qed.

Lemma eoi_nil : forall pos f, (10 <= f)%nat ->
  hev f (ESeq ESkip (ERef R_EOI)) ANon false [] pos = Ok pos [] [(R_EOI, pos, pos)].
Proof.
  intros pos f Hf. eapply eval_fuel_mono; [apply eoi_nil_10 | discriminate | exact Hf].
Qed.

Definition tagfree_fuel (s : str) : nat := 50 + length s.

Theorem tagfree_eval : forall s f, s <> [] -> no_open s -> (tagfree_fuel s <= f)%nat ->
  hev f (ERef R_handlebars) ANon false s 0
  = Ok (len s) [] [(R_template, 0, len s); (R_raw_text, 0, len s); (R_EOI, len s, len s)].
Proof.
  intros s f Hne Hno Hf. unfold tagfree_fuel in Hf.
  fuel_S f. rewrite (ev_ref _ _ _ _ _ _ _ _ _ _ _ def_handlebars). unfold e_seq.
  fuel_S f.
  assert (ET : hev f (ERef R_template) ANon false s 0
               = Ok (len s) [] [(R_template, 0, len s); (R_raw_text, 0, len s)]).
  { fuel_S f. rewrite (ev_ref _ _ _ _ _ _ _ _ _ _ _ def_template). unfold e_star.
    fuel_S f.
    assert (E : hev f (ESeq template_item (ERepTail template_item)) ANon false s 0
                = Ok (len s) [] ([(R_raw_text, 0, len s)] ++ [])).
    { fuel_S f. eapply ev_seq_ok.
      - unfold template_item. fuel_S f. apply ev_alt_l.
        rewrite raw_text_all by (assumption || lia). rewrite N.add_0_l. reflexivity.
      - apply items_nil. lia. }
    rewrite (ev_opt_ok _ _ _ _ _ _ _ _ _ _ _ _ E). reflexivity. }
  erewrite ev_seq_ok; [| exact ET | apply eoi_nil; lia]. reflexivity.
Qed.

Theorem tagfree_parse : forall s f, s <> [] -> no_open s -> (tagfree_fuel s <= f)%nat ->
  hb_parse f R_handlebars s
  = Parsed [(R_template, 0, len s); (R_raw_text, 0, len s); (R_EOI, len s, len s)].
Proof.
  intros s f Hne Hno Hf. unfold hb_parse, parse.
  rewrite tagfree_eval by assumption. reflexivity.
Qed.

Lemma peg_fuel_enough s : (tagfree_fuel s <= peg_fuel s)%nat.
Proof. unfold tagfree_fuel, peg_fuel. lia. Qed.

(* ---------- compile ---------- *)
Lemma slice_all (s : str) : slice s 0 (len s) = Some s.
Proof.
  unfold slice. rewrite N.leb_refl. replace (0 <=? len s) with true by (symmetry; apply N.leb_le; lia).
  cbn [andb]. rewrite N.sub_0_r. unfold len. rewrite Nat2N.id. cbn [N.to_nat skipn].
  rewrite firstn_all. reflexivity.
Qed.

Lemma main_loop_cons src all opts f c pr it :
  main_loop src all opts (S f) c (pr :: it)
  = cbind (step src all opts f c pr it) (fun x => let '(c', it'') := x in main_loop src all opts f c' it'').
Proof. reflexivity. Qed.

Section TagFreeCompile.
  Variable s : str.
  Variable opts : copts.
  Let n := len s.
  Let all : list tok := [(R_template, 0, n); (R_raw_text, 0, n); (R_EOI, n, n)].

  Definition tf_c1 : cstate :=
    {| c_ts := [t_empty]; c_hs := []; c_ds := []; c_omit := false; c_trim := false; c_end := None |}.
  Definition tf_c2 : cstate :=
    {| c_ts := [MkT None [ElRaw s] [(1, 1)]]; c_hs := []; c_ds := []; c_omit := false;
       c_trim := false; c_end := Some n |}.

  Lemma tf_step1 f it : step s all opts f init_cstate (R_template, 0, n) it = COk (tf_c1, it).
  Proof. reflexivity. Qed.

  Lemma tf_step2 f it : step s all opts f tf_c1 (R_raw_text, 0, n) it = COk (tf_c2, it).
  Proof.
    unfold step, trailing_string.
    cbn -[of_string line_col slice raw_string inner_escapes].
    change (0 =? 0) with true. change (rule_eqb R_raw_text R_template) with false.
    cbn -[of_string line_col slice raw_string inner_escapes].
    unfold n at 1. rewrite slice_all.
    change (inner_escapes all (R_raw_text, 0, n)) with (@nil tok).
    unfold raw_string. cbn -[of_string line_col].
    rewrite N.sub_0_r. unfold n at 1. rewrite N.ltb_irrefl.
    cbn -[of_string line_col]. reflexivity.
  Qed.

  Lemma tf_step3 f it : step s all opts f tf_c2 (R_EOI, n, n) it = COk (tf_c2, it).
  Proof.
    unfold step, trailing_string.
    cbn -[of_string line_col slice raw_string inner_escapes].
    rewrite N.eqb_refl. change (rule_eqb R_EOI R_template) with false.
    cbn -[of_string line_col slice raw_string inner_escapes]. reflexivity.
  Qed.

  Theorem tagfree_compile_tokens :
    compile_tokens s opts all = COk (MkT (o_name opts) [ElRaw s] [(1, 1)]).
  Proof.
    unfold compile_tokens.
    change (filter _ all) with all.
    change (16 + 4 * length all)%nat with 28%nat.
    unfold all at 2.
    change 28%nat with (S (S (S (S 24)))).
    rewrite main_loop_cons, tf_step1. cbn [cbind].
    rewrite main_loop_cons, tf_step2. cbn [cbind].
    rewrite main_loop_cons, tf_step3. cbn [cbind].
    cbn -[of_string line_col slice]. unfold n. rewrite N.ltb_irrefl. reflexivity.
  Qed.
End TagFreeCompile.

Theorem tagfree_compile : forall s opts, s <> [] -> no_open s ->
  compile2 s opts = COk (MkT (o_name opts) [ElRaw s] [(1, 1)]).
Proof.
  intros s opts Hne Hno. unfold compile2.
  rewrite tagfree_parse by (assumption || apply peg_fuel_enough).
  apply tagfree_compile_tokens.
Qed.

Theorem empty_compile : forall opts, compile2 [] opts = COk (MkT (o_name opts) [] []).
Proof. intros opts. vm_compute. reflexivity. Qed.

(* ---------- render ---------- *)
Lemma out_write_ok chunk st : o_fail_at (s_out st) = None ->
  exists st', out_write chunk st = ROk tt st'
    /\ out_text (s_out st') = out_text (s_out st) ++ chunk
    /\ o_fail_at (s_out st') = None
    /\ s_indent st' = s_indent st.
Proof.
  intros Hf. unfold out_write. destruct chunk as [|c r].
  - exists st. rewrite app_nil_r. auto.
  - rewrite Hf. eexists. split; [reflexivity|]. cbn. split; [|auto].
    unfold out_text. cbn [o_chunks rev]. rewrite concat_app. cbn [concat]. rewrite app_nil_r. reflexivity.
Qed.

(* a raw element appends exactly its text when no indent is active *)
Theorem indent_aware_write_plain : forall v st,
  s_indent st = None -> o_fail_at (s_out st) = None ->
  exists st', indent_aware_write v st = ROk tt st'
    /\ out_text (s_out st') = out_text (s_out st) ++ v
    /\ o_fail_at (s_out st') = None
    /\ s_indent st' = None.
Proof.
  intros v st Hi Hf. unfold indent_aware_write. destruct v as [|c r].
  - exists st. rewrite app_nil_r. auto.
  - set (v := c :: r).
    set (s1 := set_content_produced st true).
    assert (Hi1 : s_indent s1 = None) by exact Hi.
    assert (Hf1 : o_fail_at (s_out s1) = None) by exact Hf.
    rewrite Hi1.
    replace (if negb (first_is is_newline v) && s_indent_before_write s1 then ROk tt s1 else ROk tt s1)
      with (@ROk unit tt s1) by (destruct (negb _ && _); reflexivity).
    cbn [rbind]. rewrite Hi1.
    destruct (out_write_ok v s1 Hf1) as (s2 & E2 & T2 & F2 & I2).
    rewrite E2. cbn [rbind]. eexists. split; [reflexivity|].
    cbn. repeat split; try assumption. congruence.
Qed.

Theorem raw_element_writes : forall reg data ft fuel v st,
  s_indent st = None -> o_fail_at (s_out st) = None -> (1 <= fuel)%nat ->
  exists st', render_element reg data ft fuel (ElRaw v) st = ROk tt st'
    /\ out_text (s_out st') = out_text (s_out st) ++ v
    /\ o_fail_at (s_out st') = None
    /\ s_indent st' = None.
Proof.
  intros reg data ft fuel v st Hi Hf Hfuel. destruct fuel as [|f]; [lia|].
  cbn [render_element]. apply indent_aware_write_plain; assumption.
Qed.

(* a comment writes nothing and leaves the whole render state unchanged *)
Theorem comment_element_silent : forall reg data ft fuel c st, (1 <= fuel)%nat ->
  render_element reg data ft fuel (ElComment c) st = ROk tt st.
Proof. intros reg data ft fuel c st Hfuel. destruct fuel as [|f]; [lia|]. reflexivity. Qed.

Lemma render_template_S reg data ft f t st :
  render_template reg data ft (S f) t st
  = rbind (fold_idx (fun e idx s' => rmap_err (render_element reg data ft f e s') (attach_render t idx))
                    (t_els t) O (set_current st (t_name t)))
          (fun _ s' => ROk tt (set_current s' (s_current st))).
Proof. reflexivity. Qed.

Theorem tagfree_render : forall reg data ft fuel name m (s : str) root dev, (2 <= fuel)%nat ->
  exists st', render_template reg data ft fuel (MkT name [ElRaw s] m) (st_init root dev None) = ROk tt st'
    /\ out_text (s_out st') = s.
Proof.
  intros reg data ft fuel name m s root dev Hfuel.
  destruct fuel as [|f]; [lia|]. rewrite render_template_S. cbn [t_els t_name fold_idx].
  destruct (raw_element_writes reg data ft f s (set_current (st_init root dev None) name))
    as (st' & E & T & _ & _); [reflexivity | reflexivity | lia |].
  rewrite E. cbn [rmap_err rbind]. eexists. split; [reflexivity|]. exact T.
Qed.

(* the whole chain: for every source without "{{" (including the empty one) *)
Theorem tagfree_renders_itself : forall s opts, no_open s ->
  exists t, compile2 s opts = COk t /\
    forall reg data ft fuel root dev, (2 <= fuel)%nat ->
    exists st', render_template reg data ft fuel t (st_init root dev None) = ROk tt st'
      /\ out_text (s_out st') = s.
Proof.
  intros s opts Hno. destruct s as [|c r].
  - eexists. split; [apply empty_compile|].
    intros reg data ft fuel root dev Hfuel. destruct fuel as [|f]; [lia|].
    rewrite render_template_S. cbn [t_els fold_idx]. eexists. split; reflexivity.
  - eexists. split; [apply tagfree_compile; [discriminate|assumption]|].
    intros. apply tagfree_render. assumption.
Qed.

(* ---------- the hypotheses are satisfiable: a decision procedure for no_open ---------- *)
Fixpoint no_open_b (s : str) : bool :=
  match s with
  | [] => true
  | _ :: r => negb (starts_with OPEN s) && no_open_b r
  end.

Lemma no_open_b_sound s : no_open_b s = true -> no_open s.
Proof.
  induction s as [|c r IH]; intros H a b E.
  - destruct a; discriminate.
  - cbn [no_open_b] in H. apply andb_true_iff in H. destruct H as [H1 H2].
    destruct a as [|x a].
    + rewrite E in H1. change ([] ++ [123; 123] ++ b) with (OPEN ++ b) in H1.
      rewrite starts_with_app in H1. discriminate.
    + cbn [app] in E. inversion E; subst. exact (IH H2 a b eq_refl).
Qed.

Example no_open_example : no_open (`"a } { \ b \\{ }} {") /\ `"a } { \ b \\{ }} {" <> [].
Proof. split; [apply no_open_b_sound; reflexivity | discriminate]. Qed.

Example tagfree_example :
  compile2 (`" a\{ } ") default_opts = COk (MkT None [ElRaw (`" a\{ } ")] [(1, 1)]).
Proof. apply tagfree_compile; [discriminate | apply no_open_b_sound; reflexivity]. Qed.

(* a raw block keeps the leading whitespace of its body (defect F2 is fixed) *)
Example raw_block_keeps_leading_whitespace :
  compile2 (`"{{{{raw}}}} x{{{{/raw}}}}") default_opts =
  COk (MkT None
        [ElBlock (MkH (PName (`"raw")) [] [] None (Some (MkT None [ElRaw (`" x")] [(1, 13)])) None
                      true false false)]
        [(1, 1)]).
Proof. vm_compute. reflexivity. Qed.
